#!/usr/bin/env python3
"""mkmut.py <base: benign id | -> <prop> <name> <file> <old> <new> — writes mutants/<prop>/<name>.patch: the base benign
patch (if any) plus one textual replacement, as a diff against /repo HEAD (development aid)."""
import sys, subprocess, os, tempfile, shutil
base, prop, name, f, old, new = sys.argv[1:7]
w = tempfile.mkdtemp(prefix='goom-mkmut-')
os.rmdir(w)
subprocess.run(['git', '-C', '/repo', 'worktree', 'add', '--detach', '-f', w, 'HEAD'], check=True, stdout=subprocess.DEVNULL, stderr=subprocess.DEVNULL)
try:
    if base != '-':
        subprocess.run(['git', '-C', w, 'apply', '/verif/benign/%s/patch.diff' % base], check=True)
    p = os.path.join(w, f)
    s = open(p).read()
    assert old in s, 'old text not found'
    open(p, 'w').write(s.replace(old, new, 1))
    env = dict(os.environ, GOFLAGS='-mod=mod', GOPROXY='off', GOSUMDB='off', GOTOOLCHAIN='local')
    r = subprocess.run(['go', 'build', './...'], cwd=w, env=env, capture_output=True, text=True)
    if r.returncode != 0:
        print('BUILD FAILS:', r.stderr[:500]); sys.exit(1)
    subprocess.run(['git', '-C', w, 'add', '-A'], check=True)
    d = subprocess.run(['git', '-C', w, 'diff', '--cached', 'HEAD'], capture_output=True, text=True).stdout
    os.makedirs('/verif/mutants/%s' % prop, exist_ok=True)
    open('/verif/mutants/%s/%s.patch' % (prop, name), 'w').write(d)
    print('wrote mutants/%s/%s.patch' % (prop, name))
finally:
    subprocess.run(['git', '-C', '/repo', 'worktree', 'remove', '--force', w])
