#!/usr/bin/env python3
"""mcexport.py <seed> <prop> <file>:<line>[:<kindsubstr>] ... — copy campaign mutants into mutants/<prop>/mc<seed>_<file>_<line>_<n>.patch (development aid)"""
import sys, json, os, re
seed, prop = sys.argv[1], sys.argv[2]
rows = [json.loads(l) for l in open('/verif/mutcampaign/%s.jsonl' % seed)]
for spec in sys.argv[3:]:
    parts = spec.split(':')
    f, line = parts[0], int(parts[1])
    kind = parts[2] if len(parts) > 2 else ''
    n = 0
    for r in rows:
        if r['file'] == f and r['line'] == line and kind in r['kind'] and r['status'] == 'survivor':
            n += 1
            name = 'mc%s_%s_%d_%d.patch' % (seed, re.sub(r'[^a-z0-9]+', '_', f.lower()), line, n)
            os.makedirs('/verif/mutants/' + prop, exist_ok=True)
            open('/verif/mutants/%s/%s' % (prop, name), 'w').write(r['diff'])
            print('wrote', prop, name, r['kind'])
    if n == 0:
        print('no match for', spec)
