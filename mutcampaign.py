#!/usr/bin/env python3
"""Mutation campaign (development aid, not part of any check): sample single-token mutants of goom's sources, keep those
that build and pass the 45 pinned tests, and report which of the 20 checks fire on each survivor.
usage: mutcampaign.py <N> <seed> [-j J]  → writes /verif/mutcampaign/<seed>.jsonl"""
import sys, os, json, random, subprocess, tempfile, shutil, queue, concurrent.futures as cf
V='/verif'
N=int(sys.argv[1]); seed=int(sys.argv[2]); J=6
if '-j' in sys.argv: J=int(sys.argv[sys.argv.index('-j')+1])
env=dict(os.environ, GOFLAGS='-mod=mod', GOPROXY='off', GOSUMDB='off', GOTOOLCHAIN='local', GOWORK='off')
muts=json.loads(subprocess.run([V+'/bin/mutgen','/repo'],capture_output=True,text=True).stdout)
def keep(m):
    if m['func'] in ('dummyPadding',): return False
    src=open('/repo/'+m['file'],'rb').read()[m['start']:m['end']].decode('utf8','replace')
    if m['kind'].startswith('delete call') and (src.startswith('logger.') or src.startswith('bytecode.PrintInst') or src.startswith('fmt.Print')): return False
    return True
muts=[m for m in muts if keep(m)]
random.Random(seed).shuffle(muts)
muts=muts[:N]
base=tempfile.mkdtemp(prefix='goom-mutc-')
pool=queue.Queue(); trees=[]
for i in range(J):
    t=os.path.join(base,'w%d'%i)
    subprocess.run(['git','-C','/repo','worktree','add','--detach','-f',t,'HEAD'],stdout=subprocess.DEVNULL,stderr=subprocess.DEVNULL,check=True)
    trees.append(t); pool.put(t)
os.makedirs(V+'/mutcampaign',exist_ok=True)
outf=open(V+'/mutcampaign/%d.jsonl'%seed,'w')
def work(m):
    t=pool.get()
    try:
        subprocess.run(['git','-C',t,'checkout','-q','--','.']); subprocess.run(['git','-C',t,'clean','-fdq'])
        p=os.path.join(t,m['file']); b=open(p,'rb').read()
        open(p,'wb').write(b[:m['start']]+m['repl'].encode()+b[m['end']:])
        r=subprocess.run(['go','build','./...'],cwd=t,env=env,capture_output=True,text=True)
        if r.returncode!=0: return dict(m,status='nobuild')
        if 'arm64' in m['file']:
            r=subprocess.run('GOARCH=arm64 CGO_ENABLED=0 go build $(go list ./... | grep -v /test$ | grep -v /nocgo$)',shell=True,cwd=t,env=env,capture_output=True,text=True)
            if r.returncode!=0: return dict(m,status='nobuild')
        r=subprocess.run([V+'/baseline.sh',t],capture_output=True,text=True,env=env)
        if '45/45' not in r.stdout: return dict(m,status='killed-by-tests')
        ev=tempfile.mkdtemp(prefix='ev-',dir=base)
        r=subprocess.run([V+'/bin/goomvet','-property','all','-tier','quick','-repo',t,'-evidence',ev],capture_output=True,text=True,env=env)
        shutil.rmtree(ev,ignore_errors=True)
        fired=[l.split()[1] for l in r.stdout.splitlines() if l.startswith('RESULT') and 'rc=0' not in l]
        diff=subprocess.run(['git','-C',t,'diff','-U1'],capture_output=True,text=True).stdout
        return dict(m,status='survivor',fired=fired,diff=diff)
    finally:
        pool.put(t)
try:
    with cf.ThreadPoolExecutor(J) as ex:
        for res in ex.map(work,muts):
            outf.write(json.dumps(res)+'\n'); outf.flush()
finally:
    for t in trees: subprocess.run(['git','-C','/repo','worktree','remove','--force',t],stdout=subprocess.DEVNULL,stderr=subprocess.DEVNULL)
    shutil.rmtree(base,ignore_errors=True)
