#!/usr/bin/env python3
"""Regression of the checker itself (not part of quick/thorough): on scratch worktrees of /repo,
 - every mutants/<prop>/*.patch and seeded/<id>/patch.diff must make that property's check exit 1,
 - every mutants/<prop>/benign/*.patch and benign/<id>/patch.diff must leave all 20 checks silent.
usage: regress.py [mutants] [seeds] [benign] [-j N] [-k substr]"""
import sys, os, subprocess, json, glob, tempfile, shutil, concurrent.futures as cf, threading, queue
V = '/verif'
args = sys.argv[1:]
J = 8
sel = None
if '-j' in args:
    i = args.index('-j'); J = int(args[i+1]); del args[i:i+2]
if '-k' in args:
    i = args.index('-k'); sel = args[i+1]; del args[i:i+2]
kinds = args or ['mutants', 'seeds', 'benign']
tier = os.environ.get('TIER', 'quick')
jobs = []  # (label, patch, props, expect)  expect: 'fire' | 'silent'
if 'mutants' in kinds:
    for pf in sorted(glob.glob(V + '/mutants/C*/*.patch')):
        jobs.append((pf[len(V)+1:], pf, os.path.basename(os.path.dirname(pf)), 'fire'))
if 'seeds' in kinds:
    for d in sorted(glob.glob(V + '/seeded/C*/')):
        prop = json.load(open(d + 'meta.json'))['breaks_property']
        jobs.append((d[len(V)+1:], d + 'patch.diff', prop, 'fire'))
if 'benign' in kinds:
    for pf in sorted(glob.glob(V + '/mutants/C*/benign/*.patch')) + sorted(glob.glob(V + '/benign/*/patch.diff')):
        jobs.append((pf[len(V)+1:], pf, 'all', 'silent'))
if sel:
    jobs = [j for j in jobs if sel in j[0]]
env = dict(os.environ, GOFLAGS='-mod=mod', GOPROXY='off', GOSUMDB='off', GOTOOLCHAIN='local', GOWORK='off')
subprocess.run([V + '/check', 'C08', 'quick'], stdout=subprocess.DEVNULL, env=env)  # makes sure bin/goomvet is fresh
pool = queue.Queue()
trees = []
base = tempfile.mkdtemp(prefix='goom-regress-')
for i in range(J):
    t = os.path.join(base, 'w%d' % i)
    subprocess.run(['git', '-C', '/repo', 'worktree', 'add', '--detach', '-f', t, 'HEAD'], stdout=subprocess.DEVNULL, stderr=subprocess.DEVNULL, check=True)
    trees.append(t); pool.put(t)
def work(job):
    label, pf, prop, expect = job
    t = pool.get()
    try:
        subprocess.run(['git', '-C', t, 'checkout', '-q', '--', '.']); subprocess.run(['git', '-C', t, 'clean', '-fdq'])
        if subprocess.run(['git', '-C', t, 'apply', pf], stderr=subprocess.DEVNULL).returncode != 0:
            return (label, 'SKIP', 'does not apply')
        ev = tempfile.mkdtemp(prefix='ev-', dir=base)
        if prop == 'all':
            r = subprocess.run([V + '/bin/goomvet', '-property', 'all', '-tier', tier, '-repo', t, '-evidence', ev], capture_output=True, text=True, env=env)
        else:
            r = subprocess.run([V + '/bin/goomvet', '-property', prop, '-tier', tier, '-repo', t, '-evidence', ev + '/e.json'], capture_output=True, text=True, env=env)
        shutil.rmtree(ev, ignore_errors=True)
        lines = [l for l in r.stdout.splitlines() if 'VIOLATED' in l or 'UNDECIDED' in l or 'INTERNAL' in l]
        if expect == 'fire':
            if r.returncode == 1:
                return (label, 'OK', lines[0][:150] if lines else '')
            und = os.path.join(os.path.dirname(pf), 'undetected')
            if r.returncode == 0 and os.path.exists(und):
                return (label, 'OK', 'documented as not detected')
            return (label, 'MISSED', 'rc=%d' % r.returncode)
        bad = [l for l in r.stdout.splitlines() if l.startswith('RESULT') and 'rc=0' not in l]
        lim = os.path.join(os.path.dirname(pf), 'limitation')
        if bad and os.path.exists(lim):
            allowed = open(lim).read().split(':')[0].split(',')
            if all(b.split()[1] in allowed for b in bad):
                return (label, 'OK', 'documented limitation ' + ','.join(allowed))
        if not bad:
            return (label, 'OK', 'silent')
        return (label, 'FALSE-ALARM', ' '.join(b.split()[1] for b in bad) + '\n    ' + '\n    '.join(l[:300] for l in lines[:4]))
    finally:
        pool.put(t)
bad = 0
try:
    with cf.ThreadPoolExecutor(J) as ex:
        for label, st, msg in ex.map(work, jobs):
            if st != 'OK':
                bad += 1
            if st != 'OK' or os.environ.get('VERBOSE'):
                print('%-11s %s %s' % (st, label, msg), flush=True)
finally:
    for t in trees:
        subprocess.run(['git', '-C', '/repo', 'worktree', 'remove', '--force', t], stdout=subprocess.DEVNULL, stderr=subprocess.DEVNULL)
    shutil.rmtree(base, ignore_errors=True)
print('regress: %d jobs, %d not OK' % (len(jobs), bad))
sys.exit(1 if bad else 0)
