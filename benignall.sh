#!/bin/bash
# usage: benignall.sh [ids...] — every behaviour-preserving patch under benign/ (and mutants/*/benign) must leave all 20
# checks silent. One scratch worktree, one program load per patch.
cd /verif
ids="$@"; [ -z "$ids" ] && ids=$(ls benign)
S=${TMPDIR:-/tmp}/goom-benign-$$
git -C /repo worktree add --detach -f $S HEAD >/dev/null 2>&1 || exit 2
trap 'git -C /repo worktree remove --force $S >/dev/null 2>&1; rm -rf /tmp/bt-ev-$$' EXIT
n=0; fa=0
for d in $ids; do
  pf=/verif/benign/$d/patch.diff; [ -f "$d" ] && pf=$(readlink -f $d)
  git -C $S checkout -q -- . ; git -C $S clean -fdq
  git -C $S apply $pf 2>/dev/null || { echo "APPLY-FAIL $pf"; continue; }
  n=$((n+1))
  out=$(./bin/goomvet -property all -tier quick -repo $S -evidence /tmp/bt-ev-$$ 2>&1)
  bad=$(echo "$out" | grep -E "^RESULT" | grep -v "rc=0")
  if [ -n "$bad" ]; then fa=$((fa+1)); echo "FALSE-ALARM on $d: $(echo $bad)"; echo "$out" | grep -E "VIOLATED|UNDECIDED|INTERNAL" | cut -c1-330; fi
done
echo "benign patches: $n, with false alarms: $fa"
[ $fa -eq 0 ]
