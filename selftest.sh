#!/bin/bash
# Self-test of the checker: every patch under mutants/<prop>/ (and seeded/<id>/patch.diff) must make the property's check
# exit 1 on a scratch copy of /repo; patches under mutants/<prop>/benign/ must stay silent. Not part of quick/thorough.
# usage: selftest.sh [prop ...]
cd /verif
export GOFLAGS=-mod=mod GOPROXY=off GOSUMDB=off GOTOOLCHAIN=local
props="$@"; [ -z "$props" ] && props=$(ls mutants | grep '^C')
S=${TMPDIR:-/tmp}/goom-selftest-$$
git -C /repo worktree add --detach -f $S HEAD >/dev/null 2>&1 || exit 2
trap 'git -C /repo worktree remove --force $S >/dev/null 2>&1' EXIT
fail=0
for prop in $props; do
  for pf in mutants/$prop/*.patch mutants/$prop/benign/*.patch; do
    [ -f "$pf" ] || continue
    git -C $S checkout -q -- . ; git -C $S clean -fdq
    if ! git -C $S apply $PWD/$pf 2>/dev/null; then echo "SKIP   $pf (does not apply)"; continue; fi
    out=$(./bin/goomvet -property $prop -tier ${TIER:-quick} -repo $S -evidence /tmp/selftest-ev-$$.json 2>&1); rc=$?
    case "$pf" in
      */benign/*) if [ $rc -eq 0 ]; then echo "OK     $pf (silent)"; else echo "FALSE-ALARM $pf"; echo "$out" | grep -E 'VIOLATED|UNDECIDED' | head -3; fail=1; fi;;
      *) if [ $rc -eq 1 ]; then echo "OK     $pf -> $(echo "$out" | grep -E 'VIOLATED|UNDECIDED' | head -1 | cut -c1-160)"; else echo "MISSED $pf (rc=$rc)"; fail=1; fi;;
    esac
  done
done
rm -f /tmp/selftest-ev-$$.json
exit $fail
