#!/usr/bin/env python3
"""Generates MANIFEST.json from the table below (kept in one place so the file is always schema-valid)."""
import json, sys
CHECKS = {
 # id: (category, technique, text, note)
 "C05": ("other", "SSA dataflow: who-may-write on the cursor field + difference-constraint (DBM) proof of index bounds from dominating branch conditions",
         "Decides the structural invariants that make every schedule of result-sequence calls safe and ordered (per-matcher cursor, atomic monotone advance, every index proven in range, advancing path serves pre-increment position, non-advancing paths serve the last element, Return/AndReturn feed the right list). It does not explore schedules; it shows the code shape that is necessary for the property under any schedule.",
         "Trusted: go/ssa construction, dominator-based guard extraction, integer conversions int<->int32 treated as value preserving; assumes matchers are consulted only after one result was added (the registration protocol checked by R4)."),
 "C08": ("other", "SSA typestate rule: first-write-wins capture of the restore slot (guard analysis), provenance of captured/restored values, ordering capture-before-overwrite, who-may-write the variable",
         "Decides the capture/restore discipline that 'Cancel/Reset puts back the value before the first mock' rests on, for every history of Set/Apply/Cancel because it holds on every CFG path. Does not decide visibility to concurrent readers or symbol-address correctness for unexported variables (C10).",
         "Trusted: go/ssa, dominator-based guards; reflect.Value.Set is the only way VarMock implementations write the variable (asserted by rule R3 over all their methods)."),
 "C09": ("other", "SSA branch-structure analysis: reflect.Kind constants tested on the edges into the nil arm, provenance of Zero/New type arguments, size-equality guards dominating unsafe retyping and pass-through returns, error-use analysis at call sites",
         "Decides that the converter's nil arm names every nilable kind the property lists, that typed zero/boxing cells are typed by the declared type, that no value reaches a caller retyped without a size check, and that conversion errors cannot be dropped. Value-level fidelity (DeepEqual) is not decided.",
         "Trusted: go/ssa; reflect.Kind numeric values from the toolchain's reflect package as loaded."),
 "C13": ("other", "interprocedural dominance over the module call graph (write-reaching calls confined to err==nil continuations, no reject after a write, signature check on every static path), error-use analysis, interface-satisfaction and constructor/dynamic-type agreement over package erro, DBM equivalence of count guards",
         "Decides the ordering discipline that makes a rejected configuration leave nothing patched on every path, that no in-module error is dropped, that the cause chain is walkable and each typed cause constructible, and that count/size reject conditions compare the quantities the property names. That each mistake class is detected for every value is not decided.",
         "Trusted: go/ssa, module call graph (static calls + invokes on module interfaces); three per-construct suppressions listed with reasons in c13.go."),
 "C12": ("other", "SSA rules over Builder/Cached* lookups (structural key equality of consult/store, guard analysis of hand-back), must-pass dataflow (Apply/Cancel clear the continuation, reset on every return path, Cancel sets its flag), constant propagation along static call paths (caller depth)",
         "Decides the cache-continuity and invalidation discipline behind 'most recent instruction wins' for every operation history, because it holds on every CFG path of every lookup/Apply/Cancel method. Does not decide the target's run-time behaviour.",
         "Trusted: go/ssa; exported API names Builder, Mocker, When are the anchors; private helpers are found by role."),
 "C20": ("other", "SSA data-dependence (hand-out derives from the atomic RMW result, not from an earlier load), DBM bounds guard, constant evaluation of mmap arguments, tag/dispatch agreement, error-use analysis",
         "Decides, for every interleaving, the structural condition that makes overlapping hand-outs impossible in the fallback allocator (base computed from the atomic reservation), that hand-out is bounded by the scanned reserve, that failures carry an error, and that Acquire/Write agree on region kinds. Kernel-side disjointness of mmap regions and executability are not decided.",
         "Trusted: go/ssa; sync/atomic semantics; numeric values of syscall PROT_/MAP_ constants on linux."),
 "C04": ("other", "SSA loop-shape analysis (induction variable first/step, same-value Match/Result pairing, fall-through to default), append-only who-may-write on the condition list, DBM proof that variadic unwrapping indexes the last position",
         "Decides the order and shape of condition selection (registration order kept, first match returned, default fall-through, no-default panic, conjunction over positions, receiver dropped) and that variadic unwrapping is confined to the trailing position, for every signature and stub configuration. Per-argument truth is C18/C09.",
         "Trusted: go/ssa; the exported names When, Matcher; variadic regions are recognised by a bool parameter/field whose name contains 'variadic' or Type.IsVariadic()."),
 "C18": ("other", "effect analysis over the module call graph (Eval writes nothing non-local), constant-return check, constructor sharing (In rows via ToExpr/Equals), loop-shape check of the In disjunction, kind-guard + boolean-atom path enumeration for Value.Elem",
         "Decides purity of evaluation (an evaluation cannot change a later answer), Any≡true, In=union-of-rows shape and sharing of the Equals implementation, and panic-freedom of Elem() in the equality cascade. Equality semantics over all values (symmetry, numeric coercions) is value-level and not decided.",
         "Trusted: go/ssa; reflect functions are pure; nil-test helpers are recognised as arg functions whose name contains 'nil'."),
 "C19": ("other", "non-interference (taint) analysis: log-level globals/predicates as sources, log-only effect classification of every region controlled by a tainted branch, transparency check of the one sanctioned wrapper (forward once, same params, CallSlice iff variadic, result returned untouched)",
         "Decides that the log level can influence only log-only code and that the debug interception wrapper is transparent, for every scenario and value, because the rule is evaluated on every tainted branch and every path of the wrapper closures. Does not decide termination/panic-freedom of fmt on cyclic values.",
         "Trusted: go/ssa; the allow-list of read-only std functions in c19.go; eight named module functions classified log-safe with reasons (decoders' String/Decode, RawRead, DecodeAddress)."),
 "C01": ("other", "provenance slices (embedded word = reflect.Value data word; patched address = entry), must-pass registration in the GC-visible patch table, layout comparison of unsafe mirror structs against the toolchain's real types under types.Sizes for amd64 and arm64, abstract interpretation of the entry-jump template (register write-set)",
         "Decides five structural facts the mock mechanism rests on; breaking any of them breaks the property for some signature or GC schedule. The behavioural core (ABI transparency for every signature, across GC and stack moves) is a run-time fact and is NOT decided.",
         "Trusted: go/ssa; types.SizesFor(gc, arch) for layouts; the Go ABIInternal register assignment (amd64 RDX / arm64 R26 closure context, R0–R15 integer arguments) taken from cmd/compile/abi-internal.md."),
 "C02": ("other", "provenance + ordering rules over the patch package: what each text writer writes, write-once guard fields, single provenance of captured bytes (private copy read at the patch origin, sentinel-tested), restore-before-recapture dominance, restore-before-delete, fan-out loops of Reset/Cancel",
         "Decides the byte-provenance and ordering discipline that makes 'restore' mean 'pristine' for every operation history (it holds on every CFG path incl. re-apply and error paths), and that Reset reaches every cached child. Byte equality of the live image is not decided.",
         "Trusted: go/ssa; module call graph; field names of patch.Guard/patch.patch (origin, originBytes, jumpBytes, applied) are the anchors."),
 "C14": ("other", "who-may-call rule on the text writer, DBM bounds guards (jump shorter than scanned extent, trampoline data fits), pairing/typestate of mprotect RWX→copy→RX over the same (addr,len) with must-pass on all exits, constant evaluation of PROT flags, induction-variable shape of the page loop, copy-provenance of readers",
         "Decides that only the patch layer writes text, that writes are bounded by scanned extents before any write, that the writer's protection changes pair up over the written range on every exit and keep EXEC, that the page loop covers the range, and that reads are copies. That the scanned extent is the function's true extent is not decided.",
         "Trusted: go/ssa; linux numeric values of PROT_* and SYS_MPROTECT; one known finding (fallback writer drops PROT_EXEC)."),
 "C15": ("proof", "abstract interpretation of the byte emitters over symbolic 64-bit inputs in exact domains (bit vectors with named input bits; linear forms mod 2^k; wrapped interval sets for the distance guard), path enumeration, callee inlining; instruction-form matching against hand-written encodings",
         "Proves for ALL 2^64 destinations (and sources) that each emitter yields the intended instruction form with every address lane placed once, that the rel32 displacement is dest−src−5 mod 2^32, and that the set of distances for which the relative form is chosen is contained in the set where that displacement fits — the exact boundary, including negation overflow. Proof is by exhaustive symbolic evaluation, not sampling; what the CPU does with the bytes is taken from the ISA manuals (trusted base).",
         "Trusted base listed in the evidence file: go/ssa construction, the abstract transfer functions, encodings of 7 instruction forms, little-endian host for the uint32 store."),
 "C11": ("other", "global-state inventory + lock-set analysis: per-instruction definitely-held locks (dataflow over Lock/Unlock incl. one-line lock()/unlock() wrappers, defers keep the lock), interprocedural callers-hold fix-point over the module call graph from the public API, classification guarded / atomic-only / sync.Once-initialised / listed configuration",
         "Decides, for every interleaving, that each package-level variable written after init is protected by one named lock on all API-reachable call paths (or atomic / once-initialised / a listed switch), that raw text access and mprotect run under the memory lock in the right mode, and that every entry-jump write runs under the patch lock. Does not decide races on user objects shared by misuse, nor atomicity of a multi-byte code write against threads executing those bytes.",
         "Trusted: go/ssa; sync.Mutex/RWMutex/Once semantics; nine listed configuration variables with reasons (logger switches, symTable pair, decoder debug switch); quick tier analyses linux/amd64, thorough adds linux/arm64 (one known finding there)."),
 "C03": ("other", "data-dependence of the relocation loop's address correction on the output cursor, provenance of the jump-back operands and of the written bytes, dominance of the size / branch-back checks over the placeholder write, DBM guard on the minimum relocated length, constant evaluation of the opcode-widening table against the ISA, shape of the displacement correction",
         "Decides the necessary conditions of the relocation arithmetic and of the failure contract (nothing fails after the placeholder write) for every prologue/placement. Whether relocated instructions execute like the originals (CPU semantics), unsupported short branches (allowed to panic) and internal short branches crossing a widened instruction are not decided.",
         "Trusted: go/ssa; x86-64 opcode map for Jcc/JMP short→near (Intel SDM)."),
 "C06": ("other", "taint rule (Type.String() must not reach a cache key), exact-parameter keys of per-type method caches, provenance chain mocker field → proxy → patch → MethodByName(name).Func, constant evaluation of symbol-name formats and their pointer-receiver guard",
         "Decides target identity: which cache entry and which method a mock binds to, for every type/method name (incl. same-named types in different packages and prefix names). Run-time dispatch for value receivers and generic shapes is not decided.",
         "Trusted: go/ssa; exact symbol matching is C10's rule."),
 "C07": ("other", "retention rule for every pointer embedded in generated code (accumulating store into context-reachable memory on the same path), identity of the interface-mocker cache key (depends on the variable address), loop-shape proof that every method-table slot is defaulted and the mocked slot is the index of the requested name, first-write-wins back-up typestate + dominance over the overwrite, error-use analysis for the stub allocator",
         "Decides the structural conditions for 'each method reaches its own replacement, un-mocked ones panic, the mock survives GC, variables are independent, Reset restores'. Execution of the stub code and GC behaviour themselves are not decided.",
         "Trusted: go/ssa; the interface variable's data word is scanned by the GC (Go runtime)."),
 "C10": ("other", "once-before-read dominance for the load-slide globals, anchor/name agreement (FullName of the measured object = constant looked up), provenance of returned addresses (table address + same-kind slide under err==nil), path-sensitive 'nil error ⇒ non-nil symbol', exact == on symbol names",
         "Decides that lookups return table address + correctly-initialised slide only on success and an error otherwise, and that names are matched exactly. Correctness of the slide for every symbol and link mode is a property of the linker and is not decided.",
         "Trusted: go/ssa; debug/gosym.LookupFunc is exact."),
 "C16": ("other", "difference-constraint (DBM) proof that every read of the input slice is dominated by a sufficient length guard; exhaustive abstract execution of the decoder's 13k-entry bytecode table (targets, cycles, read-before-use typestate for PC-relative/immediate/ModR/M arguments, argument count, opcode set before match); error-before-advance rule at every consumer; (thorough) compiler prove-pass inventory of unremoved bounds checks",
         "Decides TOTALITY only: never panics on the input reads, Len stays within 1..15 and within the input, PC-relative field lies inside the consumed bytes, consumers stop on errors. Agreement with a reference decoder on compiler-emitted code needs an oracle for x86 encodings (the toolchain's copy is a different table generation) and is NOT decided.",
         "Trusted: go/ssa; the interpreter's control operators as mirrored in c16.go (checked against the set of ops the interpreter has a case for); encoding/binary.LittleEndian.UintN needs N/8 bytes."),
 "C17": ("translation_validation", "sibling cross-check against the toolchain's own copy of the decoder ($GOROOT/src/cmd/vendor/golang.org/x/arch/arm64/arm64asm): row-by-row equality of the mask/value table, equality of Decode / every decodeArg case / every predicate as normalised syntax trees, computed carve-out confined to the A64 system-instruction space; SSA totality rules (length guard, no panic, no unchecked assertion); consumer rules on the arm64 configuration",
         "Equality of code and tables with an independent reference establishes agreement on decodability, opcode and PC-relative displacement for every one of the 2^32 words outside the system-instruction carve-out by construction (no enumeration needed); totality is decided structurally. A behaviour-preserving rewrite that the syntactic normalisation cannot see would be reported as a divergence (accepted: the code is vendored and only ever re-synced).",
         "Trusted: the reference copy shipped with the toolchain; go/parser; words inside the SYS carve-out and printing fidelity are not decided; if GOROOT's copy is missing the check fails with 'reference unavailable'."),
}
NA = {}
PENDING_REASON = "check not built yet in this revision (planned per DESIGN.md section 3); not claimed until it runs"
props = [json.loads(l) for l in open('/verif/properties.jsonl')]
checks = []
na = []
for p in props:
    pid = p['id']
    if pid in CHECKS:
        cat, tech, text, note = CHECKS[pid]
        checks.append({
            "property_id": pid,
            "quick_cmd": f"./check {pid} quick",
            "thorough_cmd": f"./check {pid} thorough",
            "evidence_file": f"/verif/evidence/{pid}.json",
            "replay_cmd_template": "cat {path}",
            "engine": "goomvet",
            "level_claimed": {"category": cat, "text": text, "design_ref": f"DESIGN.md section 3, {pid}"},
            "level_note": note,
            "technique": tech,
        })
    else:
        na.append({"property_id": pid, "reason": NA.get(pid, PENDING_REASON)})
m = {
 "version": 1,
 "setup_cmd": "cd /verif/goomvet && GOFLAGS=-mod=vendor GOPROXY=off GOSUMDB=off GOTOOLCHAIN=local GOWORK=off go build -o ../bin/goomvet .",
 "hooks": {"guard": "verif", "enable": "no hooks exist: the analysis reads /repo's source (go/packages with -tags=verif); nothing is instrumented",
           "baseline_off_cmd": "cd /repo && GOFLAGS=-mod=mod GOPROXY=off go test -json -vet=off -count=1 -timeout 25m ./...",
           "source_commits": [], "add_only": True},
 "engines": [{"name": "goomvet", "path": "/verif/goomvet", "serves_properties": sorted(CHECKS), "kind_free_text": "custom static analyser over go/types + go/ssa (x/tools v0.29.0, vendored): dominance, guards, difference constraints, provenance slices, lock sets, table evaluation, abstract interpretation of byte emitters"}],
 "checks": checks,
 "not_applicable": na,
 "notes": "Static analysis only: nothing in goom is executed. Every check loads /repo's current working tree. known findings: /verif/known_findings.json.",
}
json.dump(m, open('/verif/MANIFEST.json','w'), indent=1)
print(len(checks), "checks,", len(na), "not_applicable")
