#!/bin/bash
# usage: seedverify.sh <seed-dir> <seed-id> <property> <pkg-dir> <run-regex> [extra go test flags...]
# Confirms a seeded change in a scratch worktree: patch applies, builds, the 45 stable tests still pass with it,
# the demonstration passes without it and fails with it. On success copies it to /verif/seeded/<seed-id>/ with meta.json.
d=$1; id=$2; prop=$3; pkg=$4; run=$5; shift 5; extra="$*"
export GOFLAGS=-mod=mod GOPROXY=off GOSUMDB=off GOTOOLCHAIN=local
S=${TMPDIR:-/tmp}/goom-seedverify-$$
git -C /repo worktree add --detach -f $S HEAD >/dev/null 2>&1 || exit 2
trap 'git -C /repo worktree remove --force $S >/dev/null 2>&1' EXIT
demo=$(ls $d/demo_test.go $d/demo/main.go 2>/dev/null | head -1)
[ -z "$demo" ] && demo=$(ls $d/*_test.go $d/*.go 2>/dev/null | head -1)
mkdir -p $S/$pkg; cp $demo $S/$pkg/zz_seed_demo_test.go
cmd="go test -vet=off -count=1 -gcflags=all=-l $extra -run $run ./$pkg"
(cd $S && eval "$cmd" >/tmp/sv-clean.$$ 2>&1); rc_clean=$?
git -C $S apply $d/patch.diff || { echo "APPLY-FAIL"; exit 3; }
(cd $S && go build ./... >/tmp/sv-build.$$ 2>&1); rc_build=$?
(cd $S && eval "$cmd" >/tmp/sv-mut.$$ 2>&1); rc_mut=$?
rm -f $S/$pkg/zz_seed_demo_test.go
base=$(/verif/baseline.sh $S 2>&1 | head -1)
echo "$id: clean_demo_rc=$rc_clean build_rc=$rc_build mutated_demo_rc=$rc_mut | $base"
grep -E "^(--- FAIL|panic:|WARNING: DATA RACE|FAIL|ok)" /tmp/sv-mut.$$ | head -4
if [ $rc_clean -eq 0 ] && [ $rc_build -eq 0 ] && [ $rc_mut -ne 0 ] && echo "$base" | grep -q "45/45"; then
  mkdir -p /verif/seeded/$id
  cp $d/patch.diff /verif/seeded/$id/patch.diff
  cp $demo /verif/seeded/$id/$(basename $demo)
  [ -f $d/notes.md ] && cp $d/notes.md /verif/seeded/$id/notes.md
  python3 - "$id" "$prop" "$pkg" "$cmd" "$base" <<'PY'
import json,sys,re
id,prop,pkg,cmd,base=sys.argv[1:6]
notes=open('/verif/seeded/%s/notes.md'%id).read() if __import__('os').path.exists('/verif/seeded/%s/notes.md'%id) else ''
m=re.search(r'(?i)(needed to manifest|what is needed|manifest)[^\n]*\n?([^\n]*)',notes)
json.dump({"id":id,"breaks_property":prop,"origin":"independent sub-agent given only the property text and a scratch worktree",
 "needs_to_manifest":(m.group(0).strip() if m else "see notes.md"),
 "confirmed":{"applies_to_repo_head":True,"builds":True,"stable_suite_with_patch":base,"demo_without_patch":"pass","demo_with_patch":"fail",
 "demo_placement":pkg,"demo_command":cmd}},open('/verif/seeded/%s/meta.json'%id,'w'),indent=1)
PY
  echo "KEPT /verif/seeded/$id"
else
  echo "REJECTED $id"; tail -5 /tmp/sv-clean.$$
fi
rm -f /tmp/sv-*.$$
