#!/bin/bash
# usage: seedtest.sh <dir-with-patch.diff> <prop> [tier]  — applies the patch to /repo, runs the check, reverts.
d=$(cd $1 && pwd); prop=$2; tier=${3:-quick}
cd /verif
if ! git -C /repo apply --check $d/patch.diff 2>/dev/null; then echo "PATCH-DOES-NOT-APPLY $d"; exit 3; fi
git -C /repo apply $d/patch.diff
out=$(./check $prop $tier 2>&1); rc=$?
git -C /repo checkout -- . ; git -C /repo clean -fdq
echo "$d $prop rc=$rc"; echo "$out" | grep -E "VIOLATED|UNDECIDED" | head -3 | cut -c1-260
exit $rc
