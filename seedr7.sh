#!/bin/bash
# usage: seedr7.sh <Cxx> — confirm and import the round-7 seeds of one property from /tmp/seedout/<Cxx>r7-{1,2}
P=$1
for k in 1 2 3; do
  d=/tmp/seedout/${P}r7-$k
  [ -f $d/patch.diff ] || { echo "no $d"; continue; }
  pkg=$(python3 -c "import json;m=json.load(open('$d/meta.json'));print(m.get('demo_dir','.') or '.')" 2>/dev/null || echo .)
  run=$(python3 -c "import json;m=json.load(open('$d/meta.json'));r=m.get('run','');import re;mm=re.search(r'-run\s+(\S+)',r);print((mm.group(1) if mm else r).strip('\'\"'))" 2>/dev/null)
  flags=$(python3 -c "import json;m=json.load(open('$d/meta.json'));f=m.get('flags','');print(' '.join(x for x in f.split() if x not in ('-vet=off','-count=1','-gcflags=all=-l','-v')))" 2>/dev/null)
  [ "$pkg" = "" ] && pkg=.
  /verif/seedverify.sh $d ${P}-r7-$k $P "$pkg" "$run" $flags 2>&1 | tail -6
done
