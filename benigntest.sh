#!/bin/bash
# usage: benigntest.sh <patch.diff> [props...]  — applies a behaviour-preserving patch to a scratch worktree and runs the
# checks (all 20 by default); every check must stay silent (exit 0).
pf=$(readlink -f $1); shift; props="$@"; [ -z "$props" ] && props="C01 C02 C03 C04 C05 C06 C07 C08 C09 C10 C11 C12 C13 C14 C15 C16 C17 C18 C19 C20"
cd /verif
S=${TMPDIR:-/tmp}/goom-benign-$$
git -C /repo worktree add --detach -f $S HEAD >/dev/null 2>&1 || exit 2
trap 'git -C /repo worktree remove --force $S >/dev/null 2>&1; rm -f /tmp/bt-ev-$$-*.json' EXIT
git -C $S apply $pf 2>/dev/null || { echo "APPLY-FAIL $pf"; exit 3; }
fail=0
for p in $props; do
  ( out=$(./bin/goomvet -property $p -tier quick -repo $S -evidence /tmp/bt-ev-$$-$p.json 2>&1); rc=$?
    if [ $rc -ne 0 ]; then echo "FALSE-ALARM $p on $(basename $(dirname $pf))/$(basename $pf)"; echo "$out" | grep -E "VIOLATED|UNDECIDED|INTERNAL" | head -3 | cut -c1-300; fi ) &
  while [ $(jobs -r | wc -l) -ge 10 ]; do sleep 0.2; done
done
wait
