module mutgen

go 1.23
