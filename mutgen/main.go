// mutgen enumerates single-token mutation points of goom's non-test sources (development aid for the mutation
// campaign in /verif/mutcampaign.py; not part of any check).
package main

import (
	"encoding/json"
	"fmt"
	"go/ast"
	"go/parser"
	"go/token"
	"os"
	"path/filepath"
	"strings"
)

type Mut struct {
	File  string `json:"file"`
	Start int    `json:"start"`
	End   int    `json:"end"`
	Repl  string `json:"repl"`
	Kind  string `json:"kind"`
	Line  int    `json:"line"`
	Func  string `json:"func"`
}

func main() {
	root := os.Args[1]
	var out []Mut
	filepath.Walk(root, func(path string, info os.FileInfo, err error) error {
		if err != nil || info.IsDir() || !strings.HasSuffix(path, ".go") || strings.HasSuffix(path, "_test.go") {
			return nil
		}
		rel, _ := filepath.Rel(root, path)
		for _, skip := range []string{"internal/arch/", "internal/logger/", "test/", "erro/", "internal/hack/"} {
			if strings.HasPrefix(rel, skip) {
				return nil
			}
		}
		src, err := os.ReadFile(path)
		if err != nil {
			return nil
		}
		fset := token.NewFileSet()
		f, err := parser.ParseFile(fset, path, src, 0)
		if err != nil {
			return nil
		}
		off := func(p token.Pos) int { return fset.Position(p).Offset }
		for _, d := range f.Decls {
			fd, ok := d.(*ast.FuncDecl)
			if !ok || fd.Body == nil {
				continue
			}
			fname := fd.Name.Name
			add := func(s, e int, repl, kind string, p token.Pos) {
				out = append(out, Mut{rel, s, e, repl, kind, fset.Position(p).Line, fname})
			}
			ast.Inspect(fd.Body, func(n ast.Node) bool {
				switch x := n.(type) {
				case *ast.BinaryExpr:
					alt := map[token.Token]string{token.LSS: "<=", token.LEQ: "<", token.GTR: ">=", token.GEQ: ">", token.EQL: "!=", token.NEQ: "==", token.LAND: "||", token.LOR: "&&", token.ADD: "-", token.SUB: "+"}
					if r, ok := alt[x.Op]; ok {
						if (x.Op == token.ADD || x.Op == token.SUB) && isStringy(x) {
							return true
						}
						add(off(x.OpPos), off(x.OpPos)+len(x.Op.String()), r, "binop "+x.Op.String()+"→"+r, x.OpPos)
					}
				case *ast.IfStmt:
					s, e := off(x.Cond.Pos()), off(x.Cond.End())
					add(s, e, "!("+string(src[s:e])+")", "negate if", x.Cond.Pos())
				case *ast.Ident:
					if x.Name == "true" {
						add(off(x.Pos()), off(x.End()), "false", "true→false", x.Pos())
					} else if x.Name == "false" {
						add(off(x.Pos()), off(x.End()), "true", "false→true", x.Pos())
					}
				case *ast.BasicLit:
					if x.Kind == token.INT && len(x.Value) < 6 && !strings.HasPrefix(x.Value, "0x") {
						add(off(x.Pos()), off(x.End()), "("+x.Value+"+1)", "int+1", x.Pos())
					}
				case *ast.DeferStmt:
					add(off(x.Pos()), off(x.Call.Pos()), "", "drop defer keyword", x.Pos())
				case *ast.ExprStmt:
					if _, ok := x.X.(*ast.CallExpr); ok {
						add(off(x.Pos()), off(x.End()), "", "delete call statement", x.Pos())
					}
				case *ast.AssignStmt:
					if x.Tok == token.ASSIGN && len(x.Lhs) == 1 {
						if _, isId := x.Lhs[0].(*ast.Ident); !isId {
							add(off(x.Pos()), off(x.End()), "", "delete assignment", x.Pos())
						}
					}
				case *ast.IncDecStmt:
					add(off(x.Pos()), off(x.End()), "", "delete inc/dec", x.Pos())
				case *ast.ReturnStmt:
					if len(x.Results) == 1 {
						if id, ok := x.Results[0].(*ast.Ident); ok && id.Name == "nil" {
							return true
						}
					}
				case *ast.CallExpr:
					if len(x.Args) >= 2 {
						a, b := x.Args[0], x.Args[1]
						_, ia := a.(*ast.Ident)
						_, ib := b.(*ast.Ident)
						if ia && ib && a.(*ast.Ident).Name != b.(*ast.Ident).Name {
							s, e := off(a.Pos()), off(b.End())
							add(s, e, string(src[off(b.Pos()):off(b.End())])+string(src[off(a.End()):off(b.Pos())])+string(src[off(a.Pos()):off(a.End())]), "swap first two args", a.Pos())
						}
					}
				}
				return true
			})
		}
		return nil
	})
	b, _ := json.Marshal(out)
	fmt.Println(string(b))
}

func isStringy(x *ast.BinaryExpr) bool {
	for _, e := range []ast.Expr{x.X, x.Y} {
		if bl, ok := e.(*ast.BasicLit); ok && bl.Kind == token.STRING {
			return true
		}
		if be, ok := e.(*ast.BinaryExpr); ok && isStringy(be) {
			return true
		}
	}
	return false
}
