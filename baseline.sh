#!/bin/bash
# Runs goom's pinned test suite (guard off) and compares with BASELINE.json's stable_pass list.
export GOFLAGS=-mod=mod GOPROXY=off GOSUMDB=off GOTOOLCHAIN=local
R=${1:-/repo}
cd $R && go test -json -vet=off -count=1 -timeout 25m ./... > /tmp/baseline.$$.json 2>/dev/null
python3 - /tmp/baseline.$$.json <<'PY'
import json,sys
st={}
for l in open(sys.argv[1]):
    try: e=json.loads(l)
    except: continue
    if e.get('Test') and e.get('Action') in('pass','fail'):
        st[e['Package']+'::'+e['Test']]=e['Action']
b=json.load(open('/root/.vp/BASELINE.json'))
bad=[t for t in b['stable_pass'] if st.get(t)!='pass']
print("baseline: %d/%d stable tests pass"%(len(b['stable_pass'])-len(bad),len(b['stable_pass'])))
for t in bad: print("  NOT PASSING:",t,st.get(t))
sys.exit(1 if bad else 0)
PY
rc=$?; rm -f /tmp/baseline.$$.json; exit $rc
