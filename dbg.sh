#!/bin/bash
# usage: dbg.sh <benign-id|patch> <props-comma> — development aid: V0/V1 verdicts of a patch on a scratch worktree
pf=/verif/benign/$1/patch.diff; [ -f "$1" ] && pf=$(readlink -f $1)
S=/tmp/dbg-$$; git -C /repo worktree add --detach -f $S HEAD >/dev/null 2>&1
trap 'git -C /repo worktree remove --force $S >/dev/null 2>&1; rm -rf /tmp/dbg-ev-$$ /tmp/dbg-nv-$$' EXIT
git -C $S apply $pf || exit 3
mkdir -p /tmp/dbg-nv-$$
/verif/bin/goomvet -dump-normalised /tmp/dbg-nv-$$ -repo $S -verif /verif
[ -n "$KEEP" ] && { rm -rf /tmp/dbg-keep; cp -r /tmp/dbg-nv-$$ /tmp/dbg-keep; }
GOOMVET_DEBUG=1 /verif/bin/goomvet -property $2 -repo $S -evidence /tmp/dbg-ev-$$ 2>&1 | grep -E "normalised view\]|VIOLATED|UNDECIDED|INTERNAL|RESULT|panic|goroutine|\.go:[0-9]+ " | cut -c1-${W:-330}
