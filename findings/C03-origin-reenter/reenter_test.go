package mocker_test

import (
	"sync/atomic"
	"testing"

	mocker "github.com/tencent/goom"
)

//go:noinline
func reTarget(i int) int {
	var buf [512]byte
	buf[i%512] = byte(i)
	return reHelper(buf[:]) + i
}

//go:noinline
func reHelper(b []byte) int { return int(b[0]) * 0 }

var reCalls int32

//go:noinline
func descend(d int, f func() int) int {
	var pad [64]byte
	pad[d%64] = 1
	if d == 0 {
		return f() + int(pad[0])*0
	}
	return descend(d-1, f) + int(pad[1])*0
}

func TestOriginReenter(t *testing.T) {
	mock := mocker.Create()
	defer mock.Reset()
	var origin = func(i int) int { return 0 }
	mock.Func(reTarget).Origin(&origin).Apply(func(i int) int {
		atomic.AddInt32(&reCalls, 1)
		return origin(i) + 2000
	})
	bad := 0
	for depth := 0; depth < 400; depth++ {
		done := make(chan int)
		d := depth
		go func() {
			done <- descend(d, func() int { return reTarget(7) })
		}()
		got := <-done
		if got != 2007 {
			bad++
			if bad < 5 {
				t.Logf("depth %d: got %d want 2007", d, got)
			}
		}
	}
	if bad > 0 {
		t.Fatalf("%d of 400 depths re-entered the mock through the origin placeholder", bad)
	}
}
