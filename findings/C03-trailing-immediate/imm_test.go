package mocker_test

import (
	"testing"

	mocker "github.com/tencent/goom"
)

var immGlobal int64 = 7
var immOther int64 = 3

//go:noinline
func immTarget(a int) int {
	if immGlobal != 7 {
		return a + int(immOther)*310
	}
	return a + 100
}

func TestOriginTrailingImmediate(t *testing.T) {
	if got := immTarget(1); got != 101 {
		t.Fatalf("unmocked: %d", got)
	}
	mock := mocker.Create()
	defer mock.Reset()
	var origin = func(a int) int { return -1 }
	mock.Func(immTarget).Origin(&origin).Apply(func(a int) int { return origin(a) + 2000 })
	if got := immTarget(1); got != 2101 {
		t.Fatalf("origin placeholder does not behave like the original: got %d want 2101", got)
	}
	immGlobal = 8
	if got := immTarget(1); got != 2000+1+930 {
		t.Fatalf("origin placeholder does not behave like the original: got %d want 2931", got)
	}
}
