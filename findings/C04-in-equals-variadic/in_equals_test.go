// Demonstration for finding F18 (C04.R7): an explicit arg.Equals expression inside an In list of a variadic function was
// resolved against the slice type of the variadic parameter instead of its element type.
// Copy into the root package of goom and run: go test -vet=off -gcflags=all=-l -run TestF18 -count=1 -v .
// Before fix "fix: resolve an explicit single-value expression at a variadic position against the element type":
//   panic "create param match fail: the type of the args does not match, required: []int, actual: int"
// After: In(Equals(1),Equals(2)) behaves like In(1,2).
package mocker_test

import (
	"testing"

	mocker "github.com/tencent/goom"
	"github.com/tencent/goom/arg"
)

//go:noinline
func f18Var(b ...int) int { return len(b) }

func TestF18(t *testing.T) {
	mb := mocker.Create()
	defer mb.Reset()
	mb.Func(f18Var).Return(0).In([]interface{}{1, 2}, []interface{}{3}).Return(7)
	if f18Var(1, 2) != 7 || f18Var(3) != 7 || f18Var(4) != 0 {
		t.Fatalf("plain values: %d %d %d", f18Var(1, 2), f18Var(3), f18Var(4))
	}
	mb.Reset()
	mb.Func(f18Var).Return(0).In([]interface{}{arg.Equals(1), arg.Equals(2)}, []interface{}{arg.Equals(3)}).Return(8)
	if f18Var(1, 2) != 8 || f18Var(3) != 8 || f18Var(4) != 0 {
		t.Fatalf("explicit Equals: %d %d %d", f18Var(1, 2), f18Var(3), f18Var(4))
	}
}
