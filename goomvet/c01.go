package main

import (
	"fmt"
	"go/token"
	"go/types"
	"strings"

	"golang.org/x/tools/go/ssa"
)

func init() { register("C01", c01) }

// fieldOffset computes the byte offset and size of field name in struct type t under sizes.
func fieldOffset(sz types.Sizes, t types.Type, name string) (off, size int64, ok bool) {
	st, isS := t.Underlying().(*types.Struct)
	if !isS {
		return 0, 0, false
	}
	var fields []*types.Var
	idx := -1
	for i := 0; i < st.NumFields(); i++ {
		fields = append(fields, st.Field(i))
		if st.Field(i).Name() == name {
			idx = i
		}
	}
	if idx < 0 {
		return 0, 0, false
	}
	offs := sz.Offsetsof(fields)
	return offs[idx], sz.Sizeof(fields[idx].Type()), true
}

func fieldOffsetIdx(sz types.Sizes, t types.Type, idx int) (off, size int64, ok bool) {
	st, isS := t.Underlying().(*types.Struct)
	if !isS || idx >= st.NumFields() {
		return 0, 0, false
	}
	var fields []*types.Var
	for i := 0; i < st.NumFields(); i++ {
		fields = append(fields, st.Field(i))
	}
	offs := sz.Offsetsof(fields)
	return offs[idx], sz.Sizeof(fields[idx].Type()), true
}

func lookupType(p *Prog, pkgPath, name string) types.Type {
	pk := p.ByPath[pkgPath]
	if pk == nil || pk.Types == nil {
		return nil
	}
	o := pk.Types.Scope().Lookup(name)
	if o == nil {
		return nil
	}
	return o.Type()
}

type mirrorPair struct {
	goomPkg, goomType, goomField string // module-relative package
	stdPkg, stdType, stdField    string
}

var mirrors = []mirrorPair{
	{"internal/bytecode", "value", "ptr", "reflect", "Value", "ptr"},
	{"internal/hack", "Value", "Typ", "reflect", "Value", "typ_"},
	{"internal/hack", "Value", "Ptr", "reflect", "Value", "ptr"},
	{"internal/hack", "Value", "Flag", "reflect", "Value", "flag"},
	{"internal/unexports2", "Value", "Ptr", "reflect", "Value", "ptr"},
	{"internal/unexports2", "Value", "Flag", "reflect", "Value", "flag"},
	{"internal/hack", "Iface", "Tab", "runtime", "iface", "tab"},
	{"internal/hack", "Iface", "Data", "runtime", "iface", "data"},
	{"internal/hack", "Eface", "Data", "runtime", "eface", "data"},
	{"internal/hack", "Itab", "Inter", "internal/abi", "ITab", "Inter"},
	{"internal/hack", "Itab", "Type", "internal/abi", "ITab", "Type"},
	{"internal/hack", "Itab", "Fun", "internal/abi", "ITab", "Fun"},
	{"internal/hack", "Func", "CodePtr", "runtime", "funcval", "fn"},
}

// checkLayouts compares the goom mirror structs with the toolchain's real types (rule id given by caller).
func checkLayouts(p *Prog, r *Report, rule string) {
	for _, m := range mirrors {
		gt := p.NamedType(m.goomPkg, m.goomType)
		st := lookupType(p, m.stdPkg, m.stdType)
		cons := fmt.Sprintf("%s.%s.%s ↔ %s.%s.%s", m.goomPkg, m.goomType, m.goomField, m.stdPkg, m.stdType, m.stdField)
		if gt == nil {
			r.Und(rule, cons, "", "goom mirror type not found")
			continue
		}
		if st == nil {
			// older/newer toolchains name things differently; try known alternatives
			if m.stdPkg == "internal/abi" && m.stdType == "ITab" {
				st = lookupType(p, "runtime", "itab")
				switch m.stdField {
				case "Inter":
					m.stdField = "inter"
				case "Type":
					m.stdField = "_type"
				case "Fun":
					m.stdField = "fun"
				}
			}
		}
		if st == nil {
			r.Und(rule, cons, "", "toolchain type "+m.stdPkg+"."+m.stdType+" not loaded: cannot compare layouts")
			continue
		}
		go1, gs, ok1 := fieldOffset(p.Sizes, gt, m.goomField)
		so, ss, ok2 := fieldOffset(p.Sizes, st, m.stdField)
		if !ok2 && m.stdField == "typ_" {
			so, ss, ok2 = fieldOffset(p.Sizes, st, "typ")
		}
		if !ok1 || !ok2 {
			r.Und(rule, cons, p.Pos(gt.Obj().Pos()), "field not found on one side")
			continue
		}
		okSize := gs == ss
		if m.goomField == "Fun" {
			okSize = true // variable-sized table: only the offset matters
		}
		r.Check(go1 == so && okSize, rule, cons, p.Pos(gt.Obj().Pos()), fmt.Sprintf("offset %d size %d on both sides", so, ss),
			fmt.Sprintf("layout mirror disagrees with the toolchain: goom offset/size %d/%d, real %d/%d — every unsafe cast through this mirror reads or writes the wrong word", go1, gs, so, ss))
	}
	// string-named accesses
	if rv := lookupType(p, "reflect", "Value"); rv != nil {
		_, _, ok := fieldOffset(p.Sizes, rv, "ptr")
		used := false
		for _, f := range p.Funcs {
			for _, cs := range callsTo(f, "(reflect.Value).FieldByName") {
				if c, ok := callCommon(cs).Args[1].(*ssa.Const); ok && strings.Contains(c.Value.ExactString(), "ptr") {
					used = true
				}
			}
		}
		if used {
			r.Check(ok, rule, "FieldByName(\"ptr\") on reflect.Value", "", "field exists", "reflect.Value has no field named ptr in this toolchain")
		}
	}
	if rp := p.ByPath["reflect"]; rp != nil {
		used := false
		for _, f := range p.Funcs {
			for _, cs := range callsTo(f, qual("internal/unexports2", "FindFuncByName")) {
				if c, ok := callCommon(cs).Args[0].(*ssa.Const); ok && strings.Contains(c.Value.ExactString(), "reflect.makeFuncStub") {
					used = true
				}
			}
		}
		if used {
			_, isF := rp.Types.Scope().Lookup("makeFuncStub").(*types.Func)
			r.Check(isF, rule, "symbol reflect.makeFuncStub", "", "function exists in package reflect", "package reflect has no function makeFuncStub in this toolchain")
		}
	}
}

func c01(c *Ctx) {
	p, r := c.K1(), c.R
	if !c.importing {
		// R7: the entry jump lands intact — protection opened and closed over exactly the pages the write touches (C14.W3, W5)
		importSibling(c, "C14", "C01.R7", func(rule string) bool { return rule == "C14.W3" || rule == "C14.W5" })
		// R8: the replacement that runs is the most recent one — Apply drops an earlier stub, and a stub given after an
		// Apply is installed (C12.R2)
		importSibling(c, "C12", "C01.R8", func(rule string) bool { return rule == "C12.R2" || rule == "C12.R1" || rule == "C12.R5" })
		// R9: a stubbed nil result reaches the caller as the typed zero value of every nilable kind (C09.R1)
		importSibling(c, "C09", "C01.R9", func(rule string) bool { return rule == "C09.R1" })
		// R10: a method mock patches the Func of the method resolved under the very name given (C06.R3): a lookup memoised
		// under a coarser key hands another type's method to the patcher and the intended one keeps running
		importSibling(c, "C06", "C01.R10", func(rule string) bool { return rule == "C06.R3" })
	}
	r.Expl = "Structural clauses the mocking mechanism rests on (the ABI behaviour itself is a run-time fact and is not decided): the word embedded in the entry jump is the func value's data word obtained from the reflect.Value of the replacement (not its code pointer); on every successful path of the installer the patch object holding the replacement is stored in the package-level table under the patched address (the only GC root for a pointer hidden in machine code), and entries are deleted only after their bytes were restored; the patched address is the target's entry (Value.Pointer, the generic-wrapper scan result, or a symbol address) with no arithmetic; every struct that is cast over a runtime object agrees with the toolchain's real type on the offsets and sizes of the fields it touches (amd64 and arm64); the entry-jump template clobbers only the closure-context register (shared with C15's abstract interpretation). (R6) a guard that a mocker records is switched on before the mocker returns, and the wrapper around a patch guard forwards Apply to the patch."
	r.RuleText = "one obligation per (rule, call site / store / mirror field)"
	r.Floor("C01.R2", 2)
	r.Floor("C01.R3", 2)
	r.Floor("C01.R4", 2)
	r.Floor("C01.R5", 10)
	inst := patchInstaller(p)
	gen := jumpGenerator(p)
	if inst == nil || gen == nil {
		r.Und("C01.R2", "installer / jump generator", "", "anchors not found")
		return
	}
	pt := p.patchRoles().Patch
	for _, prob := range p.patchRoles().Problems {
		r.Und("C01.R3", "patch roles: "+prob, "", "cannot identify the patch package's fields by role: "+prob)
	}
	// ---- R2 embedded word = func value data word
	// emitter: the call inside gen whose result is returned as the jump bytes
	var emitCall *ssa.Call
	for _, ret := range returnsOf(gen) {
		for _, a := range origins(retResult(ret, 0)) {
			if cl, ok := a.V.(*ssa.Call); ok && staticCallee(cl.Common()) != nil && relPkg(staticCallee(cl.Common())) == "internal/patch" {
				emitCall = cl
			}
		}
	}
	if emitCall == nil {
		r.Und("C01.R2", "entry-jump emitter", p.Pos(gen.Pos()), "the jump generator does not return the result of an emitter call")
	} else {
		toArg := resolveLocal(emitCall.Call.Args[len(emitCall.Call.Args)-1])
		pr, isP := toArg.(*ssa.Parameter)
		if !isP {
			r.Bad("C01.R2", "emitter destination in "+shortName(gen), p.Pos(posOf(emitCall)), "the destination passed to the emitter is not a parameter of the jump generator")
		} else {
			idx := -1
			for k, q := range gen.Params {
				if q == pr {
					idx = k
				}
			}
			for _, cs := range p.callersOf(gen) {
				arg := cs.Instr.Common().Args[idx]
				okPtr := false
				var srcField string
				for _, a := range origins(arg) {
					if cl, ok := a.V.(*ssa.Call); ok && calleeName(cl.Common()) == qual("internal/bytecode", "GetPtr") {
						if _, fv, ok := fieldRef(resolveLocal(cl.Call.Args[0])); ok && fv != nil {
							srcField = fv.Name()
							if fv == p.patchRoles().PReplVal {
								okPtr = true
							}
						}
					}
				}
				r.Check(okPtr, "C01.R2", "jump destination in "+shortName(cs.Caller), p.Pos(posOf(cs.Instr)), "GetPtr(replacementValue): the closure object's address",
					"the address embedded in the entry jump is not the data word of the replacement's reflect.Value (got "+atomsString(origins(arg))+" "+srcField+"): `jmp [rdx]` would load its target from the wrong memory (e.g. from the code bytes when the code pointer is passed)")
			}
		}
		// the origin parameter given to the emitter/generator is the patch origin
	}
	// GetPtr reads the ptr word of a reflect.Value
	if gp := p.Fn("internal/bytecode", "GetPtr"); gp != nil {
		ok := false
		for _, ret := range returnsOf(gp) {
			if b, fv, okF := fieldRef(retResult(ret, 0)); okF && fv != nil {
				// the data word is the second word of reflect.Value's layout (mirror layout is checked by R5)
				bt := b.Type()
				if pt, isP := bt.Underlying().(*types.Pointer); isP {
					bt = pt.Elem()
				}
				if st, isS := bt.Underlying().(*types.Struct); isS && st.NumFields() >= 2 && st.Field(1) == fv {
					ok = true
				}
			}
		}
		r.Check(ok, "C01.R2", "bytecode.GetPtr reads the data word", p.Pos(gp.Pos()), "returns the mirror's ptr field", "GetPtr no longer returns the ptr word of the reflect.Value")
	}
	// ---- R3 retention
	var upd *ssa.MapUpdate
	eachInstr(inst, func(i ssa.Instruction) {
		if mu, ok := i.(*ssa.MapUpdate); ok {
			if as := origins(mu.Map); len(as) > 0 && as[0].Kind == "global" {
				upd = mu
			}
		}
	})
	if upd == nil {
		r.Bad("C01.R3", "registration in "+shortName(inst), p.Pos(inst.Pos()), "installer does not register the patch")
	} else {
		okVal := resolveLocal(upd.Value) == ssa.Value(inst.Params[0])
		_, kf, okK := fieldRef(resolveLocal(upd.Key))
		r.Check(okVal && okK && kf != nil && kf == p.patchRoles().POrigin, "C01.R3", "registration in "+shortName(inst), p.Pos(posOf(upd)), "patches[p.originPtr] = p",
			"the patch table does not map the patched address to the patch object that owns the replacement: the closure whose address is embedded in machine code is not kept alive (or is kept under the wrong key)")
		okAll := true
		for _, ret := range returnsOf(inst) {
			if ei := errIndex(inst.Signature); ei >= 0 && isNilConst(retResult(ret, ei)) {
				if !passedBefore(inst, ret, func(i ssa.Instruction) bool { return i == ssa.Instruction(upd) }, nil) {
					okAll = false
				}
			}
		}
		r.Check(okAll, "C01.R3", "registration on every successful path of "+shortName(inst), p.Pos(posOf(upd)), "store precedes every nil-error return",
			"a successful install can return without the patch being registered in the table: after the next GC the entry jump points at a collected closure")
	}
	// the patch object references the replacement (fields set by every constructor literal)
	if pt != nil {
		rv := p.patchRoles().PReplVal
		nLit := 0
		for _, f := range p.FuncsIn("internal/patch") {
			eachInstr(f, func(i ssa.Instruction) {
				a, ok := i.(*ssa.Alloc)
				if !ok || !a.Heap {
					return
				}
				if pp, ok := a.Type().Underlying().(*types.Pointer); !ok || pp.Elem() != types.Type(pt) {
					return
				}
				nLit++
				set := false
				reach := p.staticReach(f)
				for g := range reach {
					if storesField(g, rv) {
						set = true
					}
				}
				r.Check(set, "C01.R3", "patch literal in "+shortName(f)+" keeps the replacement", p.Pos(a.Pos()), "replacementValue is set", "a patch object is built without a reference to its replacement: the table entry does not keep the closure alive")
			})
		}
		r.Stat("patch_literals", nLit)
	}
	// ---- R4 patched address = function entry
	if pt != nil {
		op := p.patchRoles().POrigin
		for _, fs := range storesToField(p.FuncsIn("internal/patch"), func(fv *types.Var, _ ssa.Value) bool { return fv == op }) {
			samePkg := func(f *ssa.Function) bool { return relPkg(f) == "internal/patch" }
			ats := originsDeepIn(fs.Store.Val, 3, samePkg)
			okSrc := allAtoms(ats, func(a Atom) bool {
				switch a.Kind {
				case "param":
					return true
				case "call":
					return a.Name == "(reflect.Value).Pointer" || strings.HasPrefix(a.Name, qual("internal/bytecode", "GetInnerFunc"))
				}
				return false
			})
			r.Check(okSrc, "C01.R4", "patch origin in "+shortName(fs.Fn), p.Pos(posOf(fs.Store)), atomsString(ats),
				"the patched address is computed ("+atomsString(ats)+") instead of being the target's entry address: the jump lands inside or beside the function")
			// an address that comes out of a lookup that can fail (the inner function of an ABI wrapper) replaces the entry only
			// where the lookup is known to have succeeded and to have found something (non-zero)
			if ex, isEx := resolveLocal(fs.Store.Val).(*ssa.Extract); isEx {
				if cl, isCall := ex.Tuple.(*ssa.Call); isCall && errIndex(cl.Call.Signature()) >= 0 {
					nonZero := false
					for _, g := range guardsAt(fs.Store.Block()) {
						bo, ok := g.Cond.(*ssa.BinOp)
						if !ok {
							continue
						}
						for _, side := range [][2]ssa.Value{{bo.X, bo.Y}, {bo.Y, bo.X}} {
							if resolveLocal(side[0]) != ssa.Value(ex) {
								continue
							}
							if c, isC := constInt(side[1]); isC && c == 0 {
								if (bo.Op == token.NEQ && g.Pol) || (bo.Op == token.EQL && !g.Pol) || (bo.Op == token.GTR && g.Pol && side[0] == bo.X) {
									nonZero = true
								}
							}
						}
					}
					r.Check(errNilGuarded(fs.Store.Block(), cl) && nonZero, "C01.R4", "looked-up patch origin used only when found in "+shortName(fs.Fn), p.Pos(posOf(fs.Store)), "err == nil and address != 0 known at the store",
						"the address of the wrapped function replaces the entry although the lookup failed or found nothing: the jump is written at address 0 or a stale address and the process crashes")
				}
			}
			// and Pointer() is taken of the origin value, not of the replacement
			for _, a := range ats {
				cl, ok := a.V.(*ssa.Call)
				if !ok || a.Name != "(reflect.Value).Pointer" {
					continue
				}
				_, fv, ok := fieldRef(resolveLocal(cl.Call.Args[0]))
				if !ok || fv == nil {
					continue
				}
				w := p.patchRoles().POrigVal
				r.Check(fv == w, "C01.R4", op.Name()+" taken from "+fv.Name()+" in "+shortName(cl.Parent()), p.Pos(posOf(cl)), "", "the entry address of the wrong function value is recorded ("+op.Name()+" ← "+fv.Name()+".Pointer())")
			}
		}
	}
	// the function patched by name is the one the caller designated (shared with C06.R4)
	checkExactNameDerivation(p, r, "C01.R4")
	checkNamedParamsUsed(p, r, "C01.R4")
	// ---- R4 (clause) a forwarder does not cross two of its parameters: where a function hands two of its own parameters of
	// the same type to a callee whose parameters carry those very names, each goes to its namesake
	for _, f := range p.Funcs {
		rp := relPkg(f)
		if !strings.HasPrefix(pkgPathOf(f), Mod) || f.Blocks == nil || (rp != "" && rp != "internal/patch" && rp != "internal/proxy" && rp != "internal/iface") {
			continue
		}
		nInF := 0
		eachInstr(f, func(i ssa.Instruction) {
			ci, ok := i.(ssa.CallInstruction)
			if !ok {
				return
			}
			cal := staticCallee(ci.Common())
			if cal == nil || !strings.HasPrefix(pkgPathOf(cal), Mod) || cal.Signature.Recv() != nil && len(cal.Params) != len(ci.Common().Args) {
				return
			}
			args := ci.Common().Args
			if len(args) != len(cal.Params) {
				return
			}
			type pa struct {
				k    int
				name string
			}
			var own []pa
			for k, a := range args {
				if pr, ok := resolveLocal(a).(*ssa.Parameter); ok && pr.Parent() == f && pr.Name() != "_" {
					own = append(own, pa{k, pr.Name()})
				}
			}
			for _, x := range own {
				for _, y := range own {
					if x.k >= y.k || !types.Identical(cal.Params[x.k].Type(), cal.Params[y.k].Type()) {
						continue
					}
					if cal.Params[x.k].Name() == y.name && cal.Params[y.k].Name() == x.name && x.name != y.name {
						nInF++
						r.Bad("C01.R4", "parameters "+x.name+"/"+y.name+" forwarded to their namesakes in "+shortName(f)+" #"+itoa2(nInF), p.Pos(posOf(i)),
							"the caller's `"+x.name+"` is passed as `"+y.name+"` of "+shortName(cal)+" and the other way round: target and replacement (or origin and placeholder) change places, so the wrong function is patched")
					}
				}
			}
		})
	}
	// ---- R6 a freshly built guard is switched on
	r.Floor("C01.R6", 3)
	checkGuardActivated(p, r, "C01.R6")
	checkGuardReplacedOnSuccess(p, r, "C01.R6")
	// ---- R5 layout mirrors (both architectures)
	checkLayouts(p, r, "C01.R5")
	if k2, err := c.K2(); err == nil {
		r.SetConfig("linux/arm64")
		checkLayouts(k2, r, "C01.R5")
		c01Template(c, k2)
		r.SetConfig("linux/amd64")
	} else {
		r.Und("C01.R5", "arm64 configuration", "", "cannot load: "+err.Error())
	}
	c01Template(c, p)
}

// checkGuardActivated: a mocker that records a freshly built guard (a value of an interface type of the root package
// that offers Apply and Cancel) switches it on before it returns — every way from the store to a return passes a call of
// Apply on that guard; and the guard implementation that wraps a patch forwards Apply to the patch's own activation.
func checkGuardActivated(p *Prog, r *Report, rule string) {
	isGuardIface := func(t types.Type) bool {
		nt, ok := t.(*types.Named)
		if !ok || nt.Obj().Pkg() == nil || nt.Obj().Pkg().Path() != Mod {
			return false
		}
		it, ok := nt.Underlying().(*types.Interface)
		if !ok {
			return false
		}
		has := map[string]bool{}
		for i := 0; i < it.NumMethods(); i++ {
			has[it.Method(i).Name()] = true
		}
		return has["Apply"] && has["Cancel"]
	}
	for _, f := range p.FuncsIn("") {
		eachInstr(f, func(i ssa.Instruction) {
			st, ok := i.(*ssa.Store)
			if !ok {
				return
			}
			fa, ok := st.Addr.(*ssa.FieldAddr)
			if !ok {
				return
			}
			fv := fieldVar(fa.X.Type(), fa.Field)
			if fv == nil || !isGuardIface(fv.Type()) || isNilConst(st.Val) {
				return
			}
			if _, isAl := fa.X.(*ssa.Alloc); isAl {
				return // a record under construction: its maker's caller activates it
			}
			isApply := func(j ssa.Instruction) bool {
				ci, ok := j.(ssa.CallInstruction)
				if !ok || !ci.Common().IsInvoke() || ci.Common().Method.Name() != "Apply" {
					return false
				}
				rv := resolveLocal(ci.Common().Value)
				if rv == resolveLocal(st.Val) {
					return true
				}
				b, f2, ok := fieldRef(rv)
				return ok && f2 == fv && resolveLocal(b) == resolveLocal(fa.X)
			}
			okAll := true
			for _, ret := range returnsOf(f) {
				if reachableAfter(st, ret) && reachableAvoiding(st, ret, isApply) {
					okAll = false
				}
			}
			r.Check(okAll, rule, "guard recorded in "+shortName(f)+" is activated", p.Pos(posOf(st)), "Apply() on the recorded guard on every way to a return",
				"a guard is built and recorded but not switched on before the mocker returns: the entry jump is never written, calls keep running the original although the mock reports itself applied")
		})
	}
	// the wrapper around a patch forwards Apply
	for _, f := range p.FuncsIn("") {
		if f.Name() != "Apply" || f.Signature.Recv() == nil || f.Blocks == nil {
			continue
		}
		// receiver type has a field of type *patch.Guard
		rt := f.Signature.Recv().Type()
		if pt, ok := rt.(*types.Pointer); ok {
			rt = pt.Elem()
		}
		stt, ok := rt.Underlying().(*types.Struct)
		if !ok {
			continue
		}
		wraps := false
		for k := 0; k < stt.NumFields(); k++ {
			if pt, ok := stt.Field(k).Type().(*types.Pointer); ok && pt.Elem() == types.Type(p.patchRoles().Guard) {
				wraps = true
			}
		}
		if !wraps {
			continue
		}
		fwd := false
		for cal := range p.modReach(f) {
			if cal.Name() == "Apply" && cal.Signature.Recv() != nil && relPkg(cal) == "internal/patch" {
				fwd = true
			}
		}
		r.Check(fwd, rule, "patch guard wrapper "+shortName(f)+" forwards activation", p.Pos(f.Pos()), "reaches (*patch.Guard).Apply", "the guard wrapper's Apply does not reach the patch's activation: nothing is ever written")
	}
}

// checkGuardReplacedOnSuccess: the guard a mocker has recorded is replaced only by the outcome of a successful
// construction — a store into a guard field whose value is built from a result of a call that also returns an error sits
// on the err == nil continuation of that call. (On the failing path the old guard must survive: it is the only handle
// through which Cancel/Reset can still restore the bytes of the mock that is in place.)
func checkGuardReplacedOnSuccess(p *Prog, r *Report, rule string) int {
	n := 0
	for _, f := range p.FuncsIn("") {
		if f.Blocks == nil {
			continue
		}
		eachInstr(f, func(i ssa.Instruction) {
			st, ok := i.(*ssa.Store)
			if !ok {
				return
			}
			fa, ok := st.Addr.(*ssa.FieldAddr)
			if !ok {
				return
			}
			fv := fieldVar(fa.X.Type(), fa.Field)
			if fv == nil || isNilConst(st.Val) {
				return
			}
			nt, isNamed := fv.Type().(*types.Named)
			if !isNamed || nt.Obj().Pkg() == nil || nt.Obj().Pkg().Path() != Mod {
				return
			}
			it, isI := nt.Underlying().(*types.Interface)
			if !isI {
				return
			}
			has := map[string]bool{}
			for k := 0; k < it.NumMethods(); k++ {
				has[it.Method(k).Name()] = true
			}
			if !has["Apply"] || !has["Cancel"] {
				return
			}
			if _, isAl := fa.X.(*ssa.Alloc); isAl {
				return
			}
			// fallible producers the stored value is built from
			var producers []*ssa.Call
			seen := map[ssa.Value]bool{}
			var walk func(v ssa.Value, depth int)
			walk = func(v ssa.Value, depth int) {
				v = resolveLocal(v)
				if v == nil || seen[v] || depth > 5 {
					return
				}
				seen[v] = true
				switch x := v.(type) {
				case *ssa.Extract:
					if cl, ok := x.Tuple.(*ssa.Call); ok && errIndex(cl.Call.Signature()) >= 0 {
						producers = append(producers, cl)
					}
				case *ssa.Call:
					for _, a := range x.Call.Args {
						walk(a, depth+1)
					}
				case *ssa.MakeInterface:
					walk(x.X, depth+1)
				case *ssa.ChangeInterface:
					walk(x.X, depth+1)
				case *ssa.Phi:
					for _, e := range x.Edges {
						walk(e, depth+1)
					}
				case *ssa.Alloc:
					// a literal built in place: what its fields are set to
					for _, ref := range *x.Referrers() {
						if fa2, ok := ref.(*ssa.FieldAddr); ok {
							for _, r2 := range *fa2.Referrers() {
								if s2, ok := r2.(*ssa.Store); ok && s2.Addr == ssa.Value(fa2) {
									walk(s2.Val, depth+1)
								}
							}
						}
					}
				}
			}
			walk(st.Val, 0)
			for _, cl := range producers {
				n++
				r.Check(errNilGuarded(st.Block(), cl), rule, "guard of "+shortName(f)+" replaced only after "+calleeName(cl.Common())+" succeeded", p.Pos(posOf(st)), "store on the err == nil continuation",
					"the mocker's guard is overwritten before the error of the call that produced the new one is tested: when that call is refused (the target is still mocked by the earlier apply) the handle to the installed patch is lost, and Cancel/Reset silently restore nothing")
			}
		})
	}
	return n
}
