package main

import (
	"encoding/json"
	"fmt"
	"os"
	"path/filepath"
	"sort"
	"strings"
	"time"
)

// Verdict of one obligation.
type Verdict string

const (
	Discharged Verdict = "discharged"
	Violated   Verdict = "violated"
	Undecided  Verdict = "undecided"
)

// Obligation is one rule instance: rule × construct.
type Obligation struct {
	Rule      string  `json:"rule"`
	Construct string  `json:"construct"`
	Config    string  `json:"config,omitempty"`
	Pos       string  `json:"pos,omitempty"`
	Verdict   Verdict `json:"verdict"`
	Reason    string  `json:"reason,omitempty"`
}

// Report collects the obligations of one property run.
type Report struct {
	Prop     string
	Tier     string
	Level    string
	Expl     string
	RuleText string
	Obls     []Obligation
	Stats    map[string]interface{}
	Assume   []string
	Trusted  []string
	Stable   func(string) string // construct → rename-stable form (set after loading)
	verifDir string
	cfg      string // current configuration label
	floor    map[string]int
	count    map[string]int
	start    time.Time
}

func NewReport(prop, tier string) *Report {
	return &Report{Prop: prop, Tier: tier, Level: "other", Stats: map[string]interface{}{},
		floor: map[string]int{}, count: map[string]int{}, start: time.Now()}
}

func (r *Report) SetConfig(c string) { r.cfg = c }

func (r *Report) add(rule, construct, pos string, v Verdict, reason string) {
	// one verdict per rule×construct×config; the worst one wins
	for i := range r.Obls {
		o := &r.Obls[i]
		if o.Rule == rule && o.Construct == construct && o.Config == r.cfg {
			if rank(v) > rank(o.Verdict) {
				o.Verdict, o.Reason, o.Pos = v, reason, pos
			}
			return
		}
	}
	r.Obls = append(r.Obls, Obligation{Rule: rule, Construct: construct, Config: r.cfg, Pos: pos, Verdict: v, Reason: reason})
	r.count[rule]++
}

func rank(v Verdict) int {
	switch v {
	case Violated:
		return 2
	case Undecided:
		return 1
	}
	return 0
}

// OK records a discharged obligation.
func (r *Report) OK(rule, construct, pos, note string) { r.add(rule, construct, pos, Discharged, note) }

// Bad records a violated obligation.
func (r *Report) Bad(rule, construct, pos, reason string) {
	r.add(rule, construct, pos, Violated, reason)
}

// Und records an undecided obligation (counts as failure).
func (r *Report) Und(rule, construct, pos, reason string) {
	r.add(rule, construct, pos, Undecided, reason)
}

// Check records OK if cond else Bad.
func (r *Report) Check(cond bool, rule, construct, pos, okNote, badReason string) bool {
	if cond {
		r.OK(rule, construct, pos, okNote)
	} else {
		r.Bad(rule, construct, pos, badReason)
	}
	return cond
}

// Floor declares the minimum number of constructs rule must see (non-vacuity).
func (r *Report) Floor(rule string, n int) { r.floor[rule] = n }

// Stat stores a measured number / string for the evidence file.
func (r *Report) Stat(k string, v interface{}) { r.Stats[k] = v }

// AddStat adds n to an integer statistic.
func (r *Report) AddStat(k string, n int) {
	if cur, ok := r.Stats[k].(int); ok {
		r.Stats[k] = cur + n
	} else {
		r.Stats[k] = n
	}
}

// KnownFinding is an entry of /verif/known_findings.json.
type KnownFinding struct {
	Property  string `json:"property"`
	Rule      string `json:"rule"`
	Construct string `json:"construct"`
	Stable    string `json:"stable_construct,omitempty"` // the construct with unexported function names replaced by rename-stable descriptors
	Status    string `json:"status"`                     // "known" | "fixed"
	Commit    string `json:"commit,omitempty"`
	What      string `json:"what"`
}

type knownFile struct {
	Findings []KnownFinding `json:"findings"`
}

func loadKnown(path string) ([]KnownFinding, error) {
	b, err := os.ReadFile(path)
	if err != nil {
		if os.IsNotExist(err) {
			return nil, nil
		}
		return nil, err
	}
	var kf knownFile
	if err := json.Unmarshal(b, &kf); err != nil {
		return nil, err
	}
	return kf.Findings, nil
}

// Import copies the obligations that a sibling property's rule set produced (run on the same program) into this report
// under the given rule id; only the sibling rules accepted by keep are taken. Unmet floors of those rules become undecided.
func (r *Report) Import(sub *Report, asRule string, keep func(rule string) bool) {
	r.ImportWhere(sub, asRule, keep, nil)
}

// ImportWhere is Import restricted to the obligations whose construct keepC accepts (nil = all).
func (r *Report) ImportWhere(sub *Report, asRule string, keep func(rule string) bool, keepC func(construct string) bool) {
	known, _ := loadKnown(filepath.Join(r.verifDir, "known_findings.json"))
	for _, o := range sub.Obls {
		if !keep(o.Rule) || (keepC != nil && !keepC(o.Construct)) {
			continue
		}
		if o.Verdict == Violated {
			// a finding recorded under the sibling property is reported there, not a second time here
			listed := false
			for _, k := range known {
				if k.Status == "known" && k.Property == sub.Prop && k.Rule == o.Rule && (k.Construct == o.Construct || (k.Stable != "" && r.Stable != nil && k.Stable == r.Stable(o.Construct))) {
					listed = true
				}
			}
			if listed {
				continue
			}
		}
		n := o
		n.Construct = o.Rule + ": " + o.Construct
		n.Rule = asRule
		r.Obls = append(r.Obls, n)
		r.count[asRule]++
	}
	for rule, fl := range sub.floor {
		if keepC == nil && keep(rule) && sub.count[rule] < fl {
			r.Und(asRule, rule+": non-vacuity", "", fmt.Sprintf("sibling rule %s matched %d constructs, needs at least %d", rule, sub.count[rule], fl))
		}
	}
}

// Failing reports whether Finish would exit non-zero (unlisted violations, undecided obligations or unmet floors).
func (r *Report) Failing(verifDir string) bool {
	for rule, n := range r.floor {
		if r.count[rule] < n {
			return true
		}
	}
	known, _ := loadKnown(filepath.Join(verifDir, "known_findings.json"))
	for _, o := range r.Obls {
		switch o.Verdict {
		case Undecided:
			return true
		case Violated:
			hit := false
			for _, k := range known {
				if k.Status == "known" && k.Property == r.Prop && k.Rule == o.Rule && (k.Construct == o.Construct || (k.Stable != "" && r.Stable != nil && k.Stable == r.Stable(o.Construct))) {
					hit = true
				}
			}
			if !hit {
				return true
			}
		}
	}
	return false
}

// Summary is a one-line count of the obligations that were not discharged.
func (r *Report) Summary() string {
	v, u := 0, 0
	for _, o := range r.Obls {
		switch o.Verdict {
		case Violated:
			v++
		case Undecided:
			u++
		}
	}
	fl := 0
	for rule, n := range r.floor {
		if r.count[rule] < n {
			fl++
		}
	}
	return fmt.Sprintf("%d violated, %d undecided, %d rules below their floor", v, u, fl)
}

// Finish prints the verdicts, writes the evidence and replay files and returns the exit code.
func (r *Report) Finish(verifDir, evidencePath string) int {
	// non-vacuity floors
	var floorRules []string
	for rule := range r.floor {
		floorRules = append(floorRules, rule)
	}
	sort.Strings(floorRules)
	for _, rule := range floorRules {
		if r.count[rule] < r.floor[rule] {
			saved := r.cfg
			r.cfg = ""
			r.Und(rule, "non-vacuity", "", fmt.Sprintf("rule matched %d constructs, needs at least %d: the anchor it inspects is gone, the rule would pass vacuously", r.count[rule], r.floor[rule]))
			r.cfg = saved
		}
	}
	known, err := loadKnown(filepath.Join(verifDir, "known_findings.json"))
	if err != nil {
		fmt.Printf("INTERNAL: cannot read known_findings.json: %v\n", err)
		return 2
	}
	isKnown := func(o Obligation) *KnownFinding {
		for i := range known {
			k := &known[i]
			if k.Status == "known" && k.Property == r.Prop && k.Rule == o.Rule && (k.Construct == o.Construct || (k.Stable != "" && r.Stable != nil && k.Stable == r.Stable(o.Construct))) {
				return k
			}
		}
		return nil
	}
	sort.SliceStable(r.Obls, func(i, j int) bool {
		a, b := r.Obls[i], r.Obls[j]
		if a.Rule != b.Rule {
			return a.Rule < b.Rule
		}
		if a.Construct != b.Construct {
			return a.Construct < b.Construct
		}
		return a.Config < b.Config
	})
	nViol, nKnown, nDis, nUnd := 0, 0, 0, 0
	var bad []Obligation
	printedKnown := map[string]bool{}
	for _, o := range r.Obls {
		switch o.Verdict {
		case Discharged:
			nDis++
		case Violated, Undecided:
			if o.Verdict == Violated {
				if k := isKnown(o); k != nil {
					nKnown++
					key := o.Rule + "|" + o.Construct
					if !printedKnown[key] {
						printedKnown[key] = true
						fmt.Printf("KNOWN-FINDING: property=%s %s [%s | %s @ %s]\n", r.Prop, k.What, o.Rule, o.Construct, o.Pos)
					}
					continue
				}
				nViol++
			} else {
				nUnd++
			}
			bad = append(bad, o)
		}
	}
	exit := 0
	if len(bad) > 0 {
		exit = 1
		replayDir := filepath.Join(verifDir, "evidence", "replay")
		_ = os.MkdirAll(replayDir, 0o755)
		replay := filepath.Join(replayDir, r.Prop+".txt")
		var sb strings.Builder
		fmt.Fprintf(&sb, "property %s — offending constructs (re-run: /verif/check %s %s)\n\n", r.Prop, r.Prop, r.Tier)
		for _, o := range bad {
			fmt.Fprintf(&sb, "[%s] rule=%s construct=%q config=%s at %s\n    %s\n\n", o.Verdict, o.Rule, o.Construct, o.Config, o.Pos, o.Reason)
			fmt.Printf("%s: %s %s: %s [%s %s]\n", o.Pos, strings.ToUpper(string(o.Verdict)), o.Rule, o.Reason, o.Construct, o.Config)
		}
		_ = os.WriteFile(replay, []byte(sb.String()), 0o644)
		fmt.Printf("VIOLATION property=%s replay=%s\n", r.Prop, replay)
	}
	// evidence
	distinct := map[string]bool{}
	for _, o := range r.Obls {
		distinct[o.Rule+"|"+o.Construct] = true
	}
	samples := []interface{}{}
	perRule := map[string]int{}
	for _, o := range r.Obls {
		if perRule[o.Rule] < 3 || o.Verdict != Discharged {
			perRule[o.Rule]++
			samples = append(samples, o)
		}
		if len(samples) >= 80 {
			break
		}
	}
	ruleCounts := map[string]int{}
	for _, o := range r.Obls {
		ruleCounts[o.Rule]++
	}
	cov := map[string]interface{}{
		"explanation":         r.Expl,
		"evaluations":         len(r.Obls),
		"distinct_nontrivial": len(distinct),
		"rule":                r.RuleText,
		"samples":             samples,
		"obligations_by_rule": ruleCounts,
		"discharged_count":    nDis,
		"violated_unlisted":   nViol,
		"undecided":           nUnd,
		"known_findings_hit":  nKnown,
	}
	for k, v := range r.Stats {
		cov[k] = v
	}
	if r.Level == "proof" {
		cov["obligations"] = len(r.Obls)
		cov["discharged"] = nDis
		cov["checker_cmd"] = fmt.Sprintf("/verif/check %s %s", r.Prop, r.Tier)
		cov["trusted_base"] = r.Trusted
	}
	seed := 0
	fmt.Sscanf(os.Getenv("VERIF_SEED"), "%d", &seed)
	if r.Assume == nil {
		r.Assume = []string{}
	}
	if r.Trusted == nil {
		r.Trusted = []string{}
	}
	ev := map[string]interface{}{
		"property_id": r.Prop,
		"tier":        r.Tier,
		"seed":        seed,
		"level":       r.Level,
		"coverage":    cov,
		"assumptions": r.Assume,
		"wall_s":      time.Since(r.start).Seconds(),
		"violations":  nViol + nUnd,
	}
	b, _ := json.MarshalIndent(ev, "", " ")
	_ = os.MkdirAll(filepath.Dir(evidencePath), 0o755)
	if err := os.WriteFile(evidencePath, b, 0o644); err != nil {
		fmt.Printf("INTERNAL: cannot write evidence: %v\n", err)
		return 2
	}
	fmt.Printf("%s %s: %d obligations (%d distinct constructs), %d discharged, %d known findings, %d violations, %d undecided; %.1fs\n",
		r.Prop, r.Tier, len(r.Obls), len(distinct), nDis, nKnown, nViol, nUnd, time.Since(r.start).Seconds())
	return exit
}
