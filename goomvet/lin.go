package main

import (
	"fmt"
	"go/token"
	"go/types"
	"strings"

	"golang.org/x/tools/go/ssa"
)

// Linear terms "var + k" over SSA values and a difference-bound matrix to decide entailment of
// inequalities between them. Used for index-in-range and remaining-length obligations.

// Term is var + K; Var == "" means the constant K.
type Term struct {
	Var string
	K   int64
}

func (t Term) String() string {
	if t.Var == "" {
		return fmt.Sprint(t.K)
	}
	if t.K == 0 {
		return t.Var
	}
	return fmt.Sprintf("%s%+d", t.Var, t.K)
}

// Keyer turns SSA values into canonical variable names. Loads of the same field of the same base
// (and len of them) get the same name when the function never stores to that field (stable==true for the field).
type Keyer struct {
	fn        *ssa.Function
	unstable  map[*types.Var]bool // fields stored to inside fn (or possibly by callees): loads are distinct
	names     map[ssa.Value]string
	n         int
	FreshLoad func(*types.Var) bool   // fields whose every load must be a distinct value (e.g. concurrently modified)
	Subst     map[ssa.Value]ssa.Value // case split: a phi standing for the value of one of its incoming edges
}

func (k *Keyer) res(v ssa.Value) ssa.Value {
	v = resolveLocal(v)
	for n := 0; n < 4 && k.Subst != nil; n++ {
		s, ok := k.Subst[v]
		if !ok {
			break
		}
		v = resolveLocal(s)
	}
	return v
}

func NewKeyer(fn *ssa.Function) *Keyer {
	k := &Keyer{fn: fn, unstable: map[*types.Var]bool{}, names: map[ssa.Value]string{}}
	eachInstr(fn, func(i ssa.Instruction) {
		if st, ok := i.(*ssa.Store); ok {
			if fa, ok := st.Addr.(*ssa.FieldAddr); ok {
				if fv := fieldVar(fa.X.Type(), fa.Field); fv != nil {
					k.unstable[fv] = true
				}
			}
		}
	})
	return k
}

func (k *Keyer) fresh(v ssa.Value) string {
	if n, ok := k.names[v]; ok {
		return n
	}
	k.n++
	n := fmt.Sprintf("%s#%d", v.Name(), k.n)
	k.names[v] = n
	return n
}

// baseKey names the base object of a field access.
func (k *Keyer) baseKey(v ssa.Value) string {
	switch x := v.(type) {
	case *ssa.Parameter:
		return x.Name()
	case *ssa.FreeVar:
		return x.Name()
	case *ssa.Global:
		return x.Name()
	case *ssa.UnOp:
		if x.Op == token.MUL {
			if b, f, ok := fieldRef(x); ok && f != nil && !k.unstable[f] {
				return k.baseKey(b) + "." + f.Name()
			}
		}
	case *ssa.FieldAddr:
		if f := fieldVar(x.X.Type(), x.Field); f != nil {
			return k.baseKey(x.X) + "." + f.Name()
		}
	}
	return k.fresh(v)
}

// Key returns the canonical variable name of v.
func (k *Keyer) Key(v ssa.Value) string {
	v = k.res(v)
	switch x := v.(type) {
	case *ssa.UnOp:
		if x.Op == token.MUL {
			if b, f, ok := fieldRef(x); ok && f != nil {
				if k.unstable[f] || (k.FreshLoad != nil && k.FreshLoad(f)) {
					return k.fresh(v)
				}
				return k.baseKey(b) + "." + f.Name()
			}
		}
	case *ssa.Call:
		if bi, ok := x.Call.Value.(*ssa.Builtin); ok && bi.Name() == "len" && len(x.Call.Args) == 1 {
			return "len(" + k.Key(x.Call.Args[0]) + ")"
		}
	case *ssa.Parameter:
		return x.Name()
	}
	return k.fresh(v)
}

// TermOf decomposes v into var+const (through conversions and +/- constants).
func (k *Keyer) TermOf(v ssa.Value) Term {
	v = k.res(v)
	switch x := v.(type) {
	case *ssa.Const:
		if c, ok := constInt(x); ok {
			return Term{"", c}
		}
	case *ssa.Convert:
		// integer conversions are treated as value-preserving (no truncation at the sizes involved)
		if isIntegerType(x.X.Type()) && isIntegerType(x.Type()) {
			return k.TermOf(x.X)
		}
	case *ssa.ChangeType:
		return k.TermOf(x.X)
	case *ssa.BinOp:
		if x.Op == token.ADD || x.Op == token.SUB {
			if c, ok := constInt(x.Y); ok {
				t := k.TermOf(x.X)
				if x.Op == token.ADD {
					t.K += c
				} else {
					t.K -= c
				}
				return t
			}
			if c, ok := constInt(x.X); ok && x.Op == token.ADD {
				t := k.TermOf(x.Y)
				t.K += c
				return t
			}
		}
	case *ssa.Phi:
		if len(x.Edges) == 1 {
			return k.TermOf(x.Edges[0])
		}
	}
	return Term{k.Key(v), 0}
}

func isIntegerType(t types.Type) bool {
	b, ok := t.Underlying().(*types.Basic)
	return ok && b.Info()&types.IsInteger != 0
}

// DBM: difference constraints x - y <= c over named variables; "" is the zero variable.
type DBM struct {
	idx map[string]int
	d   [][]int64
}

const inf = int64(1) << 60

func NewDBM() *DBM {
	m := &DBM{idx: map[string]int{}}
	m.id("")
	return m
}

func (m *DBM) id(v string) int {
	if i, ok := m.idx[v]; ok {
		return i
	}
	i := len(m.idx)
	m.idx[v] = i
	for r := range m.d {
		m.d[r] = append(m.d[r], inf)
	}
	row := make([]int64, i+1)
	for c := range row {
		row[c] = inf
	}
	row[i] = 0
	m.d = append(m.d, row)
	return i
}

// AddLE asserts a <= b (terms).
func (m *DBM) AddLE(a, b Term) {
	// a.Var + a.K <= b.Var + b.K  ⇒  a.Var - b.Var <= b.K - a.K
	i, j := m.id(a.Var), m.id(b.Var)
	c := b.K - a.K
	if i == j {
		if c < 0 {
			m.d[i][j] = c // contradiction marker
		}
		return
	}
	if c < m.d[i][j] {
		m.d[i][j] = c
	}
}

// AddCmp asserts "a op b" (pol=true) or its negation.
func (m *DBM) AddCmp(a Term, op token.Token, b Term, pol bool) {
	if !pol {
		switch op {
		case token.LSS:
			op = token.GEQ
		case token.LEQ:
			op = token.GTR
		case token.GTR:
			op = token.LEQ
		case token.GEQ:
			op = token.LSS
		case token.EQL:
			op = token.NEQ
		case token.NEQ:
			op = token.EQL
		}
	}
	switch op {
	case token.LSS:
		m.AddLE(Term{a.Var, a.K + 1}, b)
	case token.LEQ:
		m.AddLE(a, b)
	case token.GTR:
		m.AddLE(Term{b.Var, b.K + 1}, a)
	case token.GEQ:
		m.AddLE(b, a)
	case token.EQL:
		m.AddLE(a, b)
		m.AddLE(b, a)
	}
}

func (m *DBM) close() [][]int64 {
	n := len(m.d)
	d := make([][]int64, n)
	for i := range d {
		d[i] = append([]int64(nil), m.d[i]...)
	}
	for k := 0; k < n; k++ {
		for i := 0; i < n; i++ {
			if d[i][k] >= inf {
				continue
			}
			for j := 0; j < n; j++ {
				if d[k][j] >= inf {
					continue
				}
				if s := d[i][k] + d[k][j]; s < d[i][j] {
					d[i][j] = s
				}
			}
		}
	}
	return d
}

// Inconsistent reports whether the constraint set has no solution.
func (m *DBM) Inconsistent() bool {
	d := m.close()
	for i := range d {
		if d[i][i] < 0 {
			return true
		}
	}
	return false
}

// EntailsLE reports whether the constraints imply a <= b.
func (m *DBM) EntailsLE(a, b Term) bool {
	i, j := m.id(a.Var), m.id(b.Var)
	d := m.close()
	for x := range d {
		if d[x][x] < 0 {
			return true // inconsistent premises entail everything (unreachable path)
		}
	}
	if i == j {
		return a.K <= b.K
	}
	return d[i][j] < inf && d[i][j] <= b.K-a.K
}

// EntailsCmp reports whether the constraints imply "a op b" with polarity.
func (m *DBM) EntailsCmp(a Term, op token.Token, b Term, pol bool) bool {
	if !pol {
		switch op {
		case token.LSS:
			op = token.GEQ
		case token.LEQ:
			op = token.GTR
		case token.GTR:
			op = token.LEQ
		case token.GEQ:
			op = token.LSS
		default:
			return false
		}
	}
	switch op {
	case token.LSS:
		return m.EntailsLE(Term{a.Var, a.K + 1}, b)
	case token.LEQ:
		return m.EntailsLE(a, b)
	case token.GTR:
		return m.EntailsLE(Term{b.Var, b.K + 1}, a)
	case token.GEQ:
		return m.EntailsLE(b, a)
	case token.EQL:
		return m.EntailsLE(a, b) && m.EntailsLE(b, a)
	}
	return false
}

// Clone copies the matrix.
func (m *DBM) Clone() *DBM {
	n := &DBM{idx: map[string]int{}}
	for k, v := range m.idx {
		n.idx[k] = v
	}
	for _, r := range m.d {
		n.d = append(n.d, append([]int64(nil), r...))
	}
	return n
}

// guardsToDBM adds every comparison guard that holds at block b to the matrix.
// Returns the guards it could not translate (non-comparison conditions).
func guardsToDBM(m *DBM, k *Keyer, b *ssa.BasicBlock) (untranslated []Guard) {
	return guardListToDBM(m, k, guardsAt(b))
}

// guardListToDBM adds the given branch conditions (e.g. those known on one incoming edge of a phi).
func guardListToDBM(m *DBM, k *Keyer, gs []Guard) (untranslated []Guard) {
	for _, g := range gs {
		if !addCondToDBM(m, k, g.Cond, g.Pol) {
			untranslated = append(untranslated, g)
		}
	}
	// lengths are non-negative
	for v := range m.idx {
		if strings.HasPrefix(v, "len(") {
			m.AddLE(Term{"", 0}, Term{v, 0})
		}
	}
	// disequalities tighten a bound that is already known: x != c ∧ x >= c ⇒ x >= c+1 (and symmetrically)
	for pass := 0; pass < 2; pass++ {
		for _, g := range gs {
			bo, ok := g.Cond.(*ssa.BinOp)
			if !ok || !isIntegerType(bo.X.Type()) {
				continue
			}
			if !((bo.Op == token.NEQ && g.Pol) || (bo.Op == token.EQL && !g.Pol)) {
				continue
			}
			a, c := k.TermOf(bo.X), k.TermOf(bo.Y)
			if strings.HasPrefix(a.Var, "len(") || strings.HasPrefix(c.Var, "len(") {
				m.id(a.Var)
				m.id(c.Var)
				for v := range m.idx {
					if strings.HasPrefix(v, "len(") {
						m.AddLE(Term{"", 0}, Term{v, 0})
					}
				}
			}
			if m.EntailsLE(c, a) {
				m.AddLE(Term{c.Var, c.K + 1}, a)
			} else if m.EntailsLE(a, c) {
				m.AddLE(Term{a.Var, a.K + 1}, c)
			}
		}
	}
	return
}

// addCondToDBM translates cond (with polarity) into difference constraints when it is a comparison
// of linear terms, or a conjunction/disjunction that the polarity turns into a conjunction.
func addCondToDBM(m *DBM, k *Keyer, cond ssa.Value, pol bool) bool {
	switch x := cond.(type) {
	case *ssa.BinOp:
		switch x.Op {
		case token.LSS, token.LEQ, token.GTR, token.GEQ, token.EQL, token.NEQ:
			if !isIntegerType(x.X.Type()) {
				return false
			}
			if x.Op == token.NEQ && pol || x.Op == token.EQL && !pol {
				return false // disequality is not a difference constraint
			}
			m.AddCmp(k.TermOf(x.X), x.Op, k.TermOf(x.Y), pol)
			return true
		}
	case *ssa.UnOp:
		if x.Op == token.NOT {
			return addCondToDBM(m, k, x.X, !pol)
		}
	}
	return false
}

// Upper returns the tightest known upper bound of a.Var+a.K − (b.Var+b.K), if any.
func (m *DBM) Upper(a, b Term) (int64, bool) {
	i, j := m.id(a.Var), m.id(b.Var)
	if i == j {
		return a.K - b.K, true
	}
	d := m.close()
	if d[i][j] >= inf {
		return 0, false
	}
	return d[i][j] + a.K - b.K, true
}

// deriveSumFacts strengthens m with facts about sums of two variables, which a difference-bound matrix cannot represent
// directly, and about loop counters:
//   - a counter i = phi(init, i±c) that only moves in one direction stays on that side of init;
//   - for two sums X+Y and X+Z with a common addend, (X+Y) − (X+Z) = Y − Z, so a known bound on Y − Z carries over;
//   - X+Y − X = Y, so a constant bound on Y bounds the sum against X.
//
// The values to look at are the operands of the guards at block b and the extra roots (an index expression).
func deriveSumFacts(m *DBM, k *Keyer, b *ssa.BasicBlock, roots ...ssa.Value) {
	type sum struct {
		v    *ssa.BinOp
		x, y ssa.Value
	}
	var sums []sum
	seen := map[ssa.Value]bool{}
	var phis []*ssa.Phi
	var visit func(v ssa.Value, depth int)
	visit = func(v ssa.Value, depth int) {
		if v == nil || depth > 6 {
			return
		}
		v = k.res(v)
		if seen[v] {
			return
		}
		seen[v] = true
		switch x := v.(type) {
		case *ssa.BinOp:
			if x.Op == token.ADD || x.Op == token.SUB {
				_, cx := constInt(x.X)
				_, cy := constInt(x.Y)
				if !cx && !cy && x.Op == token.ADD && isIntegerType(x.Type()) {
					sums = append(sums, sum{x, k.res(x.X), k.res(x.Y)})
				}
				visit(x.X, depth+1)
				visit(x.Y, depth+1)
			}
		case *ssa.Convert:
			visit(x.X, depth+1)
		case *ssa.ChangeType:
			visit(x.X, depth+1)
		case *ssa.Phi:
			phis = append(phis, x)
			for _, e := range x.Edges {
				visit(e, depth+1)
			}
		}
	}
	for _, g := range guardsAt(b) {
		if bo, ok := g.Cond.(*ssa.BinOp); ok {
			visit(bo.X, 0)
			visit(bo.Y, 0)
		}
	}
	for _, r := range roots {
		visit(r, 0)
	}
	// monotone counters
	for _, ph := range phis {
		if len(ph.Edges) != 2 || !isIntegerType(ph.Type()) {
			continue
		}
		for e := 0; e < 2; e++ {
			step, ok := ph.Edges[e].(*ssa.BinOp)
			if !ok || (step.Op != token.ADD && step.Op != token.SUB) || k.res(step.X) != ssa.Value(ph) {
				continue
			}
			c, isC := constInt(step.Y)
			if !isC || c == 0 {
				continue
			}
			if step.Op == token.SUB {
				c = -c
			}
			init := k.TermOf(ph.Edges[1-e])
			self := k.TermOf(ph)
			if c < 0 {
				m.AddLE(self, init) // only ever decreases
			} else {
				m.AddLE(init, self)
			}
		}
	}
	// sums with a common addend
	for i := range sums {
		for j := range sums {
			if i == j {
				continue
			}
			a, c := sums[i], sums[j]
			pairs := [][4]ssa.Value{{a.x, a.y, c.x, c.y}, {a.x, a.y, c.y, c.x}, {a.y, a.x, c.x, c.y}, {a.y, a.x, c.y, c.x}}
			for _, pr := range pairs {
				if pr[0] != pr[2] {
					continue
				}
				if d, ok := m.Upper(k.TermOf(pr[1]), k.TermOf(pr[3])); ok {
					ta, tc := k.TermOf(a.v), k.TermOf(c.v)
					m.AddLE(ta, Term{tc.Var, tc.K + d})
				}
			}
		}
	}
	// a sum against one of its addends
	zero := Term{"", 0}
	for _, s := range sums {
		ts := k.TermOf(s.v)
		for _, pr := range [][2]ssa.Value{{s.x, s.y}, {s.y, s.x}} {
			base, other := k.TermOf(pr[0]), k.TermOf(pr[1])
			if ub, ok := m.Upper(other, zero); ok {
				m.AddLE(ts, Term{base.Var, base.K + ub})
			}
			if lb, ok := m.Upper(zero, other); ok { // 0 − other ≤ lb  ⇒ other ≥ −lb
				m.AddLE(Term{base.Var, base.K - lb}, ts)
			}
		}
	}
}
