package main

import (
	"fmt"
	"go/constant"
	"go/token"
	"go/types"
	"os"
	"strings"

	"golang.org/x/tools/go/ssa"
)

func init() { register("C04", c04) }

// loopIndex analyses idx = phi + k where phi = [init const, phi + step]; returns first value and step.
func loopIndex(idx ssa.Value) (first, step int64, ok bool) {
	k := int64(0)
	v := idx
	for {
		if bo, isB := v.(*ssa.BinOp); isB && bo.Op == token.ADD {
			if c, isC := constInt(bo.Y); isC {
				k += c
				v = bo.X
				continue
			}
		}
		break
	}
	ph, isP := v.(*ssa.Phi)
	if !isP || len(ph.Edges) < 2 {
		return 0, 0, false
	}
	var init int64
	haveInit, haveStep := false, false
	nInit := 0
	for _, e := range ph.Edges {
		if c, isC := constInt(e); isC {
			if haveInit && c != init {
				return 0, 0, false
			}
			init, haveInit = c, true
			nInit++
			continue
		}
		// e = ph + s
		s := int64(0)
		w := e
		for {
			if bo, isB := w.(*ssa.BinOp); isB && bo.Op == token.ADD {
				if c, isC := constInt(bo.Y); isC {
					s += c
					w = bo.X
					continue
				}
			}
			break
		}
		if w == ssa.Value(ph) {
			if haveStep && s != step {
				return 0, 0, false
			}
			step, haveStep = s, true
		} else {
			return 0, 0, false
		}
	}
	if !haveInit || !haveStep || nInit != 1 {
		return 0, 0, false
	}
	return init + k, step, true
}

// indexIsLast: is idx provably len(slice)-1 at block b ?
func indexIsLast(k *Keyer, idx, slice ssa.Value, b *ssa.BasicBlock) bool {
	m := NewDBM()
	guardsToDBM(m, k, b)
	it := k.TermOf(idx)
	lt := Term{"len(" + k.Key(slice) + ")", -1}
	return m.EntailsLE(it, lt) && m.EntailsLE(lt, it)
}

func c04(c *Ctx) {
	p, r := c.K1(), c.R
	r.Expl = "Structural clauses behind 'conditional stubs select by first matching condition, else default': the condition list is append-only; the selection function scans it from index 0 upwards by +1, returns the Result of exactly the matcher whose Match returned true, and falls through to the default, which panics when absent and the function has results; the MakeFunc callback never returns without a selected result; per-argument matching is a conjunction; the method receiver is dropped under the isMethod flag; unwrapping of the variadic element (Type.Elem / Value.Len/Index) is confined to the last parameter position, happens only under the variadic flag, visits the elements by a counting loop bounded by Len() of the indexed value, copies the fixed arguments as list[:len-1] of a non-empty list into a collector that starts empty, and uses the element type from the last position on; the mocker-level When hands the caller's condition arguments to the When; the stub-creating methods of one mocker agree on the receiver flag. Per-argument truth is C18/C09."
	r.RuleText = "one obligation per (rule, function / store / unwrap site)"
	r.Floor("C04.R1", 2)
	r.Floor("C04.R2", 6)
	r.Floor("C04.R3", 2)
	r.Floor("C04.R4", 3)
	r.Floor("C04.R5", 2)
	// ---- R11 In(…) is the union of its rows, each a conjunction over positions, over the rows Resolve built (C18.R3)
	if !c.importing {
		importSibling(c, "C18", "C04.R11", func(rule string) bool { return rule == "C18.R3" || rule == "C18.R4" })
	}
	// ---- R13 conditions given after an Apply start a fresh stub that is installed (C12.R2)
	if !c.importing {
		importSibling(c, "C12", "C04.R13", func(rule string) bool { return rule == "C12.R2" })
	}
	// ---- R6 the mocker-level When hands the caller's condition arguments to the When
	r.Floor("C04.R6", 2)
	checkValuesForwarded(p, r, "C04.R6", map[string]bool{"When": true, "In": true, "Matches": true}, "condition arguments")
	root := p.FuncsIn("")
	when := p.NamedType("", "When")
	matcherT := p.NamedType("", "Matcher")
	if when == nil || matcherT == nil {
		r.Und("C04.R1", "When/Matcher", "", "exported types not found")
		return
	}
	var matchesFld *types.Var
	wst := when.Underlying().(*types.Struct)
	for i := 0; i < wst.NumFields(); i++ {
		if sl, ok := wst.Field(i).Type().Underlying().(*types.Slice); ok && types.Identical(sl.Elem(), matcherT) {
			matchesFld = wst.Field(i)
		}
	}
	if matchesFld == nil {
		r.Und("C04.R1", "condition list", "", "When has no []Matcher field")
		return
	}
	// ---- R1 append-only
	nApp := 0
	for _, fs := range storesToField(p.Funcs, func(fv *types.Var, _ ssa.Value) bool { return fv == matchesFld }) {
		if isLocalAddr(fs.Addr.X) {
			// constructor: must be an empty slice
			r.OK("C04.R1", "condition list initialised in "+shortName(fs.Fn), p.Pos(posOf(fs.Store)), "constructor literal")
			continue
		}
		okA := false
		if call, ok := fs.Store.Val.(*ssa.Call); ok {
			if bi, ok := call.Call.Value.(*ssa.Builtin); ok && bi.Name() == "append" {
				if b, fv, ok := fieldRef(call.Call.Args[0]); ok && fv == matchesFld && b == fs.Addr.X {
					okA = true
					nApp++
				}
			}
		}
		r.Check(okA, "C04.R1", "condition list store in "+shortName(fs.Fn), p.Pos(posOf(fs.Store)), "append(list, x) keeps registration order",
			"the condition list is not extended by append(list, new): registration order (first registered wins) is not preserved")
	}
	r.Check(nApp >= 1, "C04.R1", "conditions are registered", "", "an append exists", "no function ever appends a condition to the list")

	if n := checkCreatedWhenRecorded(p, r, "C04.R14"); n == 0 {
		r.Und("C04.R14", "created When", "", "no mocker method returning a When built by CreateWhen found")
	}
	checkForwardUnderCancelGuards(p, r, "C04.R14")
	// ---- R2 selection function
	var sel *ssa.Function
	for _, f := range root {
		if f.Signature.Recv() != nil && recvIs(f, when) {
			eachInstr(f, func(i ssa.Instruction) {
				if c := callCommon(i); c != nil && c.IsInvoke() && c.Method.Name() == "Match" {
					sel = f
				}
			})
		}
	}
	if sel == nil {
		r.Und("C04.R2", "selection function", "", "no method of When invokes Matcher.Match")
		return
	}
	var defFn *ssa.Function // the default consult: method of When returning the default's Result
	var matchCalls []*ssa.Call
	eachInstr(sel, func(i ssa.Instruction) {
		if cl, ok := i.(*ssa.Call); ok && cl.Call.IsInvoke() && cl.Call.Method.Name() == "Match" {
			matchCalls = append(matchCalls, cl)
		}
	})
	for _, mc := range matchCalls {
		cons := "scan in " + shortName(sel)
		// element comes from list[idx]
		ld, _ := mc.Call.Value.(*ssa.UnOp)
		var ia *ssa.IndexAddr
		if ld != nil {
			ia, _ = ld.X.(*ssa.IndexAddr)
		}
		if ia == nil {
			r.Und("C04.R2", cons, p.Pos(posOf(mc)), "Match receiver is not an element of the condition list")
			continue
		}
		_, fv, okF := fieldRef(ia.X)
		r.Check(okF && fv == matchesFld, "C04.R2", cons+" ranges the condition list itself", p.Pos(posOf(mc)), "no re-slice/copy/sort", "the scan does not range over the registered condition list itself")
		first, step, okL := loopIndex(ia.Index)
		r.Check(okL && first == 0 && step == 1, "C04.R2", cons+" order", p.Pos(posOf(mc)), "index runs 0,1,2,…",
			"the scan does not visit conditions in registration order starting at the first (first/step of the index are not 0/+1): a later-registered condition can win")
		// true edge → every way on from a true Match ends in `return <that element>.Result()`; false edge → no return
		// before the index has moved on (the way back through the loop header)
		var iff *ssa.If
		trueSucc, falseSucc := 0, 1
		for _, ref := range *mc.Referrers() {
			if i2, ok := ref.(*ssa.If); ok {
				iff = i2
			}
			if un, ok := ref.(*ssa.UnOp); ok && un.Op == token.NOT && un.Referrers() != nil {
				for _, r2 := range *un.Referrers() {
					if i2, ok := r2.(*ssa.If); ok {
						iff, trueSucc, falseSucc = i2, 1, 0
					}
				}
			}
		}
		okT := false
		if iff != nil {
			okT = c04MatchedReturns(mc, iff.Block(), iff.Block().Succs[trueSucc])
			// false edge continues the loop (does not return)
			var hdr *ssa.BasicBlock
			base := ia.Index
			for {
				if bo, isB := base.(*ssa.BinOp); isB && bo.Op == token.ADD {
					base = bo.X
					continue
				}
				break
			}
			if ph, ok := base.(*ssa.Phi); ok {
				hdr = ph.Block()
			}
			seen := map[*ssa.BasicBlock]bool{}
			var walk func(b *ssa.BasicBlock)
			walk = func(b *ssa.BasicBlock) {
				if seen[b] || b == hdr {
					return
				}
				seen[b] = true
				for _, ins := range b.Instrs {
					if _, ok := ins.(*ssa.Return); ok {
						okT = false
					}
				}
				for _, sx := range b.Succs {
					walk(sx)
				}
			}
			if hdr == nil {
				okT = false
			} else {
				walk(iff.Block().Succs[falseSucc])
			}
		}
		r.Check(okT, "C04.R2", cons+" returns the matching condition's result", p.Pos(posOf(mc)), "Match true ⇒ return that matcher's Result(); false ⇒ continue",
			"the scan does not return the Result() of exactly the matcher whose Match() was true (or stops on a non-match)")
	}
	// other returns of the selection function consult the default
	for _, ret := range returnsOf(sel) {
		rv := retResult(ret, 0)
		if rc, ok := rv.(*ssa.Call); ok {
			if rc.Call.IsInvoke() && rc.Call.Method.Name() == "Result" {
				guarded := false
				for _, g := range guardsAt(ret.Block()) {
					if cl, ok := g.Cond.(*ssa.Call); ok && g.Pol && cl.Call.IsInvoke() && cl.Call.Method.Name() == "Match" {
						guarded = true
					}
				}
				if guarded {
					continue
				}
			}
			if cal := staticCallee(rc.Common()); cal != nil {
				defFn = cal
				r.OK("C04.R2", "fall-through consults the default", p.Pos(posOf(ret)), shortName(cal))
				continue
			}
		}
		r.Bad("C04.R2", "fall-through return in "+shortName(sel), p.Pos(posOf(ret)), "a return of the selection function is neither a matched condition's result nor the default consult")
	}
	if defFn == nil {
		r.Bad("C04.R2", "fall-through consults the default", p.Pos(sel.Pos()), "the selection function never consults the default results after the scan")
	} else {
		// default: Result() of the default field; panic when nil and function has results
		hasPanic := false
		eachInstr(defFn, func(i ssa.Instruction) {
			if _, ok := i.(*ssa.Panic); ok {
				// guarded by default == nil
				for _, g := range guardsAt(i.Block()) {
					if bo, ok := g.Cond.(*ssa.BinOp); ok && bo.Op == token.EQL && g.Pol && (isNilConst(bo.X) || isNilConst(bo.Y)) {
						hasPanic = true
					}
				}
				// or the condition is an && chain: look at predecessors' conditions
				for _, pr := range i.Block().Preds {
					for _, g := range guardsAt(pr) {
						if bo, ok := g.Cond.(*ssa.BinOp); ok && bo.Op == token.EQL && g.Pol && (isNilConst(bo.X) || isNilConst(bo.Y)) {
							hasPanic = true
						}
					}
					if iff, ok := pr.Instrs[len(pr.Instrs)-1].(*ssa.If); ok {
						if bo, ok := iff.Cond.(*ssa.BinOp); ok && bo.Op == token.EQL && (isNilConst(bo.X) || isNilConst(bo.Y)) {
							hasPanic = true
						}
					}
				}
			}
		})
		r.Check(hasPanic, "C04.R2", "no-default panic in "+shortName(defFn), p.Pos(defFn.Pos()), "panics when there is no default and the function has results",
			"with no matching condition and no default the stub does not panic: the caller receives garbage (nil results)")
		okRes := false
		for _, ret := range returnsOf(defFn) {
			if rc, ok := retResult(ret, 0).(*ssa.Call); ok && rc.Call.IsInvoke() && rc.Call.Method.Name() == "Result" {
				if _, fv, ok := fieldRef(rc.Call.Value); ok && fv != nil && fv != matchesFld && recvTypeIs(fv, when) {
					okRes = true
				}
			}
		}
		r.Check(okRes, "C04.R2", "default results in "+shortName(defFn), p.Pos(defFn.Pos()), "returns the default matcher's Result()", "the default consult does not return the default matcher's results")
		// ---- R9 what is recorded as the default is unconditional: a matcher whose Match answers true for every call (or nil)
		var defFld *types.Var
		for _, ret := range returnsOf(defFn) {
			if rc, ok := retResult(ret, 0).(*ssa.Call); ok && rc.Call.IsInvoke() && rc.Call.Method.Name() == "Result" {
				if _, fv, ok := fieldRef(rc.Call.Value); ok && fv != nil && fv != matchesFld && recvTypeIs(fv, when) {
					defFld = fv
				}
			}
		}
		if defFld != nil {
			c04DefaultUnconditional(p, r, root, when, defFld)
		}
	}
	// MakeFunc callbacks never return an unselected value
	for _, f := range root {
		for _, cs := range callsTo(f, "reflect.MakeFunc") {
			fnArg := callCommon(cs).Args[1]
			var cb *ssa.Function
			switch x := fnArg.(type) {
			case *ssa.MakeClosure:
				cb, _ = x.Fn.(*ssa.Function)
				// bound method wrapper: find the bound method
				if cb != nil && cb.Synthetic != "" {
					eachInstr(cb, func(i ssa.Instruction) {
						if ci, ok := i.(ssa.CallInstruction); ok {
							if cal := staticCallee(ci.Common()); cal != nil && cal.Blocks != nil {
								cb = cal
							}
						}
					})
				}
			case *ssa.Function:
				cb = x
			}
			if cb == nil || relPkg(cb) != "" || cb.Parent() != nil {
				continue // closures of the debug interceptor are C19's
			}
			usesSel := false
			eachInstr(cb, func(i ssa.Instruction) {
				if ci, ok := i.(ssa.CallInstruction); ok && staticCallee(ci.Common()) == sel {
					usesSel = true
				}
			})
			if !usesSel {
				continue
			}
			okCb := true
			why := ""
			for _, ret := range returnsOf(cb) {
				rv := retResult(ret, 0)
				for _, a := range origins(rv) {
					switch {
					case a.Kind == "call" && isCallToFn(a.V, sel):
						// must be under results != nil
						nn := false
						for _, g := range guardsAt(ret.Block()) {
							if bo, ok := g.Cond.(*ssa.BinOp); ok && ((bo.Op == token.NEQ && g.Pol) || (bo.Op == token.EQL && !g.Pol)) && (isNilConst(bo.X) || isNilConst(bo.Y)) {
								nn = true
							}
						}
						if !nn {
							okCb, why = false, "selected results returned without the non-nil test"
						}
					case a.Kind == "call" && a.Name == "(reflect.Value).Call":
					default:
						okCb, why = false, "returns "+a.String()
					}
				}
			}
			hasPanic := false
			eachInstr(cb, func(i ssa.Instruction) {
				if _, ok := i.(*ssa.Panic); ok {
					hasPanic = true
				}
			})
			r.Check(okCb && hasPanic, "C04.R2", "stub callback "+shortName(cb), p.Pos(cb.Pos()), "returns only selected results (or the un-mocked call when cancelled), panics otherwise",
				"the MakeFunc stub callback can return something other than a selected result ("+why+") or lacks the 'no suitable condition' panic")
		}
	}

	// ---- R2d / R3: Match implementations
	mi := matcherT.Underlying().(*types.Interface)
	_ = mi
	seenM := map[*ssa.Function]bool{}
	for _, n := range matcherImpls(p) {
		mf := declaredMethod(p, n, "Match")
		if mf == nil || mf.Blocks == nil || seenM[mf] {
			continue
		}
		seenM[mf] = true
		// receiver drop
		st, _ := n.Underlying().(*types.Struct)
		hasFlag := false
		if st != nil {
			for i := 0; i < st.NumFields(); i++ {
				if isBool(st.Field(i).Type()) && c04MethodFlag(p, st.Field(i)) {
					hasFlag = true
					fld := st.Field(i)
					okDrop := false
					eachInstr(mf, func(i ssa.Instruction) {
						if sl, ok := i.(*ssa.Slice); ok && sl.X == ssa.Value(mf.Params[1]) {
							lo, okc := constInt(sl.Low)
							if okc && lo == 1 && sl.High == nil {
								if v, k := boolGuardOnField(sl.Block(), fld); k && v {
									okDrop = true
								}
							}
						}
					})
					// and the unsliced parameter is not used for matching afterwards except through the phi
					r.Check(okDrop, "C04.R3", "receiver dropped in "+shortName(mf), p.Pos(mf.Pos()), "args[1:] under the method flag", "the method receiver is not dropped (args[1:]) under the method flag before matching")
				}
			}
		}
		_ = hasFlag
		// conjunction over per-argument expressions
		var evals []*ssa.Call
		eachInstr(mf, func(i ssa.Instruction) {
			if cl, ok := i.(*ssa.Call); ok && cl.Call.IsInvoke() && cl.Call.Method.Name() == "Eval" {
				evals = append(evals, cl)
			}
		})
		for _, ev := range evals {
			if _, ok := ev.Call.Value.(*ssa.UnOp); !ok {
				continue
			}
			ld := ev.Call.Value.(*ssa.UnOp)
			ia, ok := ld.X.(*ssa.IndexAddr)
			if !ok {
				continue // single expression (ContainsMatcher)
			}
			first, step, okL := loopIndex(ia.Index)
			okConj := okL && first == 0 && step == 1
			// argument paired with the same index
			paired := false
			eachInstr(mf, func(i ssa.Instruction) {
				if ia2, ok := i.(*ssa.IndexAddr); ok && ia2 != ia && ia2.Index == ia.Index && i.Block() == ev.Block() {
					paired = true
				}
			})
			// returns: true only when the loop is exhausted; false on first non-match
			for _, ret := range returnsOf(mf) {
				cv, isC := ret.Results[0].(*ssa.Const)
				if !isC {
					okConj = false
					continue
				}
				inLoop := ev.Block().Dominates(ret.Block())
				if cv.Value.String() == "true" && inLoop {
					okConj = false
				}
			}
			hasTrue := false
			for _, ret := range returnsOf(mf) {
				if cv, ok := ret.Results[0].(*ssa.Const); ok && cv.Value.String() == "true" {
					hasTrue = true
				}
			}
			r.Check(okConj && paired && hasTrue, "C04.R2", "conjunction in "+shortName(mf), p.Pos(posOf(ev)), "expression i evaluated on argument i for every i; false on first non-match; true only after all",
				"per-argument matching is not 'every expression i matches argument i' (index pairing, order, or early true)")
			// length agreement check precedes
			okLen := false
			for _, g := range guardsAt(ev.Block()) {
				if bo, ok := g.Cond.(*ssa.BinOp); ok && bo.Op == token.NEQ && !g.Pol {
					if isLenCall(bo.X) && isLenCall(bo.Y) {
						okLen = true
					}
				}
			}
			r.Check(okLen, "C04.R2", "arity test in "+shortName(mf), p.Pos(posOf(ev)), "len(args)==len(exprs) precedes the pairing", "the argument/expression count comparison no longer precedes the pairwise evaluation (index out of range or partial match)")
			// and every `return true` of the matcher lies behind it: no shortcut answers "matched" for a call of another arity
			okArity := true
			for _, ret := range returnsOf(mf) {
				cv, ok := ret.Results[0].(*ssa.Const)
				if !ok || cv.Value == nil || cv.Value.String() != "true" {
					continue
				}
				behind := false
				for _, g := range guardsAt(ret.Block()) {
					if bo, ok := g.Cond.(*ssa.BinOp); ok && isLenCall(bo.X) && isLenCall(bo.Y) {
						if (bo.Op == token.NEQ && !g.Pol) || (bo.Op == token.EQL && g.Pol) {
							behind = true
						}
					}
				}
				if !behind {
					okArity = false
				}
			}
			r.Check(okArity, "C04.R2", "every 'matched' answer of "+shortName(mf)+" lies behind the arity test", p.Pos(mf.Pos()), "return true only where len(args)==len(exprs) is known",
				"the matcher can answer 'matched' without having compared the number of actual arguments with the number of expressions (a shortcut in front of the test): for a variadic function a condition written for n arguments also selects calls with any other number of arguments")
		}
	}

	// ---- R2 (shared with C18.R3): a row of In is compared position by position only with an argument list of exactly its length
	for _, n := range p.namedTypesIn("arg") {
		if ev := declaredMethod(p, n, "Eval"); ev != nil && ev.Blocks != nil {
			checkPairwiseArity(p, r, "C04.R2", ev)
		}
	}

	// ---- R3: the arguments of a condition reach the expression builder as the caller supplied them: the list handed to
	// arg.ToExpr / arg.In in the root package is the constructor's own parameter, not a rebuilt or re-interpreted list
	for _, f := range root {
		for _, cs := range callsTo(f, qual("arg", "ToExpr"), qual("arg", "In")) {
			a0 := callCommon(cs).Args[0]
			okSupplied := true
			for _, a := range origins(a0) {
				switch a.Kind {
				case "param", "field":
				default:
					okSupplied = false
				}
			}
			if sl, isSl := resolveLocal(a0).(*ssa.Slice); isSl {
				_ = sl
			}
			r.Check(okSupplied && len(origins(a0)) > 0, "C04.R3", "condition arguments handed on as supplied in "+shortName(f), p.Pos(posOf(cs)), "the list given to the expression builder is the caller's list",
				"the condition's argument list is rebuilt before it is turned into expressions ("+atomsString(origins(a0))+"): a re-interpreted list (expanded, filtered, defaulted) makes conditions match calls they were not written for, or stop matching the calls they were written for")
		}
	}

	// ---- R5 matching never writes through the shared argument slice
	for _, n := range matcherImpls(p) {
		mf := declaredMethod(p, n, "Match")
		if mf == nil || mf.Blocks == nil || len(mf.Params) < 2 {
			continue
		}
		why := writesThroughParam(p, mf, mf.Params[1])
		r.Check(why == "", "C04.R5", shortName(mf)+" leaves the call arguments untouched", p.Pos(mf.Pos()), "no store/append through the args parameter",
			"Match writes into the argument slice it was given ("+why+"): the same slice is handed to every later-registered condition, which then sees corrupted arguments")
	}

	// ---- R7 mechanics of the unwrapping
	r.Floor("C04.R7", 3)
	c04Unwrap(p, r)
	c04ElemComplete(p, r)
	c04TypeListPadded(p, r)
	r.Floor("C04.R12", 2)
	c04UnwrapFromLast(p, r)
	r.Floor("C04.R8", 3)
	c04FlagAgreement(p, r)
	r.Floor("C04.R10", 4)
	c04ConditionsReachMatcher(p, r, p.NamedType("", "When"))
	// ---- R4 variadic unwrapping confined to the tail
	nUnwrap := 0
	for _, f := range append(append([]*ssa.Function{}, root...), p.FuncsIn("arg")...) {
		k := NewKeyer(f)
		eachInstr(f, func(i ssa.Instruction) {
			cl, ok := i.(*ssa.Call)
			if !ok {
				return
			}
			cn := calleeName(cl.Common())
			switch {
			case cl.Call.IsInvoke() && cl.Call.Method.Name() == "Elem" && strings.HasSuffix(cl.Call.Value.Type().String(), "reflect.Type"):
				if !underVariadic(p, cl.Block()) {
					return
				}
				// receiver must come only from types[len-1]
				var srcs []*ssa.IndexAddr
				collectIndexSources(cl.Call.Value, &srcs, map[ssa.Value]bool{})
				if len(srcs) == 0 {
					return
				}
				nUnwrap++
				ok := true
				for _, ia := range srcs {
					if !indexIsLast(k, ia.Index, ia.X, ia.Block()) && !notBeforeLast(k, ia, cl.Block()) {
						ok = false
					}
				}
				r.Check(ok, "C04.R4", "Type.Elem under variadic in "+shortName(f), p.Pos(posOf(cl)), "applied to the last parameter type only",
					"under the variadic flag Type.Elem() is applied to a parameter type that is not provably the last one: a fixed leading parameter (func(int, ...string)) is unwrapped and panics")
			case cn == "(reflect.Value).Len" || cn == "(reflect.Value).Index":
				var srcs []*ssa.IndexAddr
				collectIndexSources(cl.Call.Args[0], &srcs, map[ssa.Value]bool{})
				if len(srcs) == 0 {
					return
				}
				if !underVariadic(p, cl.Block()) {
					// the converse: an element of the call's argument list is taken apart as a list only for variadic functions
					for _, ia := range srcs {
						isArgList := isValueSlice(ia.X.Type())
						if sl, ok := ia.X.Type().Underlying().(*types.Slice); ok && types.IsInterface(sl.Elem()) && !strings.HasSuffix(sl.Elem().String(), "reflect.Type") && !strings.HasSuffix(sl.Elem().String(), "Expr") {
							isArgList = true // the list of condition values, before conversion
						}
						if isArgList {
							r.Bad("C04.R4", "argument unwrapped only under the variadic flag in "+shortName(f), p.Pos(posOf(cl)),
								"an element of the argument list is taken apart with Value.Len/Index on a path where the function is not known to be variadic: for an ordinary function the last argument is not a packed slice, so the call panics ('Len of int Value') or its elements are matched as separate arguments")
						}
					}
					return
				}
				nUnwrap++
				ok := true
				for _, ia := range srcs {
					if !isValueSlice(ia.X.Type()) {
						continue
					}
					if !indexIsLast(k, ia.Index, ia.X, ia.Block()) {
						ok = false
					}
				}
				r.Check(ok, "C04.R4", "Value.Len/Index under variadic in "+shortName(f), p.Pos(posOf(cl)), "applied to the last argument only",
					"under the variadic flag every call argument is unwrapped with Value.Len/Index, not only the trailing variadic slice: a function with leading fixed parameters panics ('Len of int Value') or mis-matches")
			}
		})
	}
	r.Stat("variadic_unwrap_sites", nUnwrap)
	// the list that was unwrapped never stands in for its own expansion: wherever the unexpanded list U and an expanded
	// (appended) list are merged, U arrives only on edges where the function is not variadic or U is empty
	for _, f := range append(append([]*ssa.Function{}, root...), p.FuncsIn("arg")...) {
		k := NewKeyer(f)
		unexp := map[ssa.Value]bool{}
		eachInstr(f, func(i ssa.Instruction) {
			cl, ok := i.(*ssa.Call)
			if !ok {
				return
			}
			if cn := calleeName(cl.Common()); cn != "(reflect.Value).Len" && cn != "(reflect.Value).Index" {
				return
			}
			if !underVariadic(p, cl.Block()) {
				return
			}
			var srcs []*ssa.IndexAddr
			collectIndexSources(cl.Call.Args[0], &srcs, map[ssa.Value]bool{})
			for _, ia := range srcs {
				if isValueSlice(ia.X.Type()) {
					unexp[resolveLocal(ia.X)] = true
				}
			}
		})
		if len(unexp) == 0 {
			continue
		}
		eachInstr(f, func(i ssa.Instruction) {
			ph, ok := i.(*ssa.Phi)
			if !ok || !isValueSlice(ph.Type()) {
				return
			}
			hasExpanded := false
			for _, e := range ph.Edges {
				for _, a := range origins(e) {
					if cl, ok := a.V.(*ssa.Call); ok {
						if bi, ok := cl.Call.Value.(*ssa.Builtin); ok && bi.Name() == "append" {
							hasExpanded = true
						}
					}
				}
			}
			if !hasExpanded {
				return
			}
			for ei, e := range ph.Edges {
				u := resolveLocal(e)
				if !unexp[u] {
					continue
				}
				gs := knownAtEdge(ph.Block().Preds[ei], ph.Block())
				okEdge := false
				for _, g := range gs {
					if g.Pol {
						continue
					}
					// variadic flag known false
					switch x := g.Cond.(type) {
					case *ssa.Parameter:
						if p.variadicCarriers().params[x] {
							okEdge = true
						}
					case *ssa.UnOp:
						if _, fv, okF := fieldRef(x); okF && fv != nil && p.variadicCarriers().fields[fv] {
							okEdge = true
						}
					}
				}
				if !okEdge {
					m := NewDBM()
					guardListToDBM(m, k, gs)
					if m.EntailsLE(Term{"len(" + k.Key(u) + ")", 0}, Term{"", 0}) {
						okEdge = true
					}
				}
				r.Check(okEdge, "C04.R4", fmt.Sprintf("unexpanded argument list not used as its expansion in %s (way#%d)", shortName(f), ei), p.Pos(posOf(ph)), "the unexpanded list reaches the merge only when not variadic or empty",
					"for a variadic function with a non-empty argument list, the list whose last element is the packed variadic slice is used in place of its expansion on some path (e.g. when the variadic part is empty): the packed slice is counted as an argument, so conditions stop matching or earlier ones match wrongly")
			}
		})
	}
}

func isBool(t types.Type) bool {
	b, ok := t.Underlying().(*types.Basic)
	return ok && b.Kind() == types.Bool
}

func isLenCall(v ssa.Value) bool {
	v = peel(v)
	c, ok := v.(*ssa.Call)
	if !ok {
		return false
	}
	bi, ok := c.Call.Value.(*ssa.Builtin)
	return ok && bi.Name() == "len"
}

func recvTypeIs(fv *types.Var, n *types.Named) bool {
	st, ok := n.Underlying().(*types.Struct)
	if !ok {
		return false
	}
	for i := 0; i < st.NumFields(); i++ {
		if st.Field(i) == fv {
			return true
		}
	}
	return false
}

func isValueSlice(t types.Type) bool {
	sl, ok := t.Underlying().(*types.Slice)
	return ok && strings.HasSuffix(sl.Elem().String(), "reflect.Value")
}

// variadicCarriers computes, by provenance and not by name, the bool parameters and fields that carry "the mocked function
// is variadic": the least set closed under — a value is variadic-derived when each of its origins is Type.IsVariadic(),
// the constant false, a carrier parameter/field, or a result of a module function whose returns are all derived at that
// index; a parameter is a carrier when it has call sites (static or through a module interface) and every one passes a
// derived value; a field is a carrier when every store to it stores a derived value.
type variadicSet struct {
	params map[*ssa.Parameter]bool
	fields map[*types.Var]bool
	res    map[string]bool // fn|idx
}

func (p *Prog) variadicCarriers() *variadicSet {
	if p.vset != nil {
		return p.vset
	}
	var fns []*ssa.Function
	for _, f := range p.Funcs {
		if strings.HasPrefix(pkgPathOf(f), Mod) && f.Blocks != nil {
			fns = append(fns, f)
		}
	}
	sitesOf := map[*ssa.Function][]ssa.CallInstruction{}
	stores := map[*types.Var][]ssa.Value{}
	for _, f := range fns {
		eachInstr(f, func(i ssa.Instruction) {
			switch x := i.(type) {
			case ssa.CallInstruction:
				for _, cal := range p.modCallees(x) {
					sitesOf[cal] = append(sitesOf[cal], x)
				}
			case *ssa.Store:
				if fa, ok := x.Addr.(*ssa.FieldAddr); ok {
					if fv := fieldVar(fa.X.Type(), fa.Field); fv != nil && isBool(fv.Type()) {
						stores[fv] = append(stores[fv], x.Val)
					}
				}
			}
		})
	}
	rkey := func(f *ssa.Function, k int) string { return fmt.Sprintf("%p|%d", f, k) }
	// classify the origins of a value with respect to a candidate set: ok = every origin is admissible,
	// src = some origin is a real source or a member accepted by isMember
	classify := func(v ssa.Value, vs *variadicSet) (ok, src bool) {
		ats := origins(v)
		if len(ats) == 0 {
			return false, false
		}
		ok = true
		for _, a := range ats {
			switch x := a.V.(type) {
			case *ssa.Const:
				if x.Value == nil || !isBool(x.Type()) || constant.BoolVal(x.Value) {
					ok = false
				}
				continue
			case *ssa.Parameter:
				if vs.params[x] {
					src = true
				} else {
					ok = false
				}
				continue
			}
			if _, fv, isF := fieldRef(a.V); isF && fv != nil && a.Kind == "field" {
				if vs.fields[fv] {
					src = true
				} else {
					ok = false
				}
				continue
			}
			var call *ssa.Call
			idx := 0
			switch x := a.V.(type) {
			case *ssa.Call:
				call = x
			case *ssa.Extract:
				call, _ = x.Tuple.(*ssa.Call)
				idx = x.Index
			}
			if call == nil {
				ok = false
				continue
			}
			if call.Call.IsInvoke() && call.Call.Method.Name() == "IsVariadic" && strings.HasSuffix(call.Call.Value.Type().String(), "reflect.Type") {
				src = true
				continue
			}
			if cal := staticCallee(call.Common()); cal != nil && vs.res[rkey(cal, idx)] {
				src = true
			} else {
				ok = false
			}
		}
		return
	}
	argAt := func(ci ssa.CallInstruction, k int) ssa.Value {
		args := ci.Common().Args
		if ci.Common().IsInvoke() {
			k--
		}
		if k < 0 || k >= len(args) {
			return nil
		}
		return args[k]
	}
	// phase 1: greatest fixpoint — start from every bool parameter (with call sites), field (with stores) and result
	all := &variadicSet{map[*ssa.Parameter]bool{}, map[*types.Var]bool{}, map[string]bool{}}
	for _, f := range fns {
		for _, pr := range f.Params {
			if isBool(pr.Type()) && len(sitesOf[f]) > 0 {
				all.params[pr] = true
			}
		}
		for k := 0; k < f.Signature.Results().Len(); k++ {
			if isBool(f.Signature.Results().At(k).Type()) {
				all.res[rkey(f, k)] = true
			}
		}
	}
	for fv := range stores {
		all.fields[fv] = true
	}
	for changed := true; changed; {
		changed = false
		for _, f := range fns {
			for k, pr := range f.Params {
				if !all.params[pr] {
					continue
				}
				for _, ci := range sitesOf[f] {
					a := argAt(ci, k)
					if a == nil {
						delete(all.params, pr)
						changed = true
						break
					}
					if ok, _ := classify(a, all); !ok {
						delete(all.params, pr)
						changed = true
						break
					}
				}
			}
			for k := 0; k < f.Signature.Results().Len(); k++ {
				if !all.res[rkey(f, k)] {
					continue
				}
				for _, ret := range returnsOf(f) {
					if ok, _ := classify(retResult(ret, k), all); !ok {
						delete(all.res, rkey(f, k))
						changed = true
						break
					}
				}
			}
		}
		for fv, vals := range stores {
			if !all.fields[fv] {
				continue
			}
			for _, v := range vals {
				if ok, _ := classify(v, all); !ok {
					delete(all.fields, fv)
					changed = true
					break
				}
			}
		}
	}
	// phase 2: grounding — keep only members some of whose sources lead back to Type.IsVariadic()
	vs := &variadicSet{map[*ssa.Parameter]bool{}, map[*types.Var]bool{}, map[string]bool{}}
	for changed := true; changed; {
		changed = false
		for _, f := range fns {
			for k, pr := range f.Params {
				if !all.params[pr] || vs.params[pr] {
					continue
				}
				for _, ci := range sitesOf[f] {
					if _, src := classify(argAt(ci, k), vs); src {
						vs.params[pr] = true
						changed = true
						break
					}
				}
			}
			for k := 0; k < f.Signature.Results().Len(); k++ {
				if !all.res[rkey(f, k)] || vs.res[rkey(f, k)] {
					continue
				}
				for _, ret := range returnsOf(f) {
					if _, src := classify(retResult(ret, k), vs); src {
						vs.res[rkey(f, k)] = true
						changed = true
						break
					}
				}
			}
		}
		for fv, vals := range stores {
			if !all.fields[fv] || vs.fields[fv] {
				continue
			}
			for _, v := range vals {
				if _, src := classify(v, vs); src {
					vs.fields[fv] = true
					changed = true
					break
				}
			}
		}
	}
	p.vset = vs
	if os.Getenv("GOOMVET_DEBUG") != "" {
		vs.dump(p)
	}
	return vs
}

// underVariadic: block runs only under a true bool condition that carries the variadic flag (see variadicCarriers),
// or under the result of Type.IsVariadic().
// underVariadic: block b runs only for variadic functions — under a true variadic flag in its own function, or in a
// function every module call site of which (at least one) is itself under the flag.
func underVariadic(p *Prog, b *ssa.BasicBlock) bool {
	return underVariadicDepth(p, b, 0)
}

func underVariadicDepth(p *Prog, b *ssa.BasicBlock, depth int) bool {
	if underVariadicLocal(p, b) {
		return true
	}
	if depth >= 3 {
		return false
	}
	f := b.Parent()
	sites := p.callersOf(f)
	if len(sites) == 0 {
		return false
	}
	for _, cs := range sites {
		if cs.Instr.Block() == nil || !underVariadicDepth(p, cs.Instr.Block(), depth+1) {
			return false
		}
	}
	return true
}

func underVariadicLocal(p *Prog, b *ssa.BasicBlock) bool {
	vs := p.variadicCarriers()
	for _, g := range guardsAt(b) {
		if !g.Pol {
			continue
		}
		switch x := g.Cond.(type) {
		case *ssa.Parameter:
			if vs.params[x] {
				return true
			}
		case *ssa.UnOp:
			if _, fv, ok := fieldRef(x); ok && fv != nil && vs.fields[fv] {
				return true
			}
		case *ssa.Call:
			if x.Call.IsInvoke() && x.Call.Method.Name() == "IsVariadic" {
				return true
			}
		case *ssa.Extract:
			if cl, ok := x.Tuple.(*ssa.Call); ok {
				if cal := staticCallee(cl.Common()); cal != nil && vs.res[fmt.Sprintf("%p|%d", cal, x.Index)] {
					return true
				}
			}
		}
	}
	return false
}

func collectIndexSources(v ssa.Value, out *[]*ssa.IndexAddr, seen map[ssa.Value]bool) {
	if v == nil || seen[v] {
		return
	}
	seen[v] = true
	switch x := v.(type) {
	case *ssa.Phi:
		for _, e := range x.Edges {
			collectIndexSources(e, out, seen)
		}
	case *ssa.UnOp:
		if x.Op == token.MUL {
			if ia, ok := x.X.(*ssa.IndexAddr); ok {
				*out = append(*out, ia)
			}
			if a, ok := x.X.(*ssa.Alloc); ok {
				for _, ref := range *a.Referrers() {
					if st, ok := ref.(*ssa.Store); ok && st.Addr == a {
						collectIndexSources(st.Val, out, seen)
					}
				}
			}
		}
	case *ssa.Call:
		cn := calleeName(x.Common())
		if cn == "reflect.ValueOf" || cn == "(reflect.Value).Interface" {
			collectIndexSources(x.Call.Args[0], out, seen)
		}
	case *ssa.MakeInterface:
		collectIndexSources(x.X, out, seen)
	case *ssa.ChangeType:
		collectIndexSources(x.X, out, seen)
	}
}

// notBeforeLast: at block b it is known that the index of ia is >= len-1 (the "i < len-1" branch was not taken).
func notBeforeLast(k *Keyer, ia *ssa.IndexAddr, b *ssa.BasicBlock) bool {
	m := NewDBM()
	guardsToDBM(m, k, b)
	it := k.TermOf(ia.Index)
	lt := Term{"len(" + k.Key(ia.X) + ")", -1}
	return m.EntailsLE(lt, it)
}

// writesThroughParam reports a store into, or an append onto, memory rooted at slice parameter prm ("" if none).
func writesThroughParam(p *Prog, fn *ssa.Function, prm *ssa.Parameter) string {
	why := ""
	eachInstr(fn, func(i ssa.Instruction) {
		switch x := i.(type) {
		case *ssa.Store:
			if ia, ok := x.Addr.(*ssa.IndexAddr); ok && rootedAt(ia.X, prm, map[ssa.Value]bool{}) {
				why = "element store at " + p.Pos(posOf(i))
			}
		case *ssa.Call:
			if bi, ok := x.Call.Value.(*ssa.Builtin); ok {
				switch bi.Name() {
				case "append":
					if rootedAt(x.Call.Args[0], prm, map[ssa.Value]bool{}) {
						why = "append onto a (re)slice of the parameter at " + p.Pos(posOf(i)) + " writes into its backing array when capacity allows"
					}
				case "copy":
					if rootedAt(x.Call.Args[0], prm, map[ssa.Value]bool{}) {
						why = "copy into the parameter at " + p.Pos(posOf(i))
					}
				}
			}
		}
	})
	return why
}

// isCallToFn: v is a call (or a result extracted from a call) whose static callee is f.
func isCallToFn(v ssa.Value, f *ssa.Function) bool {
	if ex, ok := v.(*ssa.Extract); ok {
		v = ex.Tuple
	}
	cl, ok := v.(*ssa.Call)
	return ok && f != nil && staticCallee(cl.Common()) == f
}

// c04MethodFlag: the bool field of a matcher that records "the mocked function is a method". It is identified by its
// provenance, not its name: it is the bool field a constructor fills directly from one of its bool parameters (the
// variadic flag is computed from the function type instead).
func c04MethodFlag(p *Prog, fld *types.Var) bool {
	for _, fs := range storesToField(p.FuncsIn(""), func(fv *types.Var, _ ssa.Value) bool { return fv == fld }) {
		if pr, ok := resolveLocal(fs.Store.Val).(*ssa.Parameter); ok && isBool(pr.Type()) {
			return true
		}
	}
	return false
}

func (vs *variadicSet) dump(p *Prog) {
	for pr := range vs.params {
		fmt.Println("  carrier param", shortName(pr.Parent()), pr.Name())
	}
	for fv := range vs.fields {
		fmt.Println("  carrier field", fv.Name())
	}
	for f := range p.Funcs {
		_ = f
	}
}

func (p *Prog) namedTypesIn(rel string) []*types.Named {
	pk := p.Pkg(rel)
	if pk == nil {
		return nil
	}
	return namedTypesOf(pk.Types)
}

// checkPairwiseArity: wherever expression L[i] is evaluated on argument A[i] (same index value, same block), the
// conditions that dominate the evaluation entail len(L) == len(A): a shorter row must not match on a prefix of the
// arguments and a longer one must not index past them.
func checkPairwiseArity(p *Prog, r *Report, rule string, fn *ssa.Function) {
	eachInstr(fn, func(i ssa.Instruction) {
		ev, ok := i.(*ssa.Call)
		if !ok || !ev.Call.IsInvoke() || ev.Call.Method.Name() != "Eval" {
			return
		}
		ld, ok := ev.Call.Value.(*ssa.UnOp)
		if !ok {
			return
		}
		ia, ok := ld.X.(*ssa.IndexAddr)
		if !ok {
			return
		}
		var other *ssa.IndexAddr
		eachInstr(fn, func(j ssa.Instruction) {
			if ia2, ok := j.(*ssa.IndexAddr); ok && ia2 != ia && ia2.Index == ia.Index && j.Block() == ev.Block() {
				if isValueSlice(ia2.X.Type()) {
					other = ia2
				}
			}
		})
		if other == nil {
			return
		}
		k := NewKeyer(fn)
		m := NewDBM()
		guardsToDBM(m, k, ev.Block())
		lenL := Term{"len(" + k.Key(ia.X) + ")", 0}
		lenA := Term{"len(" + k.Key(other.X) + ")", 0}
		eq := m.EntailsLE(lenL, lenA) && m.EntailsLE(lenA, lenL)
		r.Check(eq, rule, "row arity equals argument count in "+shortName(fn), p.Pos(posOf(ev)), "len(expressions) == len(arguments) dominates the position-wise evaluation",
			"a group of expressions is evaluated position by position without a dominating test that it has exactly as many expressions as there are arguments: a shorter In-row matches on a prefix of the call's arguments (or a longer one indexes past them)")
	})
}


// c04MatchedReturns: from the edge taken when the Match call mc returned true, every path ends in a return of
// Result() invoked on the same list element; branches whose condition is already decided by what is known on that edge
// (the loop's own bound test, repeated after the loop) are followed only on the decided side; coming back to the Match
// (continuing the scan after a match) fails.
func c04MatchedReturns(mc *ssa.Call, from, first *ssa.BasicBlock) bool {
	facts := append(guardsAt(from), Guard{Cond: mc, Pol: true})
	seen := map[*ssa.BasicBlock]bool{}
	ok := true
	nRet := 0
	var walk func(b *ssa.BasicBlock)
	walk = func(b *ssa.BasicBlock) {
		if !ok || seen[b] {
			return
		}
		if b == mc.Block() {
			ok = false
			return
		}
		seen[b] = true
		switch t := b.Instrs[len(b.Instrs)-1].(type) {
		case *ssa.Return:
			good := false
			if len(t.Results) == 1 {
				if rc, isC := retResult(t, 0).(*ssa.Call); isC && rc.Call.IsInvoke() && rc.Call.Method.Name() == "Result" &&
					(rc.Call.Value == mc.Call.Value || sameCondExpr(rc.Call.Value, mc.Call.Value, 0)) {
					good = true
					nRet++
				}
			}
			if !good {
				ok = false
			}
		case *ssa.If:
			for _, f := range facts {
				if f.Cond == t.Cond || sameCondExpr(f.Cond, t.Cond, 0) {
					if f.Pol {
						walk(b.Succs[0])
					} else {
						walk(b.Succs[1])
					}
					return
				}
			}
			walk(b.Succs[0])
			walk(b.Succs[1])
		case *ssa.Jump:
			walk(b.Succs[0])
		default:
			ok = false // panic: a matched condition must yield its result
		}
	}
	walk(first)
	return ok && nRet > 0
}
