package main

import (
	"fmt"
	"go/token"
	"go/types"
	"os"
	"strings"

	"golang.org/x/tools/go/ssa"
)

func init() { register("C07", c07) }

func c07(c *Ctx) {
	p, r := c.K1(), c.R
	// R7: cancelling an interface mock always records it (C12.R5): a Cancel that returns early keeps the cached context
	// alive and the next Reset is swallowed
	if !c.importing {
		importSibling(c, "C12", "C07.R7", func(rule string) bool { return rule == "C12.R5" })
		// R8: the stub in each slot loads the callback's func value into the context register and jumps through it, for
		// every 64-bit address (C15: emitted byte templates)
		importSibling(c, "C15", "C07.R8", func(rule string) bool { return rule == "C15.A1" || rule == "C15.E" || rule == "C15.A3" })
	}
	r.Expl = "Structural clauses behind 'interface-variable mocks dispatch each method to its own replacement and restore': every pointer embedded into a generated stub is extracted from a value that is, on the same path, added by an accumulating store (append / map insert) to memory reachable from the mock context that the interface variable's data word points to (a plain field overwrite loses the previous stub's closure); the builder's interface-mocker cache key depends on the variable's address and not on Type.String(); every slot of the fabricated method table is defaulted to the not-implemented routine by a loop over the whole table, and the mocked slot is the index whose method name equals the requested one; the variable's words are backed up first-write-wins and Cancel writes exactly them back; allocator errors reach the caller. That the stub code works and GC behaviour itself are not decided."
	r.RuleText = "one obligation per (rule, embed site / key / loop / store)"
	r.Floor("C07.R1", 2)
	r.Floor("C07.R2", 1)
	r.Floor("C07.R3", 3)
	r.Floor("C07.R4", 3)
	r.Floor("C07.R5", 2)
	r.Floor("C07.R6", 2)
	ifns := p.FuncsIn("internal/iface")
	// ---- R1 retention of stub-embedded pointers
	var makers []*ssa.Function // functions whose unsafe.Pointer parameter reaches the stub emitter
	for _, f := range ifns {
		if f.Object() != nil && strings.HasPrefix(f.Name(), "MakeMethodCaller") {
			makers = append(makers, f)
		}
	}
	ctxT := p.NamedType("internal/iface", "IContext")
	pctxT := p.NamedType("internal/iface", "PContext")
	nEmbed := 0
	for _, f := range ifns {
		for _, mk := range makers {
			for _, cs := range callsTo(f, mk.Object().(*types.Func).FullName()) {
				nEmbed++
				ptrArg := callCommon(cs).Args[0]
				// ptrArg = field Ptr of a hack.Value view over a local reflect.Value V
				var holder *ssa.Alloc
				for _, a := range origins(ptrArg) {
					if b, fv, ok := fieldRef(a.V); ok && fv != nil && fv.Name() == "Ptr" {
						if cv, ok := peel(b).(*ssa.Alloc); ok {
							holder = cv
						} else if cv2, ok := b.(*ssa.Convert); ok {
							if cv3, ok := cv2.X.(*ssa.Convert); ok {
								holder, _ = cv3.X.(*ssa.Alloc)
							}
						}
					}
				}
				cons := "pointer embedded via " + mk.Name() + " in " + shortName(f)
				if holder == nil {
					r.Und("C07.R1", cons, p.Pos(posOf(cs)), "cannot identify the value the embedded pointer was extracted from")
					continue
				}
				// the value stored in holder (the reflect.Value), and what it was made from
				var srcs []ssa.Value
				for _, ref := range *holder.Referrers() {
					if st, ok := ref.(*ssa.Store); ok && st.Addr == ssa.Value(holder) {
						srcs = append(srcs, st.Val)
						if cl, ok := st.Val.(*ssa.Call); ok && calleeName(cl.Common()) == "reflect.ValueOf" {
							srcs = append(srcs, cl.Call.Args[0], peel(cl.Call.Args[0]))
						}
					}
				}
				isSrc := func(v ssa.Value) bool {
					for _, s := range srcs {
						if v == s {
							return true
						}
					}
					return false
				}
				// accumulating store into memory reachable from the context parameter
				kept, overwritten := false, false
				eachInstr(f, func(i ssa.Instruction) {
					switch x := i.(type) {
					case *ssa.Store:
						fa, ok := x.Addr.(*ssa.FieldAddr)
						if !ok || !reachesContext(fa.X, ctxT, pctxT) {
							return
						}
						if !dependsOn(x.Val, isSrc) {
							return
						}
						// must be append(load(same field), …src…) and be on the embed's path
						if cl, ok := x.Val.(*ssa.Call); ok {
							if bi, ok := cl.Call.Value.(*ssa.Builtin); ok && bi.Name() == "append" {
								if _, fv, ok := fieldRef(cl.Call.Args[0]); ok && fv == fieldVar(fa.X.Type(), fa.Field) {
									if samePath(cs, i) {
										kept = true
									}
									return
								}
							}
						}
						if samePath(cs, i) {
							overwritten = true
						}
					case *ssa.MapUpdate:
						if b, _, ok := fieldRef(x.Map); ok && reachesContext(b, ctxT, pctxT) && dependsOn(x.Value, isSrc) && samePath(cs, i) {
							kept = true
						}
					}
				})
				why := "the callback/MakeFunc value whose data pointer is embedded in the stub is not stored anywhere reachable from the mock context: once the builder is dropped a GC frees it and the stub jumps through freed memory"
				if overwritten && !kept {
					why = "the value whose data pointer is embedded in the stub is kept by a plain field overwrite: mocking a second method drops the first method's closure, which is then collected while its stub is still installed"
				}
				r.Check(kept, "C07.R1", cons, p.Pos(posOf(cs)), "value appended to a context-owned list on the same path", why)
			}
		}
	}
	r.Stat("stub_embed_sites", nEmbed)
	// the fabricated itab/iface is cached in the context (kept alive) and its data word is the context
	if pi := p.Fn("internal/proxy", "Interface"); pi != nil {
		okCache := false
		eachInstr(pi, func(i ssa.Instruction) {
			if cl, ok := i.(*ssa.Call); ok {
				if cal := staticCallee(cl.Common()); cal != nil && cal.Name() == "Cache" && relPkg(cal) == "internal/iface" {
					for _, a := range origins(cl.Call.Args[2]) {
						if a.Kind == "call" && strings.HasSuffix(a.Name, "MakeInterface") {
							okCache = true
						}
					}
				}
			}
		})
		r.Check(okCache, "C07.R1", "fabricated method table cached in the context", p.Pos(pi.Pos()), "ctx.Cache(key, MakeInterface(...))", "the fabricated itab is not retained by the context")
	}
	if mi := p.Fn("internal/iface", "MakeInterface"); mi != nil {
		okData := false
		eachInstr(mi, func(i ssa.Instruction) {
			if st, ok := i.(*ssa.Store); ok {
				if fa, ok := st.Addr.(*ssa.FieldAddr); ok && fieldVar(fa.X.Type(), fa.Field).Name() == "Data" {
					if cv, ok := st.Val.(*ssa.Convert); ok && cv.X == ssa.Value(mi.Params[0]) {
						okData = true
					}
				}
			}
		})
		r.Check(okData, "C07.R1", "variable's data word is the context", p.Pos(mi.Pos()), "Data = unsafe.Pointer(ctx)", "the fabricated interface value's data word is not the mock context: nothing the variable holds keeps the stubs' closures reachable")
	}

	// ---- R2 per-variable identity
	checkIdentityKeys(p, r, "C07.R2", func(f *ssa.Function) bool { return f.Name() == "Interface" }, true)

	// ---- R3 every slot defaulted; mocked slot index
	if mi := p.Fn("internal/iface", "MakeInterface"); mi != nil {
		var table *ssa.Alloc
		eachInstr(mi, func(i ssa.Instruction) {
			if a, ok := i.(*ssa.Alloc); ok {
				if at, ok := a.Type().(*types.Pointer).Elem().Underlying().(*types.Array); ok && isUintptr(at.Elem()) {
					table = a
				}
			}
		})
		// the itab handed out is a fresh allocation of this call (never shared package-level state)
		freshTab := true
		nTabStores := 0
		sharedWhy := ""
		eachInstr(mi, func(i ssa.Instruction) {
			if st, ok := i.(*ssa.Store); ok {
				if fa, ok := st.Addr.(*ssa.FieldAddr); ok && fieldVar(fa.X.Type(), fa.Field).Name() == "Tab" {
					nTabStores++
					as := origins(st.Val)
					if len(as) == 0 {
						freshTab = false
					}
					for _, a := range as {
						if a.Kind != "alloc" {
							freshTab = false
							sharedWhy = a.String()
						}
					}
				}
			}
		})
		if nTabStores == 0 {
			freshTab = false
		}
		r.Check(freshTab, "C07.R3", "fabricated method table is private to the variable", p.Pos(mi.Pos()), "Tab is a fresh allocation per MakeInterface call",
			"the fabricated itab comes from shared state ("+sharedWhy+") instead of a fresh allocation: all variables of one interface type share one method table, so mocking a method on one variable redirects the others and slots mocked earlier stay filled")
		// the method table: a local uintptr array, or the uintptr-array field of the itab allocated in this call
		var tableIAs []*ssa.IndexAddr
		var n int64
		if table != nil {
			n = table.Type().(*types.Pointer).Elem().Underlying().(*types.Array).Len()
			for _, ref := range *table.Referrers() {
				if ia, ok := ref.(*ssa.IndexAddr); ok {
					tableIAs = append(tableIAs, ia)
				}
			}
		} else {
			eachInstr(mi, func(i ssa.Instruction) {
				ia, ok := i.(*ssa.IndexAddr)
				if !ok {
					return
				}
				fa, ok := ia.X.(*ssa.FieldAddr)
				if !ok {
					return
				}
				at, ok := fa.Type().(*types.Pointer).Elem().Underlying().(*types.Array)
				if !ok || !isUintptr(at.Elem()) {
					return
				}
				if al, ok := resolveLocal(fa.X).(*ssa.Alloc); ok && al.Heap {
					tableIAs = append(tableIAs, ia)
					n = at.Len()
				}
			})
		}
		// a package-level value only the initialiser writes stands for what it was initialised with
		initValue := func(v ssa.Value) ssa.Value {
			ld, ok := v.(*ssa.UnOp)
			if !ok || ld.Op != token.MUL {
				return v
			}
			g, ok := ld.X.(*ssa.Global)
			if !ok {
				return v
			}
			var stored ssa.Value
			cnt := 0
			for _, fn := range p.Funcs {
				if fn.Blocks == nil || fn.Pkg != g.Pkg {
					continue
				}
				eachInstr(fn, func(i ssa.Instruction) {
					if st, ok := i.(*ssa.Store); ok && st.Addr == ssa.Value(g) {
						cnt++
						if isPkgInit(fn) {
							stored = st.Val
						}
					}
				})
			}
			if cnt == 1 && stored != nil {
				return stored
			}
			return v
		}
		if len(tableIAs) == 0 {
			r.Und("C07.R3", "method table in MakeInterface", p.Pos(mi.Pos()), "no local uintptr array")
		} else {
			okLoop, okSlot := false, false
			var loopStore, slotStore *ssa.Store
			for _, ia := range tableIAs {
				for _, r2 := range *ia.Referrers() {
					st, ok := r2.(*ssa.Store)
					if !ok {
						continue
					}
					if first, step, ok := loopIndex(ia.Index); ok && first == 0 && step == 1 {
						// bound: i < N
						for _, g := range guardsAt(st.Block()) {
							if bo, ok := g.Cond.(*ssa.BinOp); ok && bo.Op == token.LSS && g.Pol && bo.X == ia.Index {
								if cv, ok := constInt(bo.Y); ok && cv == n {
									// stored value: Pointer() of the not-implemented routine
									for _, a := range origins(initValue(resolveLocal(st.Val))) {
										if cl, ok := a.V.(*ssa.Call); ok && calleeName(cl.Common()) == "(reflect.Value).Pointer" {
											okLoop, loopStore = true, st
										}
									}
								}
							}
						}
					}
					if pr, ok := resolveLocal(ia.Index).(*ssa.Parameter); ok && resolveLocal(st.Val) == ssa.Value(mi.Params[2]) && pr == mi.Params[1] {
						okSlot, slotStore = true, st
					}
				}
			}
			if !okLoop {
				// the table starts as a copy of a package-level template that is filled, slot by slot, exactly once
				if cp := templateCopy(p, mi, table, n); cp != nil {
					okLoop, loopStore = true, cp
				}
			}
			// the routine the slots default to: every function of package iface whose address is taken with
			// reflect.ValueOf(f).Pointer() for that purpose never returns normally — it panics on every path
			for _, f2 := range p.FuncsIn("internal/iface") {
				eachInstr(f2, func(i ssa.Instruction) {
					cl, ok := i.(*ssa.Call)
					if !ok || calleeName(cl.Common()) != "reflect.ValueOf" {
						return
					}
					fn, ok := peel(cl.Call.Args[0]).(*ssa.Function)
					if !ok || fn.Blocks == nil || relPkg(fn) != "internal/iface" || fn.Signature.Params().Len() != 0 || fn.Signature.Results().Len() != 0 {
						return
					}
					// its Pointer() is what is stored
					usedAsDefault := false
					for _, ref := range *cl.Referrers() {
						if c2, ok := ref.(*ssa.Call); ok && calleeName(c2.Common()) == "(reflect.Value).Pointer" {
							usedAsDefault = true
						}
					}
					if !usedAsDefault {
						return
					}
					panics := len(returnsOf(fn)) == 0
					hasPanic := false
					eachInstr(fn, func(j ssa.Instruction) {
						if _, ok := j.(*ssa.Panic); ok {
							hasPanic = true
						}
					})
					r.Check(panics && hasPanic, "C07.R3", "default routine "+shortName(fn)+" panics", p.Pos(fn.Pos()), "no normal return",
						"the routine every un-mocked slot points to can return normally: calling a method that was not mocked silently returns garbage instead of panicking with 'method not implements'")
				})
			}
			r.Check(okLoop, "C07.R3", "every slot defaulted in MakeInterface", p.Pos(mi.Pos()), "for i in 0..len(table): table[i] = notImplemented", "not every slot of the fabricated method table is defaulted to the not-implemented routine: calling an un-mocked method jumps to address 0 / garbage instead of panicking with 'method not implements'")
			after := okLoop && okSlot && loopStore != nil && slotStore != nil && !reachableAfter(slotStore, loopStore)
			r.Check(okSlot && after, "C07.R3", "mocked slot set after defaulting in MakeInterface", p.Pos(mi.Pos()), "table[index] = stub after the default loop", "the mocked slot is not stored at the requested index after the defaulting loop (it is overwritten by the default or stored elsewhere)")
			// the table handed out is this table
			okUse := false
			if table == nil {
				// filled in place: the itab whose Fun field was filled is the one stored as Tab
				for _, ia := range tableIAs {
					al, _ := resolveLocal(ia.X.(*ssa.FieldAddr).X).(*ssa.Alloc)
					eachInstr(mi, func(i ssa.Instruction) {
						if st, ok := i.(*ssa.Store); ok && al != nil {
							if fa, ok := st.Addr.(*ssa.FieldAddr); ok && fieldVar(fa.X.Type(), fa.Field).Name() == "Tab" && resolveLocal(st.Val) == ssa.Value(al) {
								okUse = true
							}
						}
					})
				}
			}
			eachInstr(mi, func(i ssa.Instruction) {
				if st, ok := i.(*ssa.Store); ok {
					if fa, ok := st.Addr.(*ssa.FieldAddr); ok && fieldVar(fa.X.Type(), fa.Field).Name() == "Fun" {
						if ld, ok := st.Val.(*ssa.UnOp); ok && table != nil && ld.X == ssa.Value(table) {
							okUse = true
						}
					}
				}
			})
			r.Check(okUse, "C07.R3", "fabricated itab uses the defaulted table", p.Pos(mi.Pos()), "Itab.Fun = table", "the fabricated itab does not carry the defaulted table")
		}
	}
	// index = position whose method name equals the requested one
	for _, f := range p.FuncsIn("internal/proxy") {
		eachInstr(f, func(i ssa.Instruction) {
			bo, ok := i.(*ssa.BinOp)
			if !ok || bo.Op != token.EQL {
				return
			}
			isName := func(v ssa.Value) (ssa.Value, bool) {
				if b, fv, ok := fieldRef(v); ok && fv != nil && fv.Name() == "Name" {
					for _, a := range origins(b) {
						if cl, ok := a.V.(*ssa.Call); ok && cl.Call.IsInvoke() && cl.Call.Method.Name() == "Method" {
							return cl.Call.Args[0], true
						}
					}
				}
				if fl, ok := v.(*ssa.Field); ok {
					if cl, ok := fl.X.(*ssa.Call); ok && cl.Call.IsInvoke() && cl.Call.Method.Name() == "Method" {
						if fv := fieldVar(fl.X.Type(), fl.Field); fv != nil && fv.Name() == "Name" {
							return cl.Call.Args[0], true
						}
					}
				}
				return nil, false
			}
			idx, okN := isName(bo.X)
			other := bo.Y
			if !okN {
				idx, okN = isName(bo.Y)
				other = bo.X
			}
			if !okN {
				return
			}
			_, isP := resolveLocal(other).(*ssa.Parameter)
			// the index returned on the true edge is the compared index
			okRet := false
			for _, ret := range returnsOf(f) {
				for _, a := range origins(retResult(ret, 0)) {
					if a.V == idx || resolveLocal(a.V) == resolveLocal(idx) {
						okRet = true
					}
				}
				if resolveLocal(retResult(ret, 0)) == resolveLocal(idx) {
					okRet = true
				}
				if ph, ok := retResult(ret, 0).(*ssa.Phi); ok {
					for _, e := range ph.Edges {
						if e == idx {
							okRet = true
						}
					}
				}
			}
			first, step, okL := loopIndex(idx)
			r.Check(isP && okRet && okL && first == 0 && step == 1, "C07.R3", "slot index = index of the method named as requested in "+shortName(f), p.Pos(posOf(bo)), "i with typ.Method(i).Name == method",
				"the slot index is not the index i for which typ.Method(i).Name equals the requested method: another method's slot receives the stub")
		})
	}
	// cached path writes the same index
	if pi := p.Fn("internal/proxy", "Interface"); pi != nil {
		var idxCall *ssa.Call
		eachInstr(pi, func(i ssa.Instruction) {
			if cl, ok := i.(*ssa.Call); ok {
				// the index finder: result #0 is the integer index (a second result may report whether the name was found)
				if cal := staticCallee(cl.Common()); cal != nil && relPkg(cal) == "internal/proxy" && cal.Signature.Results().Len() >= 1 && cal.Signature.Results().Len() <= 2 && isIntegerType(cal.Signature.Results().At(0).Type()) {
					if cal.Signature.Results().Len() == 1 || isBool(cal.Signature.Results().At(1).Type()) {
						idxCall = cl
					}
				}
			}
		})
		okIdx := idxCall != nil
		isIdx := func(v ssa.Value) bool {
			v = resolveLocal(v)
			if v == ssa.Value(idxCall) {
				return true
			}
			ex, ok := v.(*ssa.Extract)
			return ok && ex.Tuple == ssa.Value(idxCall) && ex.Index == 0
		}
		eachInstr(pi, func(i ssa.Instruction) {
			if ia, ok := i.(*ssa.IndexAddr); ok {
				if _, fv, ok := fieldRef(ia.X); ok && fv != nil && fv.Name() == "Fun" {
					if !isIdx(ia.Index) {
						okIdx = false
					}
				}
			}
			if cl, ok := i.(*ssa.Call); ok && strings.HasSuffix(calleeName(cl.Common()), "MakeInterface") {
				if !isIdx(cl.Call.Args[1]) {
					okIdx = false
				}
			}
		})
		// and on every successful way out the fabricated interface value has been written into the variable (on the
		// cached path too: the variable may have been reassigned since the first method was mocked)
		varP := pi.Params[0]
		isVar := func(v ssa.Value) bool { return v == ssa.Value(varP) }
		writesThrough := func(cal *ssa.Function, k int) bool {
			if cal == nil || cal.Blocks == nil || k >= len(cal.Params) {
				return false
			}
			prm := cal.Params[k]
			w := false
			eachInstr(cal, func(i ssa.Instruction) {
				if st, ok := i.(*ssa.Store); ok && addrDerivedFrom(st.Addr, prm, 0) {
					w = true
				}
			})
			return w
		}
		// the variable's address as an untyped pointer
		var gens []ssa.Value
		eachInstr(pi, func(i ssa.Instruction) {
			if v, ok := i.(ssa.Value); ok && v.Type().String() == "unsafe.Pointer" && dependsOn(v, isVar) {
				gens = append(gens, v)
			}
		})
		isApply := func(j ssa.Instruction) bool {
			switch x := j.(type) {
			case *ssa.Store:
				for _, g := range gens {
					if addrDerivedFrom(x.Addr, g, 0) {
						return true
					}
				}
				return false
			case *ssa.Call:
				cal := staticCallee(x.Common())
				for k, a := range x.Call.Args {
					if a.Type().String() == "unsafe.Pointer" && dependsOn(a, isVar) && writesThrough(cal, k) {
						return true
					}
				}
			}
			return false
		}
		if os.Getenv("GOOMVET_DEBUG") != "" {
			eachInstr(pi, func(i ssa.Instruction) {
				if isApply(i) {
					fmt.Println("C07 apply:", i.String(), p.Pos(posOf(i)))
				}
			})
		}
		okWritten := true
		for _, ret := range returnsOf(pi) {
			if ei := errIndex(pi.Signature); ei >= 0 && isNilConst(retResult(ret, ei)) {
				if !passedBefore(pi, ret, isApply, nil) {
					okWritten = false
				}
			}
		}
		r.Check(okWritten, "C07.R3", "every successful path of proxy.Interface writes the variable", p.Pos(pi.Pos()), "the fabricated value is stored through the variable's address before success is reported",
			"a successful path (the one that reuses the cached fabricated value) returns without writing it into the variable: if the variable was reassigned since the first method was mocked it stays what it was and calls reach the real implementation (or a nil variable stays nil)")
		r.Check(okIdx, "C07.R3", "both paths of proxy.Interface use the computed index", p.Pos(pi.Pos()), "fresh and cached table both written at methodIndex", "the fresh or the cached method table is written at an index other than the one computed for the method")
	}

	// ---- R4 back-up first-write-wins, Cancel restores it
	if pctxT != nil {
		var bkVal, bkAddr *types.Var
		// roles from Cancel: *p.A = *p.B
		if cn := methodOf(p, ctxT, "Cancel"); cn != nil {
			eachInstr(cn, func(i ssa.Instruction) {
				st, ok := i.(*ssa.Store)
				if !ok {
					return
				}
				// address = load of field A ; value = load of (load of field B)
				if _, fa, ok := fieldRef(st.Addr); ok && fa != nil {
					if ld, ok := st.Val.(*ssa.UnOp); ok && ld.Op == token.MUL {
						if _, fb, ok := fieldRef(ld.X); ok && fb != nil {
							bkAddr, bkVal = fa, fb
						}
					}
				}
			})
			r.Check(bkAddr != nil && bkVal != nil, "C07.R4", "Cancel writes the backed-up words back", p.Pos(cn.Pos()), "*backupAddr = *backupValue", "Cancel does not write the backed-up interface words back to the variable")
		}
		if bkVal != nil {
			for _, fs := range storesToField(ifns, func(fv *types.Var, _ ssa.Value) bool { return fv == bkVal || fv == bkAddr }) {
				if isLocalAddr(fs.Addr.X) {
					continue
				}
				isNil, known := nilGuardOnField(fs.Store.Block(), bkVal)
				r.Check(known && isNil, "C07.R4", "back-up of "+fieldVar(fs.Addr.X.Type(), fs.Addr.Field).Name()+" in "+shortName(fs.Fn), p.Pos(posOf(fs.Store)), "captured only while not yet captured",
					"the variable's original words are re-captured on a later mock: Cancel then 'restores' the fabricated interface instead of the value the variable held before")
				if fieldVar(fs.Addr.X.Type(), fs.Addr.Field) == bkVal {
					fresh := allAtoms(origins(fs.Store.Val), func(a Atom) bool { return a.Kind == "alloc" })
					r.Check(fresh, "C07.R4", "backed-up value is a private copy in "+shortName(fs.Fn), p.Pos(posOf(fs.Store)), "copy of the words, not an alias", "the back-up aliases the variable instead of copying its words")
				}
			}
		}
		// BackUp happens before the variable is overwritten, on every path of proxy.Interface
		if pi := p.Fn("internal/proxy", "Interface"); pi != nil {
			var bk, ap []ssa.Instruction
			eachInstr(pi, func(i ssa.Instruction) {
				if ci, ok := i.(ssa.CallInstruction); ok {
					if cal := staticCallee(ci.Common()); cal != nil {
						if bkVal != nil && storesField(cal, bkVal) {
							bk = append(bk, i)
						}
						if relPkg(cal) == "internal/proxy" && cal.Signature.Results().Len() == 0 && len(ci.Common().Args) == 2 {
							ap = append(ap, i)
						}
					}
				}
			})
			okOrder := len(bk) > 0 && len(ap) > 0
			for _, a := range ap {
				d := false
				for _, b := range bk {
					if domInstr(b, a) {
						d = true
					}
				}
				if !d {
					okOrder = false
				}
			}
			r.Check(okOrder, "C07.R4", "back-up dominates the overwrite in proxy.Interface", p.Pos(pi.Pos()), "BackUpTo before applyIfaceTo", "the variable is overwritten on a path where its words were not backed up first")
			// both operate on the same variable words
			okSame := true
			for _, a := range ap {
				for _, b := range bk {
					if resolveLocal(a.(ssa.CallInstruction).Common().Args[1]) != resolveLocal(b.(ssa.CallInstruction).Common().Args[1]) {
						okSame = false
					}
				}
			}
			r.Check(okSame, "C07.R4", "back-up and overwrite address the same variable", p.Pos(pi.Pos()), "", "back-up and overwrite use different addresses")
		}
	}
	// ---- R6 (shared with C12.R2) the stub is installed whenever an interface mocker creates its continuation
	checkStubInstalledWithContinuation(p, r, "C07.R6", func(f *ssa.Function) bool {
		rt := f.Signature.Recv().Type()
		if pt, ok := rt.(*types.Pointer); ok {
			rt = pt.Elem()
		}
		nt, ok := rt.(*types.Named)
		return ok && strings.Contains(nt.Obj().Name(), "Interface")
	})
	// ---- R5 allocator errors propagate
	n := checkErrorsUsed(p, r, "C07.R5", func(cal *ssa.Function) bool {
		return (relPkg(cal) == "internal/iface" && strings.HasPrefix(cal.Name(), "MakeMethodCaller")) || (relPkg(cal) == "internal/bytecode/stub")
	}, nil)
	r.Stat("allocator_error_sites", n)
}

// reachesContext: base is (a load chain from) a *IContext / *PContext value.
func reachesContext(base ssa.Value, ctxT, pctxT *types.Named) bool {
	t := base.Type()
	if pt, ok := t.(*types.Pointer); ok {
		t = pt.Elem()
	}
	if nt, ok := t.(*types.Named); ok && (nt == ctxT || nt == pctxT) {
		return true
	}
	return false
}

// samePath: a and b lie on a common path (one reaches the other or they share a block).
func samePath(a, b ssa.Instruction) bool {
	if a.Block() == b.Block() {
		return true
	}
	return reachableAfter(a, b) || reachableAfter(b, a)
}

// templateCopy: the local method table of mi is initialised by copying (by value) a package-level array that is written
// only inside one function run through (*sync.Once).Do before the copy, where a loop over 0..n-1 stores the address of the
// not-implemented routine into every slot. Returns the copying store, or nil.
func templateCopy(p *Prog, mi *ssa.Function, table *ssa.Alloc, n int64) *ssa.Store {
	var cp *ssa.Store
	for _, ref := range *table.Referrers() {
		if st, ok := ref.(*ssa.Store); ok && st.Addr == ssa.Value(table) {
			if cp != nil {
				return nil
			}
			cp = st
		}
	}
	if cp == nil {
		return nil
	}
	// the copied value is a load of global g that a Once.Do dominates
	onceBefore := func(f *ssa.Function, at ssa.Instruction) *ssa.Function {
		var fn *ssa.Function
		eachInstr(f, func(i ssa.Instruction) {
			cl, ok := i.(*ssa.Call)
			if !ok || calleeName(cl.Common()) != "(*sync.Once).Do" || !domInstr(cl, at) {
				return
			}
			switch x := cl.Call.Args[1].(type) {
			case *ssa.MakeClosure:
				fn, _ = x.Fn.(*ssa.Function)
			case *ssa.Function:
				fn = x
			}
		})
		return fn
	}
	globalLoad := func(v ssa.Value) *ssa.Global {
		u, ok := resolveLocal(v).(*ssa.UnOp)
		if !ok || u.Op != token.MUL {
			return nil
		}
		g, _ := u.X.(*ssa.Global)
		return g
	}
	var g *ssa.Global
	var filler *ssa.Function
	if g = globalLoad(cp.Val); g != nil {
		if ld, ok := resolveLocal(cp.Val).(ssa.Instruction); ok {
			filler = onceBefore(mi, ld)
		}
	} else if cl, ok := resolveLocal(cp.Val).(*ssa.Call); ok {
		cal := staticCallee(cl.Common())
		if cal == nil || cal.Blocks == nil || !strings.HasPrefix(pkgPathOf(cal), Mod) || cal.Signature.Results().Len() != 1 {
			return nil
		}
		for _, ret := range returnsOf(cal) {
			rg := globalLoad(ret.Results[0])
			if rg == nil || (g != nil && rg != g) {
				return nil
			}
			g = rg
			f2 := onceBefore(cal, resolveLocal(ret.Results[0]).(ssa.Instruction))
			if f2 == nil || (filler != nil && f2 != filler) {
				return nil
			}
			filler = f2
		}
	}
	if g == nil || filler == nil {
		return nil
	}
	// g is written only in the filler, by the defaulting loop; elsewhere it is only loaded as a whole
	okFill := false
	for _, f := range p.Funcs {
		if !strings.HasPrefix(pkgPathOf(f), Mod) || f.Blocks == nil {
			continue
		}
		bad := false
		eachInstr(f, func(i ssa.Instruction) {
			for _, op := range i.Operands(nil) {
				if *op != ssa.Value(g) {
					continue
				}
				switch x := i.(type) {
				case *ssa.UnOp:
				case *ssa.IndexAddr:
					if f != filler {
						bad = true
						return
					}
					for _, r2 := range *x.Referrers() {
						st, ok := r2.(*ssa.Store)
						if !ok || st.Addr != ssa.Value(x) {
							bad = true
							return
						}
						first, step, okL := loopIndex(x.Index)
						bounded := false
						for _, gd := range guardsAt(st.Block()) {
							if bo, ok := gd.Cond.(*ssa.BinOp); ok && bo.Op == token.LSS && gd.Pol && bo.X == x.Index {
								if cv, ok := constInt(bo.Y); ok && cv == n {
									bounded = true
								}
							}
						}
						fromPtr := false
						for _, a := range origins(st.Val) {
							if c2, ok := a.V.(*ssa.Call); ok && calleeName(c2.Common()) == "(reflect.Value).Pointer" {
								fromPtr = true
							}
						}
						if okL && first == 0 && step == 1 && bounded && fromPtr {
							okFill = true
						} else {
							bad = true
						}
					}
				default:
					bad = true
				}
			}
		})
		if bad {
			return nil
		}
	}
	if !okFill {
		return nil
	}
	return cp
}

// addrDerivedFrom: addr is the pointer root itself, reinterpreted or offset (conversions, field and element addresses) — no
// load in between.
func addrDerivedFrom(addr ssa.Value, root ssa.Value, depth int) bool {
	if depth > 8 {
		return false
	}
	addr = resolveLocal(addr)
	if addr == root {
		return true
	}
	switch x := addr.(type) {
	case *ssa.Convert:
		return addrDerivedFrom(x.X, root, depth+1)
	case *ssa.ChangeType:
		return addrDerivedFrom(x.X, root, depth+1)
	case *ssa.FieldAddr:
		return addrDerivedFrom(x.X, root, depth+1)
	case *ssa.IndexAddr:
		return addrDerivedFrom(x.X, root, depth+1)
	case *ssa.Phi:
		for _, e := range x.Edges {
			if addrDerivedFrom(e, root, depth+1) {
				return true
			}
		}
	}
	return false
}
