package main

import (
	"go/token"
	"go/types"
	"sort"
	"strings"

	"golang.org/x/tools/go/ssa"
)

func init() { register("C20", c20) }

func c20(c *Ctx) {
	p, r := c.K1(), c.R
	r.Expl = "Structural clauses behind 'executable stub space is never handed out twice or outside its reserve': in the fallback (bump-pointer) allocator the base of the returned region is computed from the atomic reservation (the result of an atomic add, or the loaded value that a successful compare-and-swap replaced by itself plus the size), never from another load of the cursor, and the cursor is never stored or swapped back; the success return is dominated by new<=max; failure returns carry a non-nil error and no region; the primary path maps R|W|X anonymous memory of the requested length; the fallback is entered only when the primary failed; the writer dispatches on the region's kind consistently with how Acquire tags it; allocator errors are consumed by all callers. Kernel-side disjointness of mmap regions is not decided."
	r.RuleText = "one obligation per (rule, function / return / call site)"
	r.Floor("C20.R1", 2)
	r.Floor("C20.R2", 2)
	r.Floor("C20.R4", 4)
	r.Floor("C20.R5", 3)
	stubFns := p.FuncsIn("internal/bytecode/stub")
	// the reservation: an atomic add on the address-typed cursor field, or — when the allocator has none — a
	// compare-and-swap of it (a CAS loop that advances the cursor from the value it loaded)
	onCursor := func(c *ssa.CallCommon) bool {
		if len(c.Args) == 0 {
			return false
		}
		fa, ok := c.Args[0].(*ssa.FieldAddr)
		if !ok {
			return false
		}
		fv := fieldVar(fa.X.Type(), fa.Field)
		if fv == nil {
			return false
		}
		b, ok := fv.Type().Underlying().(*types.Basic)
		return ok && b.Kind() == types.Uintptr
	}
	isAdd := func(i ssa.Instruction) bool {
		c := callCommon(i)
		return c != nil && strings.HasPrefix(calleeName(c), "sync/atomic.Add") && onCursor(c)
	}
	isCAS := func(i ssa.Instruction) bool {
		c := callCommon(i)
		return c != nil && strings.HasPrefix(calleeName(c), "sync/atomic.CompareAndSwap") && onCursor(c)
	}
	casMode := true
	for _, f := range stubFns {
		eachInstr(f, func(i ssa.Instruction) {
			if isAdd(i) {
				casMode = false
			}
		})
	}
	isRMW := func(i ssa.Instruction) bool {
		if casMode {
			return isCAS(i)
		}
		return isAdd(i)
	}
	isLoad := func(v ssa.Value) bool {
		c, ok := v.(*ssa.Call)
		return ok && strings.HasPrefix(calleeName(c.Common()), "sync/atomic.Load")
	}
	var holder, mmapFn *ssa.Function
	for _, f := range stubFns {
		eachInstr(f, func(i ssa.Instruction) {
			if isRMW(i) {
				holder = f
			}
			if isCallTo(i, "syscall.Mmap") {
				mmapFn = f
			}
		})
	}
	if holder == nil {
		r.Und("C20.R1", "fallback allocator", "", "no function of package stub performs an atomic add (or compare-and-swap) on the reserve cursor")
	} else {
		var rmw *ssa.Call
		eachInstr(holder, func(i ssa.Instruction) {
			if isRMW(i) {
				rmw, _ = i.(*ssa.Call)
			}
		})
		// what the region must be computed from, and the reserved end
		var resBase, resEnd ssa.Value = rmw, rmw
		var casOld ssa.Value
		if casMode {
			casOld = resolveLocal(rmw.Call.Args[1])
			resBase, resEnd = casOld, resolveLocal(rmw.Call.Args[2])
		}
		isR := func(v ssa.Value) bool { return v == resBase }
		isOtherLoad := func(v ssa.Value) bool { return isLoad(v) && v != casOld }
		// plain (non atomic) accesses of the cursor field are not allowed in the allocator
		cursorFA, _ := rmw.Call.Args[0].(*ssa.FieldAddr)
		if cursorFA != nil {
			cf := fieldVar(cursorFA.X.Type(), cursorFA.Field)
			if casMode {
				// a compare-and-swap reserves [old, new) when it replaces the value this call loaded from the cursor by
				// that value plus an unsigned size
				okCas := false
				if ld, ok := casOld.(*ssa.Call); ok && isLoad(ld) {
					if lfa, ok := ld.Call.Args[0].(*ssa.FieldAddr); ok && fieldVar(lfa.X.Type(), lfa.Field) == cf {
						if bo, ok := resEnd.(*ssa.BinOp); ok && bo.Op == token.ADD {
							x, y := resolveLocal(bo.X), resolveLocal(bo.Y)
							if y == casOld {
								x, y = y, x
							}
							if b, isB := y.Type().Underlying().(*types.Basic); isB && x == casOld && b.Info()&types.IsUnsigned != 0 {
								okCas = true
							}
						}
					}
				}
				r.Check(okCas, "C20.R1", "compare-and-swap reservation in "+shortName(holder), p.Pos(posOf(rmw)), "the cursor is advanced from the value this call loaded to that value plus the unsigned size",
					"the compare-and-swap on the reserve cursor does not replace the value loaded by this call with that value plus the requested size: the cursor can be rewound or a region reserved that was not measured")
			}
			for _, f := range stubFns {
				if isPkgInit(f) {
					continue
				}
				eachInstr(f, func(i ssa.Instruction) {
					if fa, ok := i.(*ssa.FieldAddr); ok && fieldVar(fa.X.Type(), fa.Field) == cf {
						for _, ref := range *fa.Referrers() {
							if ci, ok := ref.(ssa.CallInstruction); ok {
								// reservations are never taken back: a store / swap (or a compare-and-swap other than the
								// reservation itself) of the cursor can rewind it past a region another requester was given
								// in the meantime
								cn := calleeName(ci.Common())
								if casMode && ci == ssa.CallInstruction(rmw) {
									continue
								}
								if strings.HasPrefix(cn, "sync/atomic.Store") || strings.HasPrefix(cn, "sync/atomic.Swap") || strings.HasPrefix(cn, "sync/atomic.CompareAndSwap") {
									r.Bad("C20.R1", "reserve cursor rewound in "+shortName(f), p.Pos(posOf(ref)), "the reserve cursor is overwritten ("+cn+") instead of only ever advanced by the reservation: a value loaded earlier is written back after another requester reserved, and the same region is handed out twice")
								}
								continue
							}
							r.Bad("C20.R1", "plain access of reserve cursor in "+shortName(f), p.Pos(posOf(ref)), "the reserve cursor is read or written without sync/atomic outside package init: concurrent requesters can receive overlapping regions")
						}
					}
				})
			}
		}
		for _, ret := range returnsOf(holder) {
			ei := errIndex(holder.Signature)
			if ei < 0 {
				continue
			}
			ev := retResult(ret, ei)
			if isNilConst(ev) {
				// success return: every non-error result must derive from the reservation
				for k := range ret.Results {
					if k == ei {
						continue
					}
					rv := retResult(ret, k)
					// a result that is a region record built here is judged field by field (address and bytes)
					type part struct {
						name string
						v    ssa.Value
					}
					parts := []part{{"result#" + itoa(k), rv}}
					if al, isAl := resolveLocal(rv).(*ssa.Alloc); isAl {
						if pt, ok := al.Type().Underlying().(*types.Pointer); ok {
							if _, isS := pt.Elem().Underlying().(*types.Struct); isS {
								var fparts []part
								for _, sb := range p.structBuilds(holder, 0) {
									if st, ok := sb.At.(*ssa.Store); ok && st.Addr.(*ssa.FieldAddr).X == ssa.Value(al) {
										var names []string
										byName := map[string]ssa.Value{}
										for fv, v := range sb.Fields {
											if v == nil {
												continue
											}
											if _, isC := v.(*ssa.Const); isC {
												continue
											}
											names = append(names, fv.Name())
											byName[fv.Name()] = v
										}
										sort.Strings(names)
										for _, n := range names {
											fparts = append(fparts, part{"result#" + itoa(k) + "." + n, byName[n]})
										}
									}
								}
								if len(fparts) > 0 {
									parts = fparts
								}
							}
						}
					}
					for _, pt := range parts {
						cons := "success return of " + shortName(holder) + " " + pt.name
						fromR := dependsOn(pt.v, isR) || slicePtrDependsOn(pt.v, isR)
						fromL := dependsOn(pt.v, isOtherLoad) || slicePtrDependsOn(pt.v, isOtherLoad)
						if casMode && fromR {
							// the value loaded is this call's own only once the compare-and-swap succeeded
							won := false
							for _, g := range guardsAt(ret.Block()) {
								if g.Cond == ssa.Value(rmw) && g.Pol {
									won = true
								}
							}
							fromR = won
						}
						// the start address is exactly the start of what was reserved: (result of the add) − (the amount added),
						// or the value the compare-and-swap replaced
						if isUintptr(pt.v.Type()) && fromR {
							kk := NewKeyer(holder)
							got, want := map[string]int64{}, map[string]int64{}
							var gc, wc int64
							linForm(kk, pt.v, 1, got, &gc, 0)
							if casMode {
								linForm(kk, casOld, 1, want, &wc, 0)
							} else {
								linForm(kk, rmw, 1, want, &wc, 0)
								linForm(kk, rmw.Call.Args[1], -1, want, &wc, 0)
							}
							same := gc == wc
							for key, c := range got {
								if want[key] != c {
									same = false
								}
							}
							for key, c := range want {
								if got[key] != c {
									same = false
								}
							}
							r.Check(same, "C20.R1", cons+" is the start of the reservation", p.Pos(posOf(ret)), "start = reserved end − size (or the replaced cursor value)",
								"the address handed out is not the first byte of what this call reserved (reserved end minus the reserved size): the region overlaps the next requester's or lies outside the reserve")
						}
						r.Check(fromR && !fromL, "C20.R1", cons, p.Pos(posOf(ret)), "region base derives from the atomic reservation result",
							"the region handed out is computed from a value loaded before the atomic reservation (or not from the reservation at all): two concurrent requesters that load the same cursor value receive the same region")
					}
				}
				// bounds: new <= max dominates
				k := NewKeyer(holder)
				m := NewDBM()
				guardsToDBM(m, k, ret.Block())
				newT := k.TermOf(resEnd)
				okB := false
				if casMode {
					okB = subFormBound(guardsAt(ret.Block()), resEnd)
				}
				for _, g := range guardsAt(ret.Block()) {
					bo, ok := g.Cond.(*ssa.BinOp)
					if !ok {
						continue
					}
					for _, side := range []ssa.Value{bo.X, bo.Y} {
						if _, fv, ok := fieldRef(side); ok && fv != nil && m.EntailsLE(newT, k.TermOf(side)) {
							okB = true
						}
					}
				}
				r.Check(okB, "C20.R2", "bounds before hand-out in "+shortName(holder), p.Pos(posOf(ret)), "success return dominated by reserved-end <= reserve limit",
					"the region is handed out without a dominating check that the reserved end stays within the reserve: exhaustion overruns the placeholder into neighbouring code")
			} else {
				zero := true
				for k := range ret.Results {
					if k == ei {
						continue
					}
					rv := retResult(ret, k)
					if cv, ok := constInt(rv); ok && cv == 0 {
						continue
					}
					if isNilConst(rv) {
						continue
					}
					zero = false
				}
				r.Check(zero, "C20.R2", "failure return of "+shortName(holder)+" at "+p.Pos(posOf(ret)), p.Pos(posOf(ret)), "failure returns no region", "a failure return still hands out a region")
				// exhaustion is reported only when a comparison with a field of the reserve record says "beyond": x > limit
				// (or x >= limit) held, not its opposite
				beyond, within := false, false
				// only the test that leads straight to this return (other failure reasons have tests of their own)
				var direct []Guard
				for _, pr := range ret.Block().Preds {
					if iff, ok := lastInstr(pr).(*ssa.If); ok && pr.Succs[0] != pr.Succs[1] {
						direct = append(direct, Guard{Cond: iff.Cond, Pol: pr.Succs[0] == ret.Block(), If: iff})
					}
				}
				for _, g := range direct {
					bo, ok := g.Cond.(*ssa.BinOp)
					if !ok {
						continue
					}
					_, _, fx := fieldRef(resolveLocal(bo.X))
					_, _, fy := fieldRef(resolveLocal(bo.Y))
					if fx == fy {
						continue
					}
					op := bo.Op
					if fx { // limit on the left: mirror
						switch op {
						case token.LSS:
							op = token.GTR
						case token.LEQ:
							op = token.GEQ
						case token.GTR:
							op = token.LSS
						case token.GEQ:
							op = token.LEQ
						}
					}
					switch op {
					case token.GTR, token.GEQ:
						if g.Pol {
							beyond = true
						} else {
							within = true
						}
					case token.LSS, token.LEQ:
						if g.Pol {
							within = true
						} else {
							beyond = true
						}
					}
				}
				if beyond || within {
					r.Check(beyond, "C20.R2", "exhaustion reported only beyond the limit in "+shortName(holder)+" at "+blockOrdinalRet(ret), p.Pos(posOf(ret)), "the failing side of the limit test is 'beyond'",
						"the reserve allocator reports exhaustion on the side of its limit test where the request still fits (and goes on where it does not): every request is refused while there is room")
				}
			}
		}
	}
	// ---- R3 reserve bounds come from the scan of the placeholder
	if holder != nil {
		var lit *ssa.Alloc
		var cursorFld *types.Var
		eachInstr(holder, func(i ssa.Instruction) {
			if isRMW(i) {
				if fa, ok := callCommon(i).Args[0].(*ssa.FieldAddr); ok {
					cursorFld = fieldVar(fa.X.Type(), fa.Field)
				}
			}
		})
		for _, f := range stubFns {
			if !isPkgInit(f) {
				continue
			}
			eachInstr(f, func(i ssa.Instruction) {
				if fa, ok := i.(*ssa.FieldAddr); ok && fieldVar(fa.X.Type(), fa.Field) == cursorFld {
					if a, ok := fa.X.(*ssa.Alloc); ok {
						lit = a
					}
				}
			})
		}
		if lit == nil || cursorFld == nil {
			r.Und("C20.R3", "reserve initialisation", "", "the literal initialising the reserve cursor was not found in package init")
		} else {
			vals := map[string]ssa.Value{}
			for _, ref := range *lit.Referrers() {
				if fa, ok := ref.(*ssa.FieldAddr); ok {
					for _, r2 := range *fa.Referrers() {
						if st, ok := r2.(*ssa.Store); ok && st.Addr == fa {
							vals[fieldVar(fa.X.Type(), fa.Field).Name()] = resolveLocal(st.Val)
						}
					}
				}
			}
			start := vals[cursorFld.Name()]
			isScan := func(v ssa.Value) bool {
				ex, ok := v.(*ssa.Extract)
				if !ok {
					return false
				}
				cl, ok := ex.Tuple.(*ssa.Call)
				return ok && calleeName(cl.Common()) == qual("internal/bytecode", "GetFuncSize")
			}
			okLimit := false
			sameStart := 0
			for name, v := range vals {
				if name == cursorFld.Name() {
					continue
				}
				if v == start {
					sameStart++
				}
				if bo, ok := v.(*ssa.BinOp); ok && bo.Op == token.ADD {
					x, y := resolveLocal(bo.X), resolveLocal(bo.Y)
					if y != start {
						x, y = y, x
					}
					if y == start {
						okSz, hasScan := true, false
						for _, a := range origins(x) {
							switch {
							case isScan(a.V):
								hasScan = true
							case a.Kind == "const":
							default:
								okSz = false
							}
						}
						if okSz && hasScan {
							okLimit = true
						}
					}
				}
			}
			r.Check(okLimit && sameStart >= 1, "C20.R3", "reserve limit = start + scanned size", p.Pos(lit.Pos()), "limit derives from the scanned extent of the placeholder, cursor starts at its first byte",
				"the reserve limit is not start+scanned size of the placeholder (or the cursor does not start at the reserve start): regions can be handed out beyond the placeholder")
			// the scan is of the same function the cursor starts at
			okScan := false
			for _, f := range stubFns {
				for _, cs := range callsTo(f, qual("internal/bytecode", "GetFuncSize")) {
					if resolveLocal(callCommon(cs).Args[1]) == start {
						okScan = true
					}
				}
			}
			r.Check(okScan, "C20.R3", "scan measures the reserve itself", p.Pos(lit.Pos()), "GetFuncSize is applied to the reserve start", "the size scan is applied to a different address than the reserve start")
			// where the start is replaced by the result of a lookup that can fail, the replacement happens only when it succeeded
			okStart := true
			if ph, isPhi := start.(*ssa.Phi); isPhi {
				for ei, e := range ph.Edges {
					ex, isEx := resolveLocal(e).(*ssa.Extract)
					if !isEx {
						continue
					}
					cl, isCall := ex.Tuple.(*ssa.Call)
					if !isCall || errIndex(cl.Call.Signature()) < 0 {
						continue
					}
					var errV ssa.Value
					for _, ref := range *cl.Referrers() {
						if e2, ok := ref.(*ssa.Extract); ok && e2.Index == errIndex(cl.Call.Signature()) {
							errV = e2
						}
					}
					succeeded := false
					for _, g := range knownAtEdge(ph.Block().Preds[ei], ph.Block()) {
						if bo, ok := g.Cond.(*ssa.BinOp); ok && errV != nil {
							if (bo.X == errV && isNilConst(bo.Y)) || (bo.Y == errV && isNilConst(bo.X)) {
								if (bo.Op == token.EQL) == g.Pol {
									succeeded = true
								}
							}
						}
					}
					if !succeeded {
						okStart = false
					}
				}
			}
			r.Check(okStart, "C20.R3", "reserve start replaced only by a successful lookup", p.Pos(lit.Pos()), "err == nil known where the looked-up address is taken", "the reserve start is taken from a lookup that failed (or found nothing): the reserve is placed at address 0 / a stale address and regions are handed out outside the placeholder")
		}
	}
	// ---- R4 primary path and dispatch
	if mmapFn == nil {
		r.Und("C20.R4", "primary allocator", "", "no function of package stub calls syscall.Mmap")
	} else {
		for _, cs := range callsTo(mmapFn, "syscall.Mmap") {
			args := callCommon(cs).Args
			prot, okP := constInt(args[3])
			flags, okF := constInt(args[4])
			lenFromParam := dependsOn(args[2], func(v ssa.Value) bool { _, ok := v.(*ssa.Parameter); return ok })
			r.Check(okP && prot == 7, "C20.R4", "mmap prot in "+shortName(mmapFn), p.Pos(posOf(cs)), "PROT_READ|PROT_WRITE|PROT_EXEC", "stub mapping is not requested readable+writable+executable")
			r.Check(okF && flags&0x20 != 0, "C20.R4", "mmap flags in "+shortName(mmapFn), p.Pos(posOf(cs)), "anonymous mapping", "stub mapping is not anonymous")
			// the region handed out is the mapping made by this very call (no carving of regions out of a remembered mapping)
			okOwn := true
			nSucc := 0
			if ei := errIndex(mmapFn.Signature); ei >= 0 {
				for _, ret := range returnsOf(mmapFn) {
					if !isNilConst(retResult(ret, ei)) {
						continue
					}
					nSucc++
					for k := range ret.Results {
						if k == ei {
							continue
						}
						fromCall := false
						for _, a := range origins(retResult(ret, k)) {
							if a.Kind == "global" {
								okOwn = false
							}
						}
						if dependsOn(retResult(ret, k), func(v ssa.Value) bool {
							ex, ok := v.(*ssa.Extract)
							return ok && ex.Tuple == cs.(ssa.Value)
						}) || slicePtrDependsOn(retResult(ret, k), func(v ssa.Value) bool {
							ex, ok := v.(*ssa.Extract)
							return ok && ex.Tuple == cs.(ssa.Value)
						}) {
							fromCall = true
						}
						if !fromCall {
							okOwn = false
						}
					}
				}
			}
			r.Check(okOwn && nSucc > 0, "C20.R4", "mapped region handed out is this call's mapping in "+shortName(mmapFn), p.Pos(posOf(cs)), "address and bytes derive from the result of this mmap call",
				"the region returned by the mapping allocator is not (only) the mapping this call made: regions carved out of a remembered mapping need their own bounds and alignment accounting, and an error there hands out overlapping or out-of-mapping memory")
			r.Check(lenFromParam, "C20.R4", "mmap length in "+shortName(mmapFn), p.Pos(posOf(cs)), "length is the request", "mapped length is not the requested length")
		}
	}
	acq := p.Fn("internal/bytecode/stub", "Acquire")
	wr := p.Fn("internal/bytecode/stub", "Write")
	if acq == nil || wr == nil {
		r.Und("C20.R4", "stub.Acquire/Write", "", "exported functions not found")
		return
	}
	// tag ↔ source agreement
	tagOf := map[*ssa.Function]int64{}
	var spaceTyp *types.Var
	for _, sb := range p.structBuilds(acq, 2) {
		var tagF *types.Var
		var cv int64
		var tagPhi *ssa.Phi
		for fv, v := range sb.Fields {
			if v == nil || !isIntegerType(fv.Type()) {
				continue
			}
			if c, ok := constInt(v); ok {
				tagF, cv = fv, c
			} else if ph, ok := resolveLocal(v).(*ssa.Phi); ok {
				// single-exit style: the kind is chosen per path and merged
				all := len(ph.Edges) > 0
				for _, e := range ph.Edges {
					if _, isC := constInt(e); !isC {
						all = false
					}
				}
				if all {
					tagF, tagPhi = fv, ph
				}
			}
		}
		if tagF == nil {
			continue
		}
		spaceTyp = tagF
		callOf := func(v ssa.Value) *ssa.Call {
			for _, a := range origins(v) {
				if ex, ok := a.V.(*ssa.Extract); ok {
					if cl, ok := ex.Tuple.(*ssa.Call); ok {
						return cl
					}
				}
			}
			return nil
		}
		// which call feeds the sibling fields of this literal?
		for fv, v := range sb.Fields {
			if fv == tagF || v == nil {
				continue
			}
			if tagPhi != nil {
				ph, ok := resolveLocal(v).(*ssa.Phi)
				if !ok || ph.Block() != tagPhi.Block() || len(ph.Edges) != len(tagPhi.Edges) {
					continue
				}
				for k, e := range ph.Edges {
					cl := callOf(e)
					if cl == nil {
						continue
					}
					if cal := staticCallee(cl.Common()); cal != nil {
						tv, _ := constInt(tagPhi.Edges[k])
						if old, seen := tagOf[cal]; seen && old != tv {
							tagOf[cal] = -1 // inconsistent pairing
						} else {
							tagOf[cal] = tv
						}
						r.Check(errNilGuarded(sb.At.Block(), cl), "C20.R4", "Acquire success from "+shortName(cal)+" ("+fv.Name()+")", p.Pos(posOf(sb.At)), "region used only when its allocator returned nil error",
							"Acquire returns a region although its allocator reported an error")
					}
				}
				continue
			}
			for _, a := range origins(v) {
				if ex, ok := a.V.(*ssa.Extract); ok {
					if cl, ok := ex.Tuple.(*ssa.Call); ok {
						if cal := staticCallee(cl.Common()); cal != nil {
							tagOf[cal] = cv
							// success only under err==nil of that call
							r.Check(errNilGuarded(sb.At.Block(), cl), "C20.R4", "Acquire success from "+shortName(cal)+" ("+fv.Name()+")", p.Pos(posOf(sb.At)), "region used only when its allocator returned nil error",
								"Acquire returns a region although its allocator reported an error")
						}
					}
				}
			}
		}
	}
	// the allocators may build the region record themselves: then the kind is the constant in their own literal, and
	// Acquire hands their record on only when they reported no error
	for _, af := range []*ssa.Function{mmapFn, holder} {
		if af == nil {
			continue
		}
		if _, seen := tagOf[af]; seen {
			continue
		}
		for _, sb := range p.structBuilds(af, 1) {
			for fv, v := range sb.Fields {
				if v == nil || !isIntegerType(fv.Type()) {
					continue
				}
				if cv, ok := constInt(v); ok {
					// the literal must be what a success return hands out
					for _, ret := range returnsOf(af) {
						if st, isSt := sb.At.(*ssa.Store); isSt && resolveLocal(retResult(ret, 0)) == st.Addr.(*ssa.FieldAddr).X {
							tagOf[af] = cv
							spaceTyp = fv
						}
					}
				}
			}
		}
		if _, got := tagOf[af]; got {
			for _, cs := range p.callersOf(af) {
				if cs.Caller != acq {
					continue
				}
				cl, isCall := cs.Instr.(*ssa.Call)
				if !isCall {
					continue
				}
				for _, ret := range returnsOf(acq) {
					uses := false
					for _, a := range origins(retResult(ret, 0)) {
						if ex, ok := a.V.(*ssa.Extract); ok && ex.Tuple == ssa.Value(cl) {
							uses = true
						}
					}
					if !uses {
						continue
					}
					passThrough := false
					for _, a := range origins(retResult(ret, 1)) {
						if ex, ok := a.V.(*ssa.Extract); ok && ex.Tuple == ssa.Value(cl) {
							passThrough = true // returned together with the allocator's own error
						}
					}
					r.Check(passThrough || errNilGuarded(ret.Block(), cl), "C20.R4", "Acquire success from "+shortName(af)+" (record)", p.Pos(posOf(ret)), "region used only when its allocator returned nil error",
						"Acquire returns a region although its allocator reported an error")
				}
			}
		}
	}
	if mmapFn != nil && holder != nil {
		tm, okm := tagOf[mmapFn]
		th, okh := tagOf[holder]
		r.Check(okm && okh && tm != th, "C20.R4", "Acquire tags regions by source", p.Pos(acq.Pos()), "distinct kind tags for mapped and reserve regions",
			"Acquire does not tag mapped and reserve regions with distinct kinds")
		// fallback entered only when primary failed
		for _, cs := range p.callersOf(holder) {
			if cs.Caller != acq {
				continue
			}
			var prim *ssa.Call
			eachInstr(acq, func(i ssa.Instruction) {
				if cl, ok := i.(*ssa.Call); ok && staticCallee(cl.Common()) == mmapFn {
					prim = cl
				}
			})
			okF := prim != nil && domInstr(prim, cs.Instr) && !errNilGuarded(cs.Instr.Block(), prim) && errNonNilGuarded(cs.Instr.Block(), prim)
			r.Check(okF, "C20.R4", "fallback entered only on primary failure", p.Pos(posOf(cs.Instr)), "reserve used only after mmap failed", "the reserve allocator is not confined to the path where the primary allocator failed")
		}
		// final failure returns the error
		for _, ret := range returnsOf(acq) {
			if isNilConst(retResult(ret, 0)) {
				r.Check(!isNilConst(retResult(ret, 1)), "C20.R4", "Acquire failure return", p.Pos(posOf(ret)), "failure carries an error", "Acquire can return (nil, nil): exhaustion is not reported")
			}
		}
		// Write dispatch: the reserve kind must go through the text writer; the mapped kind must not need it
		if spaceTyp != nil && okh && okm {
			var names []string
			for _, w := range p.textWriters() {
				names = append(names, w.Object().(*types.Func).FullName())
			}
			viaWriter := map[int64]bool{}
			handled := map[int64]bool{}
			eachInstr(wr, func(i ssa.Instruction) {
				iff, ok := i.(*ssa.If)
				if !ok {
					return
				}
				bo, ok := iff.Cond.(*ssa.BinOp)
				if !ok || bo.Op != token.EQL {
					return
				}
				cv, ok := constInt(bo.Y)
				if !ok {
					return
				}
				if _, fv, ok := fieldRef(bo.X); !ok || fv != spaceTyp {
					return
				}
				handled[cv] = true
				tb := iff.Block().Succs[0]
				for _, ins := range tb.Instrs {
					if isCallTo(ins, names...) {
						viaWriter[cv] = true
					}
				}
			})
			r.Check(handled[tm] && handled[th], "C20.R4", "Write handles every kind Acquire produces", p.Pos(wr.Pos()), "dispatch exhaustive", "stub.Write does not handle every region kind Acquire can produce")
			r.Check(viaWriter[th] && !viaWriter[tm], "C20.R4", "Write uses the text writer for reserve regions", p.Pos(wr.Pos()), "reserve regions written through mprotect-aware writer, mapped regions by plain copy",
				"stub.Write's dispatch disagrees with Acquire's tags: reserve (text-segment) regions are written without the protection-changing writer (fault) or mapped regions go through it")
		}
	}
	// ---- R5 errors reach the caller
	n := checkErrorsUsed(p, r, "C20.R5", func(cal *ssa.Function) bool {
		if relPkg(cal) == "internal/bytecode/stub" {
			return true
		}
		return relPkg(cal) == "internal/iface" && strings.HasPrefix(cal.Name(), "MakeMethodCaller")
	}, nil)
	r.Stat("allocator_error_call_sites", n)
}

func itoa(i int) string {
	return string(rune('0' + i))
}

// errNonNilGuarded reports whether block b runs only when the error result of call d is non-nil.
func errNonNilGuarded(b *ssa.BasicBlock, d *ssa.Call) bool {
	for _, g := range guardsAt(b) {
		bo, ok := g.Cond.(*ssa.BinOp)
		if !ok || (bo.Op != token.EQL && bo.Op != token.NEQ) {
			continue
		}
		var other ssa.Value
		if isNilConst(bo.Y) {
			other = bo.X
		} else if isNilConst(bo.X) {
			other = bo.Y
		} else {
			continue
		}
		hit := false
		for _, a := range origins(other) {
			if ex, ok := a.V.(*ssa.Extract); ok && ex.Tuple == ssa.Value(d) {
				hit = true
			}
		}
		if hit && (bo.Op == token.NEQ) == g.Pol {
			return true
		}
	}
	return false
}

// slicePtrDependsOn: v is a *[]byte built by converting the address of a SliceHeader literal whose Data depends on target.
func slicePtrDependsOn(v ssa.Value, isT func(ssa.Value) bool) bool {
	v = peel(v)
	a, ok := v.(*ssa.Alloc)
	if !ok {
		return false
	}
	// the allocation itself, or any reinterpretation of its address (unsafe.Pointer / *SliceHeader conversions), may be the
	// object whose Data word is stored
	seen := map[ssa.Value]bool{}
	var views []ssa.Value
	var addViews func(x ssa.Value)
	addViews = func(x ssa.Value) {
		if seen[x] {
			return
		}
		seen[x] = true
		views = append(views, x)
		refs := x.Referrers()
		if refs == nil {
			return
		}
		for _, ref := range *refs {
			switch r := ref.(type) {
			case *ssa.Convert:
				addViews(r)
			case *ssa.ChangeType:
				addViews(r)
			}
		}
	}
	addViews(a)
	for _, view := range views {
		for _, ref := range *view.Referrers() {
			if fa, ok := ref.(*ssa.FieldAddr); ok {
				fv := fieldVar(fa.X.Type(), fa.Field)
				if fv != nil && fv.Name() == "Data" {
					for _, r2 := range *fa.Referrers() {
						if st, ok := r2.(*ssa.Store); ok && dependsOn(st.Val, isT) {
							return true
						}
					}
				}
			}
		}
	}
	return false
}

// subFormBound: end = base + n is within a limit field M by the overflow-free form of the test: the guards say
// n <= M - base and base <= M (so the subtraction does not wrap), hence base + n <= M without wrapping.
func subFormBound(gs []Guard, end ssa.Value) bool {
	bo, ok := end.(*ssa.BinOp)
	if !ok || bo.Op != token.ADD {
		return false
	}
	x, y := resolveLocal(bo.X), resolveLocal(bo.Y)
	// le reports the pair (a, b) when the guard establishes a <= b
	le := func(g Guard) (ssa.Value, ssa.Value, bool) {
		c, ok := g.Cond.(*ssa.BinOp)
		if !ok {
			return nil, nil, false
		}
		a, b := resolveLocal(c.X), resolveLocal(c.Y)
		switch {
		case c.Op == token.LEQ && g.Pol, c.Op == token.GTR && !g.Pol:
			return a, b, true
		case c.Op == token.GEQ && g.Pol, c.Op == token.LSS && !g.Pol:
			return b, a, true
		}
		return nil, nil, false
	}
	for _, pair := range [][2]ssa.Value{{x, y}, {y, x}} {
		base, n := pair[0], pair[1]
		var limit ssa.Value
		for _, g := range gs {
			a, b, ok := le(g)
			if !ok || a != n {
				continue
			}
			if sub, ok := b.(*ssa.BinOp); ok && sub.Op == token.SUB && resolveLocal(sub.Y) == base {
				if _, fv, isF := fieldRef(resolveLocal(sub.X)); isF && fv != nil {
					limit = resolveLocal(sub.X)
				}
			}
		}
		if limit == nil {
			continue
		}
		_, lfv, _ := fieldRef(limit)
		for _, g := range gs {
			a, b, ok := le(g)
			if !ok || a != base {
				continue
			}
			if _, fv, isF := fieldRef(b); isF && fv == lfv {
				return true
			}
		}
	}
	return false
}
