package main

import (
	"go/constant"
	"go/token"
	"go/types"
	"strings"

	"golang.org/x/tools/go/ssa"
)

func init() { register("C06", c06) }

// isTypeStringCall: v is the result of reflect.Type.String() (not unique across packages).
func isTypeStringCall(v ssa.Value) bool {
	c, ok := v.(*ssa.Call)
	if !ok || !c.Call.IsInvoke() || c.Call.Method.Name() != "String" {
		return false
	}
	return strings.HasSuffix(c.Call.Value.Type().String(), "reflect.Type")
}

// builderLookups returns, per exported Builder method, the cache key expressions it consults.
type builderLookup struct {
	Fn  *ssa.Function
	Key ssa.Value
	At  ssa.Instruction
}

func builderLookups(p *Prog) []builderLookup {
	builder := p.NamedType("", "Builder")
	var out []builderLookup
	if builder == nil {
		return out
	}
	for _, f := range p.FuncsIn("") {
		if f.Signature.Recv() == nil || !recvIs(f, builder) || f.Object() == nil || !f.Object().Exported() {
			continue
		}
		eachInstr(f, func(i ssa.Instruction) {
			if lk, ok := i.(*ssa.Lookup); ok && lk.CommaOk {
				if _, fv, ok := fieldRef(lk.X); ok && fv != nil {
					if _, isMap := fv.Type().Underlying().(*types.Map); isMap {
						out = append(out, builderLookup{f, lk.Index, lk})
					}
				}
			}
		})
	}
	return out
}

// checkIdentityKeys is shared by C06.R1 and C07.R2.
func checkIdentityKeys(p *Prog, r *Report, rule string, only func(*ssa.Function) bool, needPointer bool) {
	for _, bl := range builderLookups(p) {
		if !only(bl.Fn) {
			continue
		}
		cons := "cache key of " + shortName(bl.Fn)
		usesTypeString := dependsOn(bl.Key, isTypeStringCall)
		r.Check(!usesTypeString, rule, cons+" is identity bearing", p.Pos(posOf(bl.At)), "key does not go through Type.String()",
			"the mocker cache is keyed by reflect.Type.String(), which is not unique (same-named types of different packages, e.g. a/foo.T and b/foo.T, print alike): asking for the second type returns the first type's mocker and the wrong type is mocked")
		usesElem := dependsOn(bl.Key, func(v ssa.Value) bool {
			c, ok := v.(*ssa.Call)
			if !ok {
				return false
			}
			if c.Call.IsInvoke() && c.Call.Method.Name() == "Elem" {
				return true
			}
			cn := calleeName(c.Common())
			return cn == "(reflect.Value).Elem" || cn == "reflect.Indirect"
		})
		r.Check(!usesElem, rule, cons+" keeps pointer and value instances apart", p.Pos(posOf(bl.At)), "key is the instance's own type",
			"the mocker cache key strips the pointer (Elem/Indirect): Struct(&T{}) and Struct(T{}) share one mocker although methods are resolved on the instance type the first caller supplied, so a value-receiver method asked for through the other form is patched at the wrong symbol (the pointer wrapper) or reported missing")
		// where the key is made to tell generic instantiations apart by appending the function's address, that happens on the
		// side of the "is an instantiation of a generic function" test where it is one
		eachInstr(bl.Fn, func(i ssa.Instruction) {
			v, ok := i.(ssa.Value)
			if !ok || !dependsOn(bl.Key, func(x ssa.Value) bool { return x == v }) {
				return
			}
			bo, ok := i.(*ssa.BinOp)
			if !ok || bo.Op != token.ADD || !dependsOn(bo.Y, func(x ssa.Value) bool {
				c, ok := x.(*ssa.Call)
				return ok && calleeName(c.Common()) == "(reflect.Value).Pointer"
			}) {
				return
			}
			for _, g := range guardsAt(bo.Block()) {
				gc, isCall := g.Cond.(*ssa.Call)
				if !isCall {
					continue
				}
				cal := staticCallee(gc.Common())
				if cal == nil || relPkg(cal) != "internal/patch" || cal.Signature.Results().Len() != 1 || !isBool(cal.Signature.Results().At(0).Type()) {
					continue
				}
				r.Check(g.Pol, rule, cons+" tells generic instantiations apart", p.Pos(posOf(bo)), "address appended where "+shortName(cal)+" holds",
					"the function's address is appended to the cache key exactly when the function is NOT an instantiation of a generic function: all instantiations of one generic function share a key, so asking for the mocker of F[int] after F[string] returns the other instantiation's mocker and the wrong code is patched")
			}
		})
		if needPointer {
			dep := dependsOn(bl.Key, func(v ssa.Value) bool {
				c, ok := v.(*ssa.Call)
				return ok && calleeName(c.Common()) == "(reflect.Value).Pointer"
			})
			r.Check(dep, rule, cons+" identifies the variable", p.Pos(posOf(bl.At)), "key depends on the variable's address",
				"the interface mocker cache key does not depend on the address of the interface variable: a second variable of the same interface type gets the first variable's mocker, so the first variable is re-mocked and the second stays untouched")
			// the address is taken whenever the argument is a pointer: never on the side where `Kind() == Ptr` is false
			okSide := true
			eachInstr(bl.Fn, func(i ssa.Instruction) {
				c, ok := i.(*ssa.Call)
				if !ok || calleeName(c.Common()) != "(reflect.Value).Pointer" || !dependsOn(bl.Key, func(v ssa.Value) bool { return v == ssa.Value(c) }) {
					return
				}
				for _, g := range guardsAt(c.Block()) {
					if k, _, isKind := kindTest(g.Cond); isKind && k == 22 && !g.Pol {
						okSide = false
					}
					// … nor confined to some other kind (an interface variable is always handed over as a pointer to it)
					if k, _, isKind := kindTest(g.Cond); isKind && k != 22 && g.Pol {
						okSide = false
					}
					if bo, isB := g.Cond.(*ssa.BinOp); isB && bo.Op == token.NEQ && g.Pol {
						if kc, isC := constInt(bo.Y); isC && kc == 22 && strings.HasSuffix(bo.X.Type().String(), "reflect.Kind") {
							okSide = false
						}
					}
				}
			})
			r.Check(okSide, rule, cons+" takes the address on the pointer side", p.Pos(posOf(bl.At)), "Pointer() is not confined to Kind() != Ptr",
				"the variable's address enters the key only when the argument is NOT a pointer: for every real interface variable (&v) the key is the type alone, so a second variable of the same type gets the first variable's mocker")
		}
	}
}

func c06(c *Ctx) {
	p, r := c.K1(), c.R
	// R6: the jump installed for a method is built in private bytes (C01.R1): a shared buffer lets a method prepared later
	// overwrite the destination of one prepared earlier
	if !c.importing {
		importSibling(c, "C01", "C06.R6", func(rule string) bool { return rule == "C01.R1" || rule == "C01.R6" })
		// R7: the per-builder and per-type mocker caches are consulted and filled under the same key and hand a mocker back
		// only if it was found and not cancelled (C12.R1, C12.R5): otherwise another method's / package's mocker is continued
		importSibling(c, "C12", "C06.R7", func(rule string) bool { return rule == "C12.R1" || rule == "C12.R5" || rule == "C12.R3" })
	}
	r.Expl = "Structural clauses behind 'method mocks replace exactly the named method': the per-builder cache key of a struct/interface mocker is identity bearing (never reflect.Type.String()); the per-type method caches are keyed by exactly the requested name; for exported methods the patched origin is MethodByName(n).Func for the very name stored in the mocker, passed unchanged through proxy and patch; for unexported methods the symbol name is pkg.(*T).m / pkg.T.m built from the receiver kind, and symbol matching is exact (C10). Dispatch for value receivers and generic shapes at run time is not decided."
	r.RuleText = "one obligation per (rule, lookup / call site / format)"
	// R8: the helpers that derive type and package names for by-name method lookups do not call Elem() where their own kind
	// test has ruled a pointer out
	checkElemUnderKindBelief(p, r, "C06.R8", func(rel string) bool { return rel == "" })
	r.Floor("C06.R1", 1)
	r.Floor("C06.R2", 3)
	r.Floor("C06.R3", 4)
	r.Floor("C06.R4", 3)
	r.Floor("C06.R5", 3)
	// ---- R1
	checkIdentityKeys(p, r, "C06.R1", func(f *ssa.Function) bool { return f.Name() == "Struct" || f.Name() == "Func" }, false)
	// ---- R2 method caches keyed by the exact name parameter
	for _, f := range p.FuncsIn("") {
		if f.Signature.Recv() == nil || f.Object() == nil || !f.Object().Exported() {
			continue
		}
		rt := f.Signature.Recv().Type()
		if pt, ok := rt.(*types.Pointer); ok {
			rt = pt.Elem()
		}
		nt, ok := rt.(*types.Named)
		if !ok || !strings.HasPrefix(nt.Obj().Name(), "Cached") {
			continue
		}
		eachInstr(f, func(i ssa.Instruction) {
			var key ssa.Value
			switch x := i.(type) {
			case *ssa.Lookup:
				if x.CommaOk {
					key = x.Index
				}
			case *ssa.MapUpdate:
				key = x.Key
			}
			if key == nil {
				return
			}
			_, isP := resolveLocal(key).(*ssa.Parameter)
			r.Check(isP, "C06.R2", "method cache key in "+shortName(f)+" "+kindOf(i), p.Pos(posOf(i)), "keyed by the name parameter itself",
				"the per-type method cache is keyed by a derived form of the method name: methods whose names differ only in that derivation (case, prefix) share a mocker")
		})
	}
	// ---- R5 one mocker state per method name: what is filed in a per-name cache is built from a constructor call made
	// for this name, never from the shared (embedded) mocker of the type
	var freshFrom func(v ssa.Value, depth int) bool
	freshFrom = func(v ssa.Value, depth int) bool {
		if depth > 5 {
			return false
		}
		switch x := resolveLocal(v).(type) {
		case *ssa.MakeInterface:
			return freshFrom(x.X, depth+1)
		case *ssa.ChangeInterface:
			return freshFrom(x.X, depth+1)
		case *ssa.TypeAssert:
			return freshFrom(x.X, depth+1)
		case *ssa.Call:
			cal := staticCallee(x.Common())
			if cal == nil || relPkg(cal) != "" {
				return false
			}
			if cal.Signature.Recv() == nil {
				// a constructor of the root package
				return cal.Object() != nil && cal.Object().Exported() && strings.HasPrefix(cal.Name(), "New")
			}
			if len(x.Call.Args) == 0 {
				return false
			}
			return freshFrom(x.Call.Args[0], depth+1)
		}
		return false
	}
	for _, f := range p.FuncsIn("") {
		if f.Signature.Recv() == nil || f.Object() == nil || !f.Object().Exported() {
			continue
		}
		rt := f.Signature.Recv().Type()
		if pt, ok := rt.(*types.Pointer); ok {
			rt = pt.Elem()
		}
		nt, ok := rt.(*types.Named)
		if !ok || !strings.HasPrefix(nt.Obj().Name(), "Cached") {
			continue
		}
		eachInstr(f, func(i ssa.Instruction) {
			mu, ok := i.(*ssa.MapUpdate)
			if !ok {
				return
			}
			if mt, ok := mu.Map.Type().Underlying().(*types.Map); !ok || !hasMethod(mt.Elem(), "Cancel") {
				return
			}
			r.Check(freshFrom(mu.Value, 0), "C06.R5", "per-name mocker in "+shortName(f)+" is built for this name", p.Pos(posOf(mu)), "value filed in the cache comes from a constructor call of this lookup",
				"the mocker filed under a method name is derived from the shared mocker of the type instead of a fresh one: mockers of different methods share their state (guard, stub, cancelled flag), so mocking a second method redirects or cancels the first")
		})
	}
	// ---- R3 exact-name resolution for exported methods
	// patch side: origin value = MethodByName(<param>).Func
	for _, f := range p.FuncsIn("internal/patch") {
		for _, cs := range callsTo(f, "invoke (reflect.Type).MethodByName") {
			_ = cs
		}
		eachInstr(f, func(i ssa.Instruction) {
			cl, ok := i.(*ssa.Call)
			if !ok || !cl.Call.IsInvoke() || cl.Call.Method.Name() != "MethodByName" {
				return
			}
			_, isP := resolveLocal(cl.Call.Args[0]).(*ssa.Parameter)
			r.Check(isP, "C06.R3", "MethodByName argument in "+shortName(f), p.Pos(posOf(cl)), "looked up by the name parameter", "the method is resolved by something other than the requested name")
			_, recvP := resolveLocal(cl.Call.Value).(*ssa.Parameter)
			r.Check(recvP, "C06.R3", "MethodByName receiver in "+shortName(f), p.Pos(posOf(cl)), "on the type parameter", "the method is resolved on something other than the requested type")
		})
	}
	if imt := p.Fn("internal/patch", "InstanceMethodTrampoline"); imt != nil {
		ov := p.patchRoles().POrigVal
		okSrc := false
		eachInstr(imt, func(i ssa.Instruction) {
			if st, ok := i.(*ssa.Store); ok {
				if fa, ok := st.Addr.(*ssa.FieldAddr); ok && fieldVar(fa.X.Type(), fa.Field) == ov {
					as := origins(st.Val)
					okSrc = len(as) > 0
					for _, a := range as {
						if !(a.Kind == "field" && strings.HasSuffix(a.Name, "Method.Func")) {
							okSrc = false
							continue
						}
						// the reflect.Method value must be the MethodByName result and nothing else
						var base ssa.Value
						switch x := a.V.(type) {
						case *ssa.Field:
							base = x.X
						case *ssa.UnOp:
							if fa, ok := x.X.(*ssa.FieldAddr); ok {
								base = fa.X
							}
						}
						okBase := false
						if al, ok := base.(*ssa.Alloc); ok {
							if ld, ok := a.V.(ssa.Instruction); ok {
								if vals, ok := reachDefs(al, ld); ok && len(vals) > 0 {
									okBase = true
									for _, v := range vals {
										ex, ok := v.(*ssa.Extract)
										if !ok {
											okBase = false
											continue
										}
										cl, ok := ex.Tuple.(*ssa.Call)
										if !ok || !cl.Call.IsInvoke() || cl.Call.Method.Name() != "MethodByName" {
											okBase = false
										}
									}
								}
							}
						} else if base != nil {
							bas := origins(base)
							okBase = len(bas) > 0
							for _, b := range bas {
								ex, ok := b.V.(*ssa.Extract)
								if !ok {
									okBase = false
									continue
								}
								cl, ok := ex.Tuple.(*ssa.Call)
								if !ok || !cl.Call.IsInvoke() || cl.Call.Method.Name() != "MethodByName" {
									okBase = false
								}
							}
						}
						if !okBase {
							okSrc = false
						}
					}
				}
			}
		})
		r.Check(okSrc, "C06.R3", "patch origin = MethodByName(name).Func", p.Pos(imt.Pos()), "origin value is the resolved method's Func", "the patched origin is not the Func of the method resolved by name")
	} else {
		r.Und("C06.R3", "patch.InstanceMethodTrampoline", "", "not found")
	}
	// pass-through of (type, name) from mocker → proxy → patch
	passThrough := func(caller *ssa.Function, calleeRel, calleeName string, typIdx, nameIdx int, wantType, wantName func(ssa.Value) bool) {
		if caller == nil {
			return
		}
		for _, cs := range callsTo(caller, qual(calleeRel, calleeName)) {
			args := callCommon(cs).Args
			r.Check(wantName(resolveLocal(args[nameIdx])), "C06.R3", "method name passed unchanged "+shortName(caller)+"→"+calleeName, p.Pos(posOf(cs)), "", "the method name is altered on its way to the patch layer")
			r.Check(wantType(args[typIdx]), "C06.R3", "receiver type passed unchanged "+shortName(caller)+"→"+calleeName, p.Pos(posOf(cs)), "", "the receiver type is altered on its way to the patch layer")
		}
	}
	isParamV := func(v ssa.Value) bool { _, ok := resolveLocal(v).(*ssa.Parameter); return ok }
	passThrough(p.Fn("internal/proxy", "Method"), "internal/patch", "InstanceMethodTrampoline", 0, 1, isParamV, isParamV)
	var abms []*ssa.Function
	for _, f := range p.FuncsIn("") {
		if len(callsTo(f, qual("internal/proxy", "Method"))) > 0 {
			abms = append(abms, f)
		}
	}
	if len(abms) == 0 {
		r.Und("C06.R3", "method applier", "", "no function of the root package calls proxy.Method")
	}
	// the fields the method mocker keeps its type and method name in: stored by the exported constructor / setter
	storedFrom := func(f *ssa.Function, isSrc func(ssa.Value) bool) *types.Var {
		var out *types.Var
		if f == nil {
			return nil
		}
		eachInstr(f, func(i ssa.Instruction) {
			if st, ok := i.(*ssa.Store); ok {
				if fa, ok := st.Addr.(*ssa.FieldAddr); ok && isSrc(resolveLocal(st.Val)) {
					out = fieldVar(fa.X.Type(), fa.Field)
				}
			}
		})
		return out
	}
	var methodFld, structFld *types.Var
	if mm := p.Meth("", "MethodMocker", "Method"); mm != nil {
		methodFld = storedFrom(mm, func(v ssa.Value) bool { return len(mm.Params) > 1 && v == ssa.Value(mm.Params[1]) })
	}
	if nm := p.Fn("", "NewMethodMocker"); nm != nil {
		structFld = storedFrom(nm, func(v ssa.Value) bool {
			pr, ok := v.(*ssa.Parameter)
			return ok && pr.Parent() == nm && types.IsInterface(pr.Type())
		})
	}
	// the receiver description a method mocker was constructed with is never replaced afterwards: the cached template is
	// shared by every method looked up through it
	if structFld != nil {
		for _, fs := range storesToField(p.FuncsIn(""), func(fv *types.Var, _ ssa.Value) bool { return fv == structFld }) {
			_, fresh := fs.Addr.X.(*ssa.Alloc)
			r.Check(fresh, "C06.R5", "receiver description assigned only at construction ("+shortName(fs.Fn)+")", p.Pos(posOf(fs.Store)), "stored into a freshly allocated mocker",
				"the struct a method mocker addresses is replaced after construction: later lookups through the same cached mocker resolve their methods on the replaced receiver (e.g. the pointer type's wrapper instead of the value method)")
		}
	}
	for _, abm := range abms {
		passThrough(abm, "internal/proxy", "Method", 0, 1, func(v ssa.Value) bool {
			c, ok := v.(*ssa.Call)
			return ok && calleeName(c.Common()) == "reflect.TypeOf" && isParamV(peel(c.Call.Args[0]))
		}, isParamV)
		// doApply passes the mocker's own fields
		for _, cs := range p.callersOf(abm) {
			args := cs.Instr.Common().Args
			_, f1, ok1 := fieldRef(resolveLocal(args[1]))
			_, f2, ok2 := fieldRef(resolveLocal(args[2]))
			r.Check(ok1 && ok2 && f1 != nil && f2 != nil && f1 == structFld && f2 == methodFld, "C06.R3", "mocker fields passed in "+shortName(cs.Caller), p.Pos(posOf(cs.Instr)), "applyByMethod(m.structDef, m.method, …)", "the method mocker applies with something other than its own type and method name")
		}
	}
	// MethodMocker.Method stores the name parameter
	if mm := p.Meth("", "MethodMocker", "Method"); mm != nil {
		okS := false
		eachInstr(mm, func(i ssa.Instruction) {
			if st, ok := i.(*ssa.Store); ok {
				if fa, ok := st.Addr.(*ssa.FieldAddr); ok && fieldVar(fa.X.Type(), fa.Field) == methodFld && methodFld != nil && resolveLocal(st.Val) == ssa.Value(mm.Params[1]) {
					okS = true
				}
			}
		})
		r.Check(okS, "C06.R3", "MethodMocker.Method stores the requested name", p.Pos(mm.Pos()), "m.method = name", "the method name stored in the mocker is not the requested one")
	}
	// unexported methods are resolved by exact symbol name (shared with C10)
	checkExactSymbolMatch(p, r, "C06.R3")
	// ---- R4 symbol name construction for unexported methods
	// format constants used to build object names
	fmts := map[string]bool{}
	// name builders: root-package functions whose result is handed to the by-name symbol lookup
	nameBuilder := map[*ssa.Function]bool{}
	for _, f := range p.FuncsIn("") {
		for _, cs := range callsTo(f, qual("internal/unexports2", "FindFuncByName")) {
			for _, a := range origins(callCommon(cs).Args[0]) {
				if cl, ok := a.V.(*ssa.Call); ok {
					if cal := staticCallee(cl.Common()); cal != nil && relPkg(cal) == "" {
						nameBuilder[cal] = true
					}
				}
			}
		}
	}
	for _, f := range p.FuncsIn("") {
		for _, cs := range callsTo(f, "fmt.Sprintf") {
			if c, ok := callCommon(cs).Args[0].(*ssa.Const); ok && c.Value != nil && c.Value.Kind() == constant.String {
				fmts[shortName(f)+"|"+constant.StringVal(c.Value)] = true
				if f.Signature.Recv() != nil && nameBuilder[f] {
					fmts["name builder of "+types.TypeString(f.Signature.Recv().Type(), func(*types.Package) string { return "mocker" })+"|"+constant.StringVal(c.Value)] = true
				}
			}
		}
	}
	// the same formats written as string concatenation: a + "." + b + "." + c is "%s.%s.%s"
	concatRoots := map[*ssa.Function][]*ssa.BinOp{}
	for _, f := range p.FuncsIn("") {
		if f.Blocks == nil {
			continue
		}
		eachInstr(f, func(i ssa.Instruction) {
			bo, ok := i.(*ssa.BinOp)
			if !ok || bo.Op != token.ADD || !isString(bo.Type()) {
				return
			}
			// a root: not itself an operand of a longer concatenation
			if bo.Referrers() != nil {
				for _, ref := range *bo.Referrers() {
					if b2, ok := ref.(*ssa.BinOp); ok && b2.Op == token.ADD && isString(b2.Type()) {
						return
					}
				}
			}
			format := stringConcatFormat(bo, 0)
			if format == "" {
				return
			}
			concatRoots[f] = append(concatRoots[f], bo)
			fmts[shortName(f)+"|"+format] = true
			if f.Signature.Recv() != nil && nameBuilder[f] {
				fmts["name builder of "+types.TypeString(f.Signature.Recv().Type(), func(*types.Package) string { return "mocker" })+"|"+format] = true
			}
		})
	}
	for _, spec := range []struct{ fn, want string }{
		{"name builder of *mocker.UnexportedMethodMocker", "%s.%s.%s"},
		{"name builder of *mocker.UnexportedFuncMocker", "%s.%s"},
		{"(*mocker.MethodMocker).ExportMethod", "(%s)"},
		{"(*mocker.Builder).ExportStruct", "(%s)"},
	} {
		r.Check(fmts[spec.fn+"|"+spec.want], "C06.R4", "symbol name format in "+spec.fn, "", "format "+spec.want,
			"the linker symbol name of an unexported method is not built as pkg.(*T).m / pkg.T.m / pkg.f: another symbol (or none) is looked up")
	}
	checkExactNameDerivation(p, r, "C06.R4")
	// parenthesisation iff pointer receiver: the "(%s)" Sprintf is guarded by strings.Contains(name, "*")
	for _, fn := range []*ssa.Function{p.Meth("", "MethodMocker", "ExportMethod"), p.Meth("", "Builder", "ExportStruct")} {
		if fn == nil {
			continue
		}
		var sites []ssa.Instruction
		for _, cs := range callsTo(fn, "fmt.Sprintf") {
			c, ok := callCommon(cs).Args[0].(*ssa.Const)
			if !ok || c.Value == nil || constant.StringVal(c.Value) != "(%s)" {
				continue
			}
			sites = append(sites, cs)
		}
		for _, bo := range concatRoots[fn] {
			if stringConcatFormat(bo, 0) == "(%s)" {
				sites = append(sites, bo)
			}
		}
		for _, cs := range sites {
			okG := false
			for _, g := range guardsAt(cs.Block()) {
				if cl, ok := g.Cond.(*ssa.Call); ok && g.Pol && calleeName(cl.Common()) == "strings.Contains" {
					if sc, ok := cl.Call.Args[1].(*ssa.Const); ok && constant.StringVal(sc.Value) == "*" {
						okG = true
					}
				}
			}
			r.Check(okG, "C06.R4", "parentheses iff pointer receiver in "+shortName(fn), p.Pos(posOf(cs)), "(%s) only when the type name contains *", "receiver parenthesisation is not tied to the pointer marker: value-receiver names are parenthesised or pointer ones are not")
		}
	}
	// typeName marks pointer receivers with *
	var tns []*ssa.Function
	for _, f := range p.FuncsIn("") {
		if f.Signature.Results().Len() != 1 || f.Signature.Recv() != nil {
			continue
		}
		for _, ret := range returnsOf(f) {
			if bo, ok := retResult(ret, 0).(*ssa.BinOp); ok && bo.Op == token.ADD {
				if c, ok := bo.X.(*ssa.Const); ok && c.Value != nil && c.Value.Kind() == constant.String && constant.StringVal(c.Value) == "*" {
					tns = append(tns, f)
				}
			}
		}
	}
	if len(tns) == 0 {
		r.Bad("C06.R4", "type name marks pointer receivers", "", "no function of the root package builds \"*\"+name: pointer receivers are not marked with * in the type name")
	}
	for _, tn := range tns {
		okStar := false
		for _, ret := range returnsOf(tn) {
			if bo, ok := retResult(ret, 0).(*ssa.BinOp); ok && bo.Op == token.ADD {
				if c, ok := bo.X.(*ssa.Const); ok && constant.StringVal(c.Value) == "*" {
					ks := kindsInto(ret.Block())
					if ks[22] {
						okStar = true
					}
				}
			}
		}
		r.Check(okStar, "C06.R4", "typeName marks pointer receivers", p.Pos(tn.Pos()), "\"*\"+Elem().Name() under Kind()==Ptr", "pointer receivers are not marked with * in the type name")
	}
}

func kindOf(i ssa.Instruction) string {
	switch i.(type) {
	case *ssa.Lookup:
		return "lookup"
	case *ssa.MapUpdate:
		return "store"
	}
	return "?"
}

// checkExactNameDerivation (C06.R4, shared with C01.R4): a name that is handed to a by-name symbol lookup is derived from
// what the user designated by exact operations only (formatting, exact suffix/prefix removal). Character-set trimming,
// case folding and replacement turn the designated name into that of a sibling symbol.
func checkExactNameDerivation(p *Prog, r *Report, rule string) {
	inexact := map[string]bool{"strings.Trim": true, "strings.TrimLeft": true, "strings.TrimRight": true, "strings.TrimFunc": true,
		"strings.TrimLeftFunc": true, "strings.TrimRightFunc": true, "strings.ToLower": true, "strings.ToUpper": true, "strings.Title": true,
		"strings.Replace": true, "strings.ReplaceAll": true, "strings.Map": true, "strings.ToTitle": true, "strings.Fields": true}
	sinks := []string{qual("internal/unexports2", "FindFuncByName"), qual("internal/unexports2", "FindVarByName"), qual("internal/proxy", "FuncName")}
	n := 0
	for _, f := range p.FuncsIn("") {
		for _, cs := range callsTo(f, sinks...) {
			args := callCommon(cs).Args
			if len(args) == 0 {
				continue
			}
			for _, ls := range p.liftSites(liftedSite{f, cs, []ssa.Value{args[0]}}, 3) {
				if ls.Vals[0] == nil {
					continue
				}
				n++
				bad := ""
				var walk func(v ssa.Value, depth int)
				seen := map[ssa.Value]bool{}
				walk = func(v ssa.Value, depth int) {
					if v == nil || seen[v] || depth > 8 {
						return
					}
					seen[v] = true
					for _, a := range origins(v) {
						cl, ok := a.V.(*ssa.Call)
						if !ok {
							if ex, isEx := a.V.(*ssa.Extract); isEx {
								cl, ok = ex.Tuple.(*ssa.Call)
							}
						}
						if !ok || cl == nil {
							continue
						}
						cn := calleeName(cl.Common())
						if inexact[cn] {
							bad = cn
						}
						if strings.HasPrefix(cn, "strings.") || cn == "fmt.Sprintf" {
							for _, arg := range cl.Call.Args {
								walk(arg, depth+1)
							}
							for _, arg := range variadicArgValues(cl) {
								walk(arg, depth+1)
							}
						}
					}
				}
				walk(ls.Vals[0], 0)
				r.Check(bad == "", rule, "symbol name handed to the lookup in "+shortName(ls.Fn)+" is derived exactly", p.Pos(posOf(ls.Instr)), "formatting and exact prefix/suffix removal only",
					"the name handed to the by-name symbol lookup goes through "+bad+", which is not an exact operation (character-set trimming / folding / replacement): a designated function whose name ends in one of those characters resolves to a sibling symbol or to none")
			}
		}
	}
	if n == 0 {
		r.Und(rule, "by-name lookups", "", "no call of a by-name symbol lookup found in the root package")
	}
}


// stringConcatFormat renders a chain of string additions as the equivalent Sprintf format: constant parts literally (with %
// doubled), every other part as %s. "" when v is not such a chain with at least one constant and one variable part.
func stringConcatFormat(v ssa.Value, depth int) string {
	var parts []ssa.Value
	var flat func(x ssa.Value, d int)
	flat = func(x ssa.Value, d int) {
		if bo, ok := x.(*ssa.BinOp); ok && bo.Op == token.ADD && isString(bo.Type()) && d < 8 {
			flat(bo.X, d+1)
			flat(bo.Y, d+1)
			return
		}
		parts = append(parts, x)
	}
	flat(v, depth)
	out := ""
	nConst, nVar := 0, 0
	for _, pt := range parts {
		if c, ok := pt.(*ssa.Const); ok && c.Value != nil && c.Value.Kind() == constant.String {
			out += strings.ReplaceAll(constant.StringVal(c.Value), "%", "%%")
			nConst++
		} else {
			out += "%s"
			nVar++
		}
	}
	if nConst == 0 || nVar == 0 {
		return ""
	}
	return out
}
