package main

import (
	"fmt"
	"go/types"
	"math/big"
	"strings"

	"golang.org/x/tools/go/ssa"
)

func init() { register("C15", c15) }

// emitters: functions of patch/iface whose parameters are all uintptr and that return []byte.
func emitterFuncs(p *Prog) []*ssa.Function {
	var out []*ssa.Function
	for _, rel := range []string{"internal/patch", "internal/iface"} {
		for _, f := range p.FuncsIn(rel) {
			if f.Parent() != nil || f.Signature.Recv() != nil || f.Blocks == nil {
				continue
			}
			res := f.Signature.Results()
			if res.Len() != 1 {
				continue
			}
			sl, ok := res.At(0).Type().Underlying().(*types.Slice)
			if !ok || !isByte(sl.Elem()) {
				continue
			}
			pr := f.Signature.Params()
			if pr.Len() == 0 {
				continue
			}
			all := true
			for i := 0; i < pr.Len(); i++ {
				if b, ok := pr.At(i).Type().Underlying().(*types.Basic); !ok || b.Kind() != types.Uintptr {
					all = false
				}
			}
			if all {
				out = append(out, f)
			}
		}
	}
	return out
}

// amd64Form describes what one emitted path is.
type amd64Form struct {
	Kind    string // "abs", "rel", "?"
	Nop     bool
	DestVar string
	SrcVar  string
	Why     string
}

func classifyAMD64(bs []AByte) amd64Form {
	f := amd64Form{Kind: "?"}
	cv := func(i int) (byte, bool) {
		if i >= len(bs) {
			return 0, false
		}
		return bs[i].constVal()
	}
	i := 0
	if v, ok := cv(0); ok && v == 0x90 {
		f.Nop = true
		i = 1
	}
	if v, ok := cv(i); ok && v == 0xE9 {
		if len(bs) != i+5 {
			f.Why = fmt.Sprintf("E9 form has %d bytes", len(bs))
			return f
		}
		l := bs[i+1].Lin
		if l == nil {
			f.Why = "displacement is not a linear function of the addresses"
			return f
		}
		for k := 0; k < 4; k++ {
			b := bs[i+1+k]
			if b.Lin == nil || !linEqual(b.Lin, l) || b.Lo != 8*k {
				f.Why = fmt.Sprintf("displacement byte %d is not lane %d of the same value (%s)", k, k, b)
				return f
			}
		}
		if l.W != 32 || len(l.Coef) != 2 {
			f.Why = "displacement is " + l.String()
			return f
		}
		for k, c := range l.Coef {
			if c == 1 {
				f.DestVar = k
			} else if c == -1 {
				f.SrcVar = k
			}
		}
		want := uint64(0xFFFFFFFB) // -5 mod 2^32
		if f.DestVar == "" || f.SrcVar == "" || l.C != want {
			f.Why = "displacement is " + l.String() + ", expected dest - src - 5 (mod 2^32)"
			return f
		}
		f.Kind = "rel"
		return f
	}
	// REX.W MOV RDX, imm64 ; JMP [RDX]
	if len(bs) != i+12 {
		f.Why = fmt.Sprintf("absolute form has %d bytes after the optional NOP, expected 12", len(bs)-i)
		return f
	}
	b0, ok0 := cv(i)
	b1, ok1 := cv(i + 1)
	if !ok0 || !ok1 || b0 != 0x48 || b1 != 0xBA {
		f.Why = fmt.Sprintf("opcode bytes %s %s are not 48 BA (REX.W MOV RDX, imm64): the closure-context register RDX is not the one loaded", bs[i], bs[i+1])
		return f
	}
	for k := 0; k < 8; k++ {
		b := bs[i+2+k]
		name := ""
		if b.Bits[0].K == bSym {
			name = b.Bits[0].Var
		} else if b.Lin != nil {
			for v := range b.Lin.Coef {
				name = v
			}
		}
		lane, ok := b.laneOf(name)
		if !ok || lane != k || (f.DestVar != "" && f.DestVar != name) {
			f.Why = fmt.Sprintf("immediate byte %d is %s, expected lane %d of the destination", k, b, k)
			return f
		}
		f.DestVar = name
	}
	j0, okj0 := cv(i + 10)
	j1, okj1 := cv(i + 11)
	if !okj0 || !okj1 || j0 != 0xFF || j1 != 0x22 {
		f.Why = fmt.Sprintf("tail bytes %s %s are not FF 22 (JMP QWORD PTR [RDX])", bs[i+10], bs[i+11])
		return f
	}
	f.Kind = "abs"
	return f
}

// arm64Word reassembles 4 abstract bytes into 32 bits.
func arm64Word(bs []AByte) [32]Bit {
	var w [32]Bit
	for k := 0; k < 4; k++ {
		for i := 0; i < 8; i++ {
			w[8*k+i] = bs[k].Bits[i]
		}
		if bs[k].Lin != nil {
			if v, ok := bs[k].constVal(); ok {
				for i := 0; i < 8; i++ {
					if v>>uint(i)&1 == 1 {
						w[8*k+i] = Bit{K: bOne}
					} else {
						w[8*k+i] = Bit{K: bZero}
					}
				}
			}
		}
	}
	return w
}

func fieldConst(w [32]Bit, lo, n int) (uint32, bool) {
	var v uint32
	for i := 0; i < n; i++ {
		switch w[lo+i].K {
		case bOne:
			v |= 1 << uint(i)
		case bZero:
		default:
			return 0, false
		}
	}
	return v, true
}

type arm64Form struct {
	OK      bool
	DestVar string
	Scratch uint32
	Why     string
}

func classifyARM64(bs []AByte) arm64Form {
	f := arm64Form{}
	if len(bs) != 24 {
		f.Why = fmt.Sprintf("sequence has %d bytes, expected 6 instructions", len(bs))
		return f
	}
	for k := 0; k < 4; k++ {
		w := arm64Word(bs[4*k : 4*k+4])
		sf, ok1 := fieldConst(w, 31, 1)
		opc, ok2 := fieldConst(w, 29, 2)
		fixed, ok3 := fieldConst(w, 23, 6)
		hw, ok4 := fieldConst(w, 21, 2)
		rd, ok5 := fieldConst(w, 0, 5)
		if !(ok1 && ok2 && ok3 && ok4 && ok5) {
			f.Why = fmt.Sprintf("move #%d has non-constant opcode fields", k)
			return f
		}
		wantOpc := uint32(3) // MOVK
		if k == 0 {
			wantOpc = 2 // MOVZ
		}
		if sf != 1 || fixed != 0x25 || opc != wantOpc || hw != uint32(k) || rd != 26 {
			f.Why = fmt.Sprintf("move #%d encodes sf=%d opc=%d fixed=%#x hw=%d Rd=%d; expected sf=1 opc=%d 100101 hw=%d Rd=26 (X26, the closure-context register)", k, sf, opc, fixed, hw, rd, wantOpc, k)
			return f
		}
		for i := 0; i < 16; i++ {
			b := w[5+i]
			if b.K != bSym || b.Idx != 16*k+i || (f.DestVar != "" && b.Var != f.DestVar) {
				f.Why = fmt.Sprintf("move #%d imm16 bit %d is not bit %d of the destination", k, i, 16*k+i)
				return f
			}
			f.DestVar = b.Var
		}
	}
	ldr := arm64Word(bs[16:20])
	br := arm64Word(bs[20:24])
	lv, ok1 := fieldConst(ldr, 0, 32)
	bv, ok2 := fieldConst(br, 0, 32)
	if !ok1 || !ok2 {
		f.Why = "LDR/BR words are not constant"
		return f
	}
	if lv&0xFFC00000 != 0xF9400000 || (lv>>10)&0xFFF != 0 || (lv>>5)&31 != 26 {
		f.Why = fmt.Sprintf("word %#08x is not LDR Xt,[X26]", lv)
		return f
	}
	if bv&0xFFFFFC1F != 0xD61F0000 {
		f.Why = fmt.Sprintf("word %#08x is not BR Xn", bv)
		return f
	}
	if lv&31 != (bv>>5)&31 {
		f.Why = fmt.Sprintf("LDR loads X%d but BR branches through X%d", lv&31, (bv>>5)&31)
		return f
	}
	f.Scratch = lv & 31
	f.OK = true
	return f
}

// c15Arch evaluates every emitter of configuration p.
func c15Arch(c *Ctx, p *Prog, arch string) map[*ssa.Function][]emitResult {
	r := c.R
	out := map[*ssa.Function][]emitResult{}
	ems := emitterFuncs(p)
	r.Stat("emitters_"+arch, len(ems))
	var forms []string
	for _, f := range ems {
		name := shortName(f)
		// unsupported-by-design emitters that only panic
		onlyPanics := true
		eachInstr(f, func(i ssa.Instruction) {
			if _, ok := i.(*ssa.Return); ok {
				onlyPanics = false
			}
		})
		if onlyPanics {
			r.OK("C15.E", name+" (declines: panics 'not supported')", p.Pos(f.Pos()), "no bytes are ever emitted")
			continue
		}
		if g := returnsSharedStorage(f); g != "" {
			r.Bad("C15.E", name+" returns private bytes", p.Pos(f.Pos()), "the emitter returns a view of package-level storage ("+g+") instead of a fresh slice: guards keep the slice and write it later, so a later emission for another target overwrites the destination an earlier guard still holds")
			continue
		}
		res := emit(f)
		out[f] = res
		okShape := len(res) > 0
		for _, e := range res {
			if e.Err != "" {
				okShape = false
				r.Bad("C15.E", name+" evaluates to a byte template", p.Pos(f.Pos()), "abstract evaluation failed: "+e.Err)
			}
		}
		if !okShape {
			continue
		}
		r.OK("C15.E", name+" evaluates to a byte template", p.Pos(f.Pos()), fmt.Sprintf("%d path(s), e.g. %s", len(res), bytesString(res[0].Bytes)))
		if arch == "amd64" {
			var guardAtomPaths = map[bool][]amd64Form{}
			for pi, e := range res {
				fm := classifyAMD64(e.Bytes)
				cons := fmt.Sprintf("%s path#%d", name, pi)
				if fm.Kind == "?" {
					r.Bad("C15.A1", cons+" instruction form", p.Pos(f.Pos()), "emitted bytes ["+bytesString(e.Bytes)+"] are not a recognised jump form: "+fm.Why)
					continue
				}
				// destination must be a parameter named to/dx (the address argument): identify by index
				di := paramIndex(f, fm.DestVar)
				switch fm.Kind {
				case "abs":
					r.Check(di >= 0, "C15.A1", cons+" absolute form", p.Pos(f.Pos()), "48 BA "+fm.DestVar+"⟨0..7⟩ FF 22: RDX="+fm.DestVar+", jmp [RDX]", "destination lanes do not come from one address parameter")
				case "rel":
					si := paramIndex(f, fm.SrcVar)
					r.Check(di >= 0 && si >= 0 && si == 0 && di == 1, "C15.A2", cons+" relative displacement", p.Pos(f.Pos()), "E9 d⟨0..3⟩ with d = "+fm.DestVar+" - "+fm.SrcVar+" - 5 (mod 2^32)",
						"the rel32 displacement is not (second parameter − first parameter − 5): the jump lands elsewhere")
				}
				// which guard atom selects this path
				for _, pc := range e.Conds {
					if strings.HasPrefix(pc.Atom, "call ") {
						guardAtomPaths[pc.Pol] = append(guardAtomPaths[pc.Pol], fm)
					}
				}
				forms = append(forms, fmt.Sprintf("%s:%s nop=%v", name, fm.Kind, fm.Nop))
			}
			// A2 choice + guard containment
			hasRel := false
			for _, e := range res {
				if classifyAMD64(e.Bytes).Kind == "rel" {
					hasRel = true
				}
			}
			if hasRel {
				// (the absolute form reaches every address, so emitting it although the guard held is not a defect; what must
				// hold is that the guard selects the relative form somewhere, never lets it through when false, and covers it)
				okChoice := false
				for _, fm := range guardAtomPaths[true] {
					if fm.Kind == "rel" {
						okChoice = true
					}
				}
				for _, fm := range guardAtomPaths[false] {
					if fm.Kind != "abs" {
						okChoice = false
					}
				}
				// every rel path must be under the guard
				for _, e := range res {
					if classifyAMD64(e.Bytes).Kind == "rel" {
						under := false
						for _, pc := range e.Conds {
							if strings.HasPrefix(pc.Atom, "call ") && pc.Pol {
								under = true
							}
						}
						if !under {
							okChoice = false
						}
					}
				}
				r.Check(okChoice, "C15.A2", name+" relative form chosen only under its guard", p.Pos(f.Pos()), "E9 form ⇒ guard true, absolute form when the guard is false",
					"the short relative form is emitted on a path that the distance guard does not protect")
				// the guard function and its argument binding
				var gcall *ssa.Call
				for _, e := range res {
					for _, pc := range e.Conds {
						if cl, ok := pc.Cond.(*ssa.Call); ok {
							gcall = cl
						}
					}
				}
				if gcall == nil {
					r.Und("C15.A2", name+" distance guard", p.Pos(f.Pos()), "guard call not found")
				} else {
					gfn := staticCallee(gcall.Common())
					set, why := guardTrueSet(gfn)
					if why != "" {
						r.Und("C15.A2", name+" distance guard "+shortName(gfn), p.Pos(gfn.Pos()), "guard leaves the analysable fragment: "+why)
					} else {
						// binding: guard(x,y) called with (from,to) → δ = from−to ; with (to,from) → δ' = −δ
						a0 := paramIndex(f, gcall.Call.Args[0].Name())
						a1 := paramIndex(f, gcall.Call.Args[1].Name())
						// fits: s = to−from−5 ∈ [−2^31, 2^31−1]; δ = from−to ⇒ δ ∈ [−2^31−4, 2^31−5]
						lo := new(big.Int).Sub(new(big.Int).Neg(new(big.Int).Lsh(big.NewInt(1), 31)), big.NewInt(4))
						hi := new(big.Int).Sub(new(big.Int).Lsh(big.NewInt(1), 31), big.NewInt(5))
						fits := iset{{lo, hi}}
						if a0 == 1 && a1 == 0 {
							// δ' = to−from ⇒ s = δ'−5 ∈ [−2^31, 2^31−1] ⇒ δ' ∈ [−2^31+5, 2^31+4]
							fits = iset{{new(big.Int).Add(new(big.Int).Neg(new(big.Int).Lsh(big.NewInt(1), 31)), big.NewInt(5)), new(big.Int).Add(new(big.Int).Lsh(big.NewInt(1), 31), big.NewInt(4))}}
						} else if !(a0 == 0 && a1 == 1) {
							r.Und("C15.A2", name+" distance guard binding", p.Pos(posOf(gcall)), "guard is not called with the emitter's two addresses")
							continue
						}
						ok, wit := set.subsetOf(fits)
						r.Check(ok, "C15.A2", "relative form chosen ⇒ displacement fits ("+shortName(gfn)+")", p.Pos(gfn.Pos()),
							"guard-true distances "+set.String()+" ⊆ rel32-reachable "+fits.String(),
							"the distance guard accepts distances "+wit+" (guard-true set "+set.String()+") for which to−from−5 does not fit a signed 32-bit displacement (reachable set "+fits.String()+"): the E9 jump lands 4 GiB away from the destination")
					}
				}
			}
		} else {
			for pi, e := range res {
				fm := classifyARM64(e.Bytes)
				cons := fmt.Sprintf("%s path#%d", name, pi)
				if !fm.OK {
					r.Bad("C15.A3", cons+" instruction sequence", p.Pos(f.Pos()), "emitted words are not MOVZ/MOVK×3 X26; LDR Xt,[X26]; BR Xt with the destination's four 16-bit lanes: "+fm.Why)
					continue
				}
				di := paramIndex(f, fm.DestVar)
				r.Check(di >= 0, "C15.A3", cons+" instruction sequence", p.Pos(f.Pos()), fmt.Sprintf("X26 = %s via MOVZ/MOVK lanes 0..3; LDR X%d,[X26]; BR X%d", fm.DestVar, fm.Scratch, fm.Scratch), "destination is not a parameter")
				forms = append(forms, fmt.Sprintf("%s:arm64 scratch=X%d", name, fm.Scratch))
			}
		}
	}
	r.Stat("forms_"+arch, forms)
	return out
}

func paramIndex(f *ssa.Function, name string) int {
	for i, p := range f.Params {
		n := p.Name()
		if n == "_" {
			n = fmt.Sprintf("_%d", i)
		}
		if n == name {
			return i
		}
	}
	return -1
}

func c15(c *Ctx) {
	p, r := c.K1(), c.R
	r.Level = "proof"
	r.Expl = "Every function of packages patch/iface that maps addresses to machine-code bytes is evaluated by an abstract interpreter over symbolic 64-bit inputs (exact bit-vector and linear-modular domains, paths enumerated, callees inlined), i.e. for all 2^64 (×2^64) addresses at once. Obligations: the emitted template is one of the intended instruction forms with every address lane placed exactly once in little-endian order and the closure-context register as target; the rel32 displacement equals dest−src−5 (mod 2^32) on every arm; the relative form is emitted only under its distance guard and the set of distances the guard accepts (computed exactly with wrapped interval sets, including the negation overflow) is contained in the set for which the displacement fits; arm64 sequences rebuild the address in X26 from four lanes and branch through the register they loaded."
	r.RuleText = "one obligation per (emitter × path × clause); proof-level: all must be discharged"
	r.Trusted = []string{"go/packages+go/types+go/ssa construction of /repo's emitters", "the abstract transfer functions in absint.go (bitwise ops, shifts, conversions, modular add/sub, little-endian multi-byte store)", "hand-written encodings of 5 instruction forms: x86-64 NOP, REX.W MOV r64 imm64 (B8+rd), JMP r/m64 (FF /4), JMP rel32 (E9); A64 MOVZ/MOVK, LDR (unsigned offset), BR", "little-endian host for the *(*uint32) store (true on every arm64 target Go supports)"}
	r.Floor("C15.E", 3)
	r.Floor("C15.A1", 3)
	r.Floor("C15.A2", 4)
	c15Arch(c, p, "amd64")
	// sentinel agreement: the entry emitter starts with the byte the already-patched test looks for
	gen := jumpGenerator(p)
	if gen != nil {
		for _, ret := range returnsOf(gen) {
			for _, a := range origins(retResult(ret, 0)) {
				if cl, ok := a.V.(*ssa.Call); ok {
					if em := staticCallee(cl.Common()); em != nil && relPkg(em) == "internal/patch" {
						res := emit(em)
						okNop := len(res) > 0
						for _, e := range res {
							if len(e.Bytes) == 0 {
								okNop = false
								continue
							}
							if v, ok := e.Bytes[0].constVal(); !ok || v != 0x90 {
								okNop = false
							}
						}
						r.Check(okNop, "C15.A1", "entry jump starts with the NOP sentinel", p.Pos(em.Pos()), "first byte 90", "the entry jump does not start with the NOP byte that the already-patched test recognises")
					}
				}
			}
		}
	}
	k2, err := c.K2()
	if err != nil {
		r.Und("C15.A3", "arm64 configuration", "", "cannot load: "+err.Error())
		return
	}
	r.SetConfig("linux/arm64")
	r.Floor("C15.A3", 1)
	res := c15Arch(c, k2, "arm64")
	// A4 sibling agreement on arm64: same destination register and lane placement (scratch may differ)
	var scr []string
	for f, rs := range res {
		for _, e := range rs {
			if fm := classifyARM64(e.Bytes); fm.OK {
				scr = append(scr, fmt.Sprintf("%s=X%d", f.Name(), fm.Scratch))
			}
		}
	}
	r.Stat("arm64_scratch_registers", scr)
	r.SetConfig("linux/amd64")
}

// c01Template: C01.R1 — the entry jump clobbers only the closure-context register (and the linker temp on arm64).
func c01Template(c *Ctx, p *Prog) {
	r := c.R
	gen := jumpGenerator(p)
	if gen == nil {
		r.Und("C01.R1", "entry emitter", "", "jump generator not found")
		return
	}
	var em *ssa.Function
	for _, ret := range returnsOf(gen) {
		for _, a := range origins(retResult(ret, 0)) {
			if cl, ok := a.V.(*ssa.Call); ok {
				if f := staticCallee(cl.Common()); f != nil && relPkg(f) == "internal/patch" {
					em = f
				}
			}
		}
	}
	if em == nil {
		r.Und("C01.R1", "entry emitter", p.Pos(gen.Pos()), "not found")
		return
	}
	if g := returnsSharedStorage(em); g != "" {
		r.Bad("C01.R1", "entry jump template of "+shortName(em), p.Pos(em.Pos()), "the entry-jump emitter returns a view of package-level storage ("+g+"): every guard aliases one buffer, so applying or restoring a guard after another function was patched writes the other function's replacement address")
		return
	}
	res := emit(em)
	for _, e := range res {
		if e.Err != "" {
			r.Und("C01.R1", "entry jump template of "+shortName(em), p.Pos(em.Pos()), e.Err)
			continue
		}
		if p.Arch == "amd64" {
			fm := classifyAMD64(e.Bytes)
			r.Check(fm.Kind == "abs", "C01.R1", "entry jump template of "+shortName(em), p.Pos(em.Pos()), "NOP; MOV RDX,imm64; JMP [RDX]: writes RDX only, no stack access, flags untouched",
				"the entry jump is not [NOP;] MOV RDX,imm64; JMP [RDX] ("+fm.Why+"): it would clobber an argument register or miss the closure-context register")
		} else {
			fm := classifyARM64(e.Bytes)
			if !fm.OK {
				r.Bad("C01.R1", "entry jump template of "+shortName(em), p.Pos(em.Pos()), fm.Why)
				continue
			}
			// Go arm64 ABIInternal: R0–R15 integer arguments/results, R26 closure context, R27 REGTMP (linker temporary)
			r.Check(fm.Scratch == 27 || fm.Scratch == 16 || fm.Scratch == 17, "C01.R1", "entry jump scratch register of "+shortName(em), p.Pos(em.Pos()), fmt.Sprintf("scratch X%d is not an argument register", fm.Scratch),
				fmt.Sprintf("the arm64 entry jump loads the code pointer into X%d, an ABIInternal integer argument register (R0–R15): the replacement sees a corrupted argument when the signature uses ≥%d integer words", fm.Scratch, fm.Scratch+1))
		}
	}
}

// returnsSharedStorage: some return value of f is (a slice of) a package-level variable; returns its name.
func returnsSharedStorage(f *ssa.Function) string {
	name := ""
	var walk func(v ssa.Value, seen map[ssa.Value]bool)
	walk = func(v ssa.Value, seen map[ssa.Value]bool) {
		if v == nil || seen[v] {
			return
		}
		seen[v] = true
		switch x := v.(type) {
		case *ssa.Global:
			name = x.Name()
		case *ssa.Slice:
			walk(x.X, seen)
		case *ssa.Phi:
			for _, e := range x.Edges {
				walk(e, seen)
			}
		case *ssa.UnOp:
			walk(x.X, seen)
		case *ssa.IndexAddr:
			walk(x.X, seen)
		case *ssa.FieldAddr:
			walk(x.X, seen)
		case *ssa.ChangeType:
			walk(x.X, seen)
		case *ssa.Convert:
			walk(x.X, seen)
		}
	}
	for _, ret := range returnsOf(f) {
		for k := range ret.Results {
			walk(retResult(ret, k), map[ssa.Value]bool{})
		}
	}
	return name
}
