package main

import (
	"fmt"
	"go/ast"
	"go/token"
	"go/types"
	"os"
	"path/filepath"
	"sort"
	"strings"

	"golang.org/x/tools/go/callgraph"
	"golang.org/x/tools/go/callgraph/cha"
	"golang.org/x/tools/go/packages"
	"golang.org/x/tools/go/ssa"
	"golang.org/x/tools/go/ssa/ssautil"
)

// Mod is the module path of the analysed repository.
const Mod = "github.com/tencent/goom"

// Prog is one loaded configuration (GOARCH) of /repo.
type Prog struct {
	Repo   string
	Arch   string
	Fset   *token.FileSet
	Pkgs   []*packages.Package          // module packages only (roots)
	ByPath map[string]*packages.Package // every package incl. deps
	SSA    *ssa.Program
	SPkg   map[string]*ssa.Package
	Funcs  []*ssa.Function // all functions of module packages (incl. anonymous)
	cg     *callgraph.Graph
	medges map[*ssa.Function][]*ssa.Function
	tws    []textWriteSite
	mglob  map[*ssa.Global]string
	stab   [][2]string
	vset   *variadicSet
	proles *PatchRoles
	Sizes  types.Sizes
}

// Load type-checks and SSA-builds every package of the repo for the given GOARCH.
// Packages that cannot be built for the architecture for a documented reason are listed in skip.
func Load(repo, arch string) (*Prog, error) { return LoadOverlay(repo, arch, nil) }

// LoadOverlay is Load with some files replaced by the given contents (the normalised view).
func LoadOverlay(repo, arch string, overlay map[string][]byte) (*Prog, error) {
	env := append(os.Environ(),
		"GOFLAGS=-mod=mod", "GOPROXY=off", "GOSUMDB=off", "GOWORK=off", "GOTOOLCHAIN=local",
		"GOOS=linux", "GOARCH="+arch)
	if arch != "amd64" {
		env = append(env, "CGO_ENABLED=0")
	}
	cfg := &packages.Config{
		Mode:       packages.LoadAllSyntax,
		Dir:        repo,
		Env:        env,
		Tests:      false,
		BuildFlags: []string{"-tags=verif"},
		Overlay:    overlay,
	}
	pkgs, err := packages.Load(cfg, "./...")
	if err != nil {
		return nil, fmt.Errorf("load: %w", err)
	}
	if len(pkgs) == 0 {
		return nil, fmt.Errorf("load: zero packages")
	}
	p := &Prog{Repo: repo, Arch: arch, ByPath: map[string]*packages.Package{}, SPkg: map[string]*ssa.Package{}}
	var roots []*packages.Package
	var errs []string
	for _, pk := range pkgs {
		if arch != "amd64" && pk.PkgPath == Mod+"/test" {
			// documented: package test needs cgo, which is off for the cross configuration
			continue
		}
		if len(pk.Errors) > 0 {
			for _, e := range pk.Errors {
				errs = append(errs, e.Error())
			}
			continue
		}
		roots = append(roots, pk)
	}
	if len(errs) > 0 {
		return nil, fmt.Errorf("load(%s): package errors: %s", arch, strings.Join(errs, "; "))
	}
	packages.Visit(roots, nil, func(pk *packages.Package) {
		p.ByPath[pk.PkgPath] = pk
	})
	for _, pk := range p.ByPath {
		if len(pk.Errors) > 0 && strings.HasPrefix(pk.PkgPath, Mod) {
			return nil, fmt.Errorf("load(%s): %s: %v", arch, pk.PkgPath, pk.Errors)
		}
	}
	p.Pkgs = roots
	p.Fset = roots[0].Fset
	prog, spkgs := ssautil.AllPackages(roots, ssa.BuilderMode(0))
	prog.Build()
	p.SSA = prog
	for i, sp := range spkgs {
		if sp != nil {
			p.SPkg[roots[i].PkgPath] = sp
		}
	}
	for _, sp := range prog.AllPackages() {
		if _, ok := p.SPkg[sp.Pkg.Path()]; !ok {
			p.SPkg[sp.Pkg.Path()] = sp
		}
	}
	for fn := range ssautil.AllFunctions(prog) {
		if fn.Pkg != nil && strings.HasPrefix(fn.Pkg.Pkg.Path(), Mod) && fn.Blocks != nil {
			p.Funcs = append(p.Funcs, fn)
		} else if fn.Pkg == nil && fn.Parent() != nil {
			// anonymous functions carry their parent's package
			par := fn
			for par.Parent() != nil {
				par = par.Parent()
			}
			if par.Pkg != nil && strings.HasPrefix(par.Pkg.Pkg.Path(), Mod) && fn.Blocks != nil {
				p.Funcs = append(p.Funcs, fn)
			}
		}
	}
	sort.Slice(p.Funcs, func(i, j int) bool { return p.Funcs[i].String() < p.Funcs[j].String() })
	p.Sizes = types.SizesFor("gc", arch)
	return p, nil
}

// CG returns the CHA call graph (built once).
func (p *Prog) CG() *callgraph.Graph {
	if p.cg == nil {
		p.cg = cha.CallGraph(p.SSA)
	}
	return p.cg
}

// Pos renders a position relative to the repo root.
func (p *Prog) Pos(pos token.Pos) string {
	if !pos.IsValid() {
		return "?"
	}
	ps := p.Fset.Position(pos)
	rel, err := filepath.Rel(p.Repo, ps.Filename)
	if err != nil || strings.HasPrefix(rel, "..") {
		rel = ps.Filename
	}
	return fmt.Sprintf("%s:%d", rel, ps.Line)
}

// File returns the repo-relative file name of a position.
func (p *Prog) File(pos token.Pos) string {
	if !pos.IsValid() {
		return ""
	}
	ps := p.Fset.Position(pos)
	rel, err := filepath.Rel(p.Repo, ps.Filename)
	if err != nil {
		return ps.Filename
	}
	return rel
}

// Pkg returns the packages.Package with the given path relative to the module ("" = root).
func (p *Prog) Pkg(rel string) *packages.Package {
	path := Mod
	if rel != "" {
		path = Mod + "/" + rel
	}
	return p.ByPath[path]
}

// Fn finds a package-level function by module-relative package path and name; nil if absent.
func (p *Prog) Fn(rel, name string) *ssa.Function {
	path := Mod
	if rel != "" {
		path = Mod + "/" + rel
	}
	sp := p.SPkg[path]
	if sp == nil {
		return nil
	}
	return sp.Func(name)
}

// Meth finds a method (pointer or value receiver) of a named type.
func (p *Prog) Meth(rel, typ, name string) *ssa.Function {
	path := Mod
	if rel != "" {
		path = Mod + "/" + rel
	}
	return p.MethAbs(path, typ, name)
}

// MethAbs is Meth with an absolute package path.
func (p *Prog) MethAbs(path, typ, name string) *ssa.Function {
	pk := p.ByPath[path]
	if pk == nil || pk.Types == nil {
		return nil
	}
	obj := pk.Types.Scope().Lookup(typ)
	if obj == nil {
		return nil
	}
	tn, ok := obj.(*types.TypeName)
	if !ok {
		return nil
	}
	for _, t := range []types.Type{tn.Type(), types.NewPointer(tn.Type())} {
		ms := types.NewMethodSet(t)
		for i := 0; i < ms.Len(); i++ {
			sel := ms.At(i)
			if sel.Obj().Name() == name && len(sel.Index()) == 1 {
				if f := p.SSA.FuncValue(sel.Obj().(*types.Func)); f != nil {
					return f
				}
			}
		}
	}
	return nil
}

// NamedType looks a named type up by module-relative package and name.
func (p *Prog) NamedType(rel, name string) *types.Named {
	pk := p.Pkg(rel)
	if pk == nil {
		return nil
	}
	obj := pk.Types.Scope().Lookup(name)
	if obj == nil {
		return nil
	}
	n, _ := obj.Type().(*types.Named)
	return n
}

// Global finds a package-level variable.
func (p *Prog) Global(rel, name string) *ssa.Global {
	path := Mod
	if rel != "" {
		path = Mod + "/" + rel
	}
	sp := p.SPkg[path]
	if sp == nil {
		return nil
	}
	return sp.Var(name)
}

// FuncsIn returns all analysed functions (incl. closures) whose package is the module-relative rel.
func (p *Prog) FuncsIn(rel string) []*ssa.Function {
	path := Mod
	if rel != "" {
		path = Mod + "/" + rel
	}
	var out []*ssa.Function
	for _, f := range p.Funcs {
		if pkgPathOf(f) == path {
			out = append(out, f)
		}
	}
	return out
}

func pkgPathOf(f *ssa.Function) string {
	for f.Parent() != nil {
		f = f.Parent()
	}
	if f.Pkg != nil {
		return f.Pkg.Pkg.Path()
	}
	if f.Object() != nil && f.Object().Pkg() != nil {
		return f.Object().Pkg().Path()
	}
	return ""
}

// relPkg returns the module-relative package path of f ("" for root, "?" when outside).
func relPkg(f *ssa.Function) string {
	pp := pkgPathOf(f)
	if pp == Mod {
		return ""
	}
	if strings.HasPrefix(pp, Mod+"/") {
		return strings.TrimPrefix(pp, Mod+"/")
	}
	return "?" + pp
}

// shortName gives a stable, human readable name: pkg.(T).m or pkg.f or pkg.f$1.
func shortName(f *ssa.Function) string {
	if f == nil {
		return "<nil>"
	}
	s := f.String()
	s = strings.ReplaceAll(s, Mod+"/", "")
	s = strings.ReplaceAll(s, Mod, "mocker")
	return s
}

// FileOf returns the *ast.File and package for a module-relative file path.
func (p *Prog) FileOf(relFile string) (*ast.File, *packages.Package) {
	for _, pk := range p.Pkgs {
		for i, f := range pk.Syntax {
			name := pk.CompiledGoFiles[i]
			rel, _ := filepath.Rel(p.Repo, name)
			if rel == relFile {
				return f, pk
			}
		}
	}
	return nil, nil
}

// FuncDecl returns the AST declaration of an SSA function (nil for synthetic ones).
func (p *Prog) FuncDecl(f *ssa.Function) *ast.FuncDecl {
	if f == nil || f.Syntax() == nil {
		return nil
	}
	d, _ := f.Syntax().(*ast.FuncDecl)
	return d
}

// TypesInfoFor returns the types.Info of the package that owns f.
func (p *Prog) TypesInfoFor(f *ssa.Function) *types.Info {
	pk := p.ByPath[pkgPathOf(f)]
	if pk == nil {
		return nil
	}
	return pk.TypesInfo
}

// stableTable maps the display name of every module function that carries an unexported name to a rename-stable
// descriptor: package, receiver shape, signature types and the ordinal among same-shaped unexported functions of the
// package in source order. Known findings and suppressions are also matched through it, so that renaming an unexported
// function does not turn a recorded finding into a fresh alarm.
func (p *Prog) stableTable() [][2]string {
	if p.stab != nil {
		return p.stab
	}
	type ent struct {
		f    *ssa.Function
		desc string
		file string
		off  int
	}
	var ents []ent
	for _, f := range p.Funcs {
		if !strings.HasPrefix(pkgPathOf(f), Mod) || f.Object() == nil || f.Synthetic != "" {
			continue
		}
		private := !f.Object().Exported()
		recv := ""
		if rv := f.Signature.Recv(); rv != nil {
			t := rv.Type()
			ptr := ""
			if pt, ok := t.(*types.Pointer); ok {
				t, ptr = pt.Elem(), "*"
			}
			if nt, ok := t.(*types.Named); ok {
				if nt.Obj().Exported() {
					recv = "(" + ptr + nt.Obj().Name() + ")"
				} else {
					recv = "(" + ptr + "~)"
					private = true
				}
			}
		}
		if !private {
			continue
		}
		q := func(pk *types.Package) string { return pk.Name() }
		var sb strings.Builder
		sb.WriteString(relPkg(f) + "." + recv + "~func(")
		for i := 0; i < f.Signature.Params().Len(); i++ {
			if i > 0 {
				sb.WriteString(",")
			}
			sb.WriteString(types.TypeString(f.Signature.Params().At(i).Type(), q))
		}
		sb.WriteString(")(")
		for i := 0; i < f.Signature.Results().Len(); i++ {
			if i > 0 {
				sb.WriteString(",")
			}
			sb.WriteString(types.TypeString(f.Signature.Results().At(i).Type(), q))
		}
		sb.WriteString(")")
		pos := p.Fset.Position(f.Pos())
		ents = append(ents, ent{f, sb.String(), filepath.Base(pos.Filename), pos.Offset})
	}
	sort.Slice(ents, func(i, j int) bool {
		if ents[i].desc != ents[j].desc {
			return ents[i].desc < ents[j].desc
		}
		if ents[i].file != ents[j].file {
			return ents[i].file < ents[j].file
		}
		return ents[i].off < ents[j].off
	})
	var out [][2]string
	n := 0
	for i, e := range ents {
		if i > 0 && ents[i-1].desc == e.desc {
			n++
		} else {
			n = 0
		}
		out = append(out, [2]string{shortName(e.f), fmt.Sprintf("%s#%d", e.desc, n)})
	}
	// longest display names first so that a name that is a prefix of another is not replaced inside it
	sort.Slice(out, func(i, j int) bool { return len(out[i][0]) > len(out[j][0]) })
	p.stab = out
	return out
}

// StableConstruct rewrites a construct string, replacing display names of unexported functions by their stable descriptors.
func (p *Prog) StableConstruct(s string) string {
	for _, e := range p.stableTable() {
		if strings.Contains(s, e[0]) {
			// only whole-name occurrences: the next character must not continue an identifier
			idx := strings.Index(s, e[0])
			end := idx + len(e[0])
			if end < len(s) {
				c := s[end]
				if c == '_' || c == '$' || (c >= '0' && c <= '9') || (c >= 'a' && c <= 'z') || (c >= 'A' && c <= 'Z') {
					continue
				}
			}
			s = s[:idx] + e[1] + s[end:]
		}
	}
	return s
}
