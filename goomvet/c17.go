package main

import (
	"fmt"
	"go/ast"
	"go/parser"
	"go/token"
	"go/types"
	"os"
	"os/exec"
	"path/filepath"
	"reflect"
	"sort"
	"strconv"
	"strings"

	"golang.org/x/tools/go/ssa"
)

func init() { register("C17", c17) }

const armPkg = "internal/arch/arm64asm"

// identifiers that goom exported / renamed relative to the reference copy
// canonRename is the identifier map in force (the arm64 one unless a caller swaps it for the duration of its comparison).
var canonRename = c17Rename

var c17Rename = map[string]string{"Sys": "sys", "Sys_AT": "sys_AT", "Sys_DC": "sys_DC", "Sys_IC": "sys_IC", "Sys_TLBI": "sys_TLBI", "Sys_SYS": "sys_SYS"}

// canon renders an AST node without positions/comments, literals by value, identifiers through the rename map.
//
// Three behaviour-preserving differences are normalised away on both sides: a package-level constant is rendered as its
// literal value; fmt.Errorf and errors.New of one verb-free string literal are the same call; an assignment whose target
// is a package-level variable that the package never reads (coverage bookkeeping) is dropped.
func (ds *declSet) canon(n interface{}) string {
	var sb strings.Builder
	canonSide = ds
	canonW(&sb, reflect.ValueOf(n))
	return sb.String()
}

// canonSide: the declarations of the side being rendered (set by declSet.canon; rendering is sequential).
var canonSide *declSet

// errCtor: e is fmt.Errorf("…")/errors.New("…") of a single verb-free literal; returns the literal.
func errCtor(e *ast.CallExpr) (string, bool) {
	sel, ok := e.Fun.(*ast.SelectorExpr)
	if !ok || len(e.Args) != 1 {
		return "", false
	}
	pk, ok := sel.X.(*ast.Ident)
	if !ok || !((pk.Name == "fmt" && sel.Sel.Name == "Errorf") || (pk.Name == "errors" && sel.Sel.Name == "New")) {
		return "", false
	}
	lit, ok := e.Args[0].(*ast.BasicLit)
	if !ok || lit.Kind != token.STRING || strings.Contains(lit.Value, "%") {
		return "", false
	}
	return lit.Value, true
}

// deadWrite: st assigns plain values to (elements of) package-level variables that are never read.
func (ds *declSet) deadWrite(st ast.Stmt) bool {
	as, ok := st.(*ast.AssignStmt)
	if !ok || as.Tok != token.ASSIGN || ds == nil {
		return false
	}
	for _, l := range as.Lhs {
		root := l
		for {
			switch x := root.(type) {
			case *ast.IndexExpr:
				if _, plain := x.Index.(*ast.Ident); !plain {
					if _, lit := x.Index.(*ast.BasicLit); !lit {
						return false
					}
				}
				root = x.X
				continue
			case *ast.ParenExpr:
				root = x.X
				continue
			}
			break
		}
		id, ok := root.(*ast.Ident)
		if !ok || !ds.writeOnly[id.Name] || (id.Obj != nil && id.Obj.Kind != ast.Var) {
			return false
		}
		if id.Obj != nil {
			if _, pkgLevel := id.Obj.Decl.(*ast.ValueSpec); !pkgLevel {
				return false
			}
		}
	}
	for _, rv := range as.Rhs {
		switch x := rv.(type) {
		case *ast.BasicLit:
		case *ast.Ident:
			if x.Name != "true" && x.Name != "false" {
				return false
			}
		default:
			return false
		}
	}
	return true
}

func canonW(sb *strings.Builder, v reflect.Value) {
	if !v.IsValid() {
		sb.WriteString("nil")
		return
	}
	switch v.Kind() {
	case reflect.Interface, reflect.Ptr:
		if v.IsNil() {
			sb.WriteString("nil")
			return
		}
		if v.Kind() == reflect.Ptr {
			switch x := v.Interface().(type) {
			case *ast.Ident:
				name := x.Name
				if r, ok := canonRename[name]; ok {
					name = r
				}
				if canonSide != nil && (x.Obj == nil || x.Obj.Kind == ast.Con) {
					if lit, ok := canonSide.consts[name]; ok {
						canonW(sb, reflect.ValueOf(lit))
						return
					}
				}
				sb.WriteString("id:" + name)
				return
			case *ast.BasicLit:
				val := x.Value
				if x.Kind == token.INT {
					if iv, err := strconv.ParseInt(strings.ReplaceAll(val, "_", ""), 0, 64); err == nil {
						val = strconv.FormatInt(iv, 10)
					} else if uv, err := strconv.ParseUint(strings.ReplaceAll(val, "_", ""), 0, 64); err == nil {
						val = strconv.FormatUint(uv, 10)
					}
				}
				sb.WriteString("lit:" + x.Kind.String() + ":" + val)
				return
			case *ast.CommentGroup, *ast.Comment, *ast.Object, *ast.Scope:
				return
			case *ast.ParenExpr:
				canonW(sb, reflect.ValueOf(x.X))
				return
			case *ast.IncDecStmt:
				// x++ is x += 1
				tok := token.ADD_ASSIGN
				if x.Tok == token.DEC {
					tok = token.SUB_ASSIGN
				}
				canonW(sb, reflect.ValueOf(&ast.AssignStmt{Lhs: []ast.Expr{x.X}, Tok: tok, Rhs: []ast.Expr{&ast.BasicLit{Kind: token.INT, Value: "1"}}}))
				return
			case *ast.CallExpr:
				if lit, ok := errCtor(x); ok {
					sb.WriteString("newerror:" + lit)
					return
				}
			case *ast.SwitchStmt:
				// a switch without tag is the if / else-if chain over its cases in order
				if chain := switchAsIfChain(x); chain != nil {
					canonW(sb, reflect.ValueOf(chain))
					return
				}
			}
		}
		canonW(sb, v.Elem())
	case reflect.Struct:
		t := v.Type()
		sb.WriteString(t.Name() + "{")
		for i := 0; i < v.NumField(); i++ {
			f := t.Field(i)
			if f.Type == reflect.TypeOf(token.Pos(0)) {
				continue
			}
			switch f.Name {
			case "Doc", "Comment", "Obj", "Scope", "Unresolved", "Comments", "Imports", "Lbrace", "Rbrace", "Lparen", "Rparen", "FileStart", "FileEnd", "GoVersion":
				continue
			}
			sb.WriteString(f.Name + "=")
			canonW(sb, v.Field(i))
			sb.WriteString(";")
		}
		sb.WriteString("}")
	case reflect.Slice:
		sb.WriteString("[")
		for i := 0; i < v.Len(); i++ {
			if v.Index(i).CanInterface() {
				if st, isStmt := v.Index(i).Interface().(ast.Stmt); isStmt && canonSide.deadWrite(st) {
					continue
				}
			}
			canonW(sb, v.Index(i))
			sb.WriteString(",")
		}
		sb.WriteString("]")
	case reflect.Int, reflect.Int64, reflect.Int32:
		if v.Type() == reflect.TypeOf(token.ADD) {
			sb.WriteString(token.Token(v.Int()).String())
		} else {
			sb.WriteString(strconv.FormatInt(v.Int(), 10))
		}
	case reflect.Bool:
		sb.WriteString(strconv.FormatBool(v.Bool()))
	case reflect.String:
		sb.WriteString(strconv.Quote(v.String()))
	default:
		sb.WriteString(fmt.Sprint(v.Kind()))
	}
}

type declSet struct {
	funcs  map[string]*ast.FuncDecl // "Recv.Name" or "Name"
	values map[string]ast.Expr      // top-level var/const initialisers by name
	types  map[string]ast.Expr
	fset   *token.FileSet
	// consts: package-level constants declared with a literal value; writeOnly: package-level variables that no
	// expression of the package reads
	consts    map[string]*ast.BasicLit
	writeOnly map[string]bool
}

func parseDecls(dir string, skip map[string]bool) (*declSet, error) {
	fset := token.NewFileSet()
	pkgs, err := parser.ParseDir(fset, dir, func(fi os.FileInfo) bool {
		return !strings.HasSuffix(fi.Name(), "_test.go") && !skip[fi.Name()]
	}, 0)
	if err != nil {
		return nil, err
	}
	ds := &declSet{funcs: map[string]*ast.FuncDecl{}, values: map[string]ast.Expr{}, types: map[string]ast.Expr{}, fset: fset, consts: map[string]*ast.BasicLit{}, writeOnly: map[string]bool{}}
	pkgVars := map[string]bool{}
	reads := map[string]bool{}
	for _, pk := range pkgs {
		for _, f := range pk.Files {
			for _, d := range f.Decls {
				switch x := d.(type) {
				case *ast.FuncDecl:
					name := x.Name.Name
					if r, ok := canonRename[name]; ok {
						name = r
					}
					if x.Recv != nil && len(x.Recv.List) > 0 {
						rt := x.Recv.List[0].Type
						if st, ok := rt.(*ast.StarExpr); ok {
							rt = st.X
						}
						if id, ok := rt.(*ast.Ident); ok {
							rn := id.Name
							if r, ok := canonRename[rn]; ok {
								rn = r
							}
							name = rn + "." + name
						}
					}
					ds.funcs[name] = x
				case *ast.GenDecl:
					for _, sp := range x.Specs {
						switch s := sp.(type) {
						case *ast.ValueSpec:
							for i, nm := range s.Names {
								if i < len(s.Values) {
									n := nm.Name
									if r, ok := canonRename[n]; ok {
										n = r
									}
									ds.values[n] = s.Values[i]
									if lit, isLit := s.Values[i].(*ast.BasicLit); isLit && x.Tok == token.CONST {
										ds.consts[n] = lit
									}
								}
								if x.Tok == token.VAR {
									pkgVars[nm.Name] = true
								}
							}
						case *ast.TypeSpec:
							n := s.Name.Name
							if r, ok := canonRename[n]; ok {
								n = r
							}
							ds.types[n] = s.Type
						}
					}
				}
			}
			// reads of package-level variables: every mention that is not the root of an assignment target
			target := map[*ast.Ident]bool{}
			ast.Inspect(f, func(n ast.Node) bool {
				if as, ok := n.(*ast.AssignStmt); ok && as.Tok == token.ASSIGN {
					for _, l := range as.Lhs {
						root := l
						for {
							switch x := root.(type) {
							case *ast.IndexExpr:
								root = x.X
								continue
							case *ast.ParenExpr:
								root = x.X
								continue
							}
							break
						}
						if id, ok := root.(*ast.Ident); ok {
							target[id] = true
						}
					}
				}
				return true
			})
			ast.Inspect(f, func(n ast.Node) bool {
				switch x := n.(type) {
				case *ast.ValueSpec:
					for _, v := range x.Values {
						ast.Inspect(v, func(m ast.Node) bool {
							if id, ok := m.(*ast.Ident); ok {
								reads[id.Name] = true
							}
							return true
						})
					}
					return false
				case *ast.Ident:
					if !target[x] && (x.Obj == nil || x.Obj.Kind == ast.Var) {
						if x.Obj != nil {
							if _, pkgLevel := x.Obj.Decl.(*ast.ValueSpec); !pkgLevel {
								return true
							}
						}
						reads[x.Name] = true
					}
				}
				return true
			})
		}
	}
	for v := range pkgVars {
		if !reads[v] {
			ds.writeOnly[v] = true
		}
	}
	return ds, nil
}

// instFormat is one row of the decoding table.
type instFormat struct {
	mask, value uint64
	op          string
	args        []string
	canDecode   string
	pos         token.Pos
}

func tableRows(ds *declSet) ([]instFormat, error) {
	e, ok := ds.values["instFormats"]
	if !ok {
		return nil, fmt.Errorf("instFormats not found")
	}
	cl, ok := e.(*ast.CompositeLit)
	if !ok {
		return nil, fmt.Errorf("instFormats is not a composite literal")
	}
	var rows []instFormat
	for _, el := range cl.Elts {
		rl, ok := el.(*ast.CompositeLit)
		if !ok || len(rl.Elts) < 5 {
			return nil, fmt.Errorf("unexpected row shape")
		}
		num := func(x ast.Expr) uint64 {
			if bl, ok := x.(*ast.BasicLit); ok {
				v, _ := strconv.ParseUint(bl.Value, 0, 64)
				return v
			}
			return ^uint64(0)
		}
		row := instFormat{mask: num(rl.Elts[0]), value: num(rl.Elts[1]), pos: rl.Pos()}
		if id, ok := rl.Elts[2].(*ast.Ident); ok {
			row.op = id.Name
		}
		if al, ok := rl.Elts[3].(*ast.CompositeLit); ok {
			for _, a := range al.Elts {
				if id, ok := a.(*ast.Ident); ok {
					row.args = append(row.args, id.Name)
				}
			}
		}
		if id, ok := rl.Elts[4].(*ast.Ident); ok {
			row.canDecode = id.Name
		}
		rows = append(rows, row)
	}
	return rows, nil
}

func c17(c *Ctx) {
	p, r := c.K1(), c.R
	r.Level = "translation_validation"
	r.Expl = "goom's arm64 decoder is a copy of golang.org/x/arch/arm64/arm64asm; the toolchain's own copy in $GOROOT/src/cmd/vendor is the independent reference. Agreement on all 2^32 words is decided by construction, not enumeration: (R1) the mask/value/op/args/predicate table is the reference's table row by row; (R2) Decode, every decodeArg case, every predicate and helper are equal to the reference as normalised syntax trees (positions/comments dropped, literals by value, the exported-name map sys_*↔Sys_*); (R3) the set of diverging functions/cases is computed, and every table row that can reach a diverging predicate or argument kind is confined to the A64 system-instruction space (mask ⊇ 0xFFF80000, value&0xFFF80000 = 0xD5080000), so every other word runs identical code over identical tables; (R4) totality: the length guard dominates the word read, no explicit panic, no unchecked type assertion in Decode and in the String methods reachable from Inst.String; (R5) goom's arm64 consumers test the decode error before use and read the PC-relative argument through a checked assertion. Printing fidelity and words inside the system-instruction carve-out are not decided."
	r.RuleText = "one obligation per (rule, table / function / case clause / row / call site)"
	r.Floor("C17.R1", 1)
	r.Floor("C17.R2", 40)
	r.Floor("C17.R3", 1)
	r.Floor("C17.R4", 3)
	goroot := ""
	if out, err := exec.Command("go", "env", "GOROOT").Output(); err == nil {
		goroot = strings.TrimSpace(string(out))
	}
	refDir := filepath.Join(goroot, "src", "cmd", "vendor", "golang.org", "x", "arch", "arm64", "arm64asm")
	if _, err := os.Stat(filepath.Join(refDir, "decode.go")); err != nil {
		r.Und("C17.R1", "reference decoder", "", "reference unavailable: "+refDir+" not found")
		return
	}
	ours, err1 := parseDecls(filepath.Join(p.Repo, armPkg), map[string]bool{})
	ref, err2 := parseDecls(refDir, map[string]bool{})
	if err1 != nil || err2 != nil {
		r.Und("C17.R1", "parse", "", fmt.Sprintf("cannot parse: %v %v", err1, err2))
		return
	}
	r.Stat("reference_dir", refDir)
	// ---- R1 tables
	orows, e1 := tableRows(ours)
	rrows, e2 := tableRows(ref)
	if e1 != nil || e2 != nil {
		r.Und("C17.R1", "instFormats", "", fmt.Sprintf("%v %v", e1, e2))
		return
	}
	r.Stat("table_rows", len(orows))
	okT := len(orows) == len(rrows)
	firstDiff := ""
	for i := 0; okT && i < len(orows); i++ {
		a, b := orows[i], rrows[i]
		if a.mask != b.mask || a.value != b.value || a.op != b.op || strings.Join(a.args, ",") != strings.Join(b.args, ",") || a.canDecode != b.canDecode {
			okT = false
			firstDiff = fmt.Sprintf("row %d: goom {%#x %#x %s %v %s} reference {%#x %#x %s %v %s}", i, a.mask, a.value, a.op, a.args, a.canDecode, b.mask, b.value, b.op, b.args, b.canDecode)
		}
	}
	if len(orows) != len(rrows) {
		firstDiff = fmt.Sprintf("%d rows vs %d in the reference", len(orows), len(rrows))
	}
	r.Check(okT, "C17.R1", "instFormats equals the reference table", armPkg+"/tables.go", fmt.Sprintf("%d rows identical (mask, value, op, args, predicate)", len(orows)),
		"the decoding table differs from the reference decoder's: "+firstDiff+" — words matching that row are decoded differently (or not at all)")
	// other tables/values of tables.go and inst.go that Decode/String rely on
	for _, name := range []string{"opstr"} {
		a, okA := ours.values[name]
		b, okB := ref.values[name]
		if okA && okB {
			r.Check(ours.canon(a) == ref.canon(b), "C17.R1", name+" equals the reference", armPkg+"/tables.go", "identical", "table "+name+" differs from the reference")
		}
	}
	// ---- R2 code equality
	diverge := map[string]bool{}
	var names []string
	for n := range ours.funcs {
		names = append(names, n)
	}
	sort.Strings(names)
	nEq := 0
	for _, n := range names {
		of := ours.funcs[n]
		rf, ok := ref.funcs[n]
		file := filepath.Base(ours.fset.Position(of.Pos()).Filename)
		if file == "gnu.go" {
			continue // GNU syntax printer: not used by goom, not part of the property
		}
		if !ok {
			r.Bad("C17.R2", "func "+n, armPkg+"/"+file, "function "+n+" has no counterpart in the reference decoder: equivalence not established")
			continue
		}
		if n == "decodeArg" {
			nEq += c17Cases(r, ours, ref, of, rf, diverge, file)
			continue
		}
		if ours.canon(of.Type) == ref.canon(rf.Type) && ours.canon(of.Body) == ref.canon(rf.Body) {
			nEq++
			r.OK("C17.R2", "func "+n, armPkg+"/"+file, "equal to the reference modulo renaming")
		} else {
			diverge[n] = true
		}
	}
	// type declarations the decoder depends on
	for n, ot := range ours.types {
		if rt, ok := ref.types[n]; ok {
			if ours.canon(ot) != ref.canon(rt) {
				diverge["type "+n] = true
			}
		}
	}
	r.Stat("functions_equal_to_reference", nEq)
	// ---- R3 carve-out
	var dv []string
	for d := range diverge {
		dv = append(dv, d)
	}
	sort.Strings(dv)
	r.Stat("diverging_constructs", dv)
	r.Stat("programs", nEq+len(orows))
	r.Stat("disagreements_checked", len(dv))
	// closure: functions that (transitively) mention a diverging function
	mentions := func(fd *ast.FuncDecl, name string) bool {
		found := false
		ast.Inspect(fd, func(n ast.Node) bool {
			if id, ok := n.(*ast.Ident); ok && id.Name == name {
				found = true
			}
			return true
		})
		return found
	}
	tainted := map[string]bool{}
	for d := range diverge {
		if !strings.HasPrefix(d, "case ") && !strings.HasPrefix(d, "type ") {
			tainted[d] = true
		}
	}
	for changed := true; changed; {
		changed = false
		for n, fd := range ours.funcs {
			if tainted[n] {
				continue
			}
			for t := range tainted {
				if mentions(fd, t) {
					tainted[n] = true
					changed = true
				}
			}
		}
	}
	divArgs := map[string]bool{}
	for d := range diverge {
		if strings.HasPrefix(d, "case ") {
			for _, a := range strings.Split(strings.TrimPrefix(d, "case "), ",") {
				divArgs[a] = true
			}
		}
	}
	// a diverging non-predicate function must not be on the path of every word: Decode itself must be equal
	for _, must := range []string{"Decode"} {
		r.Check(!diverge[must] && !tainted[must], "C17.R3", must+" itself is not in the diverging set", armPkg+"/decode.go", "equal to the reference",
			must+" (or something it calls unconditionally) diverges from the reference: equivalence outside the carve-out is not established")
	}
	nConf := 0
	for i, row := range orows {
		hit := ""
		if row.canDecode != "nil" && tainted[row.canDecode] {
			hit = "predicate " + row.canDecode
		}
		for _, a := range row.args {
			if divArgs[a] {
				hit = "argument kind " + a
			}
		}
		if hit == "" {
			continue
		}
		nConf++
		confined := row.mask&0xFFF80000 == 0xFFF80000 && row.value&0xFFF80000 == 0xD5080000
		r.Check(confined, "C17.R3", fmt.Sprintf("row %d (%s) reaching diverging %s is a SYS encoding", i, row.op, hit), p.Pos(token.NoPos),
			fmt.Sprintf("mask %#x value %#x inside the A64 system-instruction space", row.mask, row.value),
			fmt.Sprintf("table row %d (%s, mask %#x value %#x) uses %s, which differs from the reference, but is not confined to the system-instruction encodings: ordinary instruction words are decoded differently from the reference", i, row.op, row.mask, row.value, hit))
	}
	// diverging constructs that no row accounts for (helpers used by printing etc.) must be reachable only from tainted predicates
	for _, d := range dv {
		if strings.HasPrefix(d, "case ") || strings.HasPrefix(d, "type ") {
			continue
		}
		used := false
		for _, row := range orows {
			if row.canDecode == d || tainted[row.canDecode] {
				used = true
			}
		}
		isPred := strings.HasSuffix(d, "_cond") || strings.HasPrefix(d, "sys_") || strings.HasPrefix(d, "sys.")
		r.Check(isPred || !c17ReachableFromDecode(ours, d), "C17.R3", "diverging "+d+" is confined to predicates of SYS rows", armPkg, "only reachable through system-instruction predicates",
			"function "+d+" differs from the reference and is reachable from Decode outside the system-instruction predicates: equivalence not established")
		_ = used
	}
	r.Stat("rows_in_carve_out", nConf)
	r.Check(len(dv) <= 12, "C17.R3", "size of the diverging set", armPkg, fmt.Sprintf("%d constructs: %v", len(dv), dv), "too many constructs differ from the reference for a confined carve-out")

	// ---- R4 totality (SSA, the package is portable so it is part of the amd64 load)
	dec := p.Fn(armPkg, "Decode")
	if dec == nil {
		r.Und("C17.R4", "arm64asm.Decode", "", "not found in the loaded program")
		return
	}
	checkSliceReads(p, r, "C17.R4", dec, dec.Params[0])
	// the word read: binary.LittleEndian.Uint32(src) dominated by len(src) >= 4
	k := NewKeyer(dec)
	for _, cs := range callsTo(dec, "(encoding/binary.littleEndian).Uint32") {
		m := NewDBM()
		guardsToDBM(m, k, cs.Block())
		arg := callCommon(cs).Args[len(callCommon(cs).Args)-1]
		ok := m.EntailsLE(Term{"", 4}, Term{"len(" + k.Key(arg) + ")", 0})
		r.Check(ok, "C17.R4", "word read guarded by len(src) >= 4 in Decode", p.Pos(posOf(cs)), "length guard dominates", "the 4-byte word is read without a dominating len(src) >= 4 check: a short input panics")
	}
	reach := p.staticReach(dec)
	if is := p.MethAbs(Mod+"/"+armPkg, "Inst", "String"); is != nil {
		for f := range p.reachableFuncs(is) {
			if relPkg(f) == armPkg {
				reach[f] = true
			}
		}
	}
	nPanic, nAssert := 0, 0
	for f := range reach {
		if relPkg(f) != armPkg {
			continue
		}
		eachInstr(f, func(i ssa.Instruction) {
			switch x := i.(type) {
			case *ssa.Panic:
				nPanic++
				r.Bad("C17.R4", "explicit panic in "+shortName(f), p.Pos(posOf(i)), "the decoder (or a String method reachable from Inst.String) contains an explicit panic: some word can crash decoding/printing")
			case *ssa.TypeAssert:
				if !x.CommaOk {
					nAssert++
					r.Bad("C17.R4", "unchecked type assertion in "+shortName(f), p.Pos(posOf(i)), "an unchecked type assertion in the decode/print path panics for an unexpected argument kind")
				}
			}
		})
	}
	nIdx, nProven := 0, 0
	for f := range reach {
		if relPkg(f) != armPkg {
			continue
		}
		a, b := checkIndexSafety(p, r, "C17.R4", f)
		nIdx += a
		nProven += b
	}
	r.Stat("index_sites_on_decode_print_path", nIdx)
	r.Stat("index_sites_proven", nProven)
	r.Check(nPanic == 0 && nAssert == 0, "C17.R4", "no panic / unchecked assertion on the decode and print paths", armPkg, fmt.Sprintf("%d functions inspected", len(reach)), "see individual sites")
	// ---- R5 consumers (arm64 configuration)
	if k2, err := c.K2(); err == nil {
		r.SetConfig("linux/arm64")
		decName := qual(armPkg, "Decode")
		n := 0
		for _, f := range k2.FuncsIn("internal/bytecode") {
			for _, cs := range callsTo(f, decName) {
				cl, ok := cs.(*ssa.Call)
				if !ok {
					continue
				}
				n++
				var errV ssa.Value
				for _, ref := range *cl.Referrers() {
					if ex, ok := ref.(*ssa.Extract); ok && ex.Index == 1 {
						errV = ex
					}
				}
				r.Check(errV != nil && errValueUsed(errV), "C17.R5", "decode error tested in "+shortName(f), k2.Pos(posOf(cl)), "error tested before use", "an arm64 consumer ignores the decode error")
			}
			eachInstr(f, func(i ssa.Instruction) {
				if ta, ok := i.(*ssa.TypeAssert); ok && strings.Contains(ta.AssertedType.String(), "arm64asm") {
					r.Check(ta.CommaOk, "C17.R5", "PC-relative argument read through a checked assertion in "+shortName(f), k2.Pos(posOf(i)), "v, ok := arg.(PCRel)", "unchecked assertion on a decoded argument")
					if ta.CommaOk {
						// the asserted value is used only where the assertion is known to have held
						var val, okv ssa.Value
						for _, ref := range *ta.Referrers() {
							if ex, isEx := ref.(*ssa.Extract); isEx {
								if ex.Index == 0 {
									val = ex
								} else {
									okv = ex
								}
							}
						}
						usedOK := true
						if val != nil {
							for _, ref := range *val.Referrers() {
								if _, dbg := ref.(*ssa.DebugRef); dbg {
									continue
								}
								held := false
								for _, g := range guardsAt(ref.Block()) {
									if g.Cond == okv && g.Pol {
										held = true
									}
								}
								if !held {
									usedOK = false
								}
							}
						}
						r.Check(usedOK, "C17.R5", "PC-relative argument used only when the assertion held in "+shortName(f), k2.Pos(posOf(i)), "every use is on the ok side", "the displacement of a decoded branch is used although the argument was not a PC-relative one (the zero value stands in): the wrapper's callee is computed as the call instruction itself")
					}
				}
			})
		}
		r.Stat("arm64_decode_consumers", n)
		inBC := func(rel string) bool { return rel == "internal/bytecode" }
		checkErrorPolarity(k2, r, "C17.R5", inBC)
		checkNoDeadComparisons(k2, r, "C17.R5", inBC)
		if nt := checkCallTargetArithmetic(k2, r, "C17.R5"); nt == 0 {
			r.Und("C17.R5", "branch target arithmetic", "", "no arm64 scanner computes an address from a decoded displacement")
		}
		r.SetConfig("linux/amd64")
	} else {
		r.Und("C17.R5", "arm64 configuration", "", err.Error())
	}
	// thorough: the compiler's unproven bounds checks in the arm64 decoder
	if c.Tier == "thorough" {
		c16BCE(c, p, r, "C17.R4", []string{"./internal/arch/arm64asm"}, c17BCEAllowed)
	}
}

var c17BCEAllowed = map[string]string{
	"internal/arch/arm64asm.Decode | decoderCover": "slice of constant length len(instFormats), allocated once in init, indexed by the range index over instFormats (proved by the index-safety rule of C17.R4)",
	"internal/arch/arm64asm.GNUSyntax | ?":         "GNU-syntax printer, not called by goom and not reachable from Inst.String (outside the property)",
}

// c17Cases compares decodeArg clause by clause; returns number of equal clauses.
func c17Cases(r *Report, ours, ref *declSet, of, rf *ast.FuncDecl, diverge map[string]bool, file string) int {
	clauses := func(ds *declSet, fd *ast.FuncDecl) (map[string]*ast.CaseClause, string) {
		out := map[string]*ast.CaseClause{}
		rest := ""
		for _, st := range fd.Body.List {
			if sw, ok := st.(*ast.SwitchStmt); ok {
				for _, c := range sw.Body.List {
					cc := c.(*ast.CaseClause)
					if cc.List == nil {
						out["default"] = cc
						continue
					}
					// clauses listing several kinds are split so that regrouping does not matter
					for _, e := range cc.List {
						if id, ok := e.(*ast.Ident); ok {
							out[id.Name] = cc
						}
					}
				}
			} else {
				rest += ds.canon(st) + "|"
			}
		}
		return out, rest
	}
	oc, orest := clauses(ours, of)
	rc, rrest := clauses(ref, rf)
	n := 0
	if orest != rrest || ours.canon(of.Type) != ref.canon(rf.Type) {
		diverge["decodeArg"] = true
	}
	var keys []string
	for k := range oc {
		keys = append(keys, k)
	}
	sort.Strings(keys)
	var div []string
	for _, k := range keys {
		a := oc[k]
		b, ok := rc[k]
		if ok && ours.canon(a.Body) == ref.canon(b.Body) {
			n++
			continue
		}
		div = append(div, k)
	}
	for k := range rc {
		if _, ok := oc[k]; !ok {
			div = append(div, k)
		}
	}
	sort.Strings(div)
	if len(div) > 0 {
		diverge["case "+strings.Join(div, ",")] = true
	}
	r.OK("C17.R2", "decodeArg clauses", armPkg+"/"+file, fmt.Sprintf("%d of %d argument kinds equal to the reference; diverging: %v", n, len(keys), div))
	return n
}

// c17ReachableFromDecode: name is mentioned (transitively) by Decode/decodeArg outside predicates.
func c17ReachableFromDecode(ds *declSet, name string) bool {
	seen := map[string]bool{}
	var walk func(fn string) bool
	walk = func(fn string) bool {
		if seen[fn] {
			return false
		}
		seen[fn] = true
		fd, ok := ds.funcs[fn]
		if !ok {
			return false
		}
		hit := false
		ast.Inspect(fd, func(n ast.Node) bool {
			if id, ok := n.(*ast.Ident); ok {
				if id.Name == name {
					hit = true
				}
				if _, isF := ds.funcs[id.Name]; isF && id.Name != fn && !strings.HasSuffix(id.Name, "_cond") {
					if walk(id.Name) {
						hit = true
					}
				}
			}
			return true
		})
		return hit
	}
	return walk("Decode") || walk("decodeArg")
}

// checkIndexSafety proves every array/slice/string index in fn within bounds; unproven sites are reported.
func checkIndexSafety(p *Prog, r *Report, rule string, fn *ssa.Function) (n, proven int) {
	k := NewKeyer(fn)
	eachInstr(fn, func(i ssa.Instruction) {
		var base, idx ssa.Value
		switch x := i.(type) {
		case *ssa.IndexAddr:
			base, idx = x.X, x.Index
		case *ssa.Index:
			base, idx = x.X, x.Index
		case *ssa.Lookup:
			if _, isStr := x.X.Type().Underlying().(*types.Basic); isStr {
				base, idx = x.X, x.Index
			}
		}
		if base == nil {
			return
		}
		n++
		// length of the indexed object
		var lenConst int64 = -1
		t := base.Type().Underlying()
		if pt, ok := t.(*types.Pointer); ok {
			t = pt.Elem().Underlying()
		}
		if at, ok := t.(*types.Array); ok {
			lenConst = at.Len()
		}
		// a package-level slice assigned exactly once, in an initialiser, with a constant length
		if ld, ok := base.(*ssa.UnOp); ok && lenConst < 0 {
			if g, ok := ld.X.(*ssa.Global); ok {
				nSt := 0
				var l int64 = -1
				for _, f2 := range p.Funcs {
					eachInstr(f2, func(j ssa.Instruction) {
						if st, ok := j.(*ssa.Store); ok && st.Addr == ssa.Value(g) {
							nSt++
							if sl, ok := st.Val.(*ssa.Slice); ok {
								if a, ok := sl.X.(*ssa.Alloc); ok {
									if at, ok := a.Type().(*types.Pointer).Elem().Underlying().(*types.Array); ok && isPkgInit(f2) {
										l = at.Len()
									}
								}
							}
							if ms, ok := st.Val.(*ssa.MakeSlice); ok && isPkgInit(f2) {
								if cv, ok := constInt(ms.Len); ok {
									l = cv
								}
							}
						}
					})
				}
				if nSt == 1 && l >= 0 {
					lenConst = l
				}
			}
		}
		ok := false
		m := NewDBM()
		guardsToDBM(m, k, i.Block())
		it := k.TermOf(idx)
		if nonNeg(stripConstAdd(idx), map[ssa.Value]bool{}) {
			bt := k.TermOf(stripConstAdd(idx))
			m.AddLE(Term{"", -bt.K}, Term{bt.Var, 0})
		}
		if nonNeg(idx, map[ssa.Value]bool{}) {
			m.AddLE(Term{"", 0}, it)
		}
		// masked index: v & mask
		if bo, isB := resolveLocal(idx).(*ssa.BinOp); isB && bo.Op == token.AND {
			if mk, isC := constInt(bo.Y); isC && mk >= 0 {
				m.AddLE(it, Term{"", mk})
				m.AddLE(Term{"", 0}, it)
			}
		}
		// unsigned shift right of a w-bit value: v >> s has at most w-s bits
		if bo, isB := resolveLocal(idx).(*ssa.BinOp); isB && bo.Op == token.REM {
			if mk, isC := constInt(bo.Y); isC && mk > 0 && nonNeg(bo.X, map[ssa.Value]bool{}) {
				m.AddLE(it, Term{"", mk - 1})
				m.AddLE(Term{"", 0}, it)
			}
		}
		if lenConst >= 0 {
			ok = m.EntailsLE(Term{"", 0}, it) && m.EntailsLE(it, Term{"", lenConst - 1})
		} else {
			lt := Term{"len(" + k.Key(base) + ")", 0}
			ok = m.EntailsLE(Term{"", 0}, it) && m.EntailsLE(Term{it.Var, it.K + 1}, lt)
		}
		if ok {
			proven++
			return
		}
		r.Bad(rule, fmt.Sprintf("index in %s (%s[%s])", shortName(fn), typeShort(base.Type()), termShape(it)), p.Pos(posOf(i)),
			"an index on the decode/print path is not proven within bounds by the dominating conditions: some instruction word makes decoding or printing panic with 'index out of range'")
	})
	return
}

func typeShort(t types.Type) string {
	s := t.String()
	s = strings.ReplaceAll(s, Mod+"/", "")
	if len(s) > 40 {
		s = s[:40]
	}
	return s
}


// switchAsIfChain: `switch { case a: A; case b, c: B; default: D }` as `if a {A} else if b || c {B} else {D}`; nil when the
// switch has a tag or an init statement, or a body uses break/fallthrough (whose meaning depends on the switch).
func switchAsIfChain(sw *ast.SwitchStmt) ast.Stmt {
	if sw.Tag != nil || sw.Init != nil || sw.Body == nil || len(sw.Body.List) == 0 {
		return nil
	}
	bad := false
	ast.Inspect(sw.Body, func(n ast.Node) bool {
		if br, ok := n.(*ast.BranchStmt); ok && (br.Tok == token.BREAK || br.Tok == token.FALLTHROUGH) {
			bad = true
		}
		return !bad
	})
	if bad {
		return nil
	}
	var def *ast.CaseClause
	var cases []*ast.CaseClause
	for _, st := range sw.Body.List {
		cc, ok := st.(*ast.CaseClause)
		if !ok {
			return nil
		}
		if cc.List == nil {
			def = cc
		} else {
			cases = append(cases, cc)
		}
	}
	if len(cases) == 0 {
		return nil
	}
	var els ast.Stmt
	if def != nil {
		els = &ast.BlockStmt{List: def.Body}
	}
	for k := len(cases) - 1; k >= 0; k-- {
		cond := cases[k].List[0]
		for _, e := range cases[k].List[1:] {
			cond = &ast.BinaryExpr{X: cond, Op: token.LOR, Y: e}
		}
		els = &ast.IfStmt{Cond: cond, Body: &ast.BlockStmt{List: cases[k].Body}, Else: els}
	}
	return els
}
