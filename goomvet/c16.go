package main

import (
	"fmt"
	"go/ast"
	"go/constant"
	"go/token"
	"go/types"
	"os"
	"os/exec"
	"path/filepath"
	"regexp"
	"sort"
	"strconv"
	"strings"

	"golang.org/x/tools/go/packages"
	"golang.org/x/tools/go/ssa"
)

func init() { register("C16", c16) }

const x86Pkg = "internal/arch/x86asm"

// nonNeg: v is provably >= 0 (constants, len, sums of non-negatives, phis of those; cycles assumed optimistic).
func nonNeg(v ssa.Value, seen map[ssa.Value]bool) bool {
	if seen[v] {
		return true
	}
	seen[v] = true
	if b, ok := v.Type().Underlying().(*types.Basic); ok && b.Info()&types.IsUnsigned != 0 {
		return true
	}
	if first, step, ok := loopIndex(v); ok && first >= 0 && step >= 0 {
		return true
	}
	switch x := v.(type) {
	case *ssa.Const:
		c, ok := constInt(x)
		return ok && c >= 0
	case *ssa.Phi:
		for _, e := range x.Edges {
			if !nonNeg(e, seen) {
				return false
			}
		}
		return true
	case *ssa.BinOp:
		switch x.Op {
		case token.ADD, token.MUL:
			return nonNeg(x.X, seen) && nonNeg(x.Y, seen)
		case token.AND:
			return nonNeg(x.X, seen) || nonNeg(x.Y, seen)
		case token.SHR, token.REM, token.QUO:
			return nonNeg(x.X, seen)
		}
	case *ssa.Call:
		if isLenCall(x) {
			return true
		}
	case *ssa.Convert:
		if b, ok := x.X.Type().Underlying().(*types.Basic); ok && b.Info()&types.IsUnsigned != 0 {
			// widening of an unsigned value
			if w1, _ := typeWidth(x.X.Type()); w1 > 0 {
				if w2, _ := typeWidth(x.Type()); w2 > w1 {
					return true
				}
			}
		}
		return nonNeg(x.X, seen)
	}
	return false
}

// rootedAt: does slice value v derive (through phi / reslice) from parameter p?
func rootedAt(v ssa.Value, p *ssa.Parameter, seen map[ssa.Value]bool) bool {
	if seen[v] {
		return false
	}
	seen[v] = true
	switch x := v.(type) {
	case *ssa.Parameter:
		return x == p
	case *ssa.Phi:
		for _, e := range x.Edges {
			if rootedAt(e, p, seen) {
				return true
			}
		}
	case *ssa.Slice:
		return rootedAt(x.X, p, seen)
	}
	return false
}

// checkSliceReads proves every read of the byte-slice parameter of fn in range. Returns number of read sites.
func checkSliceReads(p *Prog, r *Report, rule string, fn *ssa.Function, src *ssa.Parameter) int {
	k := NewKeyer(fn)
	n := 0
	perKind := map[string]int{}
	addNonNeg := func(m *DBM, vals ...ssa.Value) {
		for _, v := range vals {
			if nonNeg(v, map[ssa.Value]bool{}) {
				t := k.TermOf(v)
				m.AddLE(Term{"", -t.K}, Term{t.Var, 0})
			}
		}
	}
	lenTerm := func(s ssa.Value) Term { return Term{"len(" + k.Key(s) + ")", 0} }
	eachInstr(fn, func(i ssa.Instruction) {
		switch x := i.(type) {
		case *ssa.IndexAddr:
			if _, isSl := x.X.Type().Underlying().(*types.Slice); !isSl || !rootedAt(x.X, src, map[ssa.Value]bool{}) {
				return
			}
			n++
			m := NewDBM()
			guardsToDBM(m, k, x.Block())
			// values compared in guards are positions: add their non-negativity
			for _, g := range guardsAt(x.Block()) {
				if bo, ok := g.Cond.(*ssa.BinOp); ok {
					addNonNeg(m, stripConstAdd(bo.X), stripConstAdd(bo.Y))
				}
			}
			addNonNeg(m, stripConstAdd(x.Index))
			idx := k.TermOf(x.Index)
			lt := lenTerm(x.X)
			ok := m.EntailsLE(Term{"", 0}, idx) && m.EntailsLE(Term{idx.Var, idx.K + 1}, lt)
			if !ok {
				// sums of two variables (src[pos+i]) and one-directional loop counters
				if bs, isSum := k.res(x.Index).(*ssa.BinOp); isSum && bs.Op == token.ADD {
					addNonNeg(m, bs.X, bs.Y)
				}
				deriveSumFacts(m, k, x.Block(), x.Index)
				ok = m.EntailsLE(Term{"", 0}, idx) && m.EntailsLE(Term{idx.Var, idx.K + 1}, lt)
			}
			note := "0 <= " + idx.String() + " < len proven by dominating guards"
			if !ok && idx.Var == "" && idx.K == 0 {
				// src[0] on an error path: non-emptiness may follow from "some counter that only takes positions < len is positive"
				for _, g := range guardsAt(x.Block()) {
					bo, isB := g.Cond.(*ssa.BinOp)
					if !isB {
						continue
					}
					if (bo.Op == token.GTR && g.Pol) || (bo.Op == token.LEQ && !g.Pol) {
						if cv, isC := constInt(bo.Y); isC && cv >= 0 && positiveImpliesNonEmpty(k, bo.X, x.X, map[ssa.Value]bool{}) {
							ok, note = true, "a counter that is only ever assigned read positions < len is positive here, hence len >= 1"
						}
					}
				}
				// the xCondIsMem arm: a byte was already consumed (verified on the bytecode table by C16.R2 'ismem')
				if !ok && inCaseOf(x.Block(), "xCondIsMem", fn) {
					ok, note = true, "xCondIsMem runs only after an opcode byte was consumed (table fact verified by C16.R2), so the input is non-empty"
				}
			}
			kind := "src[" + termShape(idx) + "]"
			perKind[kind]++
			r.Check(ok, rule, fmt.Sprintf("%s read %s #%d", shortName(fn), kind, perKind[kind]), p.Pos(posOf(x)),
				note,
				"byte read at index "+idx.String()+" is not dominated by a sufficient length check: a truncated input makes the decoder panic instead of returning an error")
		case *ssa.Call:
			cn := calleeName(x.Common())
			need := int64(0)
			switch {
			case strings.HasSuffix(cn, "littleEndian).Uint16"):
				need = 2
			case strings.HasSuffix(cn, "littleEndian).Uint32"):
				need = 4
			case strings.HasSuffix(cn, "littleEndian).Uint64"):
				need = 8
			}
			if need == 0 {
				return
			}
			arg := x.Call.Args[len(x.Call.Args)-1]
			sl, ok := arg.(*ssa.Slice)
			if !ok || !rootedAt(sl.X, src, map[ssa.Value]bool{}) {
				if rootedAt(arg, src, map[ssa.Value]bool{}) {
					sl = nil
				} else {
					return
				}
			}
			n++
			m := NewDBM()
			guardsToDBM(m, k, x.Block())
			var lo Term
			var base ssa.Value
			if sl != nil && sl.Low != nil && sl.High == nil {
				lo, base = k.TermOf(sl.Low), sl.X
				addNonNeg(m, stripConstAdd(sl.Low))
			} else if sl == nil {
				lo, base = Term{"", 0}, arg
			} else {
				r.Und(rule, shortName(fn)+" multi-byte read", p.Pos(posOf(x)), "unsupported slice form")
				return
			}
			okR := m.EntailsLE(Term{lo.Var, lo.K + need}, lenTerm(base)) && m.EntailsLE(Term{"", 0}, lo)
			kind := fmt.Sprintf("Uint%d(src[%s:])", need*8, termShape(lo))
			perKind[kind]++
			r.Check(okR, rule, fmt.Sprintf("%s read %s #%d", shortName(fn), kind, perKind[kind]), p.Pos(posOf(x)),
				fmt.Sprintf("%s+%d <= len proven", lo.String(), need),
				fmt.Sprintf("%d-byte read at %s is not dominated by a check that %d bytes remain: a truncated input panics", need, lo.String(), need))
		}
	})
	return n
}

func stripConstAdd(v ssa.Value) ssa.Value {
	for {
		v = resolveLocal(v)
		if bo, ok := v.(*ssa.BinOp); ok && (bo.Op == token.ADD || bo.Op == token.SUB) {
			if _, ok := constInt(bo.Y); ok {
				v = bo.X
				continue
			}
		}
		if cv, ok := v.(*ssa.Convert); ok {
			v = cv.X
			continue
		}
		return v
	}
}

func termShape(t Term) string {
	v := "pos"
	if t.Var == "" {
		return fmt.Sprint(t.K)
	}
	if t.K == 0 {
		return v
	}
	return fmt.Sprintf("%s%+d", v, t.K)
}

func c16(c *Ctx) {
	if os.Getenv("GOOMVET_X86IDX") != "" {
		c16IndexProbe(c.K1())
	}
	// R8: the function-extent scanner built on the decoder reports an extent that ends before the instruction at which it
	// stopped (C14.W2): a truncated decode near the end of a read window must not end the function early or late
	if !c.importing {
		importSiblingWhere(c, "C14", "C16.R8", func(rule string) bool { return rule == "C14.W2" }, func(cons string) bool { return strings.Contains(cons, "bytecode") })
	}
	c16PrefixStores(c.K1(), c.R)
	c.R.Floor("C16.R7", 5)
	c16Interpreter(c)
	// R6: decoding is a function of the bytes it is given: no memo, no shared scratch state on the decode path
	{
		p, r := c.K1(), c.R
		var droots []*ssa.Function
		for _, f := range []*ssa.Function{p.Fn("internal/bytecode", "ParseIns"), p.Fn("internal/arch/x86asm", "Decode")} {
			if f != nil {
				droots = append(droots, f)
			}
		}
		checkNoMutableState(p, r, "C16.R6", "instruction decoding", droots, func(f *ssa.Function) bool {
			rp := relPkg(f)
			return rp == "internal/arch/x86asm" || (rp == "internal/bytecode" && f.Name() == "ParseIns")
		}, "the length or PC-relative field reported for some bytes depends on what was decoded before (e.g. a truncated window answered from a longer one)")
	}
	p, r := c.K1(), c.R
	r.Expl = "Totality clauses of the bundled x86-64 decoder (agreement with a reference decoder on compiler-emitted code needs an encoding oracle and is NOT decided): (R1) every read of the input slice in the decoder is dominated by a length check that proves it in range on the same SSA values (difference constraints), the input is cut to 15 bytes first, and the position only grows; (R2) the decoder's bytecode table is verified entry by entry by an abstract execution of its control operators: all jump/branch targets in range, no cycles, every path ends in match/fail, PC-relative argument kinds are preceded by the read of a field of that width (so the PC-relative field lies inside the bytes consumed), immediates and ModR/M-based arguments are preceded by their reads, at most 4 arguments, an opcode is set before a match; (R4) every consumer loop that advances by the decoded length tests the decode error first and slices PC-relative fields with the decoder's own offset/width; (R3, thorough) every bounds check the compiler could not remove in the decoder is one of the reviewed constructs."
	r.RuleText = "one obligation per (rule, read site / table state / consumer call)"
	r.Floor("C16.R1", 20)
	r.Floor("C16.R2", 5)
	r.Floor("C16.R4", 4)
	r.Floor("C16.R5", 4)
	dec := p.Fn(x86Pkg, "Decode")
	if dec == nil {
		r.Und("C16.R1", "x86asm.Decode", "", "not found")
		return
	}
	// ---- R1
	nReads := 0
	var impl *ssa.Function
	for f := range p.staticReach(dec) {
		if relPkg(f) != x86Pkg {
			continue
		}
		for _, prm := range f.Params {
			if sl, ok := prm.Type().Underlying().(*types.Slice); ok && isByte(sl.Elem()) {
				nReads += checkSliceReads(p, r, "C16.R1", f, prm)
				if f != dec && len(f.Blocks) > 50 {
					impl = f
				}
			}
		}
	}
	r.Stat("src_read_sites", nReads)
	if impl != nil {
		// the input is cut to 15 bytes before anything else: a Slice [:15] under len>15 in the entry region
		okCut := false
		eachInstr(impl, func(i ssa.Instruction) {
			if sl, ok := i.(*ssa.Slice); ok && sl.High != nil {
				if hv, ok := constInt(sl.High); ok && hv == 15 {
					if _, isP := sl.X.(*ssa.Parameter); isP {
						okCut = true
					}
				}
			}
		})
		r.Check(okCut, "C16.R1", shortName(impl)+" limits the input to 15 bytes", p.Pos(impl.Pos()), "src = src[:15] when longer", "the decoder no longer limits its input to 15 bytes: it can report a length above 15")
		// Len of a returned instruction is a position value (non-negative, ≤ len(src) by the read guards)
		okLen := true
		eachInstr(impl, func(i ssa.Instruction) {
			if st, ok := i.(*ssa.Store); ok {
				if fa, ok := st.Addr.(*ssa.FieldAddr); ok {
					if fv := fieldVar(fa.X.Type(), fa.Field); fv != nil && fv.Name() == "Len" {
						if !nonNeg(st.Val, map[ssa.Value]bool{}) {
							okLen = false
						}
					}
				}
			}
		})
		r.Check(okLen, "C16.R1", shortName(impl)+" reports a non-negative length", p.Pos(impl.Pos()), "Len is assigned position values only", "Inst.Len is assigned a value that is not a (non-negative, growing) read position")
	}
	// ---- R5 the PC-relative field description is a snapshot taken where the field was read
	if impl != nil {
		var srcP *ssa.Parameter
		for _, prm := range impl.Params {
			if sl, ok := prm.Type().Underlying().(*types.Slice); ok && isByte(sl.Elem()) {
				srcP = prm
			}
		}
		readPos := map[ssa.Value]bool{}
		eachInstr(impl, func(i ssa.Instruction) {
			switch x := i.(type) {
			case *ssa.IndexAddr:
				if rootedAt(x.X, srcP, map[ssa.Value]bool{}) {
					readPos[x.Index] = true
				}
			case *ssa.Slice:
				if x.Low != nil && rootedAt(x.X, srcP, map[ssa.Value]bool{}) {
					readPos[x.Low] = true
				}
			}
		})
		leaves := func(v ssa.Value) []ssa.Value {
			var out []ssa.Value
			seen := map[ssa.Value]bool{}
			var walk func(v ssa.Value)
			walk = func(v ssa.Value) {
				if seen[v] {
					return
				}
				seen[v] = true
				if readPos[v] {
					out = append(out, v)
					return
				}
				if ph, ok := v.(*ssa.Phi); ok {
					for _, e := range ph.Edges {
						walk(e)
					}
					return
				}
				out = append(out, v)
			}
			walk(v)
			return out
		}
		nOff, nW := 0, 0
		eachInstr(impl, func(i ssa.Instruction) {
			st, ok := i.(*ssa.Store)
			if !ok {
				return
			}
			fa, ok := st.Addr.(*ssa.FieldAddr)
			if !ok {
				return
			}
			fv := fieldVar(fa.X.Type(), fa.Field)
			if fv == nil {
				return
			}
			switch fv.Name() {
			case "PCRelOff":
				nOff++
				okAll := true
				bad := ""
				for _, lf := range leaves(st.Val) {
					if c, ok := constInt(lf); ok && c == 0 {
						continue
					}
					if readPos[lf] {
						continue
					}
					okAll = false
					bad = lf.String()
				}
				r.Check(okAll, "C16.R5", fmt.Sprintf("PCRelOff store #%d is a read-position snapshot", nOff), p.Pos(posOf(st)), "offset = the position at which the PC-relative field was read",
					"Inst.PCRelOff is computed ("+bad+") instead of being the position recorded when the PC-relative field was read: when an immediate follows the displacement the reported field position is off, and relocation patches the wrong bytes")
			case "PCRel":
				nW++
				okAll := true
				for _, lf := range leaves(st.Val) {
					c, ok := constInt(lf)
					if !ok || !(c == 0 || c == 1 || c == 2 || c == 4) {
						okAll = false
					}
				}
				r.Check(okAll, "C16.R5", fmt.Sprintf("PCRel store #%d is a field width", nW), p.Pos(posOf(st)), "width ∈ {1,2,4}", "Inst.PCRel is not one of the field widths 1, 2, 4 that were actually read")
			}
		})
		if nOff == 0 {
			r.Bad("C16.R5", "PCRelOff stores", p.Pos(impl.Pos()), "the decoder never records the position of a PC-relative field")
		}
	}
	// ---- R2
	c16Table(p, r)
	// ---- R4 consumers
	c16Consumers(p, r)
	// ---- R3 (thorough): compiler's unproven bounds checks
	if c.Tier == "thorough" {
		c16BCE(c, p, r, "C16.R3", []string{"./internal/arch/x86asm", "./internal/bytecode"}, c16BCEAllowed)
	}
}

// c16Table verifies the decoder bytecode.
func c16Table(p *Prog, r *Report) {
	pk := p.Pkg(x86Pkg)
	var lit *ast.CompositeLit
	for _, f := range pk.Syntax {
		for _, d := range f.Decls {
			gd, ok := d.(*ast.GenDecl)
			if !ok {
				continue
			}
			for _, sp := range gd.Specs {
				vs, ok := sp.(*ast.ValueSpec)
				if !ok || len(vs.Names) != 1 || vs.Names[0].Name != "decoder" || len(vs.Values) != 1 {
					continue
				}
				lit, _ = vs.Values[0].(*ast.CompositeLit)
			}
		}
	}
	if lit == nil {
		r.Und("C16.R2", "decoder table", "", "var decoder not found")
		return
	}
	tab := make([]int, 0, len(lit.Elts))
	for _, e := range lit.Elts {
		tv := pk.TypesInfo.Types[e]
		if tv.Value == nil {
			r.Und("C16.R2", "decoder table", p.Pos(e.Pos()), "non-constant table element")
			return
		}
		v, _ := constant.Int64Val(tv.Value)
		tab = append(tab, int(v))
	}
	r.Stat("decoder_table_entries", len(tab))
	dsPairs := map[string]int{}
	defer func() {
		if os.Getenv("GOOMVET_DSPAIRS") != "" {
			fmt.Println("DSPAIRS", dsPairs)
		}
	}()
	opv := func(name string) int {
		o, _ := pk.Types.Scope().Lookup(name).(*types.Const)
		if o == nil {
			return -1
		}
		v, _ := constant.Int64Val(o.Val())
		return int(v)
	}
	// opcode name table
	names := map[int]string{}
	for _, n := range pk.Types.Scope().Names() {
		if cst, ok := pk.Types.Scope().Lookup(n).(*types.Const); ok && strings.HasPrefix(n, "x") && cst.Type().String() == Mod+"/"+x86Pkg+".decodeOp" {
			v, _ := constant.Int64Val(cst.Val())
			names[int(v)] = n
		}
	}
	r.Stat("decode_ops", len(names))
	xFail, xMatch, xJump := opv("xFail"), opv("xMatch"), opv("xJump")
	maxOp := opv("maxOp")
	if xFail != 0 || xMatch < 0 || len(names) < 30 {
		r.Und("C16.R2", "decoder opcodes", "", "decodeOp constants not found")
		return
	}
	type st struct {
		pc             int
		modrm          bool
		ib, iw, id, io bool
		ck             int // 0 none, 1 cb, 2 cw, 4 cd, 6 cp, 9 cm
		narg           int
		setop          bool
		consumed       bool // at least one opcode byte was consumed (pos >= 1)
		ds             int  // operand size the path was selected for by xCondDataSize (0 = not selected)
	}

	type issue struct{ rule, msg string }
	issues := map[string]string{}
	add := func(key, msg string) {
		if _, ok := issues[key]; !ok {
			issues[key] = msg
		}
	}
	memo := map[st]bool{}
	onStack := map[int]bool{}
	states, terminals := 0, 0
	inRange := func(pc int) bool { return pc >= 0 && pc < len(tab) }
	var run func(s st, depth int)
	run = func(s st, depth int) {
		for steps := 0; ; steps++ {
			if memo[s] {
				return
			}
			memo[s] = true
			states++
			if !inRange(s.pc) {
				add("target", fmt.Sprintf("control reaches pc=%d outside the table [1,%d)", s.pc, len(tab)))
				return
			}
			if steps > 100000 || depth > 4000 {
				add("cycle", "abstract execution does not terminate (cycle in the bytecode)")
				return
			}
			op := tab[s.pc]
			name := names[op]
			pc := s.pc + 1
			need := func(n int) bool {
				if pc+n > len(tab) {
					add("operand", fmt.Sprintf("%s at pc=%d has operands beyond the table", name, s.pc))
					return false
				}
				return true
			}
			branch := func(targets ...int) {
				if onStack[s.pc] {
					add("cycle", fmt.Sprintf("cycle through pc=%d", s.pc))
					return
				}
				onStack[s.pc] = true
				for _, t := range targets {
					if !inRange(t) {
						add("target", fmt.Sprintf("%s at pc=%d branches to %d outside the table", name, s.pc, t))
						continue
					}
					if t <= s.pc && false {
						add("cycle", "backward branch")
					}
					n := s
					n.pc = t
					run(n, depth+1)
				}
				onStack[s.pc] = false
			}
			if s.ds != 0 && (strings.Contains(name, "Imm") || strings.HasPrefix(name, "xRead")) {
				dsPairs[fmt.Sprintf("%d:%s", s.ds, name)]++
				// an arm selected for one operand size reads and reports immediates of that size
				bad := false
				switch s.ds {
				case 16:
					bad = name == "xArgImm32" || name == "xArgImm64" || name == "xReadID" || name == "xReadId" || name == "xReadIo"
				case 32:
					bad = name == "xArgImm16" || name == "xArgImm64" || name == "xReadIw" || name == "xReadIo"
				case 64:
					bad = name == "xArgImm16" || name == "xReadIw"
				}
				if bad {
					add("datasize", fmt.Sprintf("the %d-bit operand-size arm reaches %s at pc=%d: the immediate of that instruction is read with the wrong width, so its length is wrong and the following instructions are decoded out of step", s.ds, name, s.pc))
				}
			}
			switch {
			case name == "":
				add("unknown", fmt.Sprintf("unknown decode op %d at pc=%d", op, s.pc))
				return
			case op == xFail:
				terminals++
				return
			case op == xMatch:
				terminals++
				if !s.setop {
					add("setop", fmt.Sprintf("xMatch at pc=%d reached without a preceding xSetOp (instruction would have Op 0)", s.pc))
				}
				return
			case op == xJump:
				if !need(1) {
					return
				}
				branch(tab[pc])
				return
			case name == "xCondByte":
				if !need(1) {
					return
				}
				n := tab[pc]
				pc++
				if !need(2 * n) {
					return
				}
				// matching arms consume the byte; the fall-through does not
				if onStack[s.pc] {
					add("cycle", fmt.Sprintf("cycle through pc=%d", s.pc))
					return
				}
				onStack[s.pc] = true
				for i := 0; i <= n; i++ {
					t := pc + 2*n
					ns := s
					if i < n {
						t = tab[pc+2*i+1]
						ns.consumed = true
					}
					if !inRange(t) {
						add("target", fmt.Sprintf("xCondByte at pc=%d branches to %d outside the table", s.pc, t))
						continue
					}
					ns.pc = t
					run(ns, depth+1)
				}
				onStack[s.pc] = false
				return
			case name == "xCondIs64" || name == "xCondIsMem":
				if !need(2) {
					return
				}
				if name == "xCondIsMem" && !s.consumed && !s.modrm {
					add("ismem", fmt.Sprintf("xCondIsMem at pc=%d can run before any opcode byte was consumed: its 'too long' path reads src[0] of a possibly empty input", s.pc))
				}
				branch(tab[pc], tab[pc+1])
				return
			case name == "xCondDataSize":
				if !need(3) {
					return
				}
				if onStack[s.pc] {
					add("cycle", fmt.Sprintf("cycle through pc=%d", s.pc))
					return
				}
				onStack[s.pc] = true
				for k, t := range []int{tab[pc], tab[pc+1], tab[pc+2]} {
					if !inRange(t) {
						add("target", fmt.Sprintf("%s at pc=%d branches to %d outside the table", name, s.pc, t))
						continue
					}
					n := s
					n.pc = t
					n.ds = []int{16, 32, 64}[k]
					run(n, depth+1)
				}
				onStack[s.pc] = false
				return
			case name == "xCondAddrSize":
				if !need(3) {
					return
				}
				branch(tab[pc], tab[pc+1], tab[pc+2])
				return
			case name == "xCondPrefix":
				if !need(1) {
					return
				}
				n := tab[pc]
				pc++
				if !need(2 * n) {
					return
				}
				var ts []int
				for j := 0; j < n; j++ {
					ts = append(ts, tab[pc+2*j+1])
				}
				branch(ts...)
				return
			case name == "xCondSlashR":
				if !need(8) {
					return
				}
				s.modrm = true
				var ts []int
				for k2 := 0; k2 < 8; k2++ {
					ts = append(ts, tab[pc+k2])
				}
				n := s
				_ = n
				onStack[s.pc] = true
				for _, t := range ts {
					if !inRange(t) {
						add("target", fmt.Sprintf("xCondSlashR at pc=%d branches to %d outside the table", s.pc, t))
						continue
					}
					ns := s
					ns.pc = t
					run(ns, depth+1)
				}
				onStack[s.pc] = false
				return
			case name == "xSetOp":
				if !need(1) {
					return
				}
				if tab[pc] == 0 {
					add("setop", fmt.Sprintf("xSetOp at pc=%d sets opcode 0", s.pc))
				}
				if maxOp >= 0 && tab[pc] > maxOp {
					add("setop", fmt.Sprintf("xSetOp at pc=%d sets opcode %d beyond maxOp=%d (tables indexed by Op would be overrun)", s.pc, tab[pc], maxOp))
				}
				s.setop = true
				s.pc = pc + 1
			case name == "xReadSlashR":
				s.modrm = true
				s.pc = pc
			case name == "xReadIb":
				s.ib, s.pc = true, pc
			case name == "xReadIw":
				s.iw, s.pc = true, pc
			case name == "xReadID":
				s.id, s.pc = true, pc
			case name == "xReadIo":
				s.io, s.pc = true, pc
			case name == "xReadCb":
				s.ck, s.pc = 1, pc
			case name == "xReadCw":
				s.ck, s.pc = 2, pc
			case name == "xReadCd":
				s.ck, s.pc = 4, pc
			case name == "xReadCp":
				s.ck, s.pc = 6, pc
			case name == "xReadCm":
				s.ck, s.pc = 9, pc
			case strings.HasPrefix(name, "xArg"):
				s.narg++
				if s.narg > 4 {
					add("narg", fmt.Sprintf("more than 4 arguments on a path ending at pc=%d", s.pc))
					return
				}
				switch name {
				case "xArgRel8":
					if s.ck != 1 {
						add("rel", fmt.Sprintf("xArgRel8 at pc=%d is not preceded by xReadCb on this path (PCRelOff/PCRel would describe a field that was not read)", s.pc))
					}
				case "xArgRel16":
					if s.ck != 2 {
						add("rel", fmt.Sprintf("xArgRel16 at pc=%d is not preceded by xReadCw on this path", s.pc))
					}
				case "xArgRel32":
					if s.ck != 4 {
						add("rel", fmt.Sprintf("xArgRel32 at pc=%d is not preceded by xReadCd on this path (PCRelOff/PCRel would describe a field that was not read)", s.pc))
					}
				case "xArgImm8", "xArgImm8u":
					if !s.ib {
						add("imm", fmt.Sprintf("%s at pc=%d without xReadIb", name, s.pc))
					}
				case "xArgImm16", "xArgImm16u":
					if !s.iw {
						add("imm", fmt.Sprintf("%s at pc=%d without xReadIw", name, s.pc))
					}
				case "xArgImm32":
					if !s.id {
						add("imm", fmt.Sprintf("%s at pc=%d without xReadID", name, s.pc))
					}
				case "xArgImm64":
					if !s.io {
						add("imm", fmt.Sprintf("%s at pc=%d without xReadIo", name, s.pc))
					}
				case "xArgPtr16colon16":
					if s.ck != 4 {
						add("imm", fmt.Sprintf("%s at pc=%d without xReadCd", name, s.pc))
					}
				case "xArgPtr16colon32":
					if s.ck != 6 {
						add("imm", fmt.Sprintf("%s at pc=%d without xReadCp", name, s.pc))
					}
				case "xArgMoffs8", "xArgMoffs16", "xArgMoffs32", "xArgMoffs64":
					if s.ck != 9 {
						add("imm", fmt.Sprintf("%s at pc=%d without xReadCm", name, s.pc))
					}
				default:
					if modrmArgs[name] && !s.modrm {
						add("modrm", fmt.Sprintf("%s at pc=%d uses ModR/M fields that were not read on this path", name, s.pc))
					}
				}
				s.pc = pc
			default:
				add("unknown", fmt.Sprintf("decode op %s at pc=%d is not handled by the verifier", name, s.pc))
				return
			}
		}
	}
	run(st{pc: 1}, 0)
	r.Stat("decoder_abstract_states", states)
	r.Stat("decoder_terminal_states", terminals)
	for _, key := range []string{"target", "operand", "cycle", "unknown", "setop", "narg", "rel", "imm", "modrm", "ismem", "datasize"} {
		desc := map[string]string{
			"target": "all branch targets inside the table", "operand": "all operands inside the table", "cycle": "no cycle: every path terminates",
			"unknown": "only known decode ops", "setop": "an opcode is set before every match", "narg": "at most 4 arguments per path",
			"rel": "PC-relative arguments preceded by the read of a field of that width", "imm": "immediate/offset arguments preceded by their read", "modrm": "ModR/M-based arguments preceded by the ModR/M read", "ismem": "xCondIsMem only after a byte was consumed (its error path reads src[0])",
			"datasize": "the arms of an operand-size dispatch read immediates of their own size",
		}[key]
		msg, bad := issues[key]
		r.Check(!bad, "C16.R2", "decoder bytecode: "+desc, "internal/arch/x86asm/tables.go", fmt.Sprintf("verified over %d abstract states", states), "decoder bytecode table is malformed: "+msg)
	}
	r.Check(terminals > 1000, "C16.R2", "decoder bytecode: verifier explored the table", "internal/arch/x86asm/tables.go", fmt.Sprintf("%d terminal states", terminals), "the abstract execution reached almost no terminal state: table or verifier out of sync")
	// the interpreter dispatches every op the table uses
	used := map[int]bool{}
	for s := range memo {
		if inRange(s.pc) {
			used[tab[s.pc]] = true
		}
	}
	var unhandled []string
	handled := interpreterCases(pk)
	for op := range used {
		if n := names[op]; n != "" && !handled[n] && n != "xFail" && n != "xMatch" {
			unhandled = append(unhandled, n)
		}
	}
	sort.Strings(unhandled)
	r.Check(len(unhandled) == 0, "C16.R2", "interpreter handles every op the table uses", "internal/arch/x86asm/decode.go", fmt.Sprintf("%d ops used, all have a case", len(used)),
		"the table uses decode ops that no case of the interpreter handles ("+strings.Join(unhandled, ",")+"): they are silently skipped and the instruction is mis-decoded")
}

var modrmArgs = map[string]bool{"xArgR8": true, "xArgR16": true, "xArgR32": true, "xArgR64": true, "xArgRM8": true, "xArgRM16": true, "xArgRM32": true, "xArgRM64": true,
	"xArgSreg": true, "xArgCR0dashCR7": true, "xArgDR0dashDR7": true, "xArgTR0dashTR7": true, "xArgXmm": true, "xArgXmm1": true, "xArgXmm2": true, "xArgMm": true, "xArgMm1": true, "xArgMm2": true,
	"xArgRmf16": true, "xArgRmf32": true, "xArgRmf64": true, "xArgXmm2M128": true, "xArgXmm2M64": true, "xArgXmm2M32": true, "xArgXmm2M16": true, "xArgXmmM128": true, "xArgXmmM64": true, "xArgXmmM32": true,
	"xArgMmM32": true, "xArgMmM64": true, "xArgMm2M64": true, "xArgR32M16": true, "xArgR32M8": true, "xArgR64M16": true, "xArgYmm1": true, "xArgYmm2M256": true}

// interpreterCases lists the decodeOp names that appear in a case clause of the decoder.
func interpreterCases(pk *packages.Package) map[string]bool {
	out := map[string]bool{}
	for _, f := range pk.Syntax {
		ast.Inspect(f, func(n ast.Node) bool {
			cc, ok := n.(*ast.CaseClause)
			if !ok {
				return true
			}
			for _, e := range cc.List {
				if id, ok := e.(*ast.Ident); ok {
					if cst, ok := pk.TypesInfo.Uses[id].(*types.Const); ok && strings.HasSuffix(cst.Type().String(), ".decodeOp") {
						out[id.Name] = true
					}
				}
			}
			return true
		})
	}
	return out
}

func c16Consumers(p *Prog, r *Report) {
	// the scanners act on a decode error where there is one (inverted tests stop at every good instruction and walk on
	// through garbage) and no test is left without a consequence
	inBC := func(rel string) bool { return rel == "internal/bytecode" }
	checkErrorPolarity(p, r, "C16.R4", inBC)
	checkNoDeadComparisons(p, r, "C16.R4", inBC)
	// the window a scanner reads for the decoder holds a whole instruction: every raw read that feeds Decode asks for at
	// least the architectural maximum of 15 bytes (a shorter window truncates long instructions, which then decode as
	// one-byte pseudo instructions and the scan loses the instruction stream)
	for _, f := range p.FuncsIn("internal/bytecode") {
		if f.Blocks == nil {
			continue
		}
		nInF := 0
		for _, cs := range callsTo(f, qual(x86Pkg, "Decode")) {
			for _, a := range origins(callCommon(cs).Args[0]) {
				rd, ok := a.V.(*ssa.Call)
				if !ok || calleeName(rd.Common()) != qual(memPkg, "RawRead") {
					continue
				}
				nInF++
				n, isC := constInt(rd.Call.Args[1])
				r.Check(isC && n >= 15, "C16.R4", "decode window of "+shortName(f)+" #"+itoa2(nInF)+" holds a whole instruction", p.Pos(posOf(rd)), "constant length ≥ 15",
					"the bytes read for the decoder are fewer than the longest instruction (or their number is not a constant): an 11–15 byte instruction is cut off, decodes as garbage, and the function-extent scan stops short or runs out of step")
			}
		}
	}
	if n := checkCallTargetArithmetic(p, r, "C16.R4"); n == 0 {
		r.Und("C16.R4", "branch target arithmetic", "", "no scanner of package bytecode computes an address from a decoded displacement")
	}
	decName := qual(x86Pkg, "Decode")
	n := 0
	for _, f := range p.Funcs {
		rel := relPkg(f)
		if rel == x86Pkg {
			continue
		}
		for _, cs := range callsTo(f, decName) {
			cl, ok := cs.(*ssa.Call)
			if !ok {
				continue
			}
			n++
			// every use of the decoded instruction's Len to advance must be on the err==nil continuation, or the function returns/propagates the error
			var instV, errV ssa.Value
			for _, ref := range *cl.Referrers() {
				if ex, ok := ref.(*ssa.Extract); ok {
					if ex.Index == 0 {
						instV = ex
					} else {
						errV = ex
					}
				}
			}
			cons := "decode result in " + shortName(f) + " #" + itoa2(n)
			if errV == nil || !errValueUsed(errV) {
				r.Bad("C16.R4", cons, p.Pos(posOf(cl)), "the decode error is dropped: garbage lengths are used to walk the instruction stream")
				continue
			}
			// loop-advancing uses of Len: BinOp ADD(x, inst.Len) feeding a phi
			okAll := true
			why := ""
			if instV != nil {
				eachInstr(f, func(i ssa.Instruction) {
					bo, ok := i.(*ssa.BinOp)
					if !ok || bo.Op != token.ADD {
						return
					}
					usesLen := false
					for _, side := range []ssa.Value{bo.X, bo.Y} {
						for _, a := range origins(side) {
							if a.Kind == "field" && strings.HasSuffix(a.Name, "Inst.Len") {
								usesLen = true
							}
						}
					}
					if !usesLen || !dependsOn(bo, func(v ssa.Value) bool { return v == instV }) {
						return
					}
					// error must have been tested before this advance on every path from the call
					tested := errNilGuarded(bo.Block(), cl) || errTestedBetween(cl, bo, errV)
					if !tested {
						okAll = false
						why = "advance at " + p.Pos(posOf(bo))
					}
				})
			}
			r.Check(okAll, "C16.R4", cons, p.Pos(posOf(cl)), "error tested before the length advances the scan", "the scan advances by the decoded length without testing the decode error first ("+why+")")
		}
	}
	// ParseIns wrapper: returns the error it got
	if pi := p.Fn("internal/bytecode", "ParseIns"); pi != nil {
		okP := false
		for _, ret := range returnsOf(pi) {
			for _, a := range origins(retResult(ret, 2)) {
				if a.Kind == "call" && strings.Contains(a.Name, "x86asm.Decode") {
					okP = true
				}
			}
		}
		r.Check(okP, "C16.R4", "bytecode.ParseIns propagates the decode error", p.Pos(pi.Pos()), "returns Decode's error", "ParseIns swallows the decoder's error")
		// its callers test the error before using the instruction
		for _, cs := range p.callersOf(pi) {
			cl, ok := cs.Instr.(*ssa.Call)
			if !ok {
				continue
			}
			var errV ssa.Value
			for _, ref := range *cl.Referrers() {
				if ex, ok := ref.(*ssa.Extract); ok && ex.Index == 2 {
					errV = ex
				}
			}
			r.Check(errV != nil && errValueUsed(errV), "C16.R4", "ParseIns error used in "+shortName(cs.Caller)+" at "+blockOrdinal(cl), p.Pos(posOf(cl)), "error tested", "a consumer of ParseIns ignores the decode error")
		}
	}
	// PC-relative field slicing: block[off : off+ins.PCRel] with off = pos + ins.PCRelOff
	for _, f := range p.Funcs {
		if rel := relPkg(f); rel != "internal/bytecode" && rel != "internal/patch" {
			continue
		}
		eachInstr(f, func(i ssa.Instruction) {
			sl, ok := i.(*ssa.Slice)
			if !ok || sl.High == nil || sl.Low == nil {
				return
			}
			bo, ok := resolveLocal(sl.High).(*ssa.BinOp)
			if !ok || bo.Op != token.ADD {
				return
			}
			isF := func(name string) func(ssa.Value) bool {
				return func(v ssa.Value) bool { _, fv, ok := fieldRef(v); return ok && fv != nil && fv.Name() == name }
			}
			usesReloc := false
			eachInstr(f, func(j ssa.Instruction) {
				if fa, ok := j.(*ssa.FieldAddr); ok {
					if fv := fieldVar(fa.X.Type(), fa.Field); fv != nil && (fv.Name() == "PCRel" || fv.Name() == "PCRelOff") {
						usesReloc = true
					}
				}
			})
			if !usesReloc {
				return
			}
			if _, isB := sl.X.Type().Underlying().(*types.Slice); !isB {
				return
			}
			lowIsOne := resolveLocal(bo.X) == resolveLocal(sl.Low) || resolveLocal(bo.Y) == resolveLocal(sl.Low)
			if !lowIsOne {
				return
			}
			if !dependsOn(bo.Y, isF("PCRel")) && !dependsOn(bo.X, isF("PCRel")) {
				// [off : off+<something else>] in a function that handles PC-relative fields
				if _, isC := constInt(bo.Y); isC {
					r.Bad("C16.R4", "PC-relative field slice in "+shortName(f)+" at "+blockOrdinal(sl), p.Pos(posOf(sl)), "a PC-relative field is sliced with a constant width instead of the decoder's PCRel: for rel8/rel16 operands the neighbouring bytes are read as part of the displacement")
				}
				return
			}
			okLow := lowIsOne
			r.Check(okLow, "C16.R4", "PC-relative field slice in "+shortName(f)+" at "+blockOrdinal(sl), p.Pos(posOf(sl)), "[off : off+PCRel]", "the PC-relative field is sliced with a width other than the decoder's PCRel at the same offset")
		})
	}
	r.Stat("decode_consumers", n)
}

// errTestedBetween: some If on (errV != nil / == nil) dominates b and is dominated by a.
func errTestedBetween(a, b ssa.Instruction, errV ssa.Value) bool {
	found := false
	eachInstr(a.Parent(), func(i ssa.Instruction) {
		iff, ok := i.(*ssa.If)
		if !ok {
			return
		}
		bo, ok := iff.Cond.(*ssa.BinOp)
		if !ok || (bo.Op != token.NEQ && bo.Op != token.EQL) {
			return
		}
		if (bo.X == errV && isNilConst(bo.Y)) || (bo.Y == errV && isNilConst(bo.X)) {
			if domInstr(a, iff) && (iff.Block() == b.Block() || iff.Block().Dominates(b.Block())) {
				found = true
			}
		}
	})
	return found
}

// ---- compiler bounds-check inventory (thorough)

// reviewed constructs: function → reason; any unproven check in a function not listed (or new kind) fails.
var c16BCEAllowed = map[string]string{
	"internal/arch/x86asm.decode1 | src":           "C16.R1 proves every read of src in range (DBM over the dominating length guards)",
	"internal/arch/x86asm.decode1 | decoder":       "C16.R2 proves every operand and branch target of the bytecode inside the table",
	"internal/arch/x86asm.decode1 | decoderCover":  "the coverage slice is never allocated (no store to it anywhere, confirmed by the C11 inventory): the indexing statement is under `!= nil`",
	"internal/arch/x86asm.decode1 | inst.Args":     "array of 4; the index is the argument counter, which C16.R2 bounds by 4 (stored before the increment)",
	"internal/arch/x86asm.decode1 | inst.Prefix":   "array of 14; indices are prefix positions accepted only below len(inst.Prefix) (`pos >= len(inst.Prefix)` returns), recorded positions tested `>= 0`, or vexIndex+1/+2 with vexIndex = 0",
	"internal/arch/x86asm.decode1 | isCondJmp":     "array [maxOp+1]; the index is inst.Op, set only by xSetOp operands, which C16.R2 bounds by maxOp",
	"internal/arch/x86asm.Inst.String | ?":         "bytes.Buffer internals inlined into String (not an index of goom data)",
	"internal/bytecode.DecodeAddress | ?":          "inlined little-endian readers on a slice whose length is the same PCRel field that selects the width (C16.R4 slice rule)",
	"internal/bytecode.DecodeAddress | bytes":      "bytes has length PCRel ≥ 1 (C16.R4 slice rule; PCRel ∈ {1,2,4} by C16.R5)",
	"internal/bytecode.DecodeRelativeAddr | block": "block[offset:offset+PCRel] with offset = pos+PCRelOff inside the decoded instruction (C16.R2 'rel' + C16.R5)",
	"internal/bytecode.EncodeAddress | ?":          "inlined little-endian writers on addr, which is either the PCRel-wide field or a fresh 4-byte slice",
	"internal/bytecode.EncodeAddress | addr":       "addr is block[offset:offset+PCRel], PCRel ≥ 1",
	"internal/bytecode.EncodeAddress | ops":        "ops is block[pos:offset] with offset = pos+PCRelOff, PCRelOff ≥ 1 for PC-relative instructions",
	"internal/bytecode.GetFuncSize | code":         "code is a private 16-byte copy (RawRead(…, defaultInsLen)); indices 0 and :len(funcPrologue)=10",
	"internal/bytecode.GetInnerFunc | code":        "as GetFuncSize",
	"internal/bytecode.ParseIns | copyOrigin":      "copyOrigin[pos:endPos] under pos < len and endPos clamped to len",
	"internal/bytecode.PrintInstf | code":          "log-only path; code[:ins.Len] with Len ≤ len(code) by C16.R1",
	"internal/bytecode.PrintInstf | copyOrigin":    "log-only path; same PC-relative slice as DecodeRelativeAddr",
	"internal/bytecode.littleEndian.Int16 | b":     "bounds hint `_ = b[1]`; callers pass PCRel-wide slices (C16.R4)",
	"internal/bytecode.littleEndian.Int32 | b":     "bounds hint; as Int16",
	"internal/bytecode.littleEndian.Int64 | b":     "bounds hint; as Int16",
	"internal/bytecode.littleEndian.PutInt16 | b":  "bounds hint; as Int16",
	"internal/bytecode.littleEndian.PutInt32 | b":  "bounds hint; as Int16",
	"internal/bytecode.littleEndian.PutInt64 | b":  "bounds hint; as Int16",
}

var bceRe = regexp.MustCompile(`^(.*\.go):(\d+):(\d+): Found (IsInBounds|IsSliceInBounds)`)

// c16BCE runs the compiler's prove pass as an inventory of unremoved bounds checks and requires each to be in a reviewed function.
func c16BCE(c *Ctx, p *Prog, r *Report, rule string, pkgs []string, allowed map[string]string) {
	args := append([]string{"build", "-gcflags=-d=ssa/check_bce/debug=1"}, pkgs...)
	cmd := exec.Command("go", args...)
	cmd.Dir = p.Repo
	gocache, _ := os.MkdirTemp("", "goomvet-bce")
	defer os.RemoveAll(gocache)
	cmd.Env = append(os.Environ(), "GOFLAGS=-mod=mod", "GOPROXY=off", "GOSUMDB=off", "GOWORK=off", "GOTOOLCHAIN=local", "GOCACHE="+gocache)
	out, _ := cmd.CombinedOutput()
	perKey := map[string]int{}
	autoProved := map[string]string{}
	total := 0
	for _, line := range strings.Split(string(out), "\n") {
		m := bceRe.FindStringSubmatch(strings.TrimSpace(line))
		if m == nil {
			continue
		}
		total++
		file := m[1]
		var ln, col int
		fmt.Sscanf(m[2], "%d", &ln)
		fmt.Sscanf(m[3], "%d", &col)
		fn := enclosingFunc(p, file, ln)
		base := indexedBase(p, file, ln, col)
		if why := caseBoundProof(p, file, ln, col); why != "" {
			autoProved[fn+" | "+base] = why
		}
		perKey[fn+" | "+base]++
	}
	r.Stat("compiler_unproven_bounds_checks", total)
	if total == 0 {
		r.Und(rule, "bounds-check inventory", "", "the compiler reported no bounds checks at all: inventory command failed ("+strings.TrimSpace(firstLine(string(out)))+")")
		return
	}
	var keys []string
	for f := range perKey {
		keys = append(keys, f)
	}
	sort.Strings(keys)
	for _, k := range keys {
		why, ok := allowed[k]
		if a, okA := autoProved[k]; okA {
			why, ok = a, true
		}
		r.Check(ok, rule, "unproven bounds checks: "+k, "", fmt.Sprintf("%d checks, discharged by: %s", perKey[k], why),
			fmt.Sprintf("%d bounds checks the compiler cannot prove at a construct with no recorded discharge (%s): an out-of-range index there panics", perKey[k], k))
	}
}

// indexedBase names the indexed/sliced expression at file:line:col (e.g. "src", "inst.Prefix", "decoder").
func indexedBase(p *Prog, file string, line, col int) string {
	best := ""
	bestD := 1 << 30
	for _, pk := range p.Pkgs {
		for i, f := range pk.Syntax {
			if !strings.HasSuffix(pk.CompiledGoFiles[i], strings.TrimPrefix(file, "./")) {
				continue
			}
			ast.Inspect(f, func(n ast.Node) bool {
				var x ast.Expr
				var lb token.Pos
				switch e := n.(type) {
				case *ast.IndexExpr:
					x, lb = e.X, e.Lbrack
				case *ast.SliceExpr:
					x, lb = e.X, e.Lbrack
				default:
					return true
				}
				ps := p.Fset.Position(lb)
				pe := p.Fset.Position(n.End())
				if ps.Line > line || pe.Line < line {
					return true
				}
				d := ps.Column - col
				if d < 0 {
					d = -d
				}
				if ps.Line != line {
					d += 1000
				}
				if d < bestD {
					bestD = d
					best = types.ExprString(x)
				}
				return true
			})
		}
	}
	if best == "" {
		return "?"
	}
	return best
}

func firstLine(s string) string {
	if i := strings.Index(s, "\n"); i >= 0 {
		return s[:i]
	}
	return s
}

// enclosingFunc names the function declared around file:line.
func enclosingFunc(p *Prog, file string, line int) string {
	for _, pk := range p.Pkgs {
		for i, f := range pk.Syntax {
			name := pk.CompiledGoFiles[i]
			if !strings.HasSuffix(name, strings.TrimPrefix(file, "./")) {
				continue
			}
			for _, d := range f.Decls {
				fd, ok := d.(*ast.FuncDecl)
				if !ok {
					continue
				}
				s, e := p.Fset.Position(fd.Pos()).Line, p.Fset.Position(fd.End()).Line
				if line >= s && line <= e {
					rel := strings.TrimPrefix(strings.TrimPrefix(pk.PkgPath, Mod), "/")
					if fd.Recv != nil && len(fd.Recv.List) > 0 {
						return rel + "." + types.ExprString(fd.Recv.List[0].Type) + "." + fd.Name.Name
					}
					return rel + "." + fd.Name.Name
				}
			}
			return strings.TrimPrefix(strings.TrimPrefix(pk.PkgPath, Mod), "/") + ".<init>"
		}
	}
	return file
}

// positiveImpliesNonEmpty: every non-zero value that can flow into counter w was a read position p with p < len(src) at that point.
func positiveImpliesNonEmpty(k *Keyer, w ssa.Value, src ssa.Value, seen map[ssa.Value]bool) bool {
	w = resolveLocal(w)
	if seen[w] {
		return true
	}
	seen[w] = true
	switch x := w.(type) {
	case *ssa.Const:
		c, ok := constInt(x)
		return ok && c <= 0
	case *ssa.Phi:
		for i, e := range x.Edges {
			if positiveImpliesNonEmpty(k, e, src, seen) {
				continue
			}
			// e is a position: at the end of the predecessor the guards must entail e < len(src)
			m := NewDBM()
			for _, g := range knownAtEdge(x.Block().Preds[i], x.Block()) {
				addCondToDBM(m, k, g.Cond, g.Pol)
			}
			et := k.TermOf(e)
			if !m.EntailsLE(Term{et.Var, et.K + 1}, Term{"len(" + k.Key(src) + ")", 0}) {
				return false
			}
		}
		return true
	}
	return false
}

// inCaseOf: block b executes only in the switch arm for decode op constant named opName.
func inCaseOf(b *ssa.BasicBlock, opName string, fn *ssa.Function) bool {
	pk := fn.Pkg.Pkg
	cst, _ := pk.Scope().Lookup(opName).(*types.Const)
	if cst == nil {
		return false
	}
	want, _ := constant.Int64Val(cst.Val())
	for _, g := range guardsAt(b) {
		if bo, ok := g.Cond.(*ssa.BinOp); ok && bo.Op == token.EQL && g.Pol {
			if cv, ok := constInt(bo.Y); ok && cv == want {
				return true
			}
		}
	}
	return false
}

// caseBoundProof: the index expression at file:line:col is `T[x]` (or T[conv(x)]) with T a fixed-size array, x the tag of the
// enclosing switch, inside a case clause all of whose constants are below len(T). Returns the proof text or "".
func caseBoundProof(p *Prog, file string, line, col int) string {
	for _, pk := range p.Pkgs {
		for i, f := range pk.Syntax {
			if !strings.HasSuffix(pk.CompiledGoFiles[i], strings.TrimPrefix(file, "./")) {
				continue
			}
			var proof string
			var stack []ast.Node
			ast.Inspect(f, func(n ast.Node) bool {
				if n == nil {
					stack = stack[:len(stack)-1]
					return true
				}
				stack = append(stack, n)
				ie, ok := n.(*ast.IndexExpr)
				if !ok {
					return true
				}
				ps := p.Fset.Position(ie.Lbrack)
				if ps.Line != line {
					return true
				}
				at, ok := pk.TypesInfo.TypeOf(ie.X).Underlying().(*types.Array)
				if !ok {
					return true
				}
				// innermost enclosing case clause with constant expressions
				for k := len(stack) - 1; k >= 0; k-- {
					cc, ok := stack[k].(*ast.CaseClause)
					if !ok || len(cc.List) == 0 {
						continue
					}
					max := int64(-1)
					okC := true
					for _, e := range cc.List {
						tv := pk.TypesInfo.Types[e]
						if tv.Value == nil {
							okC = false
							break
						}
						v, _ := constant.Int64Val(tv.Value)
						if v > max {
							max = v
						}
					}
					// the index must be the switch tag (possibly converted)
					var sw *ast.SwitchStmt
					for j := k - 1; j >= 0; j-- {
						if s2, ok := stack[j].(*ast.SwitchStmt); ok {
							sw = s2
							break
						}
					}
					idxS := types.ExprString(ie.Index)
					tagOK := false
					if sw != nil && sw.Tag != nil {
						tagS := types.ExprString(sw.Tag)
						if idxS == tagS || strings.Contains(tagS, "("+idxS+")") || strings.Contains(idxS, "("+strings.TrimSuffix(strings.SplitN(tagS, "(", 2)[len(strings.SplitN(tagS, "(", 2))-1], ")")+")") {
							tagOK = true
						}
					}
					if okC && tagOK && max >= 0 && max < at.Len() {
						proof = fmt.Sprintf("table of length %d indexed by the switch tag inside a case whose largest constant is %d", at.Len(), max)
					}
					break
				}
				return true
			})
			if proof != "" {
				return proof
			}
		}
	}
	return ""
}

// c16IndexProbe (development aid): how many index expressions of the x86 decoder the general index-safety rule proves.
func c16IndexProbe(p *Prog) {
	sub := NewReport("C16", "quick")
	sub.SetConfig("probe")
	tot, prv := 0, 0
	for _, f := range p.FuncsIn("internal/arch/x86asm") {
		if f.Name() == "init" {
			continue
		}
		a, b := checkIndexSafety(p, sub, "probe", f)
		tot += a
		prv += b
	}
	fmt.Printf("x86asm index probe: %d index expressions, %d proven\n", tot, prv)
	for _, o := range sub.Obls {
		if o.Verdict != Discharged {
			fmt.Printf("  unproven %s %s\n", o.Pos, o.Construct)
		}
	}
}

// linForm: v as an integer-linear combination of leaves (constants folded; + − unary − and integer conversions looked through).
func linForm(k *Keyer, v ssa.Value, sign int64, out map[string]int64, konst *int64, depth int) {
	v = resolveLocal(v)
	if depth > 12 {
		out[k.Key(v)] += sign
		return
	}
	switch x := v.(type) {
	case *ssa.Const:
		if c, ok := constInt(x); ok {
			*konst += sign * c
			return
		}
	case *ssa.Convert:
		if isIntegerType(x.Type()) && isIntegerType(x.X.Type()) {
			linForm(k, x.X, sign, out, konst, depth+1)
			return
		}
	case *ssa.ChangeType:
		linForm(k, x.X, sign, out, konst, depth+1)
		return
	case *ssa.UnOp:
		if x.Op == token.SUB {
			linForm(k, x.X, -sign, out, konst, depth+1)
			return
		}
	case *ssa.Call:
		// len(s[l:h]) is h − l (l defaults to 0, h to len(s)) wherever the slice expression did not panic
		if bi, ok := x.Call.Value.(*ssa.Builtin); ok && bi.Name() == "len" && len(x.Call.Args) == 1 {
			if sl, ok := resolveLocal(x.Call.Args[0]).(*ssa.Slice); ok && sl.Max == nil {
				if _, isSlice := sl.X.Type().Underlying().(*types.Slice); isSlice {
					if sl.High != nil {
						linForm(k, sl.High, sign, out, konst, depth+1)
					} else {
						out["len("+k.Key(sl.X)+")"] += sign
					}
					if sl.Low != nil {
						linForm(k, sl.Low, -sign, out, konst, depth+1)
					}
					return
				}
			}
		}
	case *ssa.BinOp:
		switch x.Op {
		case token.ADD:
			linForm(k, x.X, sign, out, konst, depth+1)
			linForm(k, x.Y, sign, out, konst, depth+1)
			return
		case token.SUB:
			linForm(k, x.X, sign, out, konst, depth+1)
			linForm(k, x.Y, -sign, out, konst, depth+1)
			return
		}
	}
	out[k.Key(v)] += sign
}

// checkCallTargetArithmetic: a scanner of package bytecode that turns the displacement of a decoded call/branch into an
// address returns, on every such way, start + position + displacement (+ the instruction's length when the displacement is
// an x86 one, which counts from the next instruction), each exactly once and nothing else.
func checkCallTargetArithmetic(p *Prog, r *Report, rule string) int {
	n := 0
	for _, f := range p.FuncsIn("internal/bytecode") {
		if f.Blocks == nil || f.Signature.Results().Len() != 2 || !isUintptr(f.Signature.Results().At(0).Type()) || errIndex(f.Signature) != 1 {
			continue
		}
		var start *ssa.Parameter
		for _, pr := range f.Params {
			if isUintptr(pr.Type()) {
				start = pr
			}
		}
		if start == nil {
			continue
		}
		k := NewKeyer(f)
		// displacement leaves: the result of a module call that decodes a relative address, or a checked assertion to a
		// PC-relative argument type
		relKind := map[string]string{}
		eachInstr(f, func(i ssa.Instruction) {
			switch x := i.(type) {
			case *ssa.Call:
				if cal := staticCallee(x.Common()); cal != nil && relPkg(cal) == "internal/bytecode" && cal.Signature.Results().Len() == 1 && isIntegerType(cal.Signature.Results().At(0).Type()) {
					for _, a := range x.Call.Args {
						if strings.Contains(a.Type().String(), "asm.Inst") {
							relKind[k.Key(x)] = "next"
						}
					}
				}
			case *ssa.Extract:
				if ta, ok := x.Tuple.(*ssa.TypeAssert); ok && x.Index == 0 && strings.HasSuffix(ta.AssertedType.String(), "PCRel") {
					relKind[k.Key(x)] = "self"
				}
			}
		})
		if len(relKind) == 0 {
			continue
		}
		for _, ret := range returnsOf(f) {
			rv := retResult(ret, 0)
			if c, ok := constInt(rv); ok && c == 0 {
				continue
			}
			form := map[string]int64{}
			var konst int64
			linForm(k, rv, 1, form, &konst, 0)
			var rel, kind string
			for key, kd := range relKind {
				if form[key] != 0 {
					rel, kind = key, kd
				}
			}
			if rel == "" {
				continue
			}
			n++
			// expected leaves
			okForm := form[k.Key(start)] == 1 && form[rel] == 1 && konst == 0
			nLen, nPos, nOther := int64(0), int64(0), 0
			for key, c := range form {
				if c == 0 || key == k.Key(start) || key == rel {
					continue
				}
				switch {
				case strings.HasSuffix(key, ".Len") || strings.Contains(key, ".Len@") || strings.Contains(key, "Len"):
					nLen += c
				default:
					nPos += c
					nOther++
				}
			}
			wantLen := int64(0)
			if kind == "next" {
				wantLen = 1
			}
			okForm = okForm && nLen == wantLen && nPos == 1 && nOther == 1
			r.Check(okForm, rule, "branch target computed in "+shortName(f)+" at "+blockOrdinalRet(ret), p.Pos(posOf(ret)), "start + position + displacement"+map[bool]string{true: " + length", false: ""}[wantLen == 1],
				"the address of the function a wrapper calls is not start + position + displacement (+ instruction length for x86): the mock is installed at some other address")
		}
	}
	return n
}

// c16PrefixStores: C16.R1 clause — every store into the fixed-size prefix array of the instruction being decoded is at an
// index proven below the array's length by the dominating conditions (the "too many prefixes" guards).
func c16PrefixStores(p *Prog, r *Report) int {
	n := 0
	for _, f := range p.FuncsIn(x86Pkg) {
		if f.Blocks == nil {
			continue
		}
		k := NewKeyer(f)
		nInF := 0
		// the running read position: values that also index the input bytes
		readPos := map[ssa.Value]bool{}
		eachInstr(f, func(i ssa.Instruction) {
			if ia, ok := i.(*ssa.IndexAddr); ok {
				if sl, isSl := ia.X.Type().Underlying().(*types.Slice); isSl && isByte(sl.Elem()) {
					readPos[resolveLocal(ia.Index)] = true
				}
			}
		})
		eachInstr(f, func(i ssa.Instruction) {
			ia, ok := i.(*ssa.IndexAddr)
			if !ok {
				return
			}
			pt, ok := ia.X.Type().Underlying().(*types.Pointer)
			if !ok {
				return
			}
			at, ok := pt.Elem().Underlying().(*types.Array)
			if !ok || !strings.HasSuffix(pt.Elem().String(), "Prefixes") || !readPos[resolveLocal(ia.Index)] {
				return
			}
			stored := false
			for _, ref := range *ia.Referrers() {
				if st, ok := ref.(*ssa.Store); ok && st.Addr == ssa.Value(ia) {
					stored = true
				}
			}
			if !stored {
				return
			}
			if c, isC := constInt(ia.Index); isC && c >= 0 && c < at.Len() {
				return
			}
			n++
			nInF++
			m := NewDBM()
			guardsToDBM(m, k, ia.Block())
			it := k.TermOf(ia.Index)
			ok2 := m.EntailsLE(it, Term{"", at.Len() - 1})
			r.Check(ok2, "C16.R1", "prefix slot written in "+shortName(f)+" #"+itoa2(nInF)+" is inside the array", p.Pos(posOf(ia)), fmt.Sprintf("index ≤ %d by the dominating conditions", at.Len()-1),
				"a prefix byte is recorded at an index that the dominating conditions do not keep below the length of the prefix array: a long run of prefix bytes makes Decode panic with 'index out of range'")
		})
	}
	return n
}

// c16Interpreter: C16.R7 — goom's x86 decoder is a copy of golang.org/x/arch/x86/x86asm; the toolchain's own (newer)
// copy under $GOROOT/src/cmd/vendor is an independent reference for the *interpreter* (decode.go: prefix scan, ModR/M and
// SIB handling, immediates, the bytecode loop). The bytecode tables differ between the two versions (the reference knows
// more instructions) and are not compared; every function of goom's decode.go must equal the reference's function of the
// same name as a normalised syntax tree (comments and positions dropped, literals by value, x++ ≡ x += 1, the one renamed
// constant). A slip in the interpreter — a regrouped condition, a bound off by one — makes it differ.
func c16Interpreter(c *Ctx) {
	p, r := c.K1(), c.R
	goroot := ""
	if out, err := exec.Command("go", "env", "GOROOT").Output(); err == nil {
		goroot = strings.TrimSpace(string(out))
	}
	refDir := filepath.Join(goroot, "src", "cmd", "vendor", "golang.org", "x", "arch", "x86", "x86asm")
	if _, err := os.Stat(filepath.Join(refDir, "decode.go")); err != nil {
		r.Und("C16.R7", "reference interpreter", "", "reference unavailable: "+refDir+" not found")
		return
	}
	saved := canonRename
	canonRename = map[string]string{"xReadId": "xReadID"}
	defer func() { canonRename = saved }()
	only := func(name string) map[string]bool {
		skip := map[string]bool{}
		return skip
	}
	_ = only
	keepDecode := func(dir string) map[string]bool {
		skip := map[string]bool{}
		ents, _ := os.ReadDir(dir)
		for _, e := range ents {
			if e.Name() != "decode.go" {
				skip[e.Name()] = true
			}
		}
		return skip
	}
	oursDir := filepath.Join(p.Repo, x86Pkg)
	ours, err1 := parseDecls(oursDir, keepDecode(oursDir))
	ref, err2 := parseDecls(refDir, keepDecode(refDir))
	if err1 != nil || err2 != nil {
		r.Und("C16.R7", "parse", "", fmt.Sprintf("cannot parse: %v %v", err1, err2))
		return
	}
	var names []string
	for n := range ours.funcs {
		names = append(names, n)
	}
	sort.Strings(names)
	for _, n := range names {
		of := ours.funcs[n]
		rf, ok := ref.funcs[n]
		if !ok {
			continue // a helper the reference does not have: judged through the functions that call it
		}
		same := ours.canon(of.Type) == ref.canon(rf.Type) && ours.canon(of.Body) == ref.canon(rf.Body)
		if same {
			r.OK("C16.R7", "func "+n, x86Pkg+"/decode.go", "equal to the toolchain's copy as a normalised syntax tree")
			continue
		}
		// the function was edited: a restructuring cannot be judged against the reference and is left undecided in favour
		// of the code (the other rules still apply to it); what is reported is a near miss — a condition or simple statement
		// that exists in the reference with one token replaced or with the same tokens grouped differently
		oa, ra := ours.atomsOf(of), ref.atomsOf(rf)
		bad := ""
		var okeys []string
		for k := range oa {
			if _, both := ra[k]; !both {
				okeys = append(okeys, k)
			}
		}
		sort.Strings(okeys)
		for _, k := range okeys {
			for k2, rt := range ra {
				if _, both := oa[k2]; both {
					continue
				}
				if nearMiss(oa[k], rt) {
					bad = "`" + strings.Join(oa[k], " ") + "` where the reference has `" + strings.Join(rt, " ") + "`"
				}
			}
		}
		r.Check(bad == "", "C16.R7", "func "+n, x86Pkg+"/decode.go", "restructured relative to the toolchain's copy; no condition or statement is a near miss of its counterpart",
			"function "+n+" of the decoding interpreter has "+bad+": instruction boundaries, prefixes or PC-relative fields are decoded differently from the reference for some byte sequences")
	}
	if len(names) == 0 {
		r.Und("C16.R7", "interpreter functions", "", "no function found in decode.go")
	}
}

// astTokens flattens an expression or simple statement into its identifiers, literal values and operators in source order
// (parentheses dropped, x++ as x += 1, identifiers through the rename map, named constants by value).
func (ds *declSet) astTokens(n ast.Node) []string {
	var out []string
	var walk func(n ast.Node)
	walk = func(n ast.Node) {
		switch x := n.(type) {
		case nil:
		case *ast.Ident:
			name := x.Name
			if r, ok := canonRename[name]; ok {
				name = r
			}
			if lit, ok := ds.consts[name]; ok && (x.Obj == nil || x.Obj.Kind == ast.Con) {
				out = append(out, lit.Value)
				return
			}
			out = append(out, name)
		case *ast.BasicLit:
			v := x.Value
			if x.Kind == token.INT {
				if iv, err := strconv.ParseInt(strings.ReplaceAll(v, "_", ""), 0, 64); err == nil {
					v = strconv.FormatInt(iv, 10)
				}
			}
			out = append(out, v)
		case *ast.ParenExpr:
			walk(x.X)
		case *ast.BinaryExpr:
			walk(x.X)
			out = append(out, x.Op.String())
			walk(x.Y)
		case *ast.UnaryExpr:
			out = append(out, x.Op.String())
			walk(x.X)
		case *ast.StarExpr:
			out = append(out, "*")
			walk(x.X)
		case *ast.SelectorExpr:
			walk(x.X)
			out = append(out, ".")
			walk(x.Sel)
		case *ast.IndexExpr:
			walk(x.X)
			out = append(out, "[")
			walk(x.Index)
			out = append(out, "]")
		case *ast.SliceExpr:
			walk(x.X)
			out = append(out, "[")
			if x.Low != nil {
				walk(x.Low)
			}
			out = append(out, ":")
			if x.High != nil {
				walk(x.High)
			}
			if x.Max != nil {
				out = append(out, ":")
				walk(x.Max)
			}
			out = append(out, "]")
		case *ast.CallExpr:
			walk(x.Fun)
			out = append(out, "(")
			for i, a := range x.Args {
				if i > 0 {
					out = append(out, ",")
				}
				walk(a)
			}
			out = append(out, ")")
		case *ast.CompositeLit:
			out = append(out, "{")
			for _, e := range x.Elts {
				walk(e)
				out = append(out, ",")
			}
			out = append(out, "}")
		case *ast.KeyValueExpr:
			walk(x.Key)
			out = append(out, ":")
			walk(x.Value)
		case *ast.AssignStmt:
			for i, l := range x.Lhs {
				if i > 0 {
					out = append(out, ",")
				}
				walk(l)
			}
			out = append(out, x.Tok.String())
			for i, rh := range x.Rhs {
				if i > 0 {
					out = append(out, ",")
				}
				walk(rh)
			}
		case *ast.IncDecStmt:
			walk(x.X)
			if x.Tok == token.INC {
				out = append(out, "+=", "1")
			} else {
				out = append(out, "-=", "1")
			}
		case *ast.ReturnStmt:
			out = append(out, "return")
			for i, rv := range x.Results {
				if i > 0 {
					out = append(out, ",")
				}
				walk(rv)
			}
		case *ast.ExprStmt:
			walk(x.X)
		case *ast.BranchStmt:
			out = append(out, x.Tok.String())
			if x.Label != nil {
				out = append(out, x.Label.Name)
			}
		default:
			out = append(out, fmt.Sprintf("%T", n))
		}
	}
	walk(n)
	return out
}

// atomsOf: the decision atoms of a function — every condition, case expression and simple statement, as token lists.
func (ds *declSet) atomsOf(fd *ast.FuncDecl) map[string][]string {
	out := map[string][]string{}
	add := func(n ast.Node) {
		if n == nil {
			return
		}
		toks := ds.astTokens(n)
		out[ds.canon(n)] = toks
	}
	ast.Inspect(fd.Body, func(n ast.Node) bool {
		switch x := n.(type) {
		case *ast.IfStmt:
			add(x.Cond)
		case *ast.ForStmt:
			if x.Cond != nil {
				add(x.Cond)
			}
		case *ast.SwitchStmt:
			if x.Tag != nil {
				add(x.Tag)
			}
		case *ast.CaseClause:
			for _, e := range x.List {
				add(e)
			}
		case *ast.AssignStmt, *ast.IncDecStmt, *ast.ReturnStmt, *ast.ExprStmt:
			add(x)
		}
		return true
	})
	return out
}

// nearMiss: two atoms that are not the same tree but read almost the same — the same tokens regrouped, or the same
// length with one token replaced.
func nearMiss(a, b []string) bool {
	if len(a) != len(b) || len(a) < 3 {
		return false
	}
	class := func(t string) int {
		switch {
		case t == "":
			return 0
		case t[0] >= '0' && t[0] <= '9', t[0] == '"', t[0] == '\'', t[0] == '`':
			return 1 // literal
		case (t[0] >= 'a' && t[0] <= 'z') || (t[0] >= 'A' && t[0] <= 'Z') || t[0] == '_':
			return 2 // identifier
		}
		return 3 // operator / punctuation
	}
	diff := 0
	for i := range a {
		if a[i] != b[i] {
			diff++
			if class(a[i]) != class(b[i]) {
				return false // a literal generalised into a variable (or the reverse) is a refactoring, not a slip
			}
		}
	}
	return diff <= 1
}
