package main

import (
	"go/token"
	"go/types"
	"strings"

	"golang.org/x/tools/go/ssa"
)

func init() { register("C10", c10) }

const uxPkg = "internal/unexports2"

func c10(c *Ctx) {
	p, r := c.K1(), c.R
	r.Expl = "Structural clauses behind 'symbol lookup by name yields the exact run-time address or an error': the load-slide globals are read only after the sync.Once initialiser (in the same function); the anchor names passed to the by-name lookups inside the initialiser are the fully-qualified names of exactly the function / variable whose run-time address is subtracted, and the slide is run-time minus table address; lookups return table address + slide only on the err==nil path and (0, err) otherwise; a missing symbol produces a non-nil error; symbol names are compared with == only; the error tests of the lookup package are not inverted; the slide is applied by addition to a symbol of its own kind wherever it is used; the symbols read are all entered and stored in the table. Correctness of the slide for every symbol and link mode is a fact about the linker and is not decided."
	r.RuleText = "one obligation per (rule, read site / anchor / return / comparison)"
	r.Floor("C10.R1", 2)
	r.Floor("C10.R2", 2)
	checkStickyLoadFailure(p, r, "C10.R4")
	// R5: the name handed to the by-name lookup is derived from the caller's designation by exact operations only (shared
	// with C01.R4 / C06.R4): a character-set trim or a lossy rewrite looks up some other symbol's name
	checkExactNameDerivation(p, r, "C10.R5")
	checkSymbolCopyComplete(p, r, "C10.R3")
	checkLookupErrorReaches(p, r, "C10.R3")
	// R7: the error tests of the lookup package are not inverted and have consequences (shared with C13.R7/R8)
	inUx := func(rel string) bool { return rel == uxPkg }
	checkErrorPolarity(p, r, "C10.R7", inUx)
	checkNoDeadComparisons(p, r, "C10.R7", inUx)
	// R6: the symbol table the lookups read is published before any lookup can read it — every entry point passes the
	// sync.Once before it reaches the lazily loaded table (C11.R1 on the two table variables)
	if !c.importing {
		importSiblingWhere(c, "C11", "C10.R6", func(rule string) bool { return rule == "C11.R1" }, func(cons string) bool { return strings.Contains(cons, "symTable") })
	}
	// R3: a symbol that was found is reported: under the err==nil continuation of the by-name symbol lookup the exported
	// lookup functions have no further way to fail (an extra plausibility check can only reject symbols that exist)
	for _, name := range []string{"FindFuncByName", "FindVarByName"} {
		f := p.Fn(uxPkg, name)
		if f == nil {
			r.Und("C10.R3", "unexports2."+name, "", "exported lookup not found")
			continue
		}
		ei := errIndex(f.Signature)
		eachInstr(f, func(i ssa.Instruction) {
			cl, ok := i.(*ssa.Call)
			if !ok {
				return
			}
			cal := staticCallee(cl.Common())
			if cal == nil || relPkg(cal) != uxPkg || cal.Signature.Results().Len() != 2 || errIndex(cal.Signature) != 1 {
				return
			}
			if _, isPtr := cal.Signature.Results().At(0).Type().Underlying().(*types.Pointer); !isPtr {
				return
			}
			okAll, n := true, 0
			for _, ret := range returnsOf(f) {
				if !errNilGuarded(ret.Block(), cl) {
					continue
				}
				n++
				if ei >= 0 && !isNilConst(retResult(ret, ei)) {
					okAll = false
				}
			}
			// and nothing under that continuation can panic or call a rejecting helper that returns an error which is tested
			r.Check(okAll && n > 0, "C10.R3", "a found symbol is reported by "+shortName(f), p.Pos(posOf(cl)), "every return under the lookup's err==nil continuation has a nil error",
				"after the symbol was found the lookup can still fail: an additional check rejects symbols that exist (for instance instantiated generic functions, whose runtime name differs from the symbol-table name)")
		})
	}
	r.Floor("C10.R3", 6)
	fns := p.FuncsIn(uxPkg)
	// once initialiser
	var initFn *ssa.Function
	for _, f := range fns {
		for _, cs := range callsTo(f, "(*sync.Once).Do") {
			if fn, ok := callCommon(cs).Args[1].(*ssa.Function); ok {
				initFn = fn
			}
		}
	}
	if initFn == nil {
		r.Und("C10.R1", "slide initialiser", "", "package unexports2 has no sync.Once initialiser")
		return
	}
	// slide globals: globals of integer type stored in the initialiser
	slides := map[*ssa.Global]*ssa.Store{}
	eachInstr(initFn, func(i ssa.Instruction) {
		if st, ok := i.(*ssa.Store); ok {
			if g, ok := st.Addr.(*ssa.Global); ok && isIntegerType(g.Type().(*types.Pointer).Elem()) {
				slides[g] = st
			}
		}
	})
	if len(slides) == 0 {
		r.Und("C10.R1", "slide globals", p.Pos(initFn.Pos()), "the initialiser stores no integer global")
		return
	}
	// a sync.Once is used with exactly one initialiser: Do(f) and Do(g) on the same Once run only whichever comes first
	onceUsers := map[string]map[*ssa.Function]bool{}
	for _, f := range p.Funcs {
		for _, cs := range callsTo(f, "(*sync.Once).Do") {
			key := "?"
			if g, ok := callCommon(cs).Args[0].(*ssa.Global); ok {
				key = g.Pkg.Pkg.Path() + "." + g.Name()
			}
			if fn, ok := callCommon(cs).Args[1].(*ssa.Function); ok {
				if onceUsers[key] == nil {
					onceUsers[key] = map[*ssa.Function]bool{}
				}
				onceUsers[key][fn] = true
			} else if mc, ok := callCommon(cs).Args[1].(*ssa.MakeClosure); ok {
				if onceUsers[key] == nil {
					onceUsers[key] = map[*ssa.Function]bool{}
				}
				onceUsers[key][mc.Fn.(*ssa.Function)] = true
			}
		}
	}
	for key, fns2 := range onceUsers {
		if !strings.Contains(key, uxPkg) {
			continue
		}
		var names []string
		for f := range fns2 {
			names = append(names, f.Name())
		}
		r.Check(len(fns2) == 1, "C10.R1", "sync.Once "+strings.TrimPrefix(key, Mod+"/")+" has a single initialiser", "", "one initialiser function",
			"the same sync.Once is used with different initialisers ("+strings.Join(names, ", ")+"): only the first one ever runs, so the slide computed by the other stays uninitialised and lookups of that kind return link-time addresses")
	}
	// every slide global must be written by the initialiser that guards its readers
	// ---- R1 init before read
	for g := range slides {
		for _, f := range fns {
			if f == initFn {
				continue
			}
			eachInstr(f, func(i ssa.Instruction) {
				ld, ok := i.(*ssa.UnOp)
				if !ok || ld.Op != token.MUL || ld.X != ssa.Value(g) {
					return
				}
				dom := false
				for _, cs := range callsTo(f, "(*sync.Once).Do") {
					if fn, ok := callCommon(cs).Args[1].(*ssa.Function); ok && fn == initFn && domInstr(cs, ld) {
						dom = true
					}
				}
				r.Check(dom, "C10.R1", "slide read in "+shortName(f), p.Pos(posOf(ld)), g.Name()+" read after Once.Do(initialiser)",
					"the load slide "+g.Name()+" is read without a dominating Once.Do of its initialiser: the first lookup adds an uninitialised slide (wrong address in relocated builds) and races with the initialiser")
			})
		}
		// written only by the initialiser
		for _, a := range accessesOf(p, g) {
			if a.Write && a.Fn != initFn {
				r.Bad("C10.R1", "slide written in "+shortName(a.Fn), p.Pos(posOf(a.Instr)), "the slide is modified outside the once-initialiser")
			}
		}
	}
	// a by-name lookup is a function-table lookup when it reaches gosym's LookupFunc or yields a *gosym.Func
	isFuncLookup := func(cal *ssa.Function) bool {
		if cal == nil {
			return false
		}
		if cal.Signature.Results().Len() > 0 && strings.Contains(cal.Signature.Results().At(0).Type().String(), "gosym.Func") {
			return true
		}
		for f := range p.staticReach(cal) {
			if len(callsTo(f, "(*debug/gosym.Table).LookupFunc")) > 0 {
				return true
			}
		}
		return false
	}
	slideIsFunc := map[*ssa.Global]bool{}
	// ---- R2 anchors name what they measure
	for g, st := range slides {
		cons := "anchor of " + g.Name()
		bo, ok := resolveLocal(st.Val).(*ssa.BinOp)
		if !ok || bo.Op != token.SUB {
			r.Bad("C10.R2", cons, p.Pos(posOf(st)), "the slide is not computed as a difference of two addresses")
			continue
		}
		// X: run-time address: reflect.ValueOf(obj).Pointer() ; Y: table address from a by-name lookup with a constant name
		var rtObj string
		for _, a := range origins(bo.X) {
			if cl, ok := a.V.(*ssa.Call); ok && calleeName(cl.Common()) == "(reflect.Value).Pointer" {
				if vo, ok := cl.Call.Args[0].(*ssa.Call); ok && calleeName(vo.Common()) == "reflect.ValueOf" {
					switch x := peel(vo.Call.Args[0]).(type) {
					case *ssa.Function:
						rtObj = x.Object().(*types.Func).FullName()
					case *ssa.Global:
						rtObj = x.Pkg.Pkg.Path() + "." + x.Name()
					}
				}
			}
		}
		var tblName string
		var lookupCall *ssa.Call
		for _, a := range origins(bo.Y) {
			// field Entry/Value of the symbol returned by a lookup call
			if b, _, ok := fieldRef(a.V); ok {
				for _, a2 := range origins(b) {
					if ex, ok := a2.V.(*ssa.Extract); ok {
						if cl, ok := ex.Tuple.(*ssa.Call); ok && len(cl.Call.Args) >= 1 {
							if cst, ok := cl.Call.Args[len(cl.Call.Args)-1].(*ssa.Const); ok && cst.Value != nil {
								tblName = strings.Trim(cst.Value.ExactString(), "\"")
								lookupCall = cl
							}
						}
					}
				}
			}
		}
		if rtObj == "" || tblName == "" {
			r.Bad("C10.R2", cons, p.Pos(posOf(st)), "slide is not (run-time address of a named object) − (table address looked up by a constant name): minuend "+atomsString(origins(bo.X))+", subtrahend "+atomsString(origins(bo.Y)))
			continue
		}
		r.Check(rtObj == tblName, "C10.R2", cons, p.Pos(posOf(st)), "anchor "+tblName+" measures itself",
			"the slide subtracts the table address of "+tblName+" from the run-time address of "+rtObj+": every looked-up address is off by the distance between the two")
		// function slide must come from the function table, variable slide from the variable table (kind agreement)
		if lookupCall != nil {
			cal := staticCallee(lookupCall.Common())
			isFuncObj := !strings.Contains(rtObj, "stub") && func() bool {
				_, ok := p.SSA.ImportedPackage(Mod + "/" + uxPkg).Members[lastDot(rtObj)].(*ssa.Function)
				return ok
			}()
			wantFunc := isFuncLookup(cal)
			slideIsFunc[g] = isFuncObj
			r.Check(isFuncObj == wantFunc, "C10.R2", cons+" table kind", p.Pos(posOf(lookupCall)), "function anchor from the function table / variable anchor from the symbol table", "the anchor is looked up in the wrong table (function vs variable)")
		}
		// slide only set when the lookup succeeded
		if lookupCall != nil {
			r.Check(errNilGuarded(st.Block(), lookupCall), "C10.R2", cons+" stored on success only", p.Pos(posOf(st)), "", "the slide is computed from a failed lookup")
		}
	}
	// ---- R3 address only on success
	for _, f := range fns {
		// every arithmetic use of a slide outside the initialiser is "table address of a symbol + slide of its kind"
		if f.Blocks != nil && f != initFn {
			eachInstr(f, func(i ssa.Instruction) {
				ld, ok := i.(*ssa.UnOp)
				if !ok || ld.Op != token.MUL {
					return
				}
				g, ok := ld.X.(*ssa.Global)
				if !ok {
					return
				}
				if _, ok := slides[g]; !ok || ld.Referrers() == nil {
					return
				}
				for _, ref := range *ld.Referrers() {
					bo, ok := ref.(*ssa.BinOp)
					if !ok {
						continue
					}
					other := bo.X
					if other == ssa.Value(ld) {
						other = bo.Y
					}
					symField := ""
					for _, a := range origins(other) {
						if _, fv, ok := fieldRef(a.V); ok && fv != nil && (fv.Name() == "Entry" || fv.Name() == "End" || fv.Name() == "Value") {
							symField = fv.Name()
						}
					}
					kindOK := symField != "" && (symField != "Value") == slideIsFunc[g]
					r.Check(bo.Op == token.ADD && kindOK, "C10.R3", "slide "+g.Name()+" applied in "+shortName(f), p.Pos(posOf(bo)), "symbol's table address + slide of its kind",
						"a by-name lookup combines the load slide with the symbol's table address by something other than addition (or with the slide of the other kind): the address handed out is not the symbol's run-time address")
				}
			})
		}
		if f.Object() == nil || !f.Object().Exported() || f.Signature.Results().Len() != 2 || errIndex(f.Signature) != 1 {
			continue
		}
		if !isUintptr(f.Signature.Results().At(0).Type()) {
			continue
		}
		usesSlide := false
		eachInstr(f, func(i ssa.Instruction) {
			if ld, ok := i.(*ssa.UnOp); ok && ld.Op == token.MUL {
				if g, ok := ld.X.(*ssa.Global); ok {
					if _, ok := slides[g]; ok {
						usesSlide = true
					}
				}
			}
		})
		if !usesSlide {
			continue
		}
		for _, ret := range returnsOf(f) {
			ev := retResult(ret, 1)
			av := retResult(ret, 0)
			cons := "return of " + shortName(f) + " at " + blockOrdinalRet(ret)
			if isNilConst(ev) {
				// an address served from a memo of earlier successful lookups of the same name: accepted when the memo is a
				// package-level map read under the caller's name with the found flag true, and every update of that map, in
				// this function, files (table address + slide) under that same name on the err==nil side
				if c10ServedFromMemo(p, r, f, ret, av, slides, cons) {
					continue
				}
				bo, ok := resolveLocal(av).(*ssa.BinOp)
				okSum := ok && bo.Op == token.ADD
				var lookup *ssa.Call
				okOps := false
				if okSum {
					var hasSlide, hasSym bool
					var slideG *ssa.Global
					for _, side := range []ssa.Value{bo.X, bo.Y} {
						for _, a := range origins(side) {
							if g, ok := a.V.(*ssa.Global); ok {
								if _, ok := slides[g]; ok {
									hasSlide, slideG = true, g
								}
							}
							if b, fv, ok := fieldRef(a.V); ok && fv != nil && (fv.Name() == "Entry" || fv.Name() == "Value") {
								hasSym = true
								for _, a2 := range origins(b) {
									if ex, ok := a2.V.(*ssa.Extract); ok {
										lookup, _ = ex.Tuple.(*ssa.Call)
									}
								}
							}
						}
					}
					okOps = hasSlide && hasSym
					// function lookup uses the function slide, variable lookup the variable slide
					if okOps && lookup != nil && slideG != nil {
						cal := staticCallee(lookup.Common())
						fl := isFuncLookup(cal)
						sl := slideIsFunc[slideG]
						r.Check(fl == sl, "C10.R3", cons+" slide kind", p.Pos(posOf(ret)), "function address + function slide / variable address + variable slide", "a function lookup adds the variable slide (or vice versa)")
					}
				}
				guarded := lookup != nil && errNilGuarded(ret.Block(), lookup)
				r.Check(okSum && okOps && guarded, "C10.R3", cons+" success", p.Pos(posOf(ret)), "table address + slide under err==nil",
					"a lookup returns a nil error with an address that is not (table address of the found symbol + slide) on the err==nil path")
				// the symbol is looked up under the caller's name
				if lookup != nil {
					okName := false
					for _, a := range lookup.Call.Args {
						if resolveLocal(a) == ssa.Value(f.Params[0]) {
							okName = true
						}
					}
					r.Check(okName, "C10.R3", cons+" looks up the requested name", p.Pos(posOf(lookup)), "lookup(name)", "the symbol looked up is not the name the caller asked for")
				}
			} else {
				z, ok := constInt(av)
				r.Check(ok && z == 0, "C10.R3", cons+" failure", p.Pos(posOf(ret)), "(0, err)", "a failed lookup still returns a non-zero address")
			}
		}
	}
	// by-name lookups: nil symbol ⇒ non-nil error; comparison by ==
	for _, f := range fns {
		if f.Signature.Results().Len() != 2 || errIndex(f.Signature) != 1 || f.Signature.Params().Len() != 1 {
			continue
		}
		if b, ok := f.Signature.Params().At(0).Type().Underlying().(*types.Basic); !ok || b.Kind() != types.String {
			// the by-address lookup of a symbol is held to the same rule
			if rt := f.Signature.Results().At(0).Type().String(); !strings.HasSuffix(rt, "gosym.Func") && !strings.HasSuffix(rt, "gosym.Sym") {
				continue
			}
		}
		if _, ok := f.Signature.Results().At(0).Type().Underlying().(*types.Pointer); !ok {
			continue
		}
		for _, ret := range returnsOf(f) {
			sv := retResult(ret, 0)
			ev := retResult(ret, 1)
			// enumerate the ways the error can be nil at this return: directly, or per phi edge
			type way struct {
				guards []Guard
				sym    ssa.Value
			}
			var ways []way
			nilUnder := func(v ssa.Value, gs []Guard) bool {
				if isNilConst(v) {
					return true
				}
				for _, g := range gs {
					if bo, ok := g.Cond.(*ssa.BinOp); ok && (bo.Op == token.EQL || bo.Op == token.NEQ) && (isNilConst(bo.X) || isNilConst(bo.Y)) {
						other := bo.X
						if isNilConst(bo.X) {
							other = bo.Y
						}
						if other == v && (bo.Op == token.EQL) == g.Pol {
							return true
						}
					}
				}
				return false
			}
			if ph, ok := ev.(*ssa.Phi); ok && ph.Block() == ret.Block() {
				for i, e := range ph.Edges {
					pred := ret.Block().Preds[i]
					gs := knownAtEdge(pred, ret.Block())
					if nilUnder(e, gs) {
						symv := sv
						if sp, ok := sv.(*ssa.Phi); ok && sp.Block() == ret.Block() {
							symv = sp.Edges[i]
						}
						ways = append(ways, way{gs, symv})
					}
				}
			} else if nilUnder(ev, guardsAt(ret.Block())) {
				ways = append(ways, way{guardsAt(ret.Block()), sv})
			}
			for wi, w := range ways {
				nn := false
				for _, g := range w.guards {
					if bo, ok := g.Cond.(*ssa.BinOp); ok && (bo.Op == token.EQL || bo.Op == token.NEQ) && (isNilConst(bo.X) || isNilConst(bo.Y)) {
						other := bo.X
						if isNilConst(bo.X) {
							other = bo.Y
						}
						if resolveLocal(other) == resolveLocal(w.sym) && (bo.Op == token.NEQ) == g.Pol {
							nn = true
						}
					}
				}
				r.Check(nn, "C10.R3", "missing symbol is an error in "+shortName(f)+" way#"+itoa2(wi), p.Pos(posOf(ret)), "nil error only for a non-nil symbol",
					"a by-name lookup can return a nil error without having established that the symbol is non-nil: an absent name is not reported as an error (the caller dereferences nil or uses address 0)")
			}
		}
	}
	// exact matching
	nCmp := checkExactSymbolMatch(p, r, "C10.R3")
	r.Stat("name_comparisons", nCmp)
}

func lastDot(s string) string {
	if i := strings.LastIndex(s, "."); i >= 0 {
		return s[i+1:]
	}
	return s
}

func blockOrdinalRet(ret *ssa.Return) string {
	return ret.Block().Comment + "#" + itoa2(ret.Block().Index)
}

// knownAtEdge: branch conditions that hold when control flows from pred to succ.
func knownAtEdge(pred, succ *ssa.BasicBlock) []Guard {
	gs := guardsAt(pred)
	if iff, ok := pred.Instrs[len(pred.Instrs)-1].(*ssa.If); ok {
		if pred.Succs[0] == succ && pred.Succs[1] != succ {
			gs = append(gs, Guard{iff.Cond, true, iff})
		} else if pred.Succs[1] == succ && pred.Succs[0] != succ {
			gs = append(gs, Guard{iff.Cond, false, iff})
		}
	}
	return gs
}

// checkExactSymbolMatch: in package unexports2 symbols are selected only by == against the requested name
// (or by debug/gosym's exact LookupFunc); no derived form of either name takes part, and every by-name
// lookup helper returns a non-nil symbol only under such an equality. Returns the number of comparisons seen.
// checkStickyLoadFailure (C10.R4): the function that fills the symbol-table cache remembers a failed read: every way out
// of it on which the reader's error is non-nil has stored that error in the package-level error cache. The slides are
// computed once (sync.Once); if the first read failed transiently and a later one succeeded, every lookup would succeed
// with slides that were never computed.
func checkStickyLoadFailure(p *Prog, r *Report, rule string) {
	var loaders []*ssa.Function
	var errG *ssa.Global
	for _, f := range p.FuncsIn(uxPkg) {
		if isPkgInit(f) {
			continue
		}
		eachInstr(f, func(i ssa.Instruction) {
			st, ok := i.(*ssa.Store)
			if !ok {
				return
			}
			g, ok := st.Addr.(*ssa.Global)
			if !ok {
				return
			}
			if strings.Contains(g.Type().String(), "gosym.Table") && !isNilConst(st.Val) {
				if len(loaders) == 0 || loaders[len(loaders)-1] != f {
					loaders = append(loaders, f)
				}
			}
		})
	}
	if len(loaders) == 0 {
		r.Und(rule, "symbol table loader", "", "no function of unexports2 stores a *gosym.Table into a package-level variable")
		return
	}
	errT := types.Universe.Lookup("error").Type()
	// the error cache: an error-typed package-level variable that is assigned outside the package initialiser (sentinel
	// errors are only ever assigned by the initialiser)
	errGs := map[*ssa.Global]bool{}
	if pk := p.SPkg[Mod+"/"+uxPkg]; pk != nil {
		for _, m := range pk.Members {
			if g, ok := m.(*ssa.Global); ok {
				if pt, ok := g.Type().Underlying().(*types.Pointer); ok && types.Identical(pt.Elem(), errT) {
					for _, f := range p.FuncsIn(uxPkg) {
						if isPkgInit(f) {
							continue
						}
						eachInstr(f, func(i ssa.Instruction) {
							if st, ok := i.(*ssa.Store); ok && st.Addr == ssa.Value(g) {
								errGs[g] = true
								errG = g
							}
						})
					}
				}
			}
		}
	}
	if errG == nil {
		r.Bad(rule, "load failure is remembered", p.Pos(loaders[0].Pos()), "package unexports2 has no package-level error variable: a failed symbol-table read cannot be remembered")
		return
	}
	n := 0
	for _, loader := range loaders {
		eachInstr(loader, func(i ssa.Instruction) {
			cl, ok := i.(*ssa.Call)
			if !ok {
				return
			}
			cal := staticCallee(cl.Common())
			if cal == nil || cal == loader || relPkg(cal) != uxPkg || cal.Signature.Results().Len() != 2 || !strings.Contains(cal.Signature.Results().At(0).Type().String(), "gosym.Table") {
				return
			}
			n++
			isErrOf := func(v ssa.Value) bool {
				for _, a := range origins(v) {
					if ex, ok := a.V.(*ssa.Extract); ok && ex.Tuple == ssa.Value(cl) && ex.Index == 1 {
						return true
					}
				}
				return false
			}
			isRecord := func(j ssa.Instruction) bool {
				st, ok := j.(*ssa.Store)
				if !ok {
					return false
				}
				g, isG := st.Addr.(*ssa.Global)
				return isG && errGs[g] && isErrOf(st.Val)
			}
			for _, ret := range returnsOf(loader) {
				if !reachableAfter(cl, ret) || errNilGuarded(ret.Block(), cl) {
					continue
				}
				// every way from the reader call to this return records the error
				r.Check(!reachableAvoiding(cl, ret, isRecord), rule, "reader failure recorded before return in "+shortName(loader), p.Pos(posOf(ret)), "error cache stored on every failing way out",
					"the symbol-table loader can return the reader's error without recording it: the next lookup reads the file again, and if that succeeds after the one-time slide computation already ran (and failed), every by-name lookup succeeds with slides that were never computed")
			}
		})
	}
	if n == 0 {
		r.Und(rule, "reader call in "+shortName(loaders[0]), p.Pos(loaders[0].Pos()), "the loader does not call a reader returning (*gosym.Table, error)")
	}
}

func checkExactSymbolMatch(p *Prog, r *Report, rule string) int {
	fns := p.FuncsIn(uxPkg)
	nCmp := 0
	isNameLoad := func(v ssa.Value) bool { _, fv, ok := fieldRef(v); return ok && fv != nil && fv.Name() == "Name" }
	for _, f := range fns {
		// string transformations applied to symbol names or to the requested name
		var nameParams []*ssa.Parameter
		for _, pr := range f.Params {
			if b, ok := pr.Type().Underlying().(*types.Basic); ok && b.Kind() == types.String {
				nameParams = append(nameParams, pr)
			}
		}
		isReqName := func(v ssa.Value) bool {
			for _, pr := range nameParams {
				if v == ssa.Value(pr) {
					return true
				}
			}
			return false
		}
		lookupLike := f.Signature.Results().Len() >= 1 && func() bool {
			_, ok := f.Signature.Results().At(0).Type().Underlying().(*types.Pointer)
			return ok
		}()
		eachInstr(f, func(i ssa.Instruction) {
			if ci, ok := i.(ssa.CallInstruction); ok {
				cn := calleeName(ci.Common())
				if strings.HasPrefix(cn, "strings.") || strings.HasPrefix(cn, "bytes.") || strings.HasPrefix(cn, "sort.Search") || strings.HasPrefix(cn, "regexp.") || strings.HasPrefix(cn, "(*regexp.") {
					for _, a := range ci.Common().Args {
						if dependsOn(a, isNameLoad) || (lookupLike && dependsOn(a, isReqName)) {
							r.Bad(rule, "inexact symbol match in "+shortName(f), p.Pos(posOf(i)), "symbol selection goes through "+cn+" applied to a symbol name / the requested name instead of plain ==: a near-miss, prefix or normalised name resolves to another symbol's address")
						}
					}
				}
			}
			if bo, ok := i.(*ssa.BinOp); ok && (bo.Op == token.EQL || bo.Op == token.NEQ) {
				for _, side := range []ssa.Value{bo.X, bo.Y} {
					if !dependsOn(side, isNameLoad) {
						continue
					}
					nCmp++
					other := bo.X
					if side == bo.X {
						other = bo.Y
					}
					_, isP := resolveLocal(other).(*ssa.Parameter)
					r.Check(isNameLoad(resolveLocal(side)) && isP, rule, "symbol name comparison in "+shortName(f), p.Pos(posOf(bo)), "Name == requested name",
						"a symbol is selected by comparing a derived form of its name (slice/prefix/case-folded) or against something other than the requested name: a near-miss name resolves to another symbol's address")
				}
			}
		})
		// by-name helpers returning a symbol pointer: non-nil only under equality with the requested name, or straight from gosym.LookupFunc(name)
		if !lookupLike || len(nameParams) != 1 || f.Signature.Params().Len() > 2 {
			continue
		}
		rt := f.Signature.Results().At(0).Type().String()
		if !strings.Contains(rt, "gosym.Sym") && !strings.Contains(rt, "gosym.Func") {
			continue
		}
		for _, ret := range returnsOf(f) {
			sv := retResult(ret, 0)
			vals := []ssa.Value{sv}
			var preds []*ssa.BasicBlock
			if ph, ok := sv.(*ssa.Phi); ok && ph.Block() == ret.Block() {
				vals = ph.Edges
				preds = ret.Block().Preds
			}
			for vi, v := range vals {
				if isNilConst(v) {
					continue
				}
				ok := false
				for _, a := range origins(v) {
					if cl, isC := a.V.(*ssa.Call); isC {
						cn := calleeName(cl.Common())
						if cn == "(*debug/gosym.Table).LookupFunc" && len(cl.Call.Args) == 2 && isReqName(resolveLocal(cl.Call.Args[1])) {
							ok = true
						}
						// delegating to another checked helper of this package with the same name
						if cal := staticCallee(cl.Common()); cal != nil && relPkg(cal) == uxPkg {
							for _, arg := range cl.Call.Args {
								if isReqName(resolveLocal(arg)) {
									ok = true
								}
							}
						}
					}
				}
				// a name index: the element of a map, looked up under the requested name, every entry of which was filed
				// under the Name of the very symbol it points to
				if lk, isLk := resolveLocal(v).(*ssa.Lookup); isLk && !lk.CommaOk && isReqName(resolveLocal(lk.Index)) && isNameIndex(p, lk.X) {
					ok = true
				}
				gs := guardsAt(ret.Block())
				if preds != nil {
					gs = knownAtEdge(preds[vi], ret.Block())
				}
				for _, g := range gs {
					bo, isB := g.Cond.(*ssa.BinOp)
					if !isB || !((bo.Op == token.EQL && g.Pol) || (bo.Op == token.NEQ && !g.Pol)) {
						continue
					}
					for _, side := range []ssa.Value{bo.X, bo.Y} {
						other := bo.X
						if side == bo.X {
							other = bo.Y
						}
						if b, fv, okF := fieldRef(resolveLocal(side)); okF && fv != nil && fv.Name() == "Name" && sameAddrValue(b, v, NewKeyer(f)) && isReqName(resolveLocal(other)) {
							ok = true
						}
					}
				}
				r.Check(ok, rule, "symbol returned only under Name == requested name in "+shortName(f)+" way#"+itoa2(vi), p.Pos(posOf(ret)), "non-nil result guarded by equality with the requested name",
					"a by-name symbol lookup returns a symbol without an equality test between that symbol's name and the requested name: an absent or near-miss name yields some other symbol's address with a nil error")
			}
		}
	}
	return nCmp
}

// sameAddrValue: a and b denote the same address: identical values, or element addresses x[i] with the same index value
// and the same slice expression (identical value, or loads of the same field that the function never stores to).
func sameAddrValue(a, b ssa.Value, k *Keyer) bool {
	a, b = resolveLocal(a), resolveLocal(b)
	if a == b {
		return true
	}
	ia, ok1 := a.(*ssa.IndexAddr)
	ib, ok2 := b.(*ssa.IndexAddr)
	if !ok1 || !ok2 || resolveLocal(ia.Index) != resolveLocal(ib.Index) {
		return false
	}
	if resolveLocal(ia.X) == resolveLocal(ib.X) {
		return true
	}
	ka, kb := k.Key(ia.X), k.Key(ib.X)
	return ka == kb && !strings.HasPrefix(ka, "#") && !strings.HasPrefix(ka, "$")
}

// isNameIndex: m is a map kept in a struct field, and every update of a map in that field, anywhere in the module, files
// the address of a symbol under that same symbol's Name; the field itself only ever receives freshly made maps.
func isNameIndex(p *Prog, m ssa.Value) bool {
	_, fv, ok := fieldRef(resolveLocal(m))
	if !ok || fv == nil {
		return false
	}
	if _, isMap := fv.Type().Underlying().(*types.Map); !isMap {
		return false
	}
	nUpd := 0
	good := true
	for _, f := range p.Funcs {
		if !strings.HasPrefix(pkgPathOf(f), Mod) || f.Blocks == nil {
			continue
		}
		k := NewKeyer(f)
		eachInstr(f, func(i ssa.Instruction) {
			switch x := i.(type) {
			case *ssa.MapUpdate:
				if _, ufv, ok := fieldRef(resolveLocal(x.Map)); !ok || ufv != fv {
					return
				}
				nUpd++
				b, nfv, okF := fieldRef(resolveLocal(x.Key))
				if !okF || nfv == nil || nfv.Name() != "Name" || !sameAddrValue(b, x.Value, k) {
					good = false
				}
			case *ssa.Store:
				if fa, ok := x.Addr.(*ssa.FieldAddr); ok && fieldVar(fa.X.Type(), fa.Field) == fv {
					if _, fresh := resolveLocal(x.Val).(*ssa.MakeMap); !fresh {
						good = false
					}
				}
			}
		})
	}
	return good && nUpd > 0
}

// reachableAvoiding: some path leads from just after instruction from to instruction to without executing an instruction
// for which avoid holds.
func reachableAvoiding(from, to ssa.Instruction, avoid func(ssa.Instruction) bool) bool {
	seen := map[*ssa.BasicBlock]bool{}
	var scan func(b *ssa.BasicBlock, start int) bool
	scan = func(b *ssa.BasicBlock, start int) bool {
		for _, i := range b.Instrs[start:] {
			if i == to {
				return true
			}
			if avoid(i) {
				return false
			}
		}
		for _, s := range b.Succs {
			if !seen[s] {
				seen[s] = true
				if scan(s, 0) {
					return true
				}
			}
		}
		return false
	}
	b := from.Block()
	for k, i := range b.Instrs {
		if i == from {
			return scan(b, k+1)
		}
	}
	return false
}

// checkSymbolCopyComplete: C10.R3 clause — where the symbols read from the executable are copied into the table the by-name
// lookups search (a loop that appends gosym.Sym values built from the elements of a list), the loop visits every element:
// it is a range over that list, or counts i = 0, 1, … while i < len(list) with no slack. A shorter loop makes present
// symbols "not found".
func checkSymbolCopyComplete(p *Prog, r *Report, rule string) {
	n := 0
	for _, f := range p.FuncsIn(uxPkg) {
		if f.Blocks == nil {
			continue
		}
		k := NewKeyer(f)
		eachInstr(f, func(i ssa.Instruction) {
			// either form of entering a symbol: dst = append(dst, gosym.Sym{…}) or dst[j] = gosym.Sym{…}
			var cl ssa.Instruction
			var entered, dstIdx ssa.Value
			switch t := i.(type) {
			case *ssa.Call:
				bi, ok := t.Call.Value.(*ssa.Builtin)
				if !ok || bi.Name() != "append" {
					return
				}
				sl, ok := t.Type().Underlying().(*types.Slice)
				if !ok || !strings.HasSuffix(sl.Elem().String(), "gosym.Sym") {
					return
				}
				cl, entered = t, t.Call.Args[1]
			case *ssa.Store:
				ia, ok := t.Addr.(*ssa.IndexAddr)
				if !ok {
					return
				}
				sl, ok := ia.X.Type().Underlying().(*types.Slice)
				if !ok || !strings.HasSuffix(sl.Elem().String(), "gosym.Sym") {
					return
				}
				cl, entered, dstIdx = t, t.Val, ia.Index
			default:
				return
			}
			// the source list: what the appended value's fields are read from
			var srcIdx *ssa.IndexAddr
			var walk func(v ssa.Value, depth int)
			seen := map[ssa.Value]bool{}
			walk = func(v ssa.Value, depth int) {
				if v == nil || seen[v] || depth > 16 || srcIdx != nil {
					return
				}
				seen[v] = true
				if ia, ok := v.(*ssa.IndexAddr); ok {
					if _, isSl := ia.X.Type().Underlying().(*types.Slice); isSl && !strings.HasSuffix(ia.X.Type().String(), "gosym.Sym") {
						srcIdx = ia
						return
					}
				}
				if ins, ok := v.(ssa.Instruction); ok {
					for _, op := range ins.Operands(nil) {
						walk(*op, depth+1)
					}
				}
				if al, ok := v.(*ssa.Alloc); ok {
					for _, ref := range *al.Referrers() {
						if st, ok := ref.(*ssa.Store); ok && st.Addr == ssa.Value(al) {
							walk(st.Val, depth+1)
						}
						if fa, ok := ref.(*ssa.FieldAddr); ok {
							for _, r2 := range *fa.Referrers() {
								if st, ok := r2.(*ssa.Store); ok {
									walk(st.Val, depth+1)
								}
							}
						}
						if ia2, ok := ref.(*ssa.IndexAddr); ok {
							for _, r2 := range *ia2.Referrers() {
								if st, ok := r2.(*ssa.Store); ok {
									walk(st.Val, depth+1)
								}
							}
						}
					}
				}
			}
			walk(entered, 0)
			if srcIdx == nil {
				return
			}
			n++
			if dstIdx != nil {
				// written at the position it was read from: no two symbols share a slot
				a, b := map[string]int64{}, map[string]int64{}
				var ca, cb int64
				linForm(k, dstIdx, 1, a, &ca, 0)
				linForm(k, srcIdx.Index, 1, b, &cb, 0)
				same := ca == cb && len(a) == len(b)
				for key, c := range a {
					if b[key] != c {
						same = false
					}
				}
				r.Check(same, rule, "symbol stored at its own position in "+shortName(f), p.Pos(posOf(cl)), "destination index = source index",
					"the loop that copies the executable's symbols stores an element at a position other than the one it was read from: symbols overwrite each other and some are reported as not found")
			}
			// the guard that lets the loop body run: idx - len(list) < 0 exactly
			lenKey := "len(" + k.Key(srcIdx.X) + ")"
			okBound := false
			for _, g := range guardsAt(cl.Block()) {
				bo, ok := g.Cond.(*ssa.BinOp)
				if !ok || !g.Pol {
					continue
				}
				form := map[string]int64{}
				var konst int64
				linForm(k, bo.X, 1, form, &konst, 0)
				linForm(k, bo.Y, -1, form, &konst, 0)
				idx := map[string]int64{}
				var ic int64
				linForm(k, srcIdx.Index, 1, idx, &ic, 0)
				// express through the index: subtract the index form
				for key, c := range idx {
					form[key] -= c
				}
				konst -= ic
				rest := 0
				for key, c := range form {
					if c != 0 && key != lenKey {
						rest++
					}
				}
				if rest == 0 && form[lenKey] == -1 && bo.Op == token.LSS && konst == 0 {
					okBound = true // idx - len < 0
				}
			}
			c10CopiedListStored(p, r, rule, f, srcIdx.X)
			first, step, okL := loopIndex(stripConstAdd(srcIdx.Index))
			_ = first
			if sl, ok := srcIdx.X.(*ssa.Slice); ok && (sl.Low != nil || sl.High != nil) {
				if _, isArr := sl.X.Type().Underlying().(*types.Pointer); !isArr {
					okBound = false // the list being copied is a part of the list that was read
				}
			}
			r.Check(okBound && okL && step == 1, rule, "every symbol read is entered into the table in "+shortName(f), p.Pos(posOf(cl)), "the copying loop runs while index < len(list), step 1",
				"the loop that copies the executable's symbols into the lookup table stops before the end of the list (or skips elements): symbols that are present in the binary are reported as not found")
		})
	}
	if n == 0 {
		r.Und(rule, "symbol copy loop", "", "no loop appending gosym.Sym values built from a list found in package unexports2")
	}
}

// checkLookupErrorReaches: C10.R3 clause — in a function of package unexports2 that has an error result and asks one of
// the by-name symbol helpers (a module function returning (*gosym.Sym | *gosym.Func, error)), every return that can be
// reached on the side of the test where that helper's error is non-nil carries an error derived from it (or the function
// panics): a lookup that failed is never reported as (zero, nil).
func checkLookupErrorReaches(p *Prog, r *Report, rule string) {
	n := 0
	for _, f := range p.FuncsIn(uxPkg) {
		if f.Blocks == nil || errIndex(f.Signature) < 0 {
			continue
		}
		ei := errIndex(f.Signature)
		nInF := 0
		eachInstr(f, func(i ssa.Instruction) {
			cl, ok := i.(*ssa.Call)
			if !ok {
				return
			}
			cal := staticCallee(cl.Common())
			if cal == nil || relPkg(cal) != uxPkg || cal.Signature.Results().Len() != 2 || errIndex(cal.Signature) != 1 {
				return
			}
			if rt := cal.Signature.Results().At(0).Type().String(); !strings.Contains(rt, "gosym.Sym") && !strings.Contains(rt, "gosym.Func") {
				return
			}
			var e ssa.Value
			for _, ref := range *cl.Referrers() {
				if ex, ok := ref.(*ssa.Extract); ok && ex.Index == 1 {
					e = ex
				}
			}
			if e == nil {
				return
			}
			isE := func(v ssa.Value) bool { return v == e }
			// the branch on e
			for _, ref := range *e.Referrers() {
				bo, ok := ref.(*ssa.BinOp)
				if !ok || (bo.Op != token.EQL && bo.Op != token.NEQ) || !(isNilConst(bo.X) || isNilConst(bo.Y)) {
					continue
				}
				for _, r2 := range *bo.Referrers() {
					iff, ok := r2.(*ssa.If)
					if !ok {
						continue
					}
					nonNil := iff.Block().Succs[1]
					if bo.Op == token.NEQ {
						nonNil = iff.Block().Succs[0]
					}
					n++
					nInF++
					// returns reachable from the non-nil side
					seen := map[*ssa.BasicBlock]bool{}
					bad := ""
					var walk func(b *ssa.BasicBlock)
					walk = func(b *ssa.BasicBlock) {
						if seen[b] {
							return
						}
						seen[b] = true
						switch t := b.Instrs[len(b.Instrs)-1].(type) {
						case *ssa.Return:
							rv := retResult(t, ei)
							if !dependsOn(rv, isE) && !errDerivedFrom(rv, e) {
								bad = p.Pos(posOf(t))
							}
						case *ssa.Panic:
						default:
							for _, s2 := range b.Succs {
								walk(s2)
							}
						}
					}
					walk(nonNil)
					r.Check(bad == "", rule, "failed lookup of "+shortName(cal)+" is reported by "+shortName(f)+" #"+itoa2(nInF), p.Pos(posOf(iff)), "every return behind the failing side carries the lookup's error",
						"a return reached after the symbol lookup failed (at "+bad+") reports no error (the lookup's err is shadowed or dropped): an absent name yields (nil/0, nil) instead of an error")
				}
			}
		})
	}
	if n == 0 {
		r.Und(rule, "lookup errors", "", "no tested by-name lookup found in package unexports2")
	}
}

// errDerivedFrom: v is an error built around e (fmt.Errorf / a module constructor that received e).
func errDerivedFrom(v, e ssa.Value) bool {
	for _, a := range origins(v) {
		if cl, ok := a.V.(*ssa.Call); ok {
			for _, arg := range cl.Call.Args {
				if arg == e || varargsDependOn(arg, func(x ssa.Value) bool { return x == e }) {
					return true
				}
			}
		}
		if a.V == e {
			return true
		}
	}
	return false
}


// c10CopiedListStored: C10.R3 clause — when the executable's symbol list was read successfully (list non-nil, error nil),
// every way to a return that reports success passes a store into the table's Syms field: the symbols that were read are
// the ones the by-name variable lookup searches. Branches on the reader's own list/error are followed only on the side a
// successful read takes.
func c10CopiedListStored(p *Prog, r *Report, rule string, f *ssa.Function, list ssa.Value) {
	var call *ssa.Call
	for _, a := range origins(list) {
		if ex, ok := a.V.(*ssa.Extract); ok {
			call, _ = ex.Tuple.(*ssa.Call)
		}
	}
	if call == nil || errIndex(f.Signature) < 0 {
		return
	}
	ei := errIndex(f.Signature)
	isSymsStore := func(i ssa.Instruction) bool {
		st, ok := i.(*ssa.Store)
		if !ok {
			return false
		}
		_, fv, ok := fieldRef(st.Addr)
		if !ok || fv == nil || fv.Name() != "Syms" {
			return false
		}
		sl, ok := st.Val.Type().Underlying().(*types.Slice)
		return ok && strings.HasSuffix(sl.Elem().String(), "gosym.Sym")
	}
	// the side of a test of the reader's results that a successful read takes: 0 true, 1 false, -1 not such a test
	sideOf := func(cond ssa.Value) int {
		bo, ok := cond.(*ssa.BinOp)
		if !ok || (bo.Op != token.EQL && bo.Op != token.NEQ) || !(isNilConst(bo.X) || isNilConst(bo.Y)) {
			return -1
		}
		x := bo.X
		if isNilConst(x) {
			x = bo.Y
		}
		ex, ok := resolveLocal(x).(*ssa.Extract)
		if !ok || ex.Tuple != ssa.Value(call) {
			return -1
		}
		isErr := isErrorType(ex.Type())
		// success: list != nil, err == nil
		holds := (bo.Op == token.NEQ) != isErr
		if holds {
			return 0
		}
		return 1
	}
	type state struct {
		b      *ssa.BasicBlock
		stored bool
	}
	seen := map[state]bool{}
	bad := ""
	var walk func(b *ssa.BasicBlock, start int, stored bool)
	walk = func(b *ssa.BasicBlock, start int, stored bool) {
		if start == 0 {
			if seen[state{b, stored}] {
				return
			}
			seen[state{b, stored}] = true
		}
		for _, i := range b.Instrs[start:] {
			if isSymsStore(i) {
				stored = true
			}
		}
		switch t := lastInstr(b).(type) {
		case *ssa.Return:
			if ei < len(t.Results) && isNilConst(retResult(t, ei)) && !stored {
				bad = p.Pos(posOf(t))
			}
		case *ssa.If:
			switch sideOf(t.Cond) {
			case 0:
				walk(b.Succs[0], 0, stored)
			case 1:
				walk(b.Succs[1], 0, stored)
			default:
				walk(b.Succs[0], 0, stored)
				walk(b.Succs[1], 0, stored)
			}
		case *ssa.Jump:
			walk(b.Succs[0], 0, stored)
		}
	}
	for k, i := range call.Block().Instrs {
		if i == ssa.Instruction(call) {
			walk(call.Block(), k+1, false)
		}
	}
	r.Check(bad == "", rule, "symbols read are stored in the table by "+shortName(f), p.Pos(posOf(call)), "after a successful read every successful return has passed table.Syms = list",
		"after the executable's symbols were read successfully the function can report success ("+bad+") without having stored them in the table: every variable that is present in the binary is reported as not found")
}


// c10ServedFromMemo: the success return hands out the value found in a package-level map under the function's own name
// parameter (comma-ok lookup, found == true known). Every update of that map anywhere in the module must then be, in this
// very function, `memo[name] = <symbol table address> + <slide>` — the value some other return of the function computes and
// the main rule judges. Returns true when the return was judged here (a Check has been recorded).
func c10ServedFromMemo(p *Prog, r *Report, f *ssa.Function, ret *ssa.Return, av ssa.Value, slides map[*ssa.Global]*ssa.Store, cons string) bool {
	v := resolveLocal(av)
	if ta, ok := v.(*ssa.TypeAssert); ok && !ta.CommaOk {
		v = resolveLocal(ta.X) // value taken out of a sync.Map
	}
	ex, ok := v.(*ssa.Extract)
	if !ok || ex.Index != 0 {
		return false
	}
	var g *ssa.Global
	var key ssa.Value
	var tuple ssa.Value
	switch lk := ex.Tuple.(type) {
	case *ssa.Lookup:
		if !lk.CommaOk {
			return false
		}
		ld, ok := lk.X.(*ssa.UnOp)
		if !ok || ld.Op != token.MUL {
			return false
		}
		g, _ = ld.X.(*ssa.Global)
		key, tuple = lk.Index, lk
	case *ssa.Call:
		if calleeName(lk.Common()) != "(*sync.Map).Load" {
			return false
		}
		g, _ = lk.Call.Args[0].(*ssa.Global)
		key, tuple = lk.Call.Args[1], lk
		if mi, ok := key.(*ssa.MakeInterface); ok {
			key = mi.X
		}
	default:
		return false
	}
	if g == nil {
		return false
	}
	why := ""
	if len(f.Params) == 0 || resolveLocal(key) != ssa.Value(f.Params[0]) {
		why = "the memo is not read under the name that was asked for"
	}
	found := false
	for _, gd := range guardsAt(ret.Block()) {
		if e2, ok := gd.Cond.(*ssa.Extract); ok && e2.Tuple == tuple && e2.Index == 1 && gd.Pol {
			found = true
		}
	}
	if !found && why == "" {
		why = "the memo's value is returned without the found flag being true"
	}
	nUpd := 0
	for _, fn := range p.Funcs {
		if fn.Blocks == nil {
			continue
		}
		eachInstr(fn, func(i ssa.Instruction) {
			var uKey, uVal ssa.Value
			switch mu := i.(type) {
			case *ssa.MapUpdate:
				l2, ok := mu.Map.(*ssa.UnOp)
				if !ok || l2.Op != token.MUL || l2.X != ssa.Value(g) {
					return
				}
				uKey, uVal = mu.Key, mu.Value
			case ssa.CallInstruction:
				cn := calleeName(mu.Common())
				if !strings.HasPrefix(cn, "(*sync.Map).") || len(mu.Common().Args) == 0 || mu.Common().Args[0] != ssa.Value(g) {
					return
				}
				switch cn {
				case "(*sync.Map).Load", "(*sync.Map).Range":
					return
				case "(*sync.Map).Store":
					uKey, uVal = mu.Common().Args[1], mu.Common().Args[2]
					if mi, ok := uKey.(*ssa.MakeInterface); ok {
						uKey = mi.X
					}
					if mi, ok := uVal.(*ssa.MakeInterface); ok {
						uVal = mi.X
					}
				default:
					nUpd++
					why = "the memo is modified through " + cn
					return
				}
			default:
				return
			}
			nUpd++
			if fn != f {
				why = "the memo is also filled in " + shortName(fn)
				return
			}
			if resolveLocal(uKey) != ssa.Value(f.Params[0]) {
				why = "the memo is filled under another key than the name that was asked for"
				return
			}
			bo, ok := resolveLocal(uVal).(*ssa.BinOp)
			hasSlide, hasSym := false, false
			var lookup *ssa.Call
			if ok && bo.Op == token.ADD {
				for _, side := range []ssa.Value{bo.X, bo.Y} {
					for _, a := range origins(side) {
						if g2, ok := a.V.(*ssa.Global); ok {
							if _, ok := slides[g2]; ok {
								hasSlide = true
							}
						}
						if b, fv, ok := fieldRef(a.V); ok && fv != nil && (fv.Name() == "Entry" || fv.Name() == "Value") {
							hasSym = true
							for _, a2 := range origins(b) {
								if e3, ok := a2.V.(*ssa.Extract); ok {
									lookup, _ = e3.Tuple.(*ssa.Call)
								}
							}
						}
					}
				}
			}
			if !hasSlide || !hasSym || lookup == nil || !errNilGuarded(i.Block(), lookup) {
				why = "the memo is filled with something other than (table address of the symbol just found + slide) on the err==nil side"
			}
		})
	}
	if nUpd == 0 && why == "" {
		why = "the memo is never filled"
	}
	r.Check(why == "", "C10.R3", cons+" success (served from the memo of earlier lookups)", p.Pos(posOf(ret)), "memo[name], found; filled only with table address + slide under err==nil for that name",
		"a lookup returns an address from a memo of earlier lookups, and "+why+": a name can be answered with another symbol's address or with a value that was never a successful lookup")
	return true
}
