package main

import (
	"os"
	"fmt"
	"go/token"
	"go/types"
	"sort"
	"strings"

	"golang.org/x/tools/go/ssa"
)

// c04Unwrap: C04.R7 — the mechanics of taking the packed variadic slice apart, at every site that does it (the functions of
// the root package and of package arg that call Value.Index under the variadic flag):
//   - the elements are visited by a counting loop i = 0, 1, … that runs while i < X.Len() on the very value X it indexes;
//   - where the fixed leading arguments are copied, they are list[:len(list)-1] of a list known to be non-empty;
//   - the list that collects the expansion starts empty;
//   - where the element type comes from Type.In(k), k is NumIn()-1 of the same type.
func c04Unwrap(p *Prog, r *Report) {
	fns := append(append([]*ssa.Function{}, p.FuncsIn("")...), p.FuncsIn("arg")...)
	for _, f := range fns {
		if f.Blocks == nil {
			continue
		}
		k := NewKeyer(f)
		eachInstr(f, func(i ssa.Instruction) {
			cl, ok := i.(*ssa.Call)
			if !ok {
				return
			}
			cn := calleeName(cl.Common())
			switch {
			case cn == "(reflect.Value).Index":
				if !underVariadic(p, cl.Block()) {
					return
				}
				recv, idx := cl.Call.Args[0], cl.Call.Args[1]
				first, step, okL := loopIndex(idx)
				bounded := false
				for _, g := range guardsAt(cl.Block()) {
					bo, ok := g.Cond.(*ssa.BinOp)
					if !ok || !g.Pol || bo.Op != token.LSS || bo.X != idx {
						continue
					}
					if lc, ok := bo.Y.(*ssa.Call); ok && calleeName(lc.Common()) == "(reflect.Value).Len" && resolveLocal(lc.Call.Args[0]) == resolveLocal(recv) {
						bounded = true
					}
				}
				r.Check(okL && first == 0 && step == 1 && bounded, "C04.R7", "variadic elements visited by a counting loop in "+shortName(f), p.Pos(posOf(cl)), "for i := 0; i < X.Len(); i++ { X.Index(i) }",
					"the elements of the packed variadic slice are not visited by i = 0, 1, … while i < Len() of the same value: an element is skipped or repeated, the loop never ends, or Index runs past the end and panics")
				// the collecting list starts empty
				for _, ref := range *cl.Referrers() {
					checkCollectorStartsEmpty(p, r, f, ref, cl)
				}
			case cl.Call.IsInvoke() && cl.Call.Method.Name() == "Elem" && strings.HasSuffix(cl.Call.Value.Type().String(), "reflect.Type"):
				if !underVariadic(p, cl.Block()) {
					return
				}
				in, ok := resolveLocal(cl.Call.Value).(*ssa.Call)
				if !ok || !in.Call.IsInvoke() || in.Call.Method.Name() != "In" {
					return
				}
				okLast := false
				if bo, isB := resolveLocal(in.Call.Args[0]).(*ssa.BinOp); isB && bo.Op == token.SUB {
					if c, isC := constInt(bo.Y); isC && c == 1 {
						if ni, isCall := resolveLocal(bo.X).(*ssa.Call); isCall && ni.Call.IsInvoke() && ni.Call.Method.Name() == "NumIn" && resolveLocal(ni.Call.Value) == resolveLocal(in.Call.Value) {
							okLast = true
						}
					}
				}
				r.Check(okLast, "C04.R7", "variadic element type is that of the last parameter in "+shortName(f), p.Pos(posOf(cl)), "T.In(T.NumIn()-1).Elem()",
					"the element type of the variadic parameter is taken from a parameter other than the last one: conditions on variadic elements are converted to the wrong type (or Elem panics)")
			}
		})
		// the fixed prefix: list[:len(list)-1], list non-empty
		eachInstr(f, func(i ssa.Instruction) {
			sl, ok := i.(*ssa.Slice)
			if !ok || !isValueSlice(sl.X.Type()) || sl.High == nil || sl.Low != nil || !underVariadic(p, sl.Block()) {
				return
			}
			// only prefixes that feed an append (the copy of the fixed arguments)
			feeds := false
			for _, ref := range *sl.Referrers() {
				if c2, ok := ref.(*ssa.Call); ok {
					if bi, ok := c2.Call.Value.(*ssa.Builtin); ok && bi.Name() == "append" {
						feeds = true
					}
				}
			}
			if !feeds {
				return
			}
			m := NewDBM()
			guardsToDBM(m, k, sl.Block())
			ht := k.TermOf(sl.High)
			lt := Term{"len(" + k.Key(sl.X) + ")", -1}
			exact := m.EntailsLE(ht, lt) && m.EntailsLE(lt, ht)
			nonEmpty := m.EntailsLE(Term{"", 1}, Term{lt.Var, 0})
			r.Check(exact && nonEmpty, "C04.R7", "fixed arguments are list[:len-1] of a non-empty list in "+shortName(f), p.Pos(posOf(sl)), "prefix ends right before the packed slice; len(list) > 0 known",
				"the fixed leading arguments are not copied as list[:len(list)-1] under len(list) > 0: the packed slice itself (or an element beyond the list) is matched as an argument, or the slice expression panics for an empty list")
		})
	}
}

// checkCollectorStartsEmpty: use is append(dst, …X.Index(i)…); the chain of appends that dst comes from starts at a slice of
// length 0.
func checkCollectorStartsEmpty(p *Prog, r *Report, f *ssa.Function, use ssa.Instruction, idxCall *ssa.Call) {
	// the element may be boxed / stored into the varargs array of the append
	var app *ssa.Call
	seen := map[ssa.Instruction]bool{}
	var find func(ins ssa.Instruction, depth int)
	find = func(ins ssa.Instruction, depth int) {
		if ins == nil || seen[ins] || depth > 6 || app != nil {
			return
		}
		seen[ins] = true
		switch x := ins.(type) {
		case *ssa.Call:
			if bi, ok := x.Call.Value.(*ssa.Builtin); ok && bi.Name() == "append" {
				app = x
				return
			}
			if x.Referrers() != nil {
				for _, r2 := range *x.Referrers() {
					find(r2, depth+1)
				}
			}
		case *ssa.Store:
			if ia, ok := x.Addr.(*ssa.IndexAddr); ok {
				if al, ok := ia.X.(*ssa.Alloc); ok {
					for _, r2 := range *al.Referrers() {
						if s2, ok := r2.(*ssa.Slice); ok {
							for _, r3 := range *s2.Referrers() {
								find(r3, depth+1)
							}
						}
					}
				}
			}
		case ssa.Value:
			if x.Referrers() != nil {
				for _, r2 := range *x.Referrers() {
					find(r2, depth+1)
				}
			}
		}
	}
	find(use, 0)
	if app == nil {
		return
	}
	// walk the destination back through appends and loop phis to its start
	starts := map[ssa.Value]bool{}
	vis := map[ssa.Value]bool{}
	var back func(v ssa.Value)
	back = func(v ssa.Value) {
		v = resolveLocal(v)
		if vis[v] {
			return
		}
		vis[v] = true
		switch x := v.(type) {
		case *ssa.Phi:
			for _, e := range x.Edges {
				back(e)
			}
		case *ssa.Call:
			if bi, ok := x.Call.Value.(*ssa.Builtin); ok && bi.Name() == "append" {
				back(x.Call.Args[0])
				return
			}
			starts[v] = true
		default:
			starts[v] = true
		}
	}
	back(app.Call.Args[0])
	okEmpty := len(starts) > 0
	why := ""
	for s := range starts {
		switch x := s.(type) {
		case *ssa.MakeSlice:
			if n, ok := constInt(x.Len); !ok || n != 0 {
				okEmpty, why = false, "make with a non-zero length"
			}
		case *ssa.Slice:
			n, isC := int64(-1), false
			if x.High != nil {
				n, isC = constInt(x.High)
			}
			_, isAl := x.X.(*ssa.Alloc)
			if !isAl || !isC || n != 0 {
				okEmpty, why = false, "a slice that is not empty"
			}
		case *ssa.Const:
			if !x.IsNil() {
				okEmpty = false
			}
		default:
			okEmpty, why = false, fmt.Sprintf("%T", s)
		}
	}
	r.Check(okEmpty, "C04.R7", "expansion collected into a list that starts empty in "+shortName(f), p.Pos(posOf(app)), "make(…, 0, n) / nil",
		"the list that collects the fixed arguments and the variadic elements does not start empty ("+why+"): a zero Value stands in front of the real arguments and every condition is compared against shifted positions")
}

// c04ElemComplete: where a list converter hands a declared type to a per-value converter (a call argument of type
// reflect.Type in a function that unwraps types[len-1] with Elem under the variadic flag), every way that type can have
// been chosen is one of: the Elem() of the last type; types[j] with j known to be strictly before the last position; or a
// way on which the function is known not to be variadic.
func c04ElemComplete(p *Prog, r *Report) {
	for _, f := range p.FuncsIn("arg") {
		if f.Blocks == nil {
			continue
		}
		k := NewKeyer(f)
		// does f unwrap the last declared type?
		var elemCalls []*ssa.Call
		eachInstr(f, func(i ssa.Instruction) {
			if cl, ok := i.(*ssa.Call); ok && cl.Call.IsInvoke() && cl.Call.Method.Name() == "Elem" && strings.HasSuffix(cl.Call.Value.Type().String(), "reflect.Type") && underVariadic(p, cl.Block()) {
				var srcs []*ssa.IndexAddr
				collectIndexSources(cl.Call.Value, &srcs, map[ssa.Value]bool{})
				if len(srcs) > 0 {
					elemCalls = append(elemCalls, cl)
				}
			}
		})
		if len(elemCalls) == 0 {
			continue
		}
		isElem := func(v ssa.Value) bool {
			for _, e := range elemCalls {
				if v == ssa.Value(e) {
					return true
				}
			}
			return false
		}
		notVariadicAt := func(gs []Guard) bool {
			for _, g := range gs {
				if g.Pol {
					continue
				}
				switch x := g.Cond.(type) {
				case *ssa.Parameter:
					if p.variadicCarriers().params[x] {
						return true
					}
				case *ssa.UnOp:
					if _, fv, okF := fieldRef(x); okF && fv != nil && p.variadicCarriers().fields[fv] {
						return true
					}
				}
			}
			return false
		}
		// listLevelAt: on this way the expression is known to be of a list-level kind — a type whose own Resolve hands a
		// list of sub-values back to this converter (In): it receives the list type and takes the variadic list apart itself
		listLevelAt := func(gs []Guard) bool {
			for _, g := range gs {
				ex, ok := g.Cond.(*ssa.Extract)
				if !ok || ex.Index != 1 || !g.Pol {
					continue
				}
				ta, ok := ex.Tuple.(*ssa.TypeAssert)
				if !ok || !ta.CommaOk {
					continue
				}
				res := p.SSA.LookupMethod(ta.AssertedType, f.Pkg.Pkg, "Resolve")
				if res == nil || res.Blocks == nil {
					continue
				}
				calls := false
				eachInstr(res, func(j ssa.Instruction) {
					if c := callCommon(j); c != nil && staticCallee(c) == f {
						calls = true
					}
				})
				if calls {
					return true
				}
			}
			return false
		}
		eachInstr(f, func(i ssa.Instruction) {
			cl, ok := i.(*ssa.Call)
			if !ok {
				return
			}
			cal := staticCallee(cl.Common())
			calName := ""
			switch {
			case cal != nil && strings.HasPrefix(pkgPathOf(cal), Mod):
				calName = shortName(cal)
			case cl.Call.IsInvoke() && cl.Call.Method.Pkg() != nil && strings.HasPrefix(cl.Call.Method.Pkg().Path(), Mod):
				calName = cl.Call.Method.Name()
			default:
				return
			}
			// the declared types handed over: arguments of type reflect.Type, and the elements of a []reflect.Type literal
			var typeArgs []ssa.Value
			for _, a := range cl.Call.Args {
				if strings.HasSuffix(a.Type().String(), "reflect.Type") && !strings.HasPrefix(a.Type().String(), "[]") {
					typeArgs = append(typeArgs, a)
				}
				if sl, ok := a.(*ssa.Slice); ok && a.Type().String() == "[]reflect.Type" {
					if al, ok := sl.X.(*ssa.Alloc); ok && al.Referrers() != nil {
						for _, ref := range *al.Referrers() {
							if ia, ok := ref.(*ssa.IndexAddr); ok && ia.Referrers() != nil {
								for _, r2 := range *ia.Referrers() {
									if st, ok := r2.(*ssa.Store); ok && st.Addr == ssa.Value(ia) {
										typeArgs = append(typeArgs, st.Val)
									}
								}
							}
						}
					}
				}
			}
			if os.Getenv("GOOMVET_DEBUG") != "" {
				fmt.Fprintln(os.Stderr, "C04.R7 elem-complete call", shortName(f), calName, len(typeArgs))
			}
			for _, a := range typeArgs {
				type leaf struct{ shape, bad string }
				var leaves []leaf
				var visit func(v ssa.Value, gs []Guard, depth int)
				visit = func(v ssa.Value, gs []Guard, depth int) {
					v = resolveLocal(v)
					if isElem(v) {
						leaves = append(leaves, leaf{"Elem() of the last type", ""})
						return
					}
					if depth > 6 {
						return
					}
					if isNilConst(v) {
						return // "no type yet" (a lazily computed type starts as nil): not a type that could be the wrong one
					}
					switch x := v.(type) {
					case *ssa.Phi:
						for ei, e := range x.Edges {
							if resolveLocal(e) == ssa.Value(x) {
								continue
							}
							visit(e, append(append([]Guard{}, gs...), knownAtEdge(x.Block().Preds[ei], x.Block())...), depth+1)
						}
					case *ssa.UnOp:
						ia, ok := x.X.(*ssa.IndexAddr)
						if !ok {
							if !notVariadicAt(gs) {
								leaves = append(leaves, leaf{"unknown", "a type of unknown provenance"})
							}
							return
						}
						it := k.TermOf(ia.Index)
						shape := "types[i]"
						if strings.HasPrefix(it.Var, "len(") {
							shape = "types[len" + fmt.Sprintf("%+d", it.K) + "]"
						}
						if notVariadicAt(gs) || notVariadicAt(guardsAt(ia.Block())) {
							leaves = append(leaves, leaf{shape + " when not variadic", ""})
							return
						}
						if listLevelAt(gs) {
							leaves = append(leaves, leaf{shape + " for a list-level expression", ""})
							return
						}
						m := NewDBM()
						guardsToDBM(m, k, ia.Block())
						guardListToDBM(m, k, gs)
						if !m.EntailsLE(Term{it.Var, it.K + 2}, Term{"len(" + k.Key(ia.X) + ")", 0}) {
							leaves = append(leaves, leaf{shape, shape + " without Elem() where the position may be the last one"})
						} else {
							leaves = append(leaves, leaf{shape, ""})
						}
					default:
						if !notVariadicAt(gs) {
							leaves = append(leaves, leaf{"unknown", "a type of unknown provenance"})
						}
					}
				}
				visit(a, guardsAt(cl.Block()), 0)
				if os.Getenv("GOOMVET_DEBUG") != "" {
					fmt.Fprintln(os.Stderr, "C04.R7 leaves", shortName(f), calName, leaves)
				}
				if len(leaves) == 0 {
					r.Und("C04.R7", "declared type handed to "+calName+" in "+shortName(f), p.Pos(posOf(cl)), "the provenance of the type could not be followed")
				}
				seenShape := map[string]bool{}
				for _, lf := range leaves {
					// one obligation per way the type can have been chosen; a bad way wins over a good one of the same shape
					if seenShape[lf.shape] && lf.bad == "" {
						continue
					}
					bad := lf.bad
					for _, l2 := range leaves {
						if l2.shape == lf.shape && l2.bad != "" {
							bad = l2.bad
						}
					}
					if seenShape[lf.shape] {
						continue
					}
					seenShape[lf.shape] = true
					r.Check(bad == "", "C04.R7", "declared type handed to "+calName+" in "+shortName(f)+" via "+lf.shape+" is the element type from the last position on", p.Pos(posOf(cl)), "Elem() of the last type, or a type strictly before the last, or not variadic",
						"for a variadic function the value at the first variadic position is converted against "+bad+": it is compared with (or converted to) the slice type instead of its element type, so it never matches or is rejected")
				}
			}
		})
	}
}

// c04FlagAgreement: C04.R8 — the methods of one mocker type that create a stub (calls of the function that builds a *When
// and takes the "has a receiver" flag) all pass the same flag: the receiver is either dropped for every stub of that mocker
// or for none. And the condition list of a fresh When is empty.
func c04FlagAgreement(p *Prog, r *Report) {
	when := p.NamedType("", "When")
	if when == nil {
		return
	}
	isWhenPtr := func(t types.Type) bool {
		pt, ok := t.(*types.Pointer)
		return ok && pt.Elem() == types.Type(when)
	}
	type site struct {
		pos string
		val string
	}
	groups := map[string][]site{}
	for _, f := range p.FuncsIn("") {
		if f.Blocks == nil || f.Signature.Recv() == nil {
			continue
		}
		rt := f.Signature.Recv().Type()
		if pt, ok := rt.(*types.Pointer); ok {
			rt = pt.Elem()
		}
		nt, ok := rt.(*types.Named)
		if !ok || nt == when {
			continue
		}
		eachInstr(f, func(i ssa.Instruction) {
			cl, ok := i.(*ssa.Call)
			if !ok {
				return
			}
			cal := staticCallee(cl.Common())
			if cal == nil || relPkg(cal) != "" || cal.Signature.Recv() != nil || cal.Signature.Results().Len() != 2 || !isWhenPtr(cal.Signature.Results().At(0).Type()) {
				return
			}
			for k := 0; k < cal.Signature.Params().Len(); k++ {
				if !isBool(cal.Signature.Params().At(k).Type()) {
					continue
				}
				v := "?"
				if c, ok := cl.Call.Args[k].(*ssa.Const); ok && c.Value != nil {
					v = c.Value.String()
				} else if _, fv, ok := fieldRef(resolveLocal(cl.Call.Args[k])); ok && fv != nil {
					v = "field " + fv.Name()
				}
				groups[nt.Obj().Name()] = append(groups[nt.Obj().Name()], site{p.Pos(posOf(cl)), v})
			}
		})
	}
	var names []string
	for n := range groups {
		names = append(names, n)
	}
	sort.Strings(names)
	for _, n := range names {
		ss := groups[n]
		agree, computed := true, false
		for _, s := range ss {
			if s.val == "?" {
				computed = true
			}
			if s.val != ss[0].val {
				agree = false
			}
		}
		if computed {
			continue // a flag computed at run time: agreement is not a property of the call sites
		}
		at := ss[0].pos
		for _, s := range ss {
			if s.val != ss[0].val {
				at = s.pos
			}
		}
		r.Check(agree, "C04.R8", "stubs of "+n+" agree on the receiver flag", at, fmt.Sprintf("%d stub-creating calls pass %s", len(ss), ss[0].val),
			"the stub-creating methods of one mocker pass different 'has a receiver' flags: for some of them the receiver is matched as if it were the first argument, so conditions never match (or match the wrong position)")
	}
	// a fresh When has no conditions
	matcherT := p.NamedType("", "Matcher")
	var builds []structBuild
	for _, f := range p.FuncsIn("") {
		if f.Blocks != nil {
			builds = append(builds, p.structBuilds(f, 0)...)
		}
	}
	for _, sb := range builds {
		for fv, v := range sb.Fields {
			if !recvTypeIs(fv, when) {
				continue
			}
			sl, ok := fv.Type().Underlying().(*types.Slice)
			if !ok || matcherT == nil || sl.Elem() != types.Type(matcherT) || v == nil {
				continue
			}
			empty := false
			switch x := resolveLocal(v).(type) {
			case *ssa.MakeSlice:
				n, ok := constInt(x.Len)
				empty = ok && n == 0
			case *ssa.Slice:
				if x.High != nil {
					n, ok := constInt(x.High)
					_, isAl := x.X.(*ssa.Alloc)
					empty = ok && n == 0 && isAl
				}
			case *ssa.Const:
				empty = x.IsNil()
			}
			r.Check(empty, "C04.R8", "fresh When has an empty condition list in "+shortName(sb.Fn), p.Pos(posOf(sb.At)), "matches = make(…, 0) / nil", "a fresh When starts with a non-empty condition list: the nil first entry is consulted on the first call and the mock panics")
		}
	}
}

// c04DefaultUnconditional: C04.R9 — every value recorded in the When's default field is nil, a value handed in, or a
// freshly built matcher of a type whose Match answers true on every path: a conditional matcher as the default answers calls
// that match no condition with that condition's results instead of the default's (or of the 'no suitable condition' panic).
func c04DefaultUnconditional(p *Prog, r *Report, root []*ssa.Function, when *types.Named, defFld *types.Var) {
	always := func(t types.Type) bool {
		if pt, ok := t.(*types.Pointer); ok {
			t = pt.Elem()
		}
		nt, ok := t.(*types.Named)
		if !ok {
			return false
		}
		mf := methodOf(p, nt, "Match")
		if mf == nil || mf.Blocks == nil {
			return false
		}
		for _, ret := range returnsOf(mf) {
			c, ok := retResult(ret, 0).(*ssa.Const)
			if !ok || c.Value == nil || c.Value.String() != "true" {
				return false
			}
		}
		return true
	}
	judge := func(v ssa.Value, fn *ssa.Function, at ssa.Instruction) {
		okAll, why := true, ""
		for _, a := range originsDeepIn(v, 2, func(f *ssa.Function) bool { return relPkg(f) == "" }) {
			switch a.Kind {
			case "const", "param":
				continue
			case "field":
				if _, fv, ok := fieldRef(a.V); ok && fv == defFld {
					continue
				}
			case "call":
				if cl, ok := a.V.(*ssa.Call); ok {
					if cal := staticCallee(cl.Common()); cal != nil && cal.Signature.Results().Len() == 1 && always(cal.Signature.Results().At(0).Type()) {
						continue
					}
				}
			}
			if mi, ok := a.V.(*ssa.MakeInterface); ok && always(mi.X.Type()) {
				continue
			}
			if al, ok := a.V.(*ssa.Alloc); ok && always(al.Type()) {
				continue
			}
			okAll, why = false, a.String()
		}
		r.Check(okAll, "C04.R9", "default recorded in "+shortName(fn)+" is unconditional", p.Pos(posOf(at)), "nil, handed in, or a matcher whose Match is constantly true",
			"a conditional matcher ("+why+") is recorded as the default: a call that matches no condition is answered with that condition's results instead of the default results or the 'no suitable condition' panic")
	}
	n := 0
	for _, fs := range storesToField(root, func(fv *types.Var, _ ssa.Value) bool { return fv == defFld }) {
		if _, isAl := fs.Addr.X.(*ssa.Alloc); isAl {
			continue // literals are judged below
		}
		n++
		judge(fs.Store.Val, fs.Fn, fs.Store)
	}
	for _, f := range root {
		if f.Blocks == nil {
			continue
		}
		for _, sb := range p.structBuilds(f, 0) {
			if v, ok := sb.Fields[defFld]; ok && v != nil {
				n++
				judge(v, f, sb.At)
			}
		}
	}
	if n == 0 {
		r.Und("C04.R9", "default recorded", "", "no store to the default field found")
	}
}

// matcherCtorRoles: for a root-package function that builds a Matcher, which of its []interface{} parameters become the
// conditions (they reach an expression builder of package arg, i.e. a call returning []arg.Expr or arg.Expr) and which
// become the results (they reach a value converter / the base matcher).
func matcherCtorRoles(p *Prog, cal *ssa.Function) (conds, results map[int]bool) {
	conds, results = map[int]bool{}, map[int]bool{}
	if cal == nil || cal.Blocks == nil {
		return
	}
	for k, prm := range cal.Params {
		sl, ok := prm.Type().Underlying().(*types.Slice)
		if !ok || !types.IsInterface(sl.Elem()) {
			continue
		}
		isP := func(v ssa.Value) bool { return v == ssa.Value(prm) }
		eachInstr(cal, func(i ssa.Instruction) {
			cl, ok := i.(*ssa.Call)
			if !ok {
				return
			}
			c2 := staticCallee(cl.Common())
			if c2 == nil || !strings.HasPrefix(pkgPathOf(c2), Mod) {
				return
			}
			uses := false
			for _, a := range cl.Call.Args {
				if dependsOn(a, isP) {
					uses = true
				}
			}
			if !uses {
				return
			}
			res := c2.Signature.Results()
			isExpr := false
			for j := 0; j < res.Len(); j++ {
				if strings.Contains(res.At(j).Type().String(), "arg.Expr") || strings.Contains(res.At(j).Type().String(), "arg.InExpr") {
					isExpr = true
				}
			}
			if isExpr {
				conds[k] = true
			} else if relPkg(c2) == "" && c2.Signature.Results().Len() == 1 && strings.Contains(c2.Signature.Results().At(0).Type().String(), "Matcher") {
				results[k] = true
			} else if relPkg(c2) == "arg" {
				for j := 0; j < res.Len(); j++ {
					if strings.Contains(res.At(j).Type().String(), "reflect.Value") {
						results[k] = true
					}
				}
			}
		})
	}
	return
}

// c04ConditionsReachMatcher: C04.R10 — a method of When that takes the caller's condition arguments (its variadic
// parameter) and opens a condition hands them to the *conditions* parameter of the matcher it builds (never to the results
// parameter), and records the matcher it built as the open condition on every way to its return; where a pair of
// (arguments, results) is unpacked, the field holding the arguments goes to the conditions and the field holding the
// results to the results.
func c04ConditionsReachMatcher(p *Prog, r *Report, when *types.Named) {
	n := 0
	for _, f := range p.FuncsIn("") {
		if f.Blocks == nil || f.Signature.Recv() == nil || f.Object() == nil || !f.Object().Exported() {
			continue
		}
		if pt, ok := f.Signature.Recv().Type().(*types.Pointer); !ok || pt.Elem() != types.Type(when) {
			continue
		}
		eachInstr(f, func(i ssa.Instruction) {
			cl, ok := i.(*ssa.Call)
			if !ok {
				return
			}
			cal := staticCallee(cl.Common())
			if cal == nil || relPkg(cal) != "" || cal.Signature.Recv() != nil {
				return
			}
			conds, results := matcherCtorRoles(p, cal)
			if len(conds) == 0 {
				return
			}
			n++
			bad := ""
			// where does each argument come from: the method's variadic parameter / a field named like the pair's halves
			src := func(v ssa.Value) string {
				out := ""
				if f.Signature.Variadic() && dependsOn(v, func(x ssa.Value) bool { return x == ssa.Value(f.Params[len(f.Params)-1]) }) {
					// a pair parameter is told apart by the field that was read
					out = "param"
				}
				if dependsOn(v, func(x ssa.Value) bool {
					_, fv, ok := fieldRef(x)
					return ok && fv != nil && fv.Name() == "Args"
				}) {
					out = "Args"
				}
				if dependsOn(v, func(x ssa.Value) bool {
					_, fv, ok := fieldRef(x)
					return ok && fv != nil && fv.Name() == "Return"
				}) {
					out = "Return"
				}
				return out
			}
			gotCond := false
			for k, a := range cl.Call.Args {
				s := src(a)
				if conds[k] && (s == "param" || s == "Args") {
					gotCond = true
				}
				if conds[k] && s == "Return" {
					bad = "the results half of the pair is used as the condition"
				}
				if results[k] && !conds[k] && (s == "Args" || (s == "param" && f.Name() != "Matches")) {
					bad = "the caller's condition arguments are handed to the results parameter of " + shortName(cal)
				}
			}
			if !gotCond && bad == "" {
				bad = "the conditions parameter of " + shortName(cal) + " does not receive the caller's condition arguments"
			}
			r.Check(bad == "", "C04.R10", "condition arguments of "+shortName(f)+" reach the conditions of "+shortName(cal), p.Pos(posOf(cl)), "conditions ← the caller's arguments; results ← the results",
				bad+": the condition is built from the wrong list, so it matches calls it was not written for (or none at all)")
		})
	}
	// the open condition is recorded: a When method that builds a conditional matcher from its variadic parameter stores it
	// into a Matcher-typed field of the receiver (or appends it to the condition list) on every way to a return
	matcherT := p.NamedType("", "Matcher")
	for _, f := range p.FuncsIn("") {
		if f.Blocks == nil || f.Signature.Recv() == nil || f.Object() == nil || !f.Object().Exported() || !f.Signature.Variadic() {
			continue
		}
		if pt, ok := f.Signature.Recv().Type().(*types.Pointer); !ok || pt.Elem() != types.Type(when) {
			continue
		}
		vp := f.Params[len(f.Params)-1]
		var ctorCalls []*ssa.Call
		eachInstr(f, func(i ssa.Instruction) {
			if cl, ok := i.(*ssa.Call); ok {
				cal := staticCallee(cl.Common())
				if cal == nil || relPkg(cal) != "" || cal.Signature.Recv() != nil {
					return
				}
				conds, _ := matcherCtorRoles(p, cal)
				for k := range conds {
					if k < len(cl.Call.Args) && dependsOn(cl.Call.Args[k], func(x ssa.Value) bool { return x == ssa.Value(vp) }) {
						ctorCalls = append(ctorCalls, cl)
					}
				}
			}
		})
		_ = matcherT
		if len(ctorCalls) == 0 && (f.Name() == "When" || f.Name() == "In") {
			n++
			r.Bad("C04.R10", "condition built in "+shortName(f)+" is recorded", p.Pos(f.Pos()), "the method that opens a condition builds no matcher from its arguments: the following Return feeds the previous (or the default) stub, so the configured results are served for calls the condition was meant to exclude")
		}
		for _, cc := range ctorCalls {
			isRecord := func(j ssa.Instruction) bool {
				switch x := j.(type) {
				case *ssa.Store:
					fa, ok := x.Addr.(*ssa.FieldAddr)
					return ok && resolveLocal(fa.X) == ssa.Value(f.Params[0]) && dependsOn(x.Val, func(v ssa.Value) bool { return v == ssa.Value(cc) })
				}
				return false
			}
			okAll := true
			for _, ret := range returnsOf(f) {
				if reachableAfter(cc, ret) && reachableAvoiding(cc, ret, isRecord) {
					okAll = false
				}
			}
			n++
			r.Check(okAll, "C04.R10", "condition built in "+shortName(f)+" is recorded", p.Pos(posOf(cc)), "stored into the When on every way to the return",
				"the condition built from the caller's arguments is dropped: the following Return feeds the previous (or the default) stub, so the configured results are served for calls the condition was meant to exclude")
		}
	}
	if n == 0 {
		r.Und("C04.R10", "condition forwarding", "", "no When method builds a matcher from its arguments")
	}
}

// c04UnwrapFromLast: C04.R12 — in the list converters of package arg (functions with a []reflect.Type parameter), the
// treatment of a value as (an element of) the variadic tail — Value.Index over it, Type.Elem of its declared type — is
// applied exactly from the last declared position on: the conditions that lead to the site bound the position below by
// len(types)-1, no more and no less.
func c04UnwrapFromLast(p *Prog, r *Report) {
	n := 0
	for _, f := range p.FuncsIn("arg") {
		if f.Blocks == nil {
			continue
		}
		var typs *ssa.Parameter
		for _, pr := range f.Params {
			if sl, ok := pr.Type().Underlying().(*types.Slice); ok && strings.HasSuffix(sl.Elem().String(), "reflect.Type") {
				typs = pr
			}
		}
		if typs == nil {
			continue
		}
		k := NewKeyer(f)
		lenKey := "len(" + k.Key(typs) + ")"
		nInF := 0
		// the position: what indexes the list of values being converted (go/ssa counts a range loop from -1 and indexes
		// with counter+1, so bounds on the counter are shifted accordingly)
		shift := map[string]int64{}
		eachInstr(f, func(i ssa.Instruction) {
			ia, ok := i.(*ssa.IndexAddr)
			if !ok {
				return
			}
			sl, ok := ia.X.Type().Underlying().(*types.Slice)
			if !ok || !types.IsInterface(sl.Elem()) || strings.HasSuffix(sl.Elem().String(), "reflect.Type") {
				return
			}
			form := map[string]int64{}
			var c int64
			linForm(k, ia.Index, 1, form, &c, 0)
			for key, co := range form {
				if co == 1 && len(form) == 1 {
					shift[key] = c
				}
			}
		})
		eachInstr(f, func(i ssa.Instruction) {
			cl, ok := i.(*ssa.Call)
			if !ok || !underVariadicLocal(p, cl.Block()) {
				return
			}
			isSite := false
			switch {
			case calleeName(cl.Common()) == "(reflect.Value).Index":
				isSite = true
			case cl.Call.IsInvoke() && cl.Call.Method.Name() == "Elem" && strings.HasSuffix(cl.Call.Value.Type().String(), "reflect.Type"):
				isSite = true
			}
			if !isSite {
				return
			}
			n++
			nInF++
			// lower bounds pos - len(types) >= c among the conditions that hold at the site
			best := int64(-1 << 40)
			for _, g := range guardsAt(cl.Block()) {
				bo, ok := g.Cond.(*ssa.BinOp)
				if !ok || !isIntegerType(bo.X.Type()) {
					continue
				}
				form := map[string]int64{}
				var konst int64
				linForm(k, bo.X, 1, form, &konst, 0)
				linForm(k, bo.Y, -1, form, &konst, 0)
				lc := form[lenKey]
				if lc != 1 && lc != -1 {
					continue
				}
				others, oc := 0, int64(0)
				posKey := ""
				for key, c := range form {
					if c != 0 && key != lenKey {
						others++
						oc = c
						posKey = key
					}
				}
				if others != 1 || oc != -lc {
					continue
				}
				// express the counter through the position: counter = position - shift
				konst -= oc * shift[posKey]
				// expression e = oc*pos + lc*len + konst ; condition (e op 0) has polarity g.Pol
				op := bo.Op
				if !g.Pol {
					switch op {
					case token.LSS:
						op = token.GEQ
					case token.LEQ:
						op = token.GTR
					case token.GTR:
						op = token.LEQ
					case token.GEQ:
						op = token.LSS
					default:
						continue
					}
				}
				// normalise to pos - len + c0 (op') 0 with coefficient of pos = +1
				c0 := konst
				if oc == -1 {
					c0 = -konst
					switch op {
					case token.LSS:
						op = token.GTR
					case token.LEQ:
						op = token.GEQ
					case token.GTR:
						op = token.LSS
					case token.GEQ:
						op = token.LEQ
					}
				}
				// pos - len + c0 >= 0  ⇒ pos - len >= -c0 ; > 0 ⇒ >= -c0+1
				switch op {
				case token.GEQ:
					if -c0 > best {
						best = -c0
					}
				case token.GTR:
					if -c0+1 > best {
						best = -c0 + 1
					}
				}
			}
			r.Check(best == -1, "C04.R12", "variadic treatment in "+shortName(f)+" #"+itoa2(nInF)+" starts at the last declared position", p.Pos(posOf(cl)), "position >= len(types)-1 and nothing stronger",
				"a value is treated as part of the variadic tail (unwrapped / converted against the element type) from a position other than the last declared one: the first variadic value is compared against the slice type, or the last fixed argument is taken apart as if it were the packed slice")
		})
	}
	if n == 0 {
		r.Und("C04.R12", "variadic positions", "", "no position-dependent variadic treatment found in package arg")
	}
}

// c04TypeListPadded: C04.R7 clause — where a matcher constructor pads the list of declared types with the variadic element
// type (a loop appending a reflect.Type obtained by Elem() to a []reflect.Type), the loop runs exactly while the type list
// is shorter than the argument list: `len(types) < len(args)`. One iteration more or fewer makes the count comparison in
// the converter refuse every condition of a variadic function (or accept a list one short).
func c04TypeListPadded(p *Prog, r *Report) {
	n := 0
	for _, f := range p.FuncsIn("") {
		if f.Blocks == nil {
			continue
		}
		eachInstr(f, func(i ssa.Instruction) {
			cl, ok := i.(*ssa.Call)
			if !ok {
				return
			}
			bi, ok := cl.Call.Value.(*ssa.Builtin)
			if !ok || bi.Name() != "append" || cl.Type().String() != "[]reflect.Type" {
				return
			}
			ph, ok := cl.Call.Args[0].(*ssa.Phi)
			if !ok {
				return
			}
			back := false
			for _, e := range ph.Edges {
				if e == ssa.Value(cl) {
					back = true
				}
			}
			if !back {
				return
			}
			n++
			// the loop runs (bound − start) times with step 1, and that must be len(args) − len(initial types):
			// `for len(types) < len(args)`, `for i := len(types); i < len(args); i++`, `for i := 0; i < len(args)-len(types); i++`
			iff, _ := lastInstr(ph.Block()).(*ssa.If)
			okCond := false
			if iff != nil {
				if bo, ok := iff.Cond.(*ssa.BinOp); ok && bo.Op == token.LSS && ph.Block().Succs[0] == cl.Block() {
					k := NewKeyer(f)
					var initList ssa.Value
					for _, e := range ph.Edges {
						if e != ssa.Value(cl) {
							initList = e
						}
					}
					diff := map[string]int64{}
					var dc int64
					linForm(k, bo.Y, 1, diff, &dc, 0)
					okStart := false
					lenLoop := false
					if lx, isCall := bo.X.(*ssa.Call); isCall {
						if bx, isB := lx.Call.Value.(*ssa.Builtin); isB && bx.Name() == "len" && lx.Call.Args[0] == ssa.Value(ph) && initList != nil {
							lenLoop = true
							okStart = true
						}
					} else if cnt, isPhi := bo.X.(*ssa.Phi); isPhi && cnt.Block() == ph.Block() {
						stepOK := false
						for _, e := range cnt.Edges {
							if inc, isB := e.(*ssa.BinOp); isB && inc.Op == token.ADD && inc.X == ssa.Value(cnt) {
								if c, isC := constInt(inc.Y); isC && c == 1 {
									stepOK = true
								}
								continue
							}
							linForm(k, e, -1, diff, &dc, 0)
						}
						okStart = stepOK
					}
					// + len(initial list), expressed through the slice expression that made it where there is one
					addLen := func(v ssa.Value, sign int64) {
						if sl, ok := v.(*ssa.Slice); ok {
							if _, isPtr := sl.X.Type().Underlying().(*types.Pointer); !isPtr && sl.Max == nil {
								switch {
								case sl.Low == nil && sl.High != nil:
									linForm(k, sl.High, sign, diff, &dc, 0)
									return
								case sl.Low != nil && sl.High == nil:
									diff["len("+k.Key(sl.X)+")"] += sign
									linForm(k, sl.Low, -sign, diff, &dc, 0)
									return
								case sl.Low != nil && sl.High != nil:
									linForm(k, sl.High, sign, diff, &dc, 0)
									linForm(k, sl.Low, -sign, diff, &dc, 0)
									return
								}
							}
						}
						diff["len("+k.Key(v)+")"] += sign
					}
					if okStart && initList != nil {
						// the len-loop starts at len(initial list); then: iterations + len(initial list) must be len(args)
						if lenLoop {
							addLen(initList, -1)
						}
						addLen(initList, 1)
					}
					// and the list that is padded is the declared types without the last one — types[:len(types)-1] — not a shorter prefix
					if sl, isSl := initList.(*ssa.Slice); isSl && okStart {
						pre := map[string]int64{}
						var pc int64
						if sl.High != nil {
							linForm(k, sl.High, 1, pre, &pc, 0)
						}
						wantKey := "len(" + k.Key(sl.X) + ")"
						exact := sl.Low == nil && sl.High != nil && pc == -1 && pre[wantKey] == 1
						for key, c := range pre {
							if c != 0 && key != wantKey {
								exact = false
							}
						}
						if !exact {
							okStart = false
						}
					}
					if okStart && initList != nil && dc == 0 {
						nArgs := 0
						okForm := true
						for key, c := range diff {
							if c == 0 {
								continue
							}
							if c == 1 && strings.HasPrefix(key, "len(") {
								nArgs++
							} else {
								okForm = false
							}
						}
						okCond = okForm && nArgs == 1
					}
				}
			}
			r.Check(okCond, "C04.R7", "declared types padded up to the number of arguments in "+shortName(f), p.Pos(posOf(cl)), "loop runs while len(types) < len(args)",
				"the loop that pads the declared types of a variadic function with the element type does not run exactly while len(types) < len(args): the converter's count comparison then refuses every condition of a variadic function (or accepts a list that is one short)")
		})
	}
	r.Stat("type_list_paddings", n)
}
