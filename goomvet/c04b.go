package main

import (
	"fmt"
	"go/token"
	"go/types"
	"sort"
	"strings"

	"golang.org/x/tools/go/ssa"
)

// c04Unwrap: C04.R7 — the mechanics of taking the packed variadic slice apart, at every site that does it (the functions of
// the root package and of package arg that call Value.Index under the variadic flag):
//   - the elements are visited by a counting loop i = 0, 1, … that runs while i < X.Len() on the very value X it indexes;
//   - where the fixed leading arguments are copied, they are list[:len(list)-1] of a list known to be non-empty;
//   - the list that collects the expansion starts empty;
//   - where the element type comes from Type.In(k), k is NumIn()-1 of the same type.
func c04Unwrap(p *Prog, r *Report) {
	fns := append(append([]*ssa.Function{}, p.FuncsIn("")...), p.FuncsIn("arg")...)
	for _, f := range fns {
		if f.Blocks == nil {
			continue
		}
		k := NewKeyer(f)
		eachInstr(f, func(i ssa.Instruction) {
			cl, ok := i.(*ssa.Call)
			if !ok {
				return
			}
			cn := calleeName(cl.Common())
			switch {
			case cn == "(reflect.Value).Index":
				if !underVariadic(p, cl.Block()) {
					return
				}
				recv, idx := cl.Call.Args[0], cl.Call.Args[1]
				first, step, okL := loopIndex(idx)
				bounded := false
				for _, g := range guardsAt(cl.Block()) {
					bo, ok := g.Cond.(*ssa.BinOp)
					if !ok || !g.Pol || bo.Op != token.LSS || bo.X != idx {
						continue
					}
					if lc, ok := bo.Y.(*ssa.Call); ok && calleeName(lc.Common()) == "(reflect.Value).Len" && resolveLocal(lc.Call.Args[0]) == resolveLocal(recv) {
						bounded = true
					}
				}
				r.Check(okL && first == 0 && step == 1 && bounded, "C04.R7", "variadic elements visited by a counting loop in "+shortName(f), p.Pos(posOf(cl)), "for i := 0; i < X.Len(); i++ { X.Index(i) }",
					"the elements of the packed variadic slice are not visited by i = 0, 1, … while i < Len() of the same value: an element is skipped or repeated, the loop never ends, or Index runs past the end and panics")
				// the collecting list starts empty
				for _, ref := range *cl.Referrers() {
					checkCollectorStartsEmpty(p, r, f, ref, cl)
				}
			case cl.Call.IsInvoke() && cl.Call.Method.Name() == "Elem" && strings.HasSuffix(cl.Call.Value.Type().String(), "reflect.Type"):
				if !underVariadic(p, cl.Block()) {
					return
				}
				in, ok := resolveLocal(cl.Call.Value).(*ssa.Call)
				if !ok || !in.Call.IsInvoke() || in.Call.Method.Name() != "In" {
					return
				}
				okLast := false
				if bo, isB := resolveLocal(in.Call.Args[0]).(*ssa.BinOp); isB && bo.Op == token.SUB {
					if c, isC := constInt(bo.Y); isC && c == 1 {
						if ni, isCall := resolveLocal(bo.X).(*ssa.Call); isCall && ni.Call.IsInvoke() && ni.Call.Method.Name() == "NumIn" && resolveLocal(ni.Call.Value) == resolveLocal(in.Call.Value) {
							okLast = true
						}
					}
				}
				r.Check(okLast, "C04.R7", "variadic element type is that of the last parameter in "+shortName(f), p.Pos(posOf(cl)), "T.In(T.NumIn()-1).Elem()",
					"the element type of the variadic parameter is taken from a parameter other than the last one: conditions on variadic elements are converted to the wrong type (or Elem panics)")
			}
		})
		// the fixed prefix: list[:len(list)-1], list non-empty
		eachInstr(f, func(i ssa.Instruction) {
			sl, ok := i.(*ssa.Slice)
			if !ok || !isValueSlice(sl.X.Type()) || sl.High == nil || sl.Low != nil || !underVariadic(p, sl.Block()) {
				return
			}
			// only prefixes that feed an append (the copy of the fixed arguments)
			feeds := false
			for _, ref := range *sl.Referrers() {
				if c2, ok := ref.(*ssa.Call); ok {
					if bi, ok := c2.Call.Value.(*ssa.Builtin); ok && bi.Name() == "append" {
						feeds = true
					}
				}
			}
			if !feeds {
				return
			}
			m := NewDBM()
			guardsToDBM(m, k, sl.Block())
			ht := k.TermOf(sl.High)
			lt := Term{"len(" + k.Key(sl.X) + ")", -1}
			exact := m.EntailsLE(ht, lt) && m.EntailsLE(lt, ht)
			nonEmpty := m.EntailsLE(Term{"", 1}, Term{lt.Var, 0})
			r.Check(exact && nonEmpty, "C04.R7", "fixed arguments are list[:len-1] of a non-empty list in "+shortName(f), p.Pos(posOf(sl)), "prefix ends right before the packed slice; len(list) > 0 known",
				"the fixed leading arguments are not copied as list[:len(list)-1] under len(list) > 0: the packed slice itself (or an element beyond the list) is matched as an argument, or the slice expression panics for an empty list")
		})
	}
}

// checkCollectorStartsEmpty: use is append(dst, …X.Index(i)…); the chain of appends that dst comes from starts at a slice of
// length 0.
func checkCollectorStartsEmpty(p *Prog, r *Report, f *ssa.Function, use ssa.Instruction, idxCall *ssa.Call) {
	// the element may be boxed / stored into the varargs array of the append
	var app *ssa.Call
	seen := map[ssa.Instruction]bool{}
	var find func(ins ssa.Instruction, depth int)
	find = func(ins ssa.Instruction, depth int) {
		if ins == nil || seen[ins] || depth > 6 || app != nil {
			return
		}
		seen[ins] = true
		switch x := ins.(type) {
		case *ssa.Call:
			if bi, ok := x.Call.Value.(*ssa.Builtin); ok && bi.Name() == "append" {
				app = x
				return
			}
			if x.Referrers() != nil {
				for _, r2 := range *x.Referrers() {
					find(r2, depth+1)
				}
			}
		case *ssa.Store:
			if ia, ok := x.Addr.(*ssa.IndexAddr); ok {
				if al, ok := ia.X.(*ssa.Alloc); ok {
					for _, r2 := range *al.Referrers() {
						if s2, ok := r2.(*ssa.Slice); ok {
							for _, r3 := range *s2.Referrers() {
								find(r3, depth+1)
							}
						}
					}
				}
			}
		case ssa.Value:
			if x.Referrers() != nil {
				for _, r2 := range *x.Referrers() {
					find(r2, depth+1)
				}
			}
		}
	}
	find(use, 0)
	if app == nil {
		return
	}
	// walk the destination back through appends and loop phis to its start
	starts := map[ssa.Value]bool{}
	vis := map[ssa.Value]bool{}
	var back func(v ssa.Value)
	back = func(v ssa.Value) {
		v = resolveLocal(v)
		if vis[v] {
			return
		}
		vis[v] = true
		switch x := v.(type) {
		case *ssa.Phi:
			for _, e := range x.Edges {
				back(e)
			}
		case *ssa.Call:
			if bi, ok := x.Call.Value.(*ssa.Builtin); ok && bi.Name() == "append" {
				back(x.Call.Args[0])
				return
			}
			starts[v] = true
		default:
			starts[v] = true
		}
	}
	back(app.Call.Args[0])
	okEmpty := len(starts) > 0
	why := ""
	for s := range starts {
		switch x := s.(type) {
		case *ssa.MakeSlice:
			if n, ok := constInt(x.Len); !ok || n != 0 {
				okEmpty, why = false, "make with a non-zero length"
			}
		case *ssa.Slice:
			n, isC := int64(-1), false
			if x.High != nil {
				n, isC = constInt(x.High)
			}
			_, isAl := x.X.(*ssa.Alloc)
			if !isAl || !isC || n != 0 {
				okEmpty, why = false, "a slice that is not empty"
			}
		case *ssa.Const:
			if !x.IsNil() {
				okEmpty = false
			}
		default:
			okEmpty, why = false, fmt.Sprintf("%T", s)
		}
	}
	r.Check(okEmpty, "C04.R7", "expansion collected into a list that starts empty in "+shortName(f), p.Pos(posOf(app)), "make(…, 0, n) / nil",
		"the list that collects the fixed arguments and the variadic elements does not start empty ("+why+"): a zero Value stands in front of the real arguments and every condition is compared against shifted positions")
}

// c04ElemComplete: where a list converter hands a declared type to a per-value converter (a call argument of type
// reflect.Type in a function that unwraps types[len-1] with Elem under the variadic flag), every way that type can have
// been chosen is one of: the Elem() of the last type; types[j] with j known to be strictly before the last position; or a
// way on which the function is known not to be variadic.
func c04ElemComplete(p *Prog, r *Report) {
	for _, f := range p.FuncsIn("arg") {
		if f.Blocks == nil {
			continue
		}
		k := NewKeyer(f)
		// does f unwrap the last declared type?
		var elemCalls []*ssa.Call
		eachInstr(f, func(i ssa.Instruction) {
			if cl, ok := i.(*ssa.Call); ok && cl.Call.IsInvoke() && cl.Call.Method.Name() == "Elem" && strings.HasSuffix(cl.Call.Value.Type().String(), "reflect.Type") && underVariadic(p, cl.Block()) {
				var srcs []*ssa.IndexAddr
				collectIndexSources(cl.Call.Value, &srcs, map[ssa.Value]bool{})
				if len(srcs) > 0 {
					elemCalls = append(elemCalls, cl)
				}
			}
		})
		if len(elemCalls) == 0 {
			continue
		}
		isElem := func(v ssa.Value) bool {
			for _, e := range elemCalls {
				if v == ssa.Value(e) {
					return true
				}
			}
			return false
		}
		notVariadicAt := func(gs []Guard) bool {
			for _, g := range gs {
				if g.Pol {
					continue
				}
				switch x := g.Cond.(type) {
				case *ssa.Parameter:
					if p.variadicCarriers().params[x] {
						return true
					}
				case *ssa.UnOp:
					if _, fv, okF := fieldRef(x); okF && fv != nil && p.variadicCarriers().fields[fv] {
						return true
					}
				}
			}
			return false
		}
		eachInstr(f, func(i ssa.Instruction) {
			cl, ok := i.(*ssa.Call)
			if !ok {
				return
			}
			cal := staticCallee(cl.Common())
			if cal == nil || !strings.HasPrefix(pkgPathOf(cal), Mod) {
				return
			}
			for _, a := range cl.Call.Args {
				if !strings.HasSuffix(a.Type().String(), "reflect.Type") {
					continue
				}
				bad := ""
				var visit func(v ssa.Value, gs []Guard, depth int)
				visit = func(v ssa.Value, gs []Guard, depth int) {
					v = resolveLocal(v)
					if isElem(v) || depth > 4 {
						return
					}
					if notVariadicAt(gs) {
						return
					}
					switch x := v.(type) {
					case *ssa.Phi:
						for ei, e := range x.Edges {
							visit(e, append(append([]Guard{}, gs...), knownAtEdge(x.Block().Preds[ei], x.Block())...), depth+1)
						}
					case *ssa.UnOp:
						ia, ok := x.X.(*ssa.IndexAddr)
						if !ok {
							bad = "a type of unknown provenance"
							return
						}
						if notVariadicAt(guardsAt(ia.Block())) {
							return
						}
						m := NewDBM()
						guardsToDBM(m, k, ia.Block())
						guardListToDBM(m, k, gs)
						it := k.TermOf(ia.Index)
						if !m.EntailsLE(Term{it.Var, it.K + 2}, Term{"len(" + k.Key(ia.X) + ")", 0}) {
							bad = "types[" + termShape(it) + "] without Elem() where the position may be the last one"
						}
					default:
						bad = "a type of unknown provenance"
					}
				}
				visit(a, guardsAt(cl.Block()), 0)
				r.Check(bad == "", "C04.R7", "declared type handed to "+shortName(cal)+" in "+shortName(f)+" is the element type from the last position on", p.Pos(posOf(cl)), "Elem() of the last type, or a type strictly before the last, or not variadic",
					"for a variadic function the value at the first variadic position is converted against "+bad+": it is compared with (or converted to) the slice type instead of its element type, so it never matches or is rejected")
			}
		})
	}
}

// c04FlagAgreement: C04.R8 — the methods of one mocker type that create a stub (calls of the function that builds a *When
// and takes the "has a receiver" flag) all pass the same flag: the receiver is either dropped for every stub of that mocker
// or for none. And the condition list of a fresh When is empty.
func c04FlagAgreement(p *Prog, r *Report) {
	when := p.NamedType("", "When")
	if when == nil {
		return
	}
	isWhenPtr := func(t types.Type) bool {
		pt, ok := t.(*types.Pointer)
		return ok && pt.Elem() == types.Type(when)
	}
	type site struct {
		pos string
		val string
	}
	groups := map[string][]site{}
	for _, f := range p.FuncsIn("") {
		if f.Blocks == nil || f.Signature.Recv() == nil {
			continue
		}
		rt := f.Signature.Recv().Type()
		if pt, ok := rt.(*types.Pointer); ok {
			rt = pt.Elem()
		}
		nt, ok := rt.(*types.Named)
		if !ok || nt == when {
			continue
		}
		eachInstr(f, func(i ssa.Instruction) {
			cl, ok := i.(*ssa.Call)
			if !ok {
				return
			}
			cal := staticCallee(cl.Common())
			if cal == nil || relPkg(cal) != "" || cal.Signature.Recv() != nil || cal.Signature.Results().Len() != 2 || !isWhenPtr(cal.Signature.Results().At(0).Type()) {
				return
			}
			for k := 0; k < cal.Signature.Params().Len(); k++ {
				if !isBool(cal.Signature.Params().At(k).Type()) {
					continue
				}
				v := "?"
				if c, ok := cl.Call.Args[k].(*ssa.Const); ok && c.Value != nil {
					v = c.Value.String()
				} else if _, fv, ok := fieldRef(resolveLocal(cl.Call.Args[k])); ok && fv != nil {
					v = "field " + fv.Name()
				}
				groups[nt.Obj().Name()] = append(groups[nt.Obj().Name()], site{p.Pos(posOf(cl)), v})
			}
		})
	}
	var names []string
	for n := range groups {
		names = append(names, n)
	}
	sort.Strings(names)
	for _, n := range names {
		ss := groups[n]
		agree, computed := true, false
		for _, s := range ss {
			if s.val == "?" {
				computed = true
			}
			if s.val != ss[0].val {
				agree = false
			}
		}
		if computed {
			continue // a flag computed at run time: agreement is not a property of the call sites
		}
		at := ss[0].pos
		for _, s := range ss {
			if s.val != ss[0].val {
				at = s.pos
			}
		}
		r.Check(agree, "C04.R8", "stubs of "+n+" agree on the receiver flag", at, fmt.Sprintf("%d stub-creating calls pass %s", len(ss), ss[0].val),
			"the stub-creating methods of one mocker pass different 'has a receiver' flags: for some of them the receiver is matched as if it were the first argument, so conditions never match (or match the wrong position)")
	}
	// a fresh When has no conditions
	matcherT := p.NamedType("", "Matcher")
	var builds []structBuild
	for _, f := range p.FuncsIn("") {
		if f.Blocks != nil {
			builds = append(builds, p.structBuilds(f, 0)...)
		}
	}
	for _, sb := range builds {
		for fv, v := range sb.Fields {
			if !recvTypeIs(fv, when) {
				continue
			}
			sl, ok := fv.Type().Underlying().(*types.Slice)
			if !ok || matcherT == nil || sl.Elem() != types.Type(matcherT) || v == nil {
				continue
			}
			empty := false
			switch x := resolveLocal(v).(type) {
			case *ssa.MakeSlice:
				n, ok := constInt(x.Len)
				empty = ok && n == 0
			case *ssa.Slice:
				if x.High != nil {
					n, ok := constInt(x.High)
					_, isAl := x.X.(*ssa.Alloc)
					empty = ok && n == 0 && isAl
				}
			case *ssa.Const:
				empty = x.IsNil()
			}
			r.Check(empty, "C04.R8", "fresh When has an empty condition list in "+shortName(sb.Fn), p.Pos(posOf(sb.At)), "matches = make(…, 0) / nil", "a fresh When starts with a non-empty condition list: the nil first entry is consulted on the first call and the mock panics")
		}
	}
}

// c04DefaultUnconditional: C04.R9 — every value recorded in the When's default field is nil, a value handed in, or a
// freshly built matcher of a type whose Match answers true on every path: a conditional matcher as the default answers calls
// that match no condition with that condition's results instead of the default's (or of the 'no suitable condition' panic).
func c04DefaultUnconditional(p *Prog, r *Report, root []*ssa.Function, when *types.Named, defFld *types.Var) {
	always := func(t types.Type) bool {
		if pt, ok := t.(*types.Pointer); ok {
			t = pt.Elem()
		}
		nt, ok := t.(*types.Named)
		if !ok {
			return false
		}
		mf := methodOf(p, nt, "Match")
		if mf == nil || mf.Blocks == nil {
			return false
		}
		for _, ret := range returnsOf(mf) {
			c, ok := retResult(ret, 0).(*ssa.Const)
			if !ok || c.Value == nil || c.Value.String() != "true" {
				return false
			}
		}
		return true
	}
	judge := func(v ssa.Value, fn *ssa.Function, at ssa.Instruction) {
		okAll, why := true, ""
		for _, a := range originsDeepIn(v, 2, func(f *ssa.Function) bool { return relPkg(f) == "" }) {
			switch a.Kind {
			case "const", "param":
				continue
			case "field":
				if _, fv, ok := fieldRef(a.V); ok && fv == defFld {
					continue
				}
			case "call":
				if cl, ok := a.V.(*ssa.Call); ok {
					if cal := staticCallee(cl.Common()); cal != nil && cal.Signature.Results().Len() == 1 && always(cal.Signature.Results().At(0).Type()) {
						continue
					}
				}
			}
			if mi, ok := a.V.(*ssa.MakeInterface); ok && always(mi.X.Type()) {
				continue
			}
			if al, ok := a.V.(*ssa.Alloc); ok && always(al.Type()) {
				continue
			}
			okAll, why = false, a.String()
		}
		r.Check(okAll, "C04.R9", "default recorded in "+shortName(fn)+" is unconditional", p.Pos(posOf(at)), "nil, handed in, or a matcher whose Match is constantly true",
			"a conditional matcher ("+why+") is recorded as the default: a call that matches no condition is answered with that condition's results instead of the default results or the 'no suitable condition' panic")
	}
	n := 0
	for _, fs := range storesToField(root, func(fv *types.Var, _ ssa.Value) bool { return fv == defFld }) {
		if _, isAl := fs.Addr.X.(*ssa.Alloc); isAl {
			continue // literals are judged below
		}
		n++
		judge(fs.Store.Val, fs.Fn, fs.Store)
	}
	for _, f := range root {
		if f.Blocks == nil {
			continue
		}
		for _, sb := range p.structBuilds(f, 0) {
			if v, ok := sb.Fields[defFld]; ok && v != nil {
				n++
				judge(v, f, sb.At)
			}
		}
	}
	if n == 0 {
		r.Und("C04.R9", "default recorded", "", "no store to the default field found")
	}
}
