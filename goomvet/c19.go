package main

import (
	"fmt"
	"go/constant"
	"go/token"
	"go/types"
	"reflect"
	"strings"

	"golang.org/x/tools/go/ssa"
)

func init() { register("C19", c19) }

// named exceptions for the log-only classification, one symbol each
var c19LogSafe = map[string]string{
	Mod + "/internal/arch/x86asm.Decode":               "decoder is pure on its input; its only global write is the trace hook slice that is nil by default",
	"(" + Mod + "/internal/arch/x86asm.Inst).String":   "pure rendering of a decoded instruction",
	"(" + Mod + "/internal/arch/x86asm.Op).String":     "pure rendering",
	Mod + "/internal/arch/arm64asm.Decode":             "decoder is pure on its input (coverage slice write is judged under C11)",
	"(" + Mod + "/internal/arch/arm64asm.Inst).String": "pure rendering",
	"(" + Mod + "/internal/arch/arm64asm.Op).String":   "pure rendering",
	Mod + "/internal/bytecode/memory.RawRead":          "returns a private copy of text bytes under the read lock",
	Mod + "/internal/bytecode.DecodeAddress":           "panics only for an operand width outside {1,2,4,8}; callers pass the decoder's PCRel (1,2 or 4 when PCRelOff>0, verified by C16's table check)",
}

var c19StdSafe = []string{"fmt.", "strings.", "strconv.", "encoding/hex.", "time.Now", "(time.Time).", "runtime.Caller", "runtime.FuncForPC", "(*runtime.Func).", "runtime.Callers", "runtime.CallersFrames", "(*runtime.Frames).", "path.", "path/filepath.", "bytes.",
	"reflect.TypeOf", "reflect.ValueOf", "(reflect.Value).Interface", "(reflect.Value).Kind", "(reflect.Value).IsNil", "(reflect.Value).Len", "(reflect.Value).Index", "(reflect.Value).Type", "(reflect.Value).String", "(reflect.Value).Pointer",
	"(reflect.Value).Bool", "(reflect.Value).Int", "(reflect.Value).Uint", "(reflect.Value).Float", "(reflect.Value).Complex", "(reflect.Value).NumField", "(reflect.Value).Field", "(reflect.Value).IsValid", "math.",
	"(reflect.Value).CanInterface", "(reflect.Value).CanAddr", "(reflect.Value).CanSet", "(reflect.Value).IsZero", "(reflect.Value).NumMethod", "(reflect.Value).MapKeys", "(reflect.Value).MapIndex", "(reflect.Value).MapRange", "(*reflect.MapIter).", "(reflect.Value).Elem", "(reflect.Value).Cap", "(reflect.Value).Bytes", "(reflect.Value).UnsafePointer", "(reflect.Value).CanInt", "(reflect.Value).CanUint", "(reflect.Value).CanFloat", "(reflect.Value).CanComplex"}

type logClassifier struct {
	p    *Prog
	memo map[*ssa.Function]int // 1 safe, 2 unsafe, 3 in progress
	why  map[*ssa.Function]string
}

func (lc *logClassifier) safeFn(f *ssa.Function) bool {
	if f == nil {
		return false
	}
	switch lc.memo[f] {
	case 1, 3:
		return true
	case 2:
		return false
	}
	if f.Blocks == nil {
		lc.memo[f] = 2
		lc.why[f] = "no body"
		return false
	}
	lc.memo[f] = 3
	ok := true
	eachInstr(f, func(i ssa.Instruction) {
		if !ok {
			return
		}
		if _, isRet := i.(*ssa.Return); isRet {
			return // value-returning helpers are fine (caller uses the value for logging only)
		}
		// a helper whose every instruction is log-only may shield its caller from its own panics: a deferred closure that
		// is itself log-only (recover, formatting, assignments to the helper's locals and results). Only here — in the
		// wrapper or a tainted region a recover would also swallow panics of the mocked function's callback.
		if d, isDefer := i.(*ssa.Defer); isDefer {
			if mc, isMc := d.Call.Value.(*ssa.MakeClosure); isMc && len(d.Call.Args) == 0 && lc.safeFn(mc.Fn.(*ssa.Function)) {
				return
			}
		}
		if w := lc.instr(i); w != "" {
			ok = false
			lc.why[f] = shortName(f) + ": " + w
		}
	})
	if ok {
		lc.memo[f] = 1
	} else {
		lc.memo[f] = 2
	}
	return ok
}

// instr returns "" when the instruction is log-only, else the reason.
func (lc *logClassifier) instr(i ssa.Instruction) string {
	p := lc.p
	switch x := i.(type) {
	case *ssa.Store:
		if !isLocalAddr(x.Addr) && !isFrameCapture(i.Parent(), x.Addr) {
			return "store to non-local memory at " + p.Pos(posOf(i))
		}
	case *ssa.MapUpdate:
		if _, ok := x.Map.(*ssa.MakeMap); !ok {
			return "map update at " + p.Pos(posOf(i))
		}
	case *ssa.Send, *ssa.Go, *ssa.Defer:
		return "send/go/defer at " + p.Pos(posOf(i))
	case *ssa.Panic:
		return "panic at " + p.Pos(posOf(i))
	case *ssa.Call:
		c := x.Common()
		cn := calleeName(c)
		if strings.HasPrefix(cn, "builtin ") {
			return ""
		}
		if c.IsInvoke() {
			if strings.HasSuffix(c.Value.Type().String(), "reflect.Type") {
				return "" // reflect.Type methods are read-only
			}
			if nt, ok := c.Value.Type().(*types.Named); ok && nt.Obj().Pkg() != nil && strings.HasPrefix(nt.Obj().Pkg().Path(), Mod) {
				switch c.Method.Name() {
				case "String", "Error", "Name":
					return "" // goom's own describing methods (Mocker.String …)
				}
			}
			if c.Method.Name() == "Write" && strings.HasSuffix(c.Value.Type().String(), "io.Writer") {
				return ""
			}
			switch c.Method.Name() {
			case "String", "Error":
				return "method " + c.Method.Name() + "() of a user-supplied value is invoked directly at " + p.Pos(posOf(i)) + " (outside fmt, which recovers panics of such methods): a typed-nil error or a panicking Stringer makes the mocked call panic only when logging is on"
			}
			return "dynamic call " + cn + " at " + p.Pos(posOf(i))
		}
		if _, ok := c19LogSafe[cn]; ok {
			return ""
		}
		// building the line in a local strings.Builder / bytes.Buffer is formatting, like Sprintf
		if strings.HasPrefix(cn, "(*strings.Builder).") || strings.HasPrefix(cn, "(*bytes.Buffer).") {
			if len(c.Args) > 0 && isLocalAddr(c.Args[0]) {
				return ""
			}
		}
		if cn == "fmt.Fprintf" || cn == "fmt.Fprint" || cn == "fmt.Fprintln" {
			if mi, ok := c.Args[0].(*ssa.MakeInterface); ok && isLocalAddr(mi.X) {
				if t := mi.X.Type().String(); t == "*strings.Builder" || t == "*bytes.Buffer" {
					return ""
				}
			}
		}
		for _, pre := range c19StdSafe {
			if strings.HasPrefix(cn, pre) {
				return ""
			}
		}
		cal := staticCallee(c)
		if cal == nil {
			return "call of a function value at " + p.Pos(posOf(i))
		}
		if relPkg(cal) == "internal/logger" {
			return ""
		}
		if strings.HasPrefix(pkgPathOf(cal), Mod) {
			if lc.safeFn(cal) {
				return ""
			}
			return "call to " + shortName(cal) + " (" + lc.why[cal] + ")"
		}
		return "call to " + cn + " at " + p.Pos(posOf(i))
	}
	return ""
}

func c19(c *Ctx) {
	p, r := c.K1(), c.R
	// R4: the wrapper that logging puts around a callback lives as long as the callback would — what the stub embeds is
	// retained by the context (C07.R1)
	if !c.importing {
		importSibling(c, "C07", "C19.R4", func(rule string) bool { return rule == "C07.R1" })
	}
	r.Expl = "Structural clauses behind 'logging never changes behaviour' (non-interference): the log-level globals and the logger's predicates are taint sources; every branch outside package logger whose condition is tainted controls a region that is log-only (pure computation, logger/fmt/rendering calls, stores to locals; no store to outer state, no value returned, no panic); the one sanctioned interception wrapper is transparent: each closure forwards its unmodified parameter slice to the captured original exactly once on every path (CallSlice iff variadic), returns exactly that result, and is otherwise log-only; with debugging closed the interceptor returns its inputs. Termination of fmt on cyclic values is not decided."
	r.RuleText = "one obligation per (rule, tainted branch / closure / return)"
	r.Floor("C19.R1", 3)
	r.Floor("C19.R2", 6)
	r.Floor("C19.R3", 2)
	lc := &logClassifier{p: p, memo: map[*ssa.Function]int{}, why: map[*ssa.Function]string{}}
	lp := p.Pkg("internal/logger")
	if lp == nil {
		r.Und("C19.R1", "logger", "", "package logger not found")
		return
	}
	isTaint := func(v ssa.Value) bool {
		switch x := v.(type) {
		case *ssa.UnOp:
			if g, ok := x.X.(*ssa.Global); ok && g.Pkg.Pkg == lp.Types {
				return true
			}
		case *ssa.Call:
			if cal := staticCallee(x.Common()); cal != nil && relPkg(cal) == "internal/logger" {
				if res := cal.Signature.Results(); res.Len() == 1 && isBool(res.At(0).Type()) {
					return true
				}
			}
		}
		return false
	}
	var interceptor *ssa.Function
	nBr := 0
	for _, f := range p.Funcs {
		if relPkg(f) == "internal/logger" {
			continue
		}
		eachInstr(f, func(i ssa.Instruction) {
			iff, ok := i.(*ssa.If)
			if !ok || !dependsOnNoCalls(iff.Cond, isTaint) {
				return
			}
			nBr++
			b := iff.Block()
			cons := "tainted branch in " + shortName(f) + " #" + itoa2(countTaintedBefore(f, iff, isTaint))
			// the function that returns MakeFunc wrappers is the sanctioned interception point (R2)
			makesWrapper := len(callsTo(f, "reflect.MakeFunc")) > 0 && len(f.AnonFuncs) > 0
			if makesWrapper {
				interceptor = f
				r.OK("C19.R1", cons, p.Pos(posOf(iff)), "sanctioned interception point, judged by R2")
				return
			}
			// which side is the extra (logging) side? the one that is not an immediate plain return / the join
			for k, s := range b.Succs {
				other := b.Succs[1-k]
				// region = blocks dominated by s and not reachable-only-through other
				if s == other {
					continue
				}
				region := []*ssa.BasicBlock{}
				for _, blk := range f.Blocks {
					if (blk == s || s.Dominates(blk)) && edgeDominates(b, s, blk) {
						region = append(region, blk)
					}
				}
				// skip the side that is just "return" with no work (early exit when logging is off)
				trivial := true
				for _, blk := range region {
					for _, ins := range blk.Instrs {
						switch ins.(type) {
						case *ssa.Return, *ssa.Jump, *ssa.RunDefers:
						default:
							trivial = false
						}
					}
				}
				if trivial {
					continue
				}
				// is this region the continuation of the whole function (early-return form)? then the function must return nothing
				bad := ""
				for _, blk := range region {
					for _, ins := range blk.Instrs {
						if ret, ok := ins.(*ssa.Return); ok {
							if len(ret.Results) > 0 {
								// returning values computed identically on both sides is fine only if they do not depend on the region
								for _, rv := range ret.Results {
									if vi, ok := rv.(ssa.Instruction); ok && inBlocks(vi.Block(), region) {
										bad = "returns a value computed under the log-level condition at " + p.Pos(posOf(ret))
									}
								}
							}
							continue
						}
						if w := lc.instr(ins); w != "" && bad == "" {
							bad = w
						}
					}
				}
				side := "then"
				if k == 1 {
					side = "else"
				}
				r.Check(bad == "", "C19.R1", cons+" "+side+"-region", p.Pos(posOf(iff)), "region is log-only",
					"code controlled by the log level does more than logging: "+bad)
			}
		})
	}
	r.Stat("tainted_branches", nBr)
	// the sink the log lines are written to is never the nil interface: every value stored into an interface-typed
	// package-level variable of the logger on which methods are invoked is a concrete value boxed at the store (a nil
	// *os.File inside it makes Write return an error, a nil interface makes the log call — and the mocked call — panic)
	if lp := p.SPkg[Mod+"/internal/logger"]; lp != nil {
		for _, m := range lp.Members {
			g, ok := m.(*ssa.Global)
			if !ok {
				continue
			}
			pt, ok := g.Type().Underlying().(*types.Pointer)
			if !ok || !types.IsInterface(pt.Elem()) {
				continue
			}
			invoked := false
			for _, f := range p.FuncsIn("internal/logger") {
				eachInstr(f, func(i ssa.Instruction) {
					if c := callCommon(i); c != nil && c.IsInvoke() {
						if ld, ok := c.Value.(*ssa.UnOp); ok && ld.X == ssa.Value(g) {
							invoked = true
						}
					}
				})
			}
			if !invoked {
				continue
			}
			for _, f := range p.Funcs {
				eachInstr(f, func(i ssa.Instruction) {
					st, ok := i.(*ssa.Store)
					if !ok || st.Addr != ssa.Value(g) {
						return
					}
					var boxed func(v ssa.Value, d int) bool
					boxed = func(v ssa.Value, d int) bool {
						switch x := resolveLocal(v).(type) {
						case *ssa.MakeInterface:
							return true
						case *ssa.Phi:
							if d > 3 {
								return false
							}
							for _, e := range x.Edges {
								if !boxed(e, d+1) {
									return false
								}
							}
							return len(x.Edges) > 0
						}
						return false
					}
					okV := boxed(st.Val, 0)
					r.Check(okV, "C19.R3", "log sink "+g.Name()+" assigned in "+shortName(f), p.Pos(posOf(st)), "a concrete writer boxed at the assignment",
						"the log sink can become the nil interface (its new value comes from "+atomsString(origins(st.Val))+", not from a concrete writer): the next log line, written while a mock is applied or called, panics")
				})
			}
		}
	}
	// the renderer used for log text (called with the mock's arguments/results) is itself log-only, in particular
	// it never invokes methods of the rendered values directly
	if sv := p.Fn("arg", "SprintV"); sv != nil {
		ok := lc.safeFn(sv)
		r.Check(ok, "C19.R3", "arg.SprintV renders through fmt only", p.Pos(sv.Pos()), "no direct user-method calls, no writes, no panics", "the log renderer is not log-only: "+lc.why[sv])
		// nil pointer / nil interface values are rendered without touching them
		okNil := false
		rfns := []*ssa.Function{sv}
		for f := range p.staticReach(sv) {
			if f != sv && relPkg(f) == "arg" && f.Blocks != nil {
				rfns = append(rfns, f)
			}
		}
		for _, rf := range rfns {
			eachInstr(rf, func(i ssa.Instruction) {
				if iff, ok := i.(*ssa.If); ok {
					if cl, ok := iff.Cond.(*ssa.Call); ok {
						if cal := staticCallee(cl.Common()); isNilPredicate(cal) {
							ks := kindsInto(iff.Block())
							if ks[20] && ks[22] {
								okNil = true
							}
						}
					}
				}
			})
		}
		r.Check(okNil, "C19.R3", "arg.SprintV guards nil pointers/interfaces", p.Pos(sv.Pos()), "Interface/Ptr kinds tested for zero before Interface()", "the renderer no longer special-cases nil pointer / nil interface values before calling Interface()")
	} else {
		r.Und("C19.R3", "arg.SprintV", "", "renderer not found")
	}
	// logger package itself must not call back into mocking packages
	for _, f := range p.FuncsIn("internal/logger") {
		eachInstr(f, func(i ssa.Instruction) {
			if ci, ok := i.(ssa.CallInstruction); ok {
				if cal := staticCallee(ci.Common()); cal != nil && strings.HasPrefix(pkgPathOf(cal), Mod) && relPkg(cal) != "internal/logger" {
					r.Bad("C19.R1", "logger calls "+shortName(cal), p.Pos(posOf(i)), "package logger calls into the mocking packages: logging can change mock state")
				}
			}
		})
	}

	// ---- R2 the sanctioned wrapper
	if interceptor == nil {
		r.Und("C19.R2", "interception point", "", "no function builds a MakeFunc wrapper under the debug switch")
		return
	}
	// debug closed ⇒ inputs returned unchanged
	for _, ret := range returnsOf(interceptor) {
		under := false
		for _, g := range guardsAt(ret.Block()) {
			if dependsOnNoCalls(g.Cond, isTaint) {
				// closed side: IsDebugOpen() false
				if cl, ok := g.Cond.(*ssa.Call); ok && !g.Pol && isTaint(cl) {
					under = true
				}
				if u, ok := g.Cond.(*ssa.UnOp); ok && g.Pol {
					if cl, ok := u.X.(*ssa.Call); ok && isTaint(cl) {
						under = true
					}
				}
			}
		}
		if !under {
			continue
		}
		same := true
		for k, rv := range ret.Results {
			if rv != ssa.Value(interceptor.Params[k]) {
				same = false
			}
		}
		r.Check(same, "C19.R2", "closed-debug return of "+shortName(interceptor), p.Pos(posOf(ret)), "inputs returned untouched", "with debugging closed the interceptor does not return its inputs unchanged")
	}
	// every result of the interceptor is one of its own inputs or a wrapper built in this very call; it keeps no package-level state
	for _, ret := range returnsOf(interceptor) {
		for k := range ret.Results {
			rv := retResult(ret, k)
			okR := true
			why := ""
			for _, a := range origins(rv) {
				switch a.Kind {
				case "param":
				case "call":
					if a.Name != "(reflect.Value).Interface" {
						okR, why = false, a.String()
					} else if cl, ok := a.V.(*ssa.Call); ok {
						if mf, ok := cl.Call.Args[0].(*ssa.Call); !ok || calleeName(mf.Common()) != "reflect.MakeFunc" {
							okR, why = false, "Interface() of something other than this call's MakeFunc"
						}
					}
				case "other":
					if _, ok := a.V.(*ssa.MakeClosure); !ok {
						okR, why = false, a.String()
					}
				default:
					okR, why = false, a.String()
				}
			}
			r.Check(okR, "C19.R2", fmt.Sprintf("interceptor result #%d at %s is an input or a wrapper built in this call", k, blockOrdinalRet(ret)), p.Pos(posOf(ret)), "no reuse across calls",
				"the interceptor returns a value that is neither its input nor a wrapper created in this call ("+why+"): a cached wrapper keeps calling the callback it was first built around, so with logging on a later Apply of another closure of the same code keeps the stale one")
		}
	}
	globalUse := ""
	eachInstr(interceptor, func(i ssa.Instruction) {
		for _, op := range i.Operands(nil) {
			if g, ok := (*op).(*ssa.Global); ok && strings.HasPrefix(g.Pkg.Pkg.Path(), Mod) && relPkgPath(g.Pkg.Pkg.Path()) != "internal/logger" {
				globalUse = g.Name() + " at " + p.Pos(posOf(i))
			}
		}
	})
	// a wrapper is built around what was given: reflect.MakeFunc(reflect.TypeOf(x), …) never sits on the side of a test
	// where x is known to be nil (TypeOf(nil) is nil and MakeFunc panics — only when logging is on)
	for _, cs := range callsTo(interceptor, "reflect.MakeFunc") {
		mf := cs.(*ssa.Call)
		bad := false
		for _, a := range origins(mf.Call.Args[0]) {
			tc, ok := a.V.(*ssa.Call)
			if !ok || calleeName(tc.Common()) != "reflect.TypeOf" {
				continue
			}
			x := resolveLocal(tc.Call.Args[0])
			for _, g := range guardsAt(mf.Block()) {
				bo, ok := g.Cond.(*ssa.BinOp)
				if !ok || (bo.Op != token.EQL && bo.Op != token.NEQ) {
					continue
				}
				var other ssa.Value
				if isNilConst(bo.Y) {
					other = bo.X
				} else if isNilConst(bo.X) {
					other = bo.Y
				}
				if other != nil && resolveLocal(other) == x && (bo.Op == token.EQL) == g.Pol {
					bad = true
				}
			}
		}
		r.Check(!bad, "C19.R2", "wrapper built only around a non-nil callback at "+blockOrdinal(mf), p.Pos(posOf(mf)), "not on the nil side of a test of the callback",
			"with logging on, the wrapper is built exactly when there is no callback (reflect.TypeOf(nil) → MakeFunc panics) and skipped when there is one: applying a mock panics only under debug, and callbacks are never logged")
	}
	r.Check(globalUse == "", "C19.R2", "interceptor keeps no package-level state", p.Pos(interceptor.Pos()), "no package-level variable is read or written", "the interception point uses package-level state ("+globalUse+"): what a mock does under logging depends on earlier calls")
	for _, cl := range interceptor.AnonFuncs {
		cons := "wrapper " + shortName(cl)
		if len(cl.Params) != 1 {
			r.Bad("C19.R2", cons, p.Pos(cl.Pos()), "wrapper closure does not have the PFunc shape")
			continue
		}
		params := cl.Params[0]
		var fwd []*ssa.Call
		eachInstr(cl, func(i ssa.Instruction) {
			c, ok := i.(*ssa.Call)
			if !ok {
				return
			}
			for _, a := range c.Call.Args {
				if a == ssa.Value(params) {
					cn := calleeName(c.Common())
					if cn == "(reflect.Value).Call" || cn == "(reflect.Value).CallSlice" || cn == "dynamic" {
						fwd = append(fwd, c)
					}
				}
			}
		})
		if len(fwd) == 0 {
			r.Bad("C19.R2", cons+" forwards", p.Pos(cl.Pos()), "the wrapper never forwards its parameters to the original")
			continue
		}
		// the callee is the captured original
		for _, f := range fwd {
			okOrig := false
			switch calleeName(f.Common()) {
			case "dynamic":
				_, okOrig = originOfFreeVar(f.Call.Value)
			default:
				if vo, ok := f.Call.Args[0].(*ssa.Call); ok && calleeName(vo.Common()) == "reflect.ValueOf" {
					_, okOrig = originOfFreeVar(vo.Call.Args[0])
				}
			}
			// the captured variable is bound to the interceptor's own input
			var fvUsed *ssa.FreeVar
			if calleeName(f.Common()) == "dynamic" {
				fvUsed, _ = originOfFreeVar(f.Call.Value)
			} else if vo, ok := f.Call.Args[0].(*ssa.Call); ok {
				fvUsed, _ = originOfFreeVar(vo.Call.Args[0])
			}
			if okOrig && fvUsed != nil {
				okOrig = false
				idx := -1
				for k, fv := range cl.FreeVars {
					if fv == fvUsed {
						idx = k
					}
				}
				eachInstr(interceptor, func(i ssa.Instruction) {
					if mc, ok := i.(*ssa.MakeClosure); ok && mc.Fn == ssa.Value(cl) && idx >= 0 {
						okB := true
						n := 0
						for _, a := range origins(derefAlloc(mc.Bindings[idx])) {
							n++
							if a.Kind != "param" {
								okB = false
							}
						}
						if okB && n > 0 {
							okOrig = true
						}
					}
				})
			}
			if !okOrig && calleeName(f.Common()) != "dynamic" {
				// the reflect.Value of the callback computed once at construction and captured: the captured variable
				// is assigned exactly once, with reflect.ValueOf(<the interceptor's own input>)
				if fv, isFv := originOfFreeVar(f.Call.Args[0]); isFv {
					if sv := capturedValue(interceptor, cl, fv); sv != nil {
						if vo, ok := peel(sv).(*ssa.Call); ok && calleeName(vo.Common()) == "reflect.ValueOf" {
							n, okB := 0, true
							for _, a := range origins(vo.Call.Args[0]) {
								n++
								if a.Kind != "param" {
									okB = false
								}
							}
							okOrig = okB && n > 0
						}
					}
				}
			}
			r.Check(okOrig, "C19.R2", cons+" calls the captured original", p.Pos(posOf(f)), "callee is the captured callback", "the wrapper calls something other than the captured original callback")
			cn := calleeName(f.Common())
			if cn == "(reflect.Value).CallSlice" || cn == "(reflect.Value).Call" {
				variadicTrue, known := false, false
				for _, g := range guardsAt(f.Block()) {
					if c2, ok := g.Cond.(*ssa.Call); ok && c2.Call.IsInvoke() && c2.Call.Method.Name() == "IsVariadic" {
						variadicTrue, known = g.Pol, true
					}
					// the flag computed once at construction and captured: the captured variable is assigned exactly
					// once, with Type.IsVariadic() (possibly and-ed with "the type is a function", which always holds
					// where a wrapper exists)
					if fv, isFv := originOfFreeVar(g.Cond); isFv {
						if sv := capturedValue(interceptor, cl, fv); sv != nil && isExactVariadicFlag(sv) {
							variadicTrue, known = g.Pol, true
						}
					}
				}
				want := cn == "(reflect.Value).CallSlice"
				r.Check(known && variadicTrue == want, "C19.R2", cons+" "+cn[len("(reflect.Value)."):]+" iff variadic", p.Pos(posOf(f)), "CallSlice exactly for variadic callbacks",
					"the wrapper forwards with "+cn+" under the wrong variadic condition: variadic arguments are re-packed (or a non-variadic call panics) only when debugging is on")
			}
		}
		// exactly one forward per path, returns exactly that result
		okOnce := true
		for i := range fwd {
			for j := range fwd {
				if i != j && reachableAfter(fwd[i], fwd[j]) {
					okOnce = false
				}
			}
		}
		for _, ret := range returnsOf(cl) {
			isF := func(i ssa.Instruction) bool {
				for _, f := range fwd {
					if i == ssa.Instruction(f) {
						return true
					}
				}
				return false
			}
			if !passedBefore(cl, ret, isF, nil) {
				okOnce = false
			}
			for _, a := range origins(retResult(ret, 0)) {
				isFwd := false
				for _, f := range fwd {
					if a.V == ssa.Value(f) {
						isFwd = true
					}
				}
				if !isFwd {
					okOnce = false
				}
			}
		}
		r.Check(okOnce, "C19.R2", cons+" forwards once and returns that result", p.Pos(cl.Pos()), "one forward per path, result returned untouched",
			"the wrapper does not forward exactly once on every path or returns something other than the original's results")
		// parameters not modified; remainder log-only
		bad := ""
		eachInstr(cl, func(i ssa.Instruction) {
			for _, f := range fwd {
				if i == ssa.Instruction(f) {
					return
				}
			}
			if _, ok := i.(*ssa.Return); ok {
				return
			}
			if st, ok := i.(*ssa.Store); ok {
				if ia, ok := st.Addr.(*ssa.IndexAddr); ok && ia.X == ssa.Value(params) {
					bad = "stores into the parameter slice at " + p.Pos(posOf(i))
				}
			}
			if c2, ok := i.(*ssa.Call); ok && calleeName(c2.Common()) == "reflect.ValueOf" {
				return
			}
			if w := lc.instr(i); w != "" && bad == "" {
				bad = w
			}
		})
		r.Check(bad == "", "C19.R2", cons+" is otherwise log-only", p.Pos(cl.Pos()), "only logging besides the forward", "the wrapper does more than forward and log: "+bad)
	}
	// MakeFunc typed by the original
	for _, cs := range callsTo(interceptor, "reflect.MakeFunc") {
		ta := callCommon(cs).Args[0]
		ok := false
		as := origins(ta)
		if len(as) == 1 {
			if tc, ok2 := as[0].V.(*ssa.Call); ok2 && calleeName(tc.Common()) == "reflect.TypeOf" {
				if peel(tc.Call.Args[0]) == ssa.Value(interceptor.Params[0]) {
					ok = true
				}
			}
			// reflect.ValueOf(original).Type() is the same type
			if tc, ok2 := as[0].V.(*ssa.Call); ok2 && calleeName(tc.Common()) == "(reflect.Value).Type" {
				for _, a := range origins(tc.Call.Args[0]) {
					if vc, ok3 := a.V.(*ssa.Call); ok3 && calleeName(vc.Common()) == "reflect.ValueOf" && peel(vc.Call.Args[0]) == ssa.Value(interceptor.Params[0]) {
						ok = true
					} else {
						ok = false
						break
					}
				}
			}
		}
		r.Check(ok, "C19.R2", "wrapper type in "+shortName(interceptor), p.Pos(posOf(cs)), "MakeFunc(TypeOf(original), …)", "the debug wrapper is not created with the original callback's own type")
	}
}

func inBlocks(b *ssa.BasicBlock, bs []*ssa.BasicBlock) bool {
	for _, x := range bs {
		if x == b {
			return true
		}
	}
	return false
}

// dependsOnNoCalls: like dependsOn but does not look through call arguments (only comparisons/conversions).
func dependsOnNoCalls(v ssa.Value, isT func(ssa.Value) bool) bool {
	seen := map[ssa.Value]bool{}
	var walk func(v ssa.Value) bool
	walk = func(v ssa.Value) bool {
		if v == nil || seen[v] {
			return false
		}
		seen[v] = true
		if isT(v) {
			return true
		}
		switch x := v.(type) {
		case *ssa.BinOp:
			return walk(x.X) || walk(x.Y)
		case *ssa.UnOp:
			return walk(x.X)
		case *ssa.Convert:
			return walk(x.X)
		case *ssa.ChangeType:
			return walk(x.X)
		case *ssa.Phi:
			for _, e := range x.Edges {
				if walk(e) {
					return true
				}
			}
		}
		return false
	}
	return walk(v)
}

func countTaintedBefore(f *ssa.Function, at *ssa.If, isT func(ssa.Value) bool) int {
	n := 0
	for _, b := range f.Blocks {
		for _, i := range b.Instrs {
			if iff, ok := i.(*ssa.If); ok && dependsOnNoCalls(iff.Cond, isT) {
				if iff == at {
					return n
				}
				n++
			}
		}
	}
	return n
}

// originOfFreeVar: v is (a load of) a free variable of the closure.
func originOfFreeVar(v ssa.Value) (*ssa.FreeVar, bool) {
	v = peel(v)
	switch x := v.(type) {
	case *ssa.FreeVar:
		return x, true
	case *ssa.UnOp:
		if fv, ok := x.X.(*ssa.FreeVar); ok {
			return fv, true
		}
	}
	return nil, false
}

var _ = types.Typ

// capturedValue: the one value ever stored to the variable a closure captures as fv — nil unless the variable is a
// local of parent with exactly one store there and no store through any closure that captures it.
func capturedValue(parent, cl *ssa.Function, fv *ssa.FreeVar) ssa.Value {
	idx := -1
	for k, x := range cl.FreeVars {
		if x == fv {
			idx = k
		}
	}
	if idx < 0 {
		return nil
	}
	var al *ssa.Alloc
	n := 0
	eachInstr(parent, func(i ssa.Instruction) {
		if mc, ok := i.(*ssa.MakeClosure); ok && mc.Fn == ssa.Value(cl) {
			n++
			al, _ = mc.Bindings[idx].(*ssa.Alloc)
		}
	})
	if n != 1 || al == nil {
		return nil
	}
	var val ssa.Value
	stores := 0
	for _, ref := range *al.Referrers() {
		switch x := ref.(type) {
		case *ssa.Store:
			if x.Addr != ssa.Value(al) {
				return nil
			}
			stores++
			val = x.Val
		case *ssa.UnOp:
			if x.Op != token.MUL {
				return nil
			}
		case *ssa.MakeClosure:
			fn := x.Fn.(*ssa.Function)
			for k, b := range x.Bindings {
				if b != ssa.Value(al) {
					continue
				}
				for _, r2 := range *fn.FreeVars[k].Referrers() {
					if u, ok := r2.(*ssa.UnOp); !ok || u.Op != token.MUL {
						return nil
					}
				}
			}
		case *ssa.DebugRef:
		default:
			return nil
		}
	}
	if stores != 1 {
		return nil
	}
	return val
}

// isExactVariadicFlag: v is true exactly when the callback is variadic — Type.IsVariadic(), or that and-ed with
// Kind() == reflect.Func (a phi whose constant-false edge is guarded by the kind test failing).
func isExactVariadicFlag(v ssa.Value) bool {
	isIV := func(x ssa.Value) bool {
		c, ok := peel(x).(*ssa.Call)
		return ok && c.Call.IsInvoke() && c.Call.Method.Name() == "IsVariadic" && strings.HasSuffix(c.Call.Value.Type().String(), "reflect.Type")
	}
	if isIV(v) {
		return true
	}
	ph, ok := v.(*ssa.Phi)
	if !ok {
		return false
	}
	src := false
	for k, e := range ph.Edges {
		if isIV(e) {
			src = true
			continue
		}
		c, ok := e.(*ssa.Const)
		if !ok || c.Value == nil || !isBool(c.Type()) || constant.BoolVal(c.Value) {
			return false
		}
		// the false edge must come from the failing kind test
		okEdge := false
		pred := ph.Block().Preds[k]
		if iff, ok := pred.Instrs[len(pred.Instrs)-1].(*ssa.If); ok && pred.Succs[1] == ph.Block() {
			if b, ok := iff.Cond.(*ssa.BinOp); ok && b.Op == token.EQL {
				for _, side := range [][2]ssa.Value{{b.X, b.Y}, {b.Y, b.X}} {
					kc, ok1 := peel(side[0]).(*ssa.Call)
					cc, ok2 := side[1].(*ssa.Const)
					if ok1 && ok2 && kc.Call.IsInvoke() && kc.Call.Method.Name() == "Kind" && cc.Value != nil && cc.Int64() == int64(reflect.Func) {
						okEdge = true
					}
				}
			}
		}
		if !okEdge {
			return false
		}
	}
	return src
}

// derefAlloc: for a binding that is the address of a local, return a load-equivalent value (the alloc's stored values via origins).
func derefAlloc(v ssa.Value) ssa.Value {
	if a, ok := v.(*ssa.Alloc); ok {
		for _, ref := range *a.Referrers() {
			if u, ok := ref.(*ssa.UnOp); ok {
				return u
			}
		}
		// no load in the parent: synthesise through the first store
		for _, ref := range *a.Referrers() {
			if st, ok := ref.(*ssa.Store); ok && st.Addr == a {
				return st.Val
			}
		}
	}
	return v
}

func relPkgPath(pp string) string {
	if pp == Mod {
		return ""
	}
	return strings.TrimPrefix(pp, Mod+"/")
}
