package main

import (
	"go/token"
	"go/types"
	"strings"

	"golang.org/x/tools/go/ssa"
)

func init() { register("C14", c14) }

const memPkg = "internal/bytecode/memory"

// mprotectLike: calls that change page protection: syscall.Mprotect, raw SYS_MPROTECT, or a module wrapper (found by role).
type protCall struct {
	Call ssa.CallInstruction
	Prot ssa.Value
	Addr ssa.Value
	Len  ssa.Value
}

func protCallsIn(p *Prog, f *ssa.Function, wrappers map[*ssa.Function]bool) []protCall {
	var out []protCall
	eachInstr(f, func(i ssa.Instruction) {
		ci, ok := i.(ssa.CallInstruction)
		if !ok {
			return
		}
		c := ci.Common()
		switch calleeName(c) {
		case "syscall.Mprotect":
			out = append(out, protCall{ci, c.Args[1], c.Args[0], nil})
		case "syscall.Syscall":
			if n, ok := constInt(c.Args[0]); ok && n == 10 { // SYS_MPROTECT on linux/amd64
				out = append(out, protCall{ci, c.Args[3], c.Args[1], c.Args[2]})
			} else if ok && n == 226 { // linux/arm64
				out = append(out, protCall{ci, c.Args[3], c.Args[1], c.Args[2]})
			}
		default:
			if cal := staticCallee(c); cal != nil && wrappers[cal] && len(c.Args) == 3 {
				out = append(out, protCall{ci, c.Args[2], c.Args[0], c.Args[1]})
			}
		}
	})
	return out
}

func c14(c *Ctx) {
	p, r := c.K1(), c.R
	// W8: a write lands intact against concurrent writers of the same page — the whole open/copy/close sequence runs under
	// the memory lock (C11.R2)
	if !c.importing {
		importSibling(c, "C11", "C14.W8", func(rule string) bool { return rule == "C11.R2" })
	}
	r.Expl = "Structural clauses behind 'a patch touches only the entry bytes and leaves pages read+execute': only packages patch and stub call the text writer, with addresses that are the guard's origin, the validated trampoline or an acquired stub region; the jump bytes are handed out only where len(jump) < scanned extent and the trampoline write is dominated by its size guard; the writer performs mprotect(range, R|W|X) → copy → mprotect(range, R|X) over the same (addr,len) and every normal exit after the copy passes the second call; no protection change reachable from the writer drops PROT_EXEC; the page loop starts at PageStart(addr), runs while < addr+len and steps by the page size; raw reads return private copies. That the scanned extent is the true function extent (C16, linker padding) is not decided."
	r.RuleText = "one obligation per (rule, call site / function / loop)"
	r.Floor("C14.W1", 3)
	r.Floor("C14.W2", 2)
	r.Floor("C14.W3", 3)
	r.Floor("C14.W4", 2)
	r.Floor("C14.W5", 3)
	r.Floor("C14.W6", 2)
	// ---- W1 who may write text
	for _, s := range p.textWriteSites() {
		rel := relPkg(s.Fn)
		cons := "text write in " + shortName(s.Fn) + " (" + s.Kind + ")"
		okPkg := rel == "internal/patch" || rel == "internal/bytecode/stub"
		r.Check(okPkg, "C14.W1", cons+" package", p.Pos(posOf(s.Call)), "writer called from patch/stub only", "the text writer is called from package "+rel+": code outside the patch layer can modify the executable image")
		okAddr := len(s.Addr) > 0
		for _, a := range s.Addr {
			switch {
			case a.Kind == "field" && (isFieldAtom(a, p.patchRoles().GOrigin) || strings.HasSuffix(a.Name, "Space.Addr")):
			case a.Kind == "param" && rel == "internal/patch" && s.Kind == "other":
				// the trampoline: must be the parameter that the size guard measured (checked in W2)
			case a.Kind == "global" && rel == "internal/bytecode/stub":
			default:
				okAddr = false
			}
		}
		r.Check(okAddr, "C14.W1", cons+" address", p.Pos(posOf(s.Call)), "address is "+atomsString(s.Addr),
			"text is written at an address that is neither the guard's origin, the validated trampoline nor an acquired stub region ("+atomsString(s.Addr)+")")
		if s.Kind != "other" {
			// same receiver for address and data
			ab, db := s.AddrBase, s.DataBase
			r.Check(ab != nil && ab == db, "C14.W1", cons+" pairs origin with its own bytes", p.Pos(posOf(s.Call)), "address and bytes belong to the same guard", "the bytes written and the address come from different guards")
		}
	}
	// ---- W2 bounded write
	// (a) jump generator: success return only under len(jump) < scanned size
	gen := jumpGenerator(p)
	if gen == nil {
		r.Und("C14.W2", "jump generator", "", "function producing the entry jump not found")
	} else {
		k := NewKeyer(gen)
		for _, ret := range returnsOf(gen) {
			ei := errIndex(gen.Signature)
			if ei < 0 || !isNilConst(retResult(ret, ei)) {
				continue
			}
			jv := retResult(ret, 1-ei)
			if isNilConst(jv) {
				continue
			}
			m := NewDBM()
			guardsToDBM(m, k, ret.Block())
			lenT := Term{"len(" + k.Key(jv) + ")", 0}
			// find a guard comparing len(jump) against a value derived from GetFuncSize
			okB := false
			for _, g := range guardsAt(ret.Block()) {
				bo, ok := g.Cond.(*ssa.BinOp)
				if !ok {
					continue
				}
				for _, side := range []ssa.Value{bo.X, bo.Y} {
					fromScan := false
					for _, a := range origins(side) {
						if a.Kind == "call" && strings.Contains(a.Name, "GetFuncSize") {
							fromScan = true
						}
					}
					if fromScan && m.EntailsLE(Term{lenT.Var, 1}, k.TermOf(side)) {
						okB = true
					}
				}
			}
			r.Check(okB, "C14.W2", "jump handed out only if shorter than the scanned extent in "+shortName(gen), p.Pos(posOf(ret)), "len(jump) < scanned size dominates the success return",
				"the entry jump is handed out without the dominating check len(jump) < scanned function size: a function too short to hold the jump is overwritten into its neighbour")
			// the scan is of the origin parameter
			okScan := false
			for _, cs := range callsTo(gen, qual("internal/bytecode", "GetFuncSize")) {
				if pr, ok := resolveLocal(callCommon(cs).Args[1]).(*ssa.Parameter); ok && pr == gen.Params[0] {
					okScan = true
				}
			}
			r.Check(okScan, "C14.W2", "extent scan measures the target in "+shortName(gen), p.Pos(gen.Pos()), "GetFuncSize(origin)", "the extent compared with the jump length is not the target function's")
			c14ExtentExcludesRejected(p, r)
		}
	}
	// (b) trampoline writes dominated by a size guard on the same data
	for _, s := range p.textWriteSites() {
		if s.Kind != "other" || relPkg(s.Fn) != "internal/patch" {
			continue
		}
		k := NewKeyer(s.Fn)
		m := NewDBM()
		guardsToDBM(m, k, s.Call.Block())
		data := s.DataV
		lenT := Term{"len(" + k.Key(data) + ")", 0}
		okB := false
		for _, g := range guardsAt(s.Call.Block()) {
			bo, ok := g.Cond.(*ssa.BinOp)
			if !ok {
				continue
			}
			for _, side := range []ssa.Value{bo.X, bo.Y} {
				for _, a := range origins(side) {
					if a.Kind == "call" && strings.Contains(a.Name, "GetFuncSize") {
						// scan must be of the same address that is written
						if cl, ok := a.V.(*ssa.Extract); ok {
							if cc, ok := cl.Tuple.(*ssa.Call); ok && cc.Call.Args[1] == s.AddrV {
								if m.EntailsLE(lenT, k.TermOf(side)) {
									okB = true
								}
							}
						}
					}
				}
			}
		}
		r.Check(okB, "C14.W2", "trampoline write bounded in "+shortName(s.Fn), p.Pos(posOf(s.Call)), "len(data) <= scanned size of the placeholder dominates the write",
			"the placeholder body is written without a dominating check that the data fits its scanned size: bytes beyond the placeholder are overwritten")
	}
	// (c) capture length = len(jump) (restore length = capture length)
	inst := patchInstaller(p)
	if inst != nil {
		eachInstr(inst, func(i ssa.Instruction) {
			st, ok := i.(*ssa.Store)
			if !ok {
				return
			}
			fa, ok := st.Addr.(*ssa.FieldAddr)
			if !ok || fieldVar(fa.X.Type(), fa.Field) == nil || fieldVar(fa.X.Type(), fa.Field) != p.patchRoles().PRestore {
				return
			}
			okLen := false
			for _, a := range origins(st.Val) {
				if ex, ok := a.V.(*ssa.Extract); ok {
					if cl, ok := ex.Tuple.(*ssa.Call); ok {
						for _, arg := range cl.Call.Args {
							if lc, ok := arg.(*ssa.Call); ok && isLenCall(lc) {
								// len of the value stored to jumpBytes
								jb := lc.Call.Args[0]
								if _, fv, isF := fieldRef(resolveLocal(jb)); isF && fv != nil && fv == p.patchRoles().PInstall {
									okLen = true // len of the recorded jump bytes
								}
								eachInstr(inst, func(j ssa.Instruction) {
									if s2, ok := j.(*ssa.Store); ok {
										if f2, ok := s2.Addr.(*ssa.FieldAddr); ok && fieldVar(f2.X.Type(), f2.Field) == p.patchRoles().PInstall && s2.Val == jb {
											okLen = true
										}
									}
								})
							}
						}
					}
				}
			}
			r.Check(okLen, "C14.W2", "captured length equals jump length in "+shortName(inst), p.Pos(posOf(st)), "restore writes exactly as many bytes as the jump overwrote",
				"the number of original bytes captured (and later restored) is not len(jump bytes): restore writes more or fewer bytes than were patched")
		})
	}

	// ---- W3/W4/W5 the writer
	wrappers := map[*ssa.Function]bool{}
	for _, f := range p.FuncsIn(memPkg) {
		if len(f.Params) == 3 && len(protCallsIn(p, f, nil)) > 0 && f.Signature.Recv() == nil {
			// (addr, length, prot) wrapper: prot parameter flows to the syscall
			for _, pc := range protCallsIn(p, f, nil) {
				if pc.Prot == ssa.Value(f.Params[2]) {
					wrappers[f] = true
				}
			}
		}
	}
	for _, w := range p.textWriters() {
		if w.Name() != "WriteTo" && w.Blocks == nil {
			continue
		}
		pcs := protCallsIn(p, w, wrappers)
		var copies []ssa.Instruction
		eachInstr(w, func(i ssa.Instruction) {
			if cl, ok := i.(*ssa.Call); ok {
				if bi, ok := cl.Call.Value.(*ssa.Builtin); ok && bi.Name() == "copy" {
					copies = append(copies, i)
				}
			}
		})
		if len(pcs) == 0 && len(copies) == 0 {
			continue // pure delegator (arm64 variants), the delegate is checked below
		}
		cons := shortName(w)
		var open, closeC []protCall
		for _, pc := range pcs {
			v, ok := constInt(pc.Prot)
			if !ok {
				r.Und("C14.W4", "prot argument in "+cons, p.Pos(posOf(pc.Call)), "protection is not a constant")
				continue
			}
			if v&2 != 0 {
				open = append(open, pc)
				r.Check(v == 7, "C14.W4", "writable window keeps EXEC in "+cons, p.Pos(posOf(pc.Call)), "PROT_READ|PROT_WRITE|PROT_EXEC",
					"pages are made writable without PROT_EXEC: other threads executing code on those pages fault while the patch is written")
			} else {
				closeC = append(closeC, pc)
				r.Check(v == 5, "C14.W4", "pages closed read+execute in "+cons, p.Pos(posOf(pc.Call)), "PROT_READ|PROT_EXEC", "after the write pages are not set to exactly read+execute")
			}
		}
		for _, cp := range copies {
			okOpen, okClose := false, false
			for _, o := range open {
				if domInstr(o.Call, cp) && sameRange(o, w) {
					okOpen = true
				}
			}
			// every normal return reachable after the copy passes a closing call over the same range
			isClose := func(i ssa.Instruction) bool {
				for _, cc := range closeC {
					if i == ssa.Instruction(cc.Call) && sameRange(cc, w) {
						return true
					}
				}
				return false
			}
			okClose = len(closeC) > 0
			for _, ret := range returnsOf(w) {
				if !reachableAfter(cp, ret) {
					continue
				}
				if !passedBefore(w, ret, isClose, func(i ssa.Instruction) bool { return i == cp }) {
					okClose = false
				}
			}
			// copy destination is the raw view of (addr, len(data)) and source is data
			dst := cp.(*ssa.Call).Call.Args[0]
			okDst := false
			for _, a := range origins(dst) {
				if cl, ok := a.V.(*ssa.Call); ok && isRawAccessFn(staticCallee(cl.Common())) && cl.Call.Args[0] == ssa.Value(w.Params[0]) {
					if lc, ok := cl.Call.Args[1].(*ssa.Call); ok && isLenCall(lc) && lc.Call.Args[0] == ssa.Value(w.Params[1]) {
						okDst = true
					}
				}
			}
			r.Check(okOpen, "C14.W3", "copy preceded by RWX over the same range in "+cons, p.Pos(posOf(cp)), "mprotect(addr,len(data),RWX) dominates the copy", "the copy into text is not dominated by a protection change over exactly (addr, len(data))")
			r.Check(okClose, "C14.W3", "copy followed by RX on every exit in "+cons, p.Pos(posOf(cp)), "every return after the copy passes mprotect(addr,len(data),RX)", "some normal exit after the copy leaves the pages writable (no closing protection change over the same range on that path)")
			r.Check(okDst, "C14.W3", "copy targets exactly (addr,len(data)) in "+cons, p.Pos(posOf(cp)), "destination is the raw view of addr with len(data)", "the copy destination is not the raw view of (addr, len(data)): bytes outside the requested range can be written")
		}
	}
	// fallback writer(s): any function in memory with raw mprotect syscalls that drops EXEC
	for _, f := range p.FuncsIn(memPkg) {
		isWriter := false
		for _, w := range p.textWriters() {
			if w == f {
				isWriter = true
			}
		}
		if isWriter || wrappers[f] {
			continue
		}
		for _, pc := range protCallsIn(p, f, wrappers) {
			v, ok := constInt(pc.Prot)
			if !ok {
				continue
			}
			if v&2 != 0 {
				r.Check(v&4 != 0, "C14.W4", "writable window keeps EXEC in "+shortName(f), p.Pos(posOf(pc.Call)), "includes PROT_EXEC",
					"pages are made writable without PROT_EXEC: other threads executing code on those pages fault while the patch is written")
			} else {
				r.Check(v == 5, "C14.W4", "pages closed read+execute in "+shortName(f), p.Pos(posOf(pc.Call)), "PROT_READ|PROT_EXEC", "pages are not closed to exactly read+execute")
			}
		}
	}
	// ---- W7 a failed protection change is reported as such: on the side of an `errno ==/!= 0` test where the errno is zero
	// nothing panics with it or returns it (the inverted test treats every successful mprotect as a failure and lets real
	// failures through, so the write then faults or pages stay writable)
	nErrno := 0
	for _, f := range p.FuncsIn(memPkg) {
		if f.Blocks == nil {
			continue
		}
		nInF := 0
		eachInstr(f, func(i ssa.Instruction) {
			iff, ok := i.(*ssa.If)
			if !ok {
				return
			}
			bo, ok := iff.Cond.(*ssa.BinOp)
			if !ok || (bo.Op != token.EQL && bo.Op != token.NEQ) {
				return
			}
			var e ssa.Value
			if c0, ok := constInt(bo.Y); ok && c0 == 0 && strings.HasSuffix(bo.X.Type().String(), "syscall.Errno") {
				e = bo.X
			} else if c0, ok := constInt(bo.X); ok && c0 == 0 && strings.HasSuffix(bo.Y.Type().String(), "syscall.Errno") {
				e = bo.Y
			}
			if e == nil {
				return
			}
			nErrno++
			nInF++
			zeroSucc := iff.Block().Succs[0]
			if bo.Op == token.NEQ {
				zeroSucc = iff.Block().Succs[1]
			}
			bad := ""
			if len(zeroSucc.Preds) == 1 {
				isE := func(v ssa.Value) bool { return v == e }
				for _, b := range f.Blocks {
					if b != zeroSucc && !zeroSucc.Dominates(b) {
						continue
					}
					for _, ins := range b.Instrs {
						switch x := ins.(type) {
						case *ssa.Panic:
							if dependsOn(x.X, isE) || varargsDependOn(x.X, isE) {
								bad = "panics with it at " + p.Pos(posOf(ins))
							}
							if mi, ok := x.X.(*ssa.MakeInterface); ok {
								if cl, ok := mi.X.(*ssa.Call); ok {
									for _, a := range cl.Call.Args {
										if varargsDependOn(a, isE) {
											bad = "panics with it at " + p.Pos(posOf(ins))
										}
									}
								}
							}
						case *ssa.Return:
							for _, rv := range x.Results {
								if dependsOn(rv, isE) {
									bad = "returns it at " + p.Pos(posOf(ins))
								}
							}
						}
					}
				}
			}
			r.Check(bad == "", "C14.W7", "errno of a protection change reported only when non-zero in "+shortName(f)+" #"+itoa2(nInF), p.Pos(posOf(iff)), "the zero side neither panics with nor returns the errno",
				"where the errno is zero the code "+bad+": the sense of the test is inverted — a successful mprotect aborts the patch and a failed one is ignored")
		})
	}
	r.Stat("errno_tests", nErrno)
	// ---- W7 (continued) the same discipline for error values and validation tests of the text writers
	inMem := func(rel string) bool { return rel == memPkg }
	checkErrorPolarity(p, r, "C14.W7", inMem)
	checkNoDeadComparisons(p, r, "C14.W7", inMem)
	// ---- W7 (clause) a writer does not report success on the branch where the writer it delegated to failed
	for _, f := range p.FuncsIn(memPkg) {
		if f.Blocks == nil || errIndex(f.Signature) < 0 {
			continue
		}
		nInF := 0
		eachInstr(f, func(i ssa.Instruction) {
			iff, ok := i.(*ssa.If)
			if !ok {
				return
			}
			bo, ok := iff.Cond.(*ssa.BinOp)
			if !ok || (bo.Op != token.EQL && bo.Op != token.NEQ) {
				return
			}
			var e ssa.Value
			if isNilConst(bo.Y) {
				e = bo.X
			} else if isNilConst(bo.X) {
				e = bo.Y
			}
			cl, isCall := e.(*ssa.Call)
			if e == nil || !isCall {
				return
			}
			cal := staticCallee(cl.Common())
			if cal == nil || relPkg(cal) != memPkg || errIndex(cal.Signature) < 0 {
				return
			}
			nonNil := iff.Block().Succs[1]
			if bo.Op == token.NEQ {
				nonNil = iff.Block().Succs[0]
			}
			if len(nonNil.Preds) != 1 {
				return
			}
			nInF++
			bad := false
			if ret, ok := nonNil.Instrs[len(nonNil.Instrs)-1].(*ssa.Return); ok && isNilConst(retResult(ret, errIndex(f.Signature))) {
				used := false
				for _, ins := range nonNil.Instrs {
					for _, op := range ins.Operands(nil) {
						if *op == e {
							used = true
						}
					}
				}
				bad = !used
			}
			r.Check(!bad, "C14.W7", "failure of "+shortName(cal)+" is not reported as success by "+shortName(f)+" #"+itoa2(nInF), p.Pos(posOf(iff)), "no `return nil` on the failing side",
				"the writer returns success on the branch where the writer it delegated to reported an error: the caller believes the entry jump (or the restored bytes) were written when they were not")
		})
	}
	// ---- W5 page-start helpers: the mask is ^(pagesize-1) exactly
	for _, f := range p.FuncsIn(memPkg) {
		if !isPageStartFn(f) {
			continue
		}
		okMask := true
		for _, ret := range returnsOf(f) {
			if !exactPageMask(p, retResult(ret, 0).(*ssa.BinOp)) {
				okMask = false
			}
		}
		r.Check(okMask, "C14.W5", "page-start mask of "+shortName(f), p.Pos(f.Pos()), "addr &^ (pagesize-1)",
			"the page-start helper does not clear exactly the low bits below the page size (mask is not ^(Getpagesize()-1)): the protection change starts at an address that is not the start of the page holding the write")
	}
	// ---- W5 page loops
	for _, f := range p.FuncsIn(memPkg) {
		pcs := protCallsIn(p, f, nil)
		for _, pc := range pcs {
			// address of the protection change must be a loop variable p: phi[PageStart(addr), p+pagesize], cond p < addr+len
			var ph *ssa.Phi
			for _, a := range origins(pc.Addr) {
				if cl, ok := a.V.(*ssa.Call); ok && isRawAccessFn(staticCallee(cl.Common())) {
					ph, _ = cl.Call.Args[0].(*ssa.Phi)
				}
			}
			if ph == nil {
				ph, _ = pc.Addr.(*ssa.Phi)
			}
			cons := "page loop in " + shortName(f) + " #" + itoa2(instrIndexIn(pcs, pc))
			if ph == nil {
				// single-call form: must start at PageStart(addr) and its length must account for both the offset of addr in its page and the write length
				startOK := false
				for _, a := range origins(pc.Addr) {
					if cl, ok := a.V.(*ssa.Call); ok {
						if isPageStartFn(staticCallee(cl.Common())) && resolveLocal(cl.Call.Args[0]) == ssa.Value(f.Params[0]) {
							startOK = true
						}
						if isRawAccessFn(staticCallee(cl.Common())) {
							for _, a2 := range origins(cl.Call.Args[0]) {
								if c2, ok := a2.V.(*ssa.Call); ok && isPageStartFn(staticCallee(c2.Common())) && resolveLocal(c2.Call.Args[0]) == ssa.Value(f.Params[0]) {
									startOK = true
								}
							}
							if pc.Len == nil {
								pc.Len = cl.Call.Args[1]
							}
						}
					}
				}
				lenOK := pc.Len != nil && len(f.Params) >= 2 &&
					dependsOn(pc.Len, func(v ssa.Value) bool { return v == ssa.Value(f.Params[0]) }) &&
					dependsOn(pc.Len, func(v ssa.Value) bool { return v == ssa.Value(f.Params[1]) })
				r.Check(startOK && lenOK, "C14.W5", cons, p.Pos(posOf(pc.Call)), "single protection change over [PageStart(addr), addr+len)",
					"the protection change is neither a page loop over [PageStart(addr), addr+len) nor a single call whose length accounts for the offset of addr inside its page: a write that starts a few bytes before a page end leaves the second page unprotected-for-write (fault mid-copy) or writable afterwards")
				continue
			}
			okStart, okStep, okCond := false, false, false
			for _, e := range ph.Edges {
				if cl, ok := e.(*ssa.Call); ok && isPageStartFn(staticCallee(cl.Common())) && cl.Call.Args[0] == ssa.Value(f.Params[0]) {
					okStart = true
				}
				// the page start written out in place: addr &^ (pagesize-1)
				if bo, ok := e.(*ssa.BinOp); ok && resolveLocal(bo.X) == ssa.Value(f.Params[0]) && exactPageMask(p, bo) {
					okStart = true
				}
				if bo, ok := e.(*ssa.BinOp); ok && bo.Op == token.ADD && bo.X == ssa.Value(ph) {
					for _, a := range origins(bo.Y) {
						if a.Kind == "call" && a.Name == "syscall.Getpagesize" {
							okStep = true
						}
					}
				}
			}
			for _, ref := range *ph.Referrers() {
				if bo, ok := ref.(*ssa.BinOp); ok && bo.Op == token.LSS && bo.X == ssa.Value(ph) {
					if sum, ok := resolveLocal(bo.Y).(*ssa.BinOp); ok && sum.Op == token.ADD {
						hasAddr := sum.X == ssa.Value(f.Params[0]) || sum.Y == ssa.Value(f.Params[0])
						hasLen := false
						for _, side := range []ssa.Value{sum.X, sum.Y} {
							for _, a := range origins(side) {
								if a.Kind == "param" && a.V == ssa.Value(f.Params[1]) {
									hasLen = true
								}
								if a.Kind == "call" && a.Name == "builtin len" {
									hasLen = true
								}
							}
						}
						if hasAddr && hasLen {
							okCond = true
						}
					}
				}
			}
			r.Check(okStart && okStep && okCond, "C14.W5", cons, p.Pos(posOf(pc.Call)), "p = PageStart(addr); p < addr+len; p += pagesize",
				"the page loop does not cover [PageStart(addr), addr+len) in page-size steps: a write that straddles a page boundary hits a page whose protection was not changed (or is left writable)")
			// the protected length is one page
			if pc.Len != nil {
				okLen := false
				for _, a := range origins(pc.Len) {
					if a.Kind == "call" && a.Name == "syscall.Getpagesize" {
						okLen = true
					}
				}
				r.Check(okLen, "C14.W5", cons+" length", p.Pos(posOf(pc.Call)), "one page per step", "the protection change does not cover one page per step")
			}
		}
	}
	// ---- W6 reads are copies
	for _, f := range p.FuncsIn(memPkg) {
		if f.Object() == nil || !f.Object().Exported() || f.Signature.Results().Len() != 1 {
			continue
		}
		if _, ok := f.Signature.Results().At(0).Type().Underlying().(*types.Slice); !ok {
			continue
		}
		// RawAccess itself is the raw view (documented non thread safe, used by writers); exported readers must copy
		if isRawAccessFn(f) {
			// who may call the raw view: only package memory
			for _, cs := range p.callersOf(f) {
				r.Check(relPkg(cs.Caller) == memPkg, "C14.W6", "raw view used in "+shortName(cs.Caller), p.Pos(posOf(cs.Instr)), "raw text view confined to package memory", "the raw (aliasing) view of text is used outside package memory: callers can modify or observe text without the lock")
			}
			continue
		}
		okCopy := true
		for _, ret := range returnsOf(f) {
			for _, a := range origins(retResult(ret, 0)) {
				if a.Kind != "make" {
					okCopy = false
				}
			}
		}
		hasCopy := false
		eachInstr(f, func(i ssa.Instruction) {
			if cl, ok := i.(*ssa.Call); ok {
				if bi, ok := cl.Call.Value.(*ssa.Builtin); ok && bi.Name() == "copy" {
					hasCopy = true
				}
			}
		})
		r.Check(okCopy && hasCopy, "C14.W6", "reader "+shortName(f)+" returns a copy", p.Pos(f.Pos()), "fresh make filled by copy", "a text reader returns the raw view instead of a private copy: captured 'original bytes' change when the text is patched")
	}
}

func instrIndexIn(pcs []protCall, pc protCall) int {
	for i, x := range pcs {
		if x.Call == pc.Call {
			return i
		}
	}
	return 0
}

// sameRange: the protection call covers (addr, len(data)) of writer w.
func sameRange(pc protCall, w *ssa.Function) bool {
	if pc.Addr != ssa.Value(w.Params[0]) {
		return false
	}
	if pc.Len == nil {
		return false
	}
	if lc, ok := pc.Len.(*ssa.Call); ok && isLenCall(lc) && lc.Call.Args[0] == ssa.Value(w.Params[1]) {
		return true
	}
	return false
}

// jumpGenerator: the function in patch whose []byte result derives from the entry-jump emitter and that consults GetFuncSize.
func jumpGenerator(p *Prog) *ssa.Function {
	// by role: the callee whose result the installer stores as the patch's jump bytes
	if pr := p.patchRoles(); pr.Installer != nil && pr.PInstall != nil {
		var gen *ssa.Function
		eachInstr(pr.Installer, func(i ssa.Instruction) {
			st, ok := i.(*ssa.Store)
			if !ok {
				return
			}
			fa, ok := st.Addr.(*ssa.FieldAddr)
			if !ok || fieldVar(fa.X.Type(), fa.Field) != pr.PInstall {
				return
			}
			for _, a := range origins(st.Val) {
				if ex, ok := a.V.(*ssa.Extract); ok {
					if cl, ok := ex.Tuple.(*ssa.Call); ok {
						if cal := staticCallee(cl.Common()); cal != nil {
							gen = cal
						}
					}
				}
			}
		})
		if gen != nil {
			return gen
		}
	}
	for _, f := range p.FuncsIn("internal/patch") {
		if f.Parent() != nil {
			continue
		}
		if len(callsTo(f, qual("internal/bytecode", "GetFuncSize"))) == 0 {
			continue
		}
		res := f.Signature.Results()
		if res.Len() == 2 {
			if sl, ok := res.At(0).Type().Underlying().(*types.Slice); ok && isByte(sl.Elem()) && errIndex(f.Signature) == 1 {
				return f
			}
		}
	}
	return nil
}

func isByte(t types.Type) bool {
	b, ok := t.Underlying().(*types.Basic)
	return ok && (b.Kind() == types.Uint8 || b.Kind() == types.Byte)
}

// patchInstaller: the function in patch that updates the package-level patch table.
func patchInstaller(p *Prog) *ssa.Function {
	var inst *ssa.Function
	for _, f := range p.FuncsIn("internal/patch") {
		eachInstr(f, func(i ssa.Instruction) {
			if mu, ok := i.(*ssa.MapUpdate); ok {
				if as := origins(mu.Map); len(as) > 0 && as[0].Kind == "global" {
					inst = f
				}
			}
		})
	}
	return inst
}

// isFieldAtom: the atom is a load of exactly field fv.
func isFieldAtom(a Atom, fv *types.Var) bool {
	if a.Kind != "field" || fv == nil {
		return false
	}
	_, got, ok := fieldRef(a.V)
	return ok && got == fv
}

// isPageStartFn: a module function uintptr→uintptr whose every return is its parameter masked (&^ or &) — the page-start
// rounding, whatever it is called.
func isPageStartFn(f *ssa.Function) bool {
	if f == nil || f.Blocks == nil || !strings.HasPrefix(pkgPathOf(f), Mod) || len(f.Params) != 1 || f.Signature.Results().Len() != 1 {
		return false
	}
	if !isUintptr(f.Params[0].Type()) || !isUintptr(f.Signature.Results().At(0).Type()) {
		return false
	}
	rets := returnsOf(f)
	if len(rets) == 0 {
		return false
	}
	for _, ret := range rets {
		bo, ok := retResult(ret, 0).(*ssa.BinOp)
		if !ok || (bo.Op != token.AND && bo.Op != token.AND_NOT) || resolveLocal(bo.X) != ssa.Value(f.Params[0]) {
			return false
		}
	}
	return true
}

// isRawAccessFn: a module function (uintptr, int) → []byte that fabricates the slice from the address (unsafe view of memory).
func isRawAccessFn(f *ssa.Function) bool {
	if f == nil || f.Blocks == nil || !strings.HasPrefix(pkgPathOf(f), Mod) || len(f.Params) != 2 || f.Signature.Results().Len() != 1 {
		return false
	}
	sl, ok := f.Signature.Results().At(0).Type().Underlying().(*types.Slice)
	if !ok || !isByte(sl.Elem()) || !isUintptr(f.Params[0].Type()) || !isIntegerType(f.Params[1].Type()) {
		return false
	}
	usesUnsafe := false
	eachInstr(f, func(i ssa.Instruction) {
		if cv, ok := i.(*ssa.Convert); ok {
			if b, ok := cv.Type().Underlying().(*types.Basic); ok && b.Kind() == types.UnsafePointer {
				usesUnsafe = true
			}
		}
	})
	return usesUnsafe
}

// c14ExtentExcludesRejected: C14.W2 clause — the extent the scanner reports never includes the instruction at which it
// decided to stop: a returned length that already counts the instruction decoded in this iteration is returned only after
// the bytes that follow it were read (the "next function's prologue follows" exit); every exit taken because of what the
// current instruction is (undecodable, padding, first instruction after padding) returns the length before it.
func c14ExtentExcludesRejected(p *Prog, r *Report) {
	f := p.Fn("internal/bytecode", "GetFuncSize")
	if f == nil || f.Blocks == nil {
		r.Und("C14.W2", "extent scanner", "", "bytecode.GetFuncSize not found")
		return
	}
	k := NewKeyer(f)
	n := 0
	for _, ret := range returnsOf(f) {
		if ei := errIndex(f.Signature); ei >= 0 && !isNilConst(retResult(ret, ei)) {
			continue
		}
		rv := retResult(ret, 0)
		if c, ok := constInt(rv); ok && c >= 0 {
			continue
		}
		form := map[string]int64{}
		var konst int64
		linForm(k, rv, 1, form, &konst, 0)
		counts := false
		for key, c := range form {
			if c != 0 && strings.Contains(key, "Len") {
				counts = true
			}
		}
		n++
		if !counts {
			r.OK("C14.W2", "extent returned at "+blockOrdinalRet(ret)+" of "+shortName(f)+" excludes the instruction it stopped at", p.Pos(posOf(ret)), "length before the current instruction")
			continue
		}
		looked := false
		eachInstr(f, func(i ssa.Instruction) {
			cl, ok := i.(*ssa.Call)
			if !ok || calleeName(cl.Common()) != qual(memPkg, "RawRead") || !domInstr(cl, ret) {
				return
			}
			af := map[string]int64{}
			var ac int64
			linForm(k, cl.Call.Args[0], 1, af, &ac, 0)
			for key, c := range form {
				if c != 0 && strings.Contains(key, "Len") && af[key] == c {
					looked = true
				}
			}
		})
		r.Check(looked, "C14.W2", "extent returned at "+blockOrdinalRet(ret)+" of "+shortName(f)+" excludes the instruction it stopped at", p.Pos(posOf(ret)), "a length that counts the current instruction is returned only after the bytes behind it were read",
			"the scanner returns a length that already counts the instruction at which it decided to stop (padding, or the first instruction of the next function): the reported extent is too long, a function shorter than the jump is no longer refused and the entry jump overwrites the start of its neighbour")
	}
	if n == 0 {
		r.Und("C14.W2", "extent scanner returns", "", "no length-returning exit found in bytecode.GetFuncSize")
	}
}


// initOnlyValue: a load of a package-level variable that only the package initialiser writes stands for what it was
// initialised with; every other value stands for itself.
func initOnlyValue(p *Prog, v ssa.Value) ssa.Value {
	ld, ok := v.(*ssa.UnOp)
	if !ok || ld.Op != token.MUL {
		return v
	}
	g, ok := ld.X.(*ssa.Global)
	if !ok {
		return v
	}
	var stored ssa.Value
	n := 0
	for _, fn := range p.Funcs {
		if fn.Blocks == nil || fn.Pkg != g.Pkg {
			continue
		}
		eachInstr(fn, func(i ssa.Instruction) {
			if st, ok := i.(*ssa.Store); ok && st.Addr == ssa.Value(g) {
				n++
				if isPkgInit(fn) {
					stored = st.Val
				}
			}
		})
	}
	if n == 1 && stored != nil {
		return stored
	}
	return v
}

// exactPageMask: bo is `x & ^(ps-1)` or `x &^ (ps-1)` with ps the system page size (Getpagesize(), through conversions,
// locals and initialiser-only package variables).
func exactPageMask(p *Prog, bo *ssa.BinOp) bool {
	if bo == nil || (bo.Op != token.AND && bo.Op != token.AND_NOT) {
		return false
	}
	strip := func(v ssa.Value) ssa.Value {
		for {
			v = initOnlyValue(p, resolveLocal(v))
			if cv, ok := v.(*ssa.Convert); ok {
				v = cv.X
				continue
			}
			return v
		}
	}
	m := strip(bo.Y)
	if bo.Op == token.AND {
		un, ok := m.(*ssa.UnOp)
		if !ok || un.Op != token.XOR {
			return false
		}
		m = strip(un.X)
	}
	sub, ok := m.(*ssa.BinOp)
	if !ok || sub.Op != token.SUB {
		return false
	}
	if one, isC := constInt(sub.Y); !isC || one != 1 {
		return false
	}
	cl, ok := strip(sub.X).(*ssa.Call)
	return ok && strings.HasSuffix(calleeName(cl.Common()), ".Getpagesize")
}
