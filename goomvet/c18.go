package main

import (
	"fmt"
	"go/token"
	"go/types"
	"sort"
	"strings"

	"golang.org/x/tools/go/ssa"
)

func init() { register("C18", c18) }

// reachableUnder computes the blocks reachable from the entry when the given boolean SSA values are fixed.
func reachableUnder(fn *ssa.Function, assign map[ssa.Value]bool) map[*ssa.BasicBlock]bool {
	return reachableUnderBlocked(fn, assign, nil)
}

// reachableUnderBlocked: as reachableUnder, but a branch whose condition stays unknown and for which blocked reports true is
// not followed at all — what is reachable is then reachable whatever such conditions turn out to be.
func reachableUnderBlocked(fn *ssa.Function, assign map[ssa.Value]bool, blocked func(ssa.Value) bool) map[*ssa.BasicBlock]bool {
	seen := map[*ssa.BasicBlock]bool{}
	// path-sensitive for boolean phis: the value of a phi is that of the edge the path came in on (single-exit code and
	// inlined helpers merge a test's outcome into a flag that is branched on later)
	type frame struct {
		b    *ssa.BasicBlock
		from *ssa.BasicBlock
		env  map[ssa.Value]bool
	}
	visited := map[string]bool{}
	var eval func(v ssa.Value, env map[ssa.Value]bool) (bool, bool)
	eval = func(v ssa.Value, env map[ssa.Value]bool) (bool, bool) {
		if b, ok := assign[v]; ok {
			return b, true
		}
		if b, ok := env[v]; ok {
			return b, true
		}
		if rv := resolveLocal(v); rv != v {
			return eval(rv, env)
		}
		if u, ok := v.(*ssa.UnOp); ok && u.Op == token.NOT {
			if b, ok := eval(u.X, env); ok {
				return !b, true
			}
		}
		if c, ok := v.(*ssa.Const); ok && c.Value != nil && isBool(c.Type()) {
			return c.Value.String() == "true", true
		}
		if bo, ok := v.(*ssa.BinOp); ok && (bo.Op == token.EQL || bo.Op == token.NEQ) && isBool(bo.X.Type()) {
			x, okx := eval(bo.X, env)
			y, oky := eval(bo.Y, env)
			if okx && oky {
				return (x == y) == (bo.Op == token.EQL), true
			}
		}
		return false, false
	}
	st := []frame{{fn.Blocks[0], nil, map[ssa.Value]bool{}}}
	steps := 0
	for len(st) > 0 && steps < 200000 {
		steps++
		fr := st[len(st)-1]
		st = st[:len(st)-1]
		b := fr.b
		env := fr.env
		// phis of this block, from the edge taken
		changed := false
		for _, ins := range b.Instrs {
			ph, ok := ins.(*ssa.Phi)
			if !ok {
				break
			}
			if !isBool(ph.Type()) || fr.from == nil {
				continue
			}
			for ei, p := range b.Preds {
				if p == fr.from {
					if val, known := eval(ph.Edges[ei], env); known {
						if !changed {
							n := make(map[ssa.Value]bool, len(env)+1)
							for k, v := range env {
								n[k] = v
							}
							env, changed = n, true
						}
						env[ph] = val
					} else if _, had := env[ph]; had {
						if !changed {
							n := make(map[ssa.Value]bool, len(env)+1)
							for k, v := range env {
								n[k] = v
							}
							env, changed = n, true
						}
						delete(env, ph)
					}
				}
			}
		}
		// memo key: block + known phi values
		var ks []string
		for k, v := range env {
			ks = append(ks, fmt.Sprintf("%s=%v", k.Name(), v))
		}
		sort.Strings(ks)
		key := fmt.Sprintf("%d|%s", b.Index, strings.Join(ks, ","))
		if visited[key] {
			continue
		}
		visited[key] = true
		seen[b] = true
		if iff, ok := b.Instrs[len(b.Instrs)-1].(*ssa.If); ok {
			if v, known := eval(iff.Cond, env); known {
				if v {
					st = append(st, frame{b.Succs[0], b, env})
				} else {
					st = append(st, frame{b.Succs[1], b, env})
				}
				continue
			}
			if blocked != nil && blocked(iff.Cond) {
				continue
			}
		}
		for _, s := range b.Succs {
			st = append(st, frame{s, b, env})
		}
	}
	return seen
}

func c18(c *Ctx) {
	p, r := c.K1(), c.R
	// R6: Equals(nil) / In(nil, …) is well defined for every nilable kind: the converter turns the untyped nil into the
	// typed zero value of each of them (C09.R1)
	if !c.importing {
		importSibling(c, "C09", "C18.R6", func(rule string) bool { return rule == "C09.R1" })
		// R8: In over a variadic call evaluates the expanded argument list wherever there is a packed slice to expand (C04.R4)
		importSiblingWhere(c, "C04", "C18.R8", func(rule string) bool { return rule == "C04.R4" }, func(cons string) bool { return strings.Contains(cons, "arg.") })
	}
	r.Expl = "Structural clauses behind 'argument expressions form a consistent predicate algebra': evaluating any Expr (and everything it statically calls in package arg) writes no non-local memory, so an evaluation cannot change a later answer; Any's Eval returns (true,nil) on every path; In resolves its rows through the same constructor that wraps plain values in Equals and its evaluation is a disjunction over rows of a conjunction over positions (false only after all rows were tried); in the equality cascade every Value.Elem() is guarded by a Ptr/Interface kind test and is unreachable when the nil test of that operand is true. Equality semantics over all values is not decided."
	r.RuleText = "one obligation per (rule, Expr implementation / function / call site)"
	// R7: in package arg no Elem() follows a kind test that ruled the element-bearing kind out, and the error tests of the
	// coercion helpers are not inverted (shared rules)
	inArg := func(rel string) bool { return rel == "arg" }
	checkElemUnderKindBelief(p, r, "C18.R7", inArg)
	checkErrorPolarity(p, r, "C18.R7", inArg)
	r.Floor("C18.R1", 3)
	r.Floor("C18.R2", 1)
	r.Floor("C18.R3", 3)
	r.Floor("C18.R4", 2)
	r.Floor("C18.R5", 1)
	exprT := p.NamedType("arg", "Expr")
	if exprT == nil {
		r.Und("C18.R1", "arg.Expr", "", "exported interface Expr not found")
		return
	}
	ei := exprT.Underlying().(*types.Interface)
	var impls []*types.Named
	for _, n := range namedTypesOf(p.Pkg("arg").Types) {
		if _, isI := n.Underlying().(*types.Interface); !isI && implementsIface(n, ei) {
			impls = append(impls, n)
		}
	}
	r.Stat("expr_impls", len(impls))
	// ---- R1 read-only evaluation
	for _, n := range impls {
		ev := methodOf(p, n, "Eval")
		if ev == nil {
			continue
		}
		reach := p.modReach(ev)
		bad := ""
		cnt := 0
		for f := range reach {
			if relPkg(f) != "arg" {
				continue
			}
			cnt++
			eachInstr(f, func(i ssa.Instruction) {
				switch x := i.(type) {
				case *ssa.Store:
					if !isLocalAddr(x.Addr) {
						bad = shortName(f) + " stores to non-local memory at " + p.Pos(posOf(i))
					}
				case *ssa.MapUpdate:
					if _, ok := x.Map.(*ssa.MakeMap); !ok {
						bad = shortName(f) + " updates a map at " + p.Pos(posOf(i))
					}
				case ssa.CallInstruction:
					// library mutators applied to memory that outlives the call: sync.Map, sync/atomic, sync.Pool, container types
					cn := calleeName(x.Common())
					mut := false
					for _, pre := range []string{"(*sync.Map).Store", "(*sync.Map).LoadOrStore", "(*sync.Map).Delete", "(*sync.Map).LoadAndDelete", "(*sync.Map).Swap", "(*sync.Map).CompareAndSwap", "(*sync.Map).CompareAndDelete", "(*sync.Map).Clear", "(*sync.Pool).Put", "sync/atomic.Store", "sync/atomic.Add", "sync/atomic.Swap", "sync/atomic.CompareAndSwap", "(*sync/atomic."} {
						if strings.HasPrefix(cn, pre) {
							mut = true
						}
					}
					if strings.HasPrefix(cn, "(*sync/atomic.") && strings.HasSuffix(cn, ").Load") {
						mut = false
					}
					if mut && len(x.Common().Args) > 0 && !isLocalAddr(x.Common().Args[0]) {
						bad = shortName(f) + " calls " + cn + " on non-local memory at " + p.Pos(posOf(i))
					}
				}
			})
		}
		if bad == "" && len(ev.Params) >= 2 {
			if w := writesThroughParam(p, ev, ev.Params[1]); w != "" {
				bad = shortName(ev) + " writes through its input slice: " + w
			}
		}
		r.Check(bad == "", "C18.R1", "Eval of arg."+n.Obj().Name()+" is read-only", p.Pos(ev.Pos()), "no non-local write in the functions it reaches",
			"evaluating the expression writes state ("+bad+"): a later evaluation can answer differently")
		r.AddStat("functions_reached_by_eval", cnt)
	}
	// ---- R2 Any is constant true
	if anyT := p.NamedType("arg", "AnyExpr"); anyT != nil {
		ev := methodOf(p, anyT, "Eval")
		ok := ev != nil
		if ev != nil {
			for _, ret := range returnsOf(ev) {
				cv, isC := retResult(ret, 0).(*ssa.Const)
				if !isC || cv.Value == nil || cv.Value.String() != "true" || !isNilConst(retResult(ret, 1)) {
					ok = false
				}
			}
		}
		r.Check(ok, "C18.R2", "arg.AnyExpr.Eval", p.Pos(anyT.Obj().Pos()), "every return is (true, nil)", "Any does not accept everything: some return of AnyExpr.Eval is not (true, nil)")
	} else {
		r.Und("C18.R2", "arg.AnyExpr", "", "not found")
	}
	// ---- R3 In reuses Equals; disjunction shape
	toExpr := p.Fn("arg", "ToExpr")
	equalsB := p.Fn("arg", "Equals")
	inT := p.NamedType("arg", "InExpr")
	if toExpr == nil || equalsB == nil || inT == nil {
		r.Und("C18.R3", "arg.ToExpr/Equals/InExpr", "", "exported names not found")
	} else {
		// plain values are wrapped by Equals in ToExpr
		wrap := false
		eachInstr(toExpr, func(i ssa.Instruction) {
			if cl, ok := i.(*ssa.Call); ok && staticCallee(cl.Common()) == equalsB {
				for _, ref := range *cl.Referrers() {
					if _, ok := ref.(*ssa.MakeInterface); ok {
						wrap = true
					}
				}
			}
		})
		r.Check(wrap, "C18.R3", "plain values wrapped by Equals in arg.ToExpr", p.Pos(toExpr.Pos()), "plain value ⇒ Equals(value)", "ToExpr no longer wraps plain values in Equals: In/When compare them by something else")
		res := methodOf(p, inT, "Resolve")
		viaToExpr := false
		if res != nil {
			eachInstr(res, func(i ssa.Instruction) {
				if ci, ok := i.(ssa.CallInstruction); ok && staticCallee(ci.Common()) == toExpr {
					viaToExpr = true
				}
			})
		}
		r.Check(viaToExpr, "C18.R3", "In rows resolved through arg.ToExpr", p.Pos(inT.Obj().Pos()), "rows use the same constructor as direct arguments", "In resolves its rows with a different constructor than direct When arguments: In(x) and Equals(x) can disagree")
		if ev := methodOf(p, inT, "Eval"); ev != nil {
			// inner Eval invokes; the outer loop = the loop whose body dominates them
			var inner []*ssa.Call
			isEvalInvoke := func(i ssa.Instruction) bool {
				cl, ok := i.(*ssa.Call)
				return ok && cl.Call.IsInvoke() && cl.Call.Method.Name() == "Eval"
			}
			// innermost loop header around instruction at; nil if none
			innerLoopOf := func(at ssa.Instruction) *ssa.BasicBlock {
				var h *ssa.BasicBlock
				for _, b := range at.Parent().Blocks {
					for _, pr := range b.Preds {
						if b.Dominates(pr) && b.Dominates(at.Block()) {
							if h == nil || h.Dominates(b) {
								h = b
							}
						}
					}
				}
				return h
			}
			// conjunction over positions: no `true` is returned from inside the loop that evaluates the positions
			conjOK, conjWhy := true, ""
			checkConj := func(at *ssa.Call) {
				h := innerLoopOf(at)
				if h == nil || len(h.Succs) != 2 {
					conjOK, conjWhy = false, "row positions are not evaluated in a loop"
					return
				}
				for _, ret := range returnsOf(at.Parent()) {
					in := h.Succs[0] == ret.Block() || h.Succs[0].Dominates(ret.Block())
					if v0, isC := retResult(ret, 0).(*ssa.Const); in && isC && v0.Value != nil && v0.Value.String() == "true" && at.Parent() != ev {
						conjOK, conjWhy = false, "a row is accepted before all of its positions matched (at "+p.Pos(posOf(ret))+")"
					}
				}
			}
			eachInstr(ev, func(i ssa.Instruction) {
				if isEvalInvoke(i) {
					inner = append(inner, i.(*ssa.Call))
					return
				}
				// a row helper: a function of this package that evaluates the positions of one row
				if cl, ok := i.(*ssa.Call); ok {
					if cal := staticCallee(cl.Common()); cal != nil && cal.Blocks != nil && relPkg(cal) == "arg" && cal.Signature.Results().Len() == 2 {
						var sub *ssa.Call
						eachInstr(cal, func(j ssa.Instruction) {
							if isEvalInvoke(j) {
								sub = j.(*ssa.Call)
							}
						})
						if sub != nil {
							inner = append(inner, cl)
							checkConj(sub)
						}
					}
				}
			})
			if len(inner) == 0 {
				r.Bad("C18.R3", "In evaluation shape", p.Pos(ev.Pos()), "InExpr.Eval evaluates no row expressions")
			}
			// find the rows loop header: the outermost loop (block with a back edge) that dominates the inner call
			var hdr *ssa.BasicBlock
			for _, b := range ev.Blocks {
				for _, pr := range b.Preds {
					if b.Dominates(pr) && len(inner) > 0 && b.Dominates(inner[0].Block()) {
						if hdr == nil || b.Dominates(hdr) {
							hdr = b
						}
					}
				}
			}
			// positions evaluated inside Eval itself: once a position's expression answered false, no `return true` is
			// reached before that expression is evaluated again (i.e. within this row)
			for _, in := range inner {
				if !isEvalInvoke(in) || in.Parent() != ev {
					continue
				}
				var vEx ssa.Value
				for _, ref := range *in.Referrers() {
					if ex, ok := ref.(*ssa.Extract); ok && ex.Index == 0 {
						vEx = ex
					}
				}
				if vEx == nil {
					continue
				}
				seen := map[string]bool{}
				var walk func(b, from *ssa.BasicBlock, env map[ssa.Value]bool, first bool) bool
				evalB := func(c ssa.Value, env map[ssa.Value]bool) (bool, bool) {
					neg := false
					for {
						if u, ok := c.(*ssa.UnOp); ok && u.Op == token.NOT {
							c, neg = u.X, !neg
							continue
						}
						break
					}
					if c == vEx {
						return neg, true // v is false
					}
					if k, ok := c.(*ssa.Const); ok && k.Value != nil && isBool(k.Type()) {
						return (k.Value.String() == "true") != neg, true
					}
					if v, ok := env[c]; ok {
						return v != neg, true
					}
					return false, false
				}
				walk = func(b, from *ssa.BasicBlock, env map[ssa.Value]bool, first bool) bool {
					if !first {
						if b == in.Block() || b == hdr {
							return false
						}
						// boolean phis take the value of the edge the path came in on
						changed := false
						for _, ins := range b.Instrs {
							ph, ok := ins.(*ssa.Phi)
							if !ok {
								break
							}
							if !isBool(ph.Type()) {
								continue
							}
							for ei, pr := range b.Preds {
								if pr != from {
									continue
								}
								if !changed {
									n := map[ssa.Value]bool{}
									for k2, v2 := range env {
										n[k2] = v2
									}
									env, changed = n, true
								}
								if v, known := evalB(ph.Edges[ei], env); known {
									env[ph] = v
								} else {
									delete(env, ph)
								}
							}
						}
						key := fmt.Sprint(b.Index)
						var ks []string
						for k2, v2 := range env {
							ks = append(ks, fmt.Sprintf("%s=%v", k2.Name(), v2))
						}
						sort.Strings(ks)
						key += "|" + strings.Join(ks, ",")
						if seen[key] {
							return false
						}
						seen[key] = true
					}
					if ret, ok := b.Instrs[len(b.Instrs)-1].(*ssa.Return); ok {
						rv := retResult(ret, 0)
						if v, known := evalB(rv, env); known {
							return v
						}
						return false
					}
					succs := b.Succs
					if iff, ok := b.Instrs[len(b.Instrs)-1].(*ssa.If); ok {
						if v, known := evalB(iff.Cond, env); known {
							if v {
								succs = []*ssa.BasicBlock{b.Succs[0]}
							} else {
								succs = []*ssa.BasicBlock{b.Succs[1]}
							}
						}
					}
					for _, s2 := range succs {
						if walk(s2, b, env, false) {
							return true
						}
					}
					return false
				}
				if walk(in.Block(), nil, map[ssa.Value]bool{}, true) {
					conjOK, conjWhy = false, "after a position answered false the row can still be accepted"
				}
			}
			okShape := hdr != nil
			why := ""
			if hdr != nil {
				for _, ret := range returnsOf(ev) {
					inLoop := false
					// a return is "inside" the rows loop if the loop body (true successor of the header) dominates it
					if len(hdr.Succs) == 2 && (hdr.Succs[0] == ret.Block() || hdr.Succs[0].Dominates(ret.Block())) {
						inLoop = true
					}
					v0, isC := retResult(ret, 0).(*ssa.Const)
					if !isC {
						okShape, why = false, "non-constant result"
						continue
					}
					isTrue := v0.Value != nil && v0.Value.String() == "true"
					errNil := isNilConst(retResult(ret, 1))
					if inLoop && !isTrue && errNil {
						okShape, why = false, "returns false inside the rows loop at "+p.Pos(posOf(ret))+" before every row was tried"
					}
					if !inLoop && isTrue {
						okShape, why = false, "returns true outside the rows loop"
					}
				}
			}
			// what Eval iterates is what Resolve built: the rows field Eval reads is stored by Resolve before it reports success
			if rs := methodOf(p, inT, "Resolve"); rs != nil && rs.Blocks != nil {
				var rowsFld *types.Var
				eachInstr(ev, func(i ssa.Instruction) {
					if ld, ok := i.(*ssa.UnOp); ok && ld.Op == token.MUL {
						if fa, ok := ld.X.(*ssa.FieldAddr); ok && resolveLocal(fa.X) == ssa.Value(ev.Params[0]) {
							if fv := fieldVar(fa.X.Type(), fa.Field); fv != nil {
								if sl, ok := fv.Type().Underlying().(*types.Slice); ok {
									if _, ok := sl.Elem().Underlying().(*types.Slice); ok {
										rowsFld = fv
									}
								}
							}
						}
					}
				})
				if rowsFld != nil {
					isStore := func(j ssa.Instruction) bool {
						st, ok := j.(*ssa.Store)
						if !ok {
							return false
						}
						fa, ok := st.Addr.(*ssa.FieldAddr)
						return ok && fieldVar(fa.X.Type(), fa.Field) == rowsFld && resolveLocal(fa.X) == ssa.Value(rs.Params[0]) && !isNilConst(st.Val)
					}
					okSt := true
					for _, ret := range returnsOf(rs) {
						if ei := errIndex(rs.Signature); ei >= 0 && isNilConst(retResult(ret, ei)) && !passedBefore(rs, ret, isStore, nil) {
							okSt = false
						}
					}
					r.Check(okSt, "C18.R3", "In keeps the rows it resolved", p.Pos(rs.Pos()), "the rows field Eval iterates is stored before Resolve reports success",
						"Resolve reports success without storing the rows it built into the field Eval iterates: In(…) has no rows at evaluation time and accepts nothing")
				}
			}
			checkPairwiseArity(p, r, "C18.R3", ev)
			r.Check(okShape, "C18.R3", "In evaluation is a disjunction over rows", p.Pos(ev.Pos()), "true as soon as one row matches, false only after all rows were tried",
				"In does not accept the union of its rows: "+why)
			if !conjOK {
				r.Bad("C18.R3", "a row matches only if every position matches", p.Pos(ev.Pos()), "In accepts a row although not all of its positions matched: "+conjWhy)
			}
		}
	}
	// ---- R5 integers are never compared through floating point in the number/number arm
	lossyFn := map[*ssa.Function]int{}
	var lossy func(f *ssa.Function, d int) bool
	isLossyConv := func(i ssa.Instruction) bool {
		cv, ok := i.(*ssa.Convert)
		if !ok {
			return false
		}
		from, okF := cv.X.Type().Underlying().(*types.Basic)
		to, okT := cv.Type().Underlying().(*types.Basic)
		if !okF || !okT {
			return false
		}
		return from.Info()&types.IsInteger != 0 && to.Info()&types.IsFloat != 0
	}
	lossy = func(f *ssa.Function, d int) bool {
		if f == nil || f.Blocks == nil || d > 5 || relPkg(f) != "arg" {
			return false
		}
		switch lossyFn[f] {
		case 1:
			return true
		case 2, 3:
			return false
		}
		lossyFn[f] = 3
		res := false
		eachInstr(f, func(i ssa.Instruction) {
			if isLossyConv(i) {
				res = true
			}
			if ci, ok := i.(ssa.CallInstruction); ok {
				if cal := staticCallee(ci.Common()); cal != nil && lossy(cal, d+1) {
					res = true
				}
			}
		})
		if res {
			lossyFn[f] = 1
		} else {
			lossyFn[f] = 2
		}
		return res
	}
	nNum := 0
	for _, f := range p.FuncsIn("arg") {
		// the number/number arm: blocks guarded by two true calls of a kind predicate over numeric kinds (isNum-like), one per operand
		isNumPred := func(v ssa.Value) (ssa.Value, bool) {
			cl, ok := v.(*ssa.Call)
			if !ok {
				return nil, false
			}
			cal := staticCallee(cl.Common())
			if cal == nil || relPkg(cal) != "arg" || len(cl.Call.Args) != 1 || cal.Signature.Results().Len() != 1 || !isBool(cal.Signature.Results().At(0).Type()) {
				return nil, false
			}
			// predicate tests numeric kinds: its body compares Kind() with Int/Uint/Float constants
			numeric := false
			eachInstr(cal, func(i ssa.Instruction) {
				if iff, ok := i.(*ssa.If); ok {
					if k, _, ok := kindTest(iff.Cond); ok && k >= 2 && k <= 14 {
						numeric = true
					}
				}
			})
			return cl.Call.Args[0], numeric
		}
		for _, b := range f.Blocks {
			ops := map[ssa.Value]bool{}
			for _, g := range guardsAt(b) {
				if a, ok := isNumPred(g.Cond); ok && g.Pol {
					ops[a] = true
				}
			}
			if len(ops) < 2 {
				continue
			}
			for _, ins := range b.Instrs {
				ret, ok := ins.(*ssa.Return)
				if !ok {
					continue
				}
				nNum++
				bad := ""
				for _, rv := range ret.Results {
					if dependsOn(rv, func(v ssa.Value) bool {
						if vi, ok := v.(ssa.Instruction); ok && isLossyConv(vi) {
							return true
						}
						if cl, ok := v.(*ssa.Call); ok {
							if cal := staticCallee(cl.Common()); cal != nil && lossy(cal, 0) {
								return true
							}
						}
						return false
					}) {
						bad = "the result of the number/number comparison depends on an integer→float conversion"
					}
				}
				r.Check(bad == "", "C18.R5", "number/number equality in "+shortName(f)+" stays exact", p.Pos(posOf(ret)), "no integer→float conversion feeds the decision",
					"integers are compared through float64 in the number/number arm ("+bad+"): 64-bit values beyond 2^53 that differ only in their low bits compare equal, so Equals/In accept a value that is not equal")
			}
		}
	}
	r.Stat("number_number_returns", nNum)
	// ---- R4 Elem guarded
	nElem := 0
	for _, f := range p.FuncsIn("arg") {
		for _, cs := range callsTo(f, "(reflect.Value).Elem") {
			cl := cs.(*ssa.Call)
			// (a) guarded by a Ptr/Interface kind test
			ks := kindsInto(cl.Block())
			okK := len(ks) > 0
			for k := range ks {
				if k != 20 && k != 22 {
					okK = false
				}
			}
			if !okK {
				// reflect.New(T).Elem() and NewAt(...).Elem() are addressable cells, never panic
				if src, ok := cl.Call.Args[0].(*ssa.Call); ok {
					cn := calleeName(src.Common())
					if cn == "reflect.New" || cn == "reflect.NewAt" {
						continue
					}
				}
			}
			nElem++
			// … and the kind that is tested is the kind of the very value Elem is applied to
			if okK {
				recv := resolveLocal(cl.Call.Args[0])
				wrong := ""
				seenB := map[*ssa.BasicBlock]bool{}
				var walk func(b *ssa.BasicBlock)
				walk = func(b *ssa.BasicBlock) {
					if seenB[b] {
						return
					}
					seenB[b] = true
					for _, pr := range b.Preds {
						iff, ok := pr.Instrs[len(pr.Instrs)-1].(*ssa.If)
						if !ok {
							if len(pr.Instrs) == 1 {
								walk(pr)
							}
							continue
						}
						if pr.Succs[0] != b {
							continue
						}
						if _, kv, ok := kindTest(iff.Cond); ok {
							if kc, isCall := resolveLocal(kv).(*ssa.Call); isCall && calleeName(kc.Common()) == "(reflect.Value).Kind" {
								if subj := resolveLocal(kc.Call.Args[0]); subj != recv {
									wrong = subj.Name()
								}
							}
						} else if _, ok := kindsOfCond(iff.Cond, 0); !ok {
							walk(pr)
						}
					}
				}
				walk(cl.Block())
				r.Check(wrong == "", "C18.R4", "Elem kind guard in "+shortName(f)+" at "+blockOrdinal(cl)+" tests the value it unwraps", p.Pos(posOf(cl)), "Kind() of the Elem receiver",
					"the Ptr/Interface test that lets Value.Elem() through is made on another value ("+wrong+") than the one that is unwrapped: one operand of a comparison is dereferenced and the other is not (pointers never compare equal to their expectation), or Elem panics on a non-pointer")
			}
			r.Check(okK, "C18.R4", "Elem kind guard in "+shortName(f)+" at "+blockOrdinal(cl), p.Pos(posOf(cl)), "Elem only under Kind ∈ {Ptr, Interface}",
				"Value.Elem() is called without a dominating Ptr/Interface kind test: well-typed scalar/struct input panics")
			// (b) in the equality entry function: unreachable when the operand's nil test is true
			var nilCalls []*ssa.Call
			eachInstr(f, func(i ssa.Instruction) {
				if c2, ok := i.(*ssa.Call); ok {
					if cal := staticCallee(c2.Common()); cal != nil && relPkg(cal) == "arg" && isNilPredicate(cal) && len(c2.Call.Args) == 1 {
						nilCalls = append(nilCalls, c2)
					}
				}
			})
			if len(nilCalls) == 0 {
				continue
			}
			// operand root: the parameter the Elem receiver derives from
			root := elemRoot(cl.Call.Args[0])
			for _, nc := range nilCalls {
				if elemRoot(nc.Call.Args[0]) != root || root == nil {
					continue
				}
				// enumerate the other nil-test atoms (path conditions on them must be consistent)
				reachAny := false
				others := []*ssa.Call{}
				for _, o := range nilCalls {
					if o != nc {
						others = append(others, o)
					}
				}
				if len(others) > 6 {
					others = others[:6]
				}
				for mask := 0; mask < 1<<len(others); mask++ {
					as := map[ssa.Value]bool{nc: true}
					for bi, o := range others {
						as[o] = mask&(1<<bi) != 0
					}
					if reachableUnder(f, as)[cl.Block()] {
						reachAny = true
					}
				}
				reach := map[*ssa.BasicBlock]bool{cl.Block(): reachAny}
				r.Check(!reach[cl.Block()], "C18.R4", "Elem after nil test in "+shortName(f)+" on "+root.Name(), p.Pos(posOf(cl)), "unreachable when the operand is nil",
					"Value.Elem() on operand "+root.Name()+" is reachable although its nil test was true: a nil pointer/interface operand yields the zero Value and the cascade panics on it")
			}
		}
	}
	r.Stat("elem_call_sites", nElem)
	// (d) funcs are compared by identity: reflect.DeepEqual (false for any two non-nil funcs) is reached only after a func
	// test of the very values that are handed to it
	for _, f := range p.FuncsIn("arg") {
		for _, cs := range callsTo(f, "reflect.DeepEqual") {
			cl := cs.(*ssa.Call)
			var ops []ssa.Value
			for _, a := range cl.Call.Args {
				for _, at := range origins(a) {
					if ic, ok := at.V.(*ssa.Call); ok && calleeName(ic.Common()) == "(reflect.Value).Interface" {
						ops = append(ops, resolveLocal(ic.Call.Args[0]))
					}
				}
			}
			if len(ops) != 2 {
				continue
			}
			tested := map[ssa.Value]bool{}
			hasFuncTest := false
			eachInstr(f, func(i ssa.Instruction) {
				if c2, ok := i.(*ssa.Call); ok {
					if cal := staticCallee(c2.Common()); cal != nil && relPkg(cal) == "arg" && len(c2.Call.Args) == 1 && isKindPredicateFn(cal, 19) {
						hasFuncTest = true
					}
				}
			})
			// the identity comparison (Pointer() == Pointer()) of this function is entered for funcs: what leads to it is a
			// func-kind test that is true for funcs (a predicate that never answers true sends every func on to DeepEqual)
			eachInstr(f, func(i ssa.Instruction) {
				bo, ok := i.(*ssa.BinOp)
				if !ok || bo.Op != token.EQL {
					return
				}
				px, okx := bo.X.(*ssa.Call)
				py, oky := bo.Y.(*ssa.Call)
				if !okx || !oky || calleeName(px.Common()) != "(reflect.Value).Pointer" || calleeName(py.Common()) != "(reflect.Value).Pointer" {
					return
				}
				okGuard := false
				for _, g := range guardsAt(bo.Block()) {
					if !g.Pol {
						continue
					}
					if kk, _, isK := kindTest(g.Cond); isK && kk == 19 {
						okGuard = true
					}
					if c2, isCall := g.Cond.(*ssa.Call); isCall {
						if cal := staticCallee(c2.Common()); cal != nil && isKindPredicateFn(cal, 19) {
							okGuard = true
						}
					}
				}
				r.Check(okGuard, "C18.R4", "identity comparison in "+shortName(f)+" is entered for funcs", p.Pos(posOf(bo)), "guarded by a func-kind test that holds for funcs",
					"the identity comparison of funcs is not entered through a test that is true exactly for func values (the predicate never answers true, or tests another kind): funcs fall through to DeepEqual, which is false for any two non-nil funcs, so Equals(f) rejects f")
			})
			if !hasFuncTest {
				continue // a helper for other kinds (numbers/strings): funcs cannot reach it
			}
			eachInstr(f, func(i ssa.Instruction) {
				c2, ok := i.(*ssa.Call)
				if !ok || !domInstr(c2, cl) {
					return
				}
				if cal := staticCallee(c2.Common()); cal != nil && relPkg(cal) == "arg" && len(c2.Call.Args) == 1 && isKindPredicateFn(cal, 19) {
					tested[resolveLocal(c2.Call.Args[0])] = true
				}
			})
			// the first operand's test dominates; the second sits behind `&&` and need not dominate — accept either operand
			okF := tested[ops[0]] || tested[ops[1]]
			r.Check(okF, "C18.R4", "deep comparison in "+shortName(f)+" comes after the func test of its operands", p.Pos(posOf(cl)), "isFunc(x) on the value handed to DeepEqual",
				"the func-identity test is made on other values than the ones finally compared (e.g. before pointers/interfaces were unwrapped): a func passed through an interface-typed parameter reaches DeepEqual, which is false for any two non-nil funcs, so Equals(f) rejects f")
		}
	}
	// (f) operand values are never compared with == as interface values: that compares pointers by address (the property
	// demands pointee equality) and panics on uncomparable dynamic types
	{
		nCmp := 0
		bad := ""
		for _, f := range p.FuncsIn("arg") {
			if f.Blocks == nil {
				continue
			}
			eachInstr(f, func(i ssa.Instruction) {
				bo, ok := i.(*ssa.BinOp)
				if !ok || (bo.Op != token.EQL && bo.Op != token.NEQ) {
					return
				}
				if !types.IsInterface(bo.X.Type()) || !types.IsInterface(bo.Y.Type()) || isNilConst(bo.X) || isNilConst(bo.Y) {
					return
				}
				fromValue := func(v ssa.Value) bool {
					for _, a := range origins(v) {
						if c, ok := a.V.(*ssa.Call); ok && calleeName(c.Common()) == "(reflect.Value).Interface" {
							return true
						}
					}
					return false
				}
				nCmp++
				if fromValue(bo.X) && fromValue(bo.Y) {
					bad = shortName(f) + " at " + p.Pos(posOf(bo))
				}
			})
		}
		r.Check(bad == "", "C18.R4", "operands are not compared as interface values with ==", "", "no Value.Interface() == Value.Interface()",
			"two operands are compared with == after Value.Interface() ("+bad+"): pointers (also inside structs) are then equal only when they are the same address, not when they point to equal values, and an uncomparable dynamic type panics")
		r.Stat("interface_comparisons_seen", nCmp)
	}
	// (e) a partial comparison helper — results (answer, decided) — declares the question decided only for the kinds it is
	// written for: every return with decided == true lies behind a kind test (or kind predicate) of an operand that held
	for _, f := range p.FuncsIn("arg") {
		if f.Blocks == nil || f.Signature.Results().Len() != 2 || !isBool(f.Signature.Results().At(0).Type()) || !isBool(f.Signature.Results().At(1).Type()) || len(f.Params) != 2 {
			continue
		}
		positive := func(gs []Guard) bool {
			for _, g := range gs {
				if !g.Pol {
					// `k != K` known false is `k == K` held
					if bo, ok := g.Cond.(*ssa.BinOp); ok && bo.Op == token.NEQ {
						if _, _, isK := kindTest(&ssa.BinOp{Op: token.EQL, X: bo.X, Y: bo.Y}); isK {
							return true
						}
					}
					continue
				}
				if _, _, isK := kindTest(g.Cond); isK {
					return true
				}
				if c2, isCall := g.Cond.(*ssa.Call); isCall {
					if cal := staticCallee(c2.Common()); cal != nil && relPkg(cal) == "arg" && len(kindPredicate(c2)) > 0 {
						return true
					}
					if cal := staticCallee(c2.Common()); cal != nil && relPkg(cal) == "arg" && isValueKindSetPredicate(cal) {
						return true
					}
				}
			}
			return false
		}
		k := 0
		for _, ret := range returnsOf(f) {
			c, isC := retResult(ret, 1).(*ssa.Const)
			if isC && c.Value != nil && c.Value.String() == "false" {
				continue
			}
			k++
			b := ret.Block()
			okWays := positive(guardsAt(b))
			// or: some join on the way here is entered only over edges on which a kind test held (`a || b` conditions)
			for d := b; d != nil && !okWays; d = d.Idom() {
				if len(d.Preds) < 2 {
					continue
				}
				all := true
				for _, pr := range d.Preds {
					if !positive(knownAtEdge(pr, d)) {
						all = false
					}
				}
				okWays = all
			}
			r.Check(okWays, "C18.R4", "partial comparison "+shortName(f)+" decides only for its kinds #"+itoa2(k), p.Pos(posOf(ret)), "decided == true only behind a kind test that held",
				"a partial comparison helper reports the question as decided on a way on which none of its kind tests held: values of every other kind (structs, slices, pointers) are declared unequal before the general comparison is reached")
		}
	}
	// (c) in a two-operand comparison each operand has its own nil test: the nil predicate is applied to (something derived
	// from) each of the two reflect.Value parameters
	for _, f := range p.FuncsIn("arg") {
		if f.Blocks == nil || len(f.Params) != 2 {
			continue
		}
		if !strings.HasSuffix(f.Params[0].Type().String(), "reflect.Value") || !strings.HasSuffix(f.Params[1].Type().String(), "reflect.Value") {
			continue
		}
		tested := map[*ssa.Parameter]int{}
		nCalls := 0
		eachInstr(f, func(i ssa.Instruction) {
			if c2, ok := i.(*ssa.Call); ok {
				if cal := staticCallee(c2.Common()); cal != nil && relPkg(cal) == "arg" && isNilPredicate(cal) && len(c2.Call.Args) == 1 {
					nCalls++
					if root := elemRoot(c2.Call.Args[0]); root != nil {
						tested[root]++
					}
				}
			}
		})
		if nCalls < 2 {
			continue
		}
		r.Check(tested[f.Params[0]] > 0 && tested[f.Params[1]] > 0, "C18.R4", "each operand of "+shortName(f)+" has its own nil test", p.Pos(f.Pos()), "the nil predicate is applied to both operands",
			"both nil tests of the comparison look at the same operand: whether the other one is nil is never asked, so Equals(nil) accepts every value (and a non-nil expectation compared with a nil argument is dereferenced and panics)")
	}
}

func blockOrdinal(i ssa.Instruction) string {
	return i.Block().Comment + "#" + itoa2(i.Block().Index)
}

func itoa2(n int) string {
	if n == 0 {
		return "0"
	}
	s := ""
	for n > 0 {
		s = string(rune('0'+n%10)) + s
		n /= 10
	}
	return s
}

// elemRoot follows phis / Elem results back to a parameter.
func elemRoot(v ssa.Value) *ssa.Parameter {
	seen := map[ssa.Value]bool{}
	for v != nil && !seen[v] {
		seen[v] = true
		switch x := v.(type) {
		case *ssa.Parameter:
			return x
		case *ssa.Phi:
			// take the parameter edge if any
			var next ssa.Value
			for _, e := range x.Edges {
				if pr, ok := e.(*ssa.Parameter); ok {
					return pr
				}
				next = e
			}
			v = next
		case *ssa.Call:
			if calleeName(x.Common()) == "(reflect.Value).Elem" {
				v = x.Call.Args[0]
			} else {
				return nil
			}
		default:
			return nil
		}
	}
	return nil
}

// isKindPredicateFn: a module function of one reflect.Value parameter returning bool whose every `return true` is under
// a test Kind() == k of its parameter.
func isKindPredicateFn(cal *ssa.Function, k int64) bool {
	if cal == nil || cal.Blocks == nil || len(cal.Params) != 1 || cal.Signature.Results().Len() != 1 || !isBool(cal.Signature.Results().At(0).Type()) {
		return false
	}
	if !strings.HasSuffix(cal.Params[0].Type().String(), "reflect.Value") {
		return false
	}
	found := false
	for _, ret := range returnsOf(cal) {
		rv := retResult(ret, 0)
		if c, ok := rv.(*ssa.Const); ok {
			if c.Value != nil && c.Value.String() == "true" {
				ks := kindsInto(ret.Block())
				if len(ks) != 1 || !ks[k] {
					return false
				}
				found = true
			}
			continue
		}
		if kk, _, ok := kindTest(rv); ok && kk == k {
			found = true
			continue
		}
		return false
	}
	return found
}


// isValueKindSetPredicate: a module function of one reflect.Value returning bool that answers true only behind kind tests of
// its parameter (a switch over kinds): isNum and the like.
func isValueKindSetPredicate(cal *ssa.Function) bool {
	if cal == nil || cal.Blocks == nil || len(cal.Params) != 1 || cal.Signature.Results().Len() != 1 || !isBool(cal.Signature.Results().At(0).Type()) {
		return false
	}
	if !strings.HasSuffix(cal.Params[0].Type().String(), "reflect.Value") {
		return false
	}
	found := false
	for _, ret := range returnsOf(cal) {
		c, ok := retResult(ret, 0).(*ssa.Const)
		if !ok {
			return false
		}
		if c.Value != nil && c.Value.String() == "true" {
			if len(kindsInto(ret.Block())) == 0 {
				return false
			}
			found = true
		}
	}
	return found
}
