package main

import (
	"reflect"
	"go/token"
	"go/types"
	"strings"

	"golang.org/x/tools/go/ssa"
)

// checkCancelledFlagOnlyByCancel: the field a mocker's Canceled() reports is true only after Cancel — every store of a
// non-false value to it lies in a method named Cancel of the same type (a constructor that starts a mocker as cancelled
// makes the builder's cache treat it as stale: the next request for the same target builds a second mocker whose
// "original" is the already-mocked state, and Reset restores that instead of the pre-mock state).
// only: restrict to receiver types for which it returns true (nil = all).
func checkCancelledFlagOnlyByCancel(p *Prog, r *Report, rule string, only func(*types.Named) bool) int {
	n := 0
	for _, f := range p.FuncsIn("") {
		if f.Blocks == nil || f.Name() != "Canceled" || f.Signature.Recv() == nil || len(f.Blocks) != 1 {
			continue
		}
		rets := returnsOf(f)
		if len(rets) != 1 || len(rets[0].Results) != 1 {
			continue
		}
		_, fld, ok := fieldRef(rets[0].Results[0])
		if !ok || fld == nil || !isBool(fld.Type()) {
			continue
		}
		nt := recvNamedOf(f)
		if nt == nil || (only != nil && !only(nt)) {
			continue
		}
		n++
		bad := ""
		for _, fs := range storesToField(p.FuncsIn(""), func(fv *types.Var, _ ssa.Value) bool { return fv == fld }) {
			if c, isC := fs.Store.Val.(*ssa.Const); isC && c.Value != nil && c.Value.String() == "false" {
				continue
			}
			if fs.Fn.Name() == "Cancel" && recvNamedOf(fs.Fn) == nt {
				continue
			}
			// a helper that only Cancel (of this type) calls
			if cs := p.callersOf(fs.Fn); len(cs) > 0 {
				only := true
				for _, c := range cs {
					if !(c.Caller.Name() == "Cancel" && recvNamedOf(c.Caller) == nt) {
						only = false
					}
				}
				if only {
					continue
				}
			}
			bad = shortName(fs.Fn) + " at " + p.Pos(posOf(fs.Store))
		}
		r.Check(bad == "", rule, "cancelled flag of "+nt.Obj().Name()+" is raised only by Cancel", p.Pos(f.Pos()), "stores of a non-false value only in Cancel",
			"the flag reported by Canceled() is set outside Cancel ("+bad+"): a mocker that was never cancelled is treated as stale by the builder's cache, a second mocker for the same target captures the mocked state as its original, and Reset does not bring back the pre-mock state")
	}
	return n
}

func recvNamedOf(f *ssa.Function) *types.Named {
	if f == nil || f.Signature.Recv() == nil {
		return nil
	}
	t := f.Signature.Recv().Type()
	if pt, ok := t.(*types.Pointer); ok {
		t = pt.Elem()
	}
	nt, _ := t.(*types.Named)
	return nt
}

// checkCreatedWhenRecorded: a mocker method that builds a When (CreateWhen) and hands it to its caller has, on every way
// to that return, stored it in the receiver's *When field — the field the installed callback consults. A When that is
// returned but not recorded is configured by the caller and never looked at by the stub.
func checkCreatedWhenRecorded(p *Prog, r *Report, rule string) int {
	n := 0
	for _, f := range p.FuncsIn("") {
		if f.Blocks == nil || f.Signature.Recv() == nil {
			continue
		}
		var created []ssa.Value
		eachInstr(f, func(i ssa.Instruction) {
			if cl, ok := i.(*ssa.Call); ok {
				if cal := staticCallee(cl.Common()); cal != nil && relPkg(cal) == "" && cal.Name() == "CreateWhen" {
					created = append(created, cl)
				}
			}
		})
		if len(created) == 0 {
			continue
		}
		fromCreated := func(v ssa.Value) bool {
			for _, a := range origins(v) {
				for _, c := range created {
					if a.V == c {
						return true
					}
					if ex, ok := a.V.(*ssa.Extract); ok && ex.Tuple == c {
						return true
					}
				}
			}
			return false
		}
		isRecord := func(i ssa.Instruction) bool {
			if ci, ok := i.(ssa.CallInstruction); ok {
				// through a helper that stores its parameter in a *When field
				cal := staticCallee(ci.Common())
				if cal == nil || cal.Blocks == nil || relPkg(cal) != "" {
					return false
				}
				for k, a := range ci.Common().Args {
					if k >= len(cal.Params) || !fromCreated(a) {
						continue
					}
					prm := cal.Params[k]
					stored := false
					eachInstr(cal, func(j ssa.Instruction) {
						if st, ok := j.(*ssa.Store); ok && st.Val == ssa.Value(prm) {
							if _, isF := st.Addr.(*ssa.FieldAddr); isF {
								stored = true
							}
						}
					})
					if stored {
						// on every normal return of the helper that reports success
						return true
					}
				}
				return false
			}
			st, ok := i.(*ssa.Store)
			if !ok {
				return false
			}
			fa, ok := st.Addr.(*ssa.FieldAddr)
			if !ok {
				return false
			}
			// a field of the receiver or of a struct embedded in it (by value or by pointer)
			base := fa.X
			for depth := 0; depth < 6 && base != ssa.Value(f.Params[0]); depth++ {
				switch x := base.(type) {
				case *ssa.FieldAddr:
					base = x.X
				case *ssa.UnOp:
					if x.Op != token.MUL {
						return false
					}
					base = x.X
				default:
					base = resolveLocal(base)
					depth += 3
				}
			}
			if base != ssa.Value(f.Params[0]) {
				return false
			}
			return fromCreated(st.Val)
		}
		k := 0
		for _, ret := range returnsOf(f) {
			if len(ret.Results) != 1 || !fromCreated(retResult(ret, 0)) {
				continue
			}
			n++
			k++
			r.Check(passedBefore(f, ret, isRecord, nil), rule, "created When recorded before "+shortName(f)+" returns it #"+itoa2(k), p.Pos(posOf(ret)), "store to the receiver's When field passed",
				"the method returns a freshly created When without recording it in the mocker: the installed callback consults the mocker's own (nil or older) When, so the conditions and results the caller configures on the returned value are never used")
		}
	}
	return n
}

// checkNamedParamsUsed: an exported configuration method of a mocker (receiver in the root package, returns a value)
// uses each of its named parameters: a setter that drops its argument configures nothing (Method(name) that does not record
// the name leaves the previous or empty name in force).
func checkNamedParamsUsed(p *Prog, r *Report, rule string) int {
	n := 0
	for _, f := range p.FuncsIn("") {
		if f.Blocks == nil || f.Signature.Recv() == nil || f.Object() == nil || !f.Object().Exported() || f.Parent() != nil {
			continue
		}
		if strings.HasSuffix(f.Name(), "$bound") || strings.HasSuffix(f.Name(), "$thunk") || f.Synthetic != "" {
			continue
		}
		for k, prm := range f.Params[1:] {
			if k >= f.Signature.Params().Len() {
				break
			}
			if nm := f.Signature.Params().At(k).Name(); nm == "" || nm == "_" {
				continue
			}
			n++
			used := prm.Referrers() != nil && len(*prm.Referrers()) > 0
			r.Check(used, rule, "parameter "+prm.Name()+" of "+shortName(f)+" is used", p.Pos(f.Pos()), "has a use",
				"an exported configuration method ignores its parameter "+prm.Name()+": the caller's choice is silently dropped")
		}
	}
	return n
}

// checkForwardUnderCancelGuards: in a MakeFunc callback of a mocker, a forward to the recorded original
// (reflect.ValueOf(field).Call) is on the non-nil side of every nil test of that field and on the true side of the
// cancelled flag: the inverted test calls through a nil value when cancelled, and keeps serving the mock otherwise.
func checkForwardUnderCancelGuards(p *Prog, r *Report, rule string) int {
	n := 0
	for _, f := range p.FuncsIn("") {
		if f.Blocks == nil || f.Signature.Recv() == nil {
			continue
		}
		eachInstr(f, func(i ssa.Instruction) {
			cl, ok := i.(*ssa.Call)
			if !ok || calleeName(cl.Common()) != "(reflect.Value).Call" {
				return
			}
			// the receiver value: reflect.ValueOf(<field of the receiver>)
			var fld *types.Var
			for _, a := range origins(cl.Call.Args[0]) {
				vc, ok := a.V.(*ssa.Call)
				if !ok || calleeName(vc.Common()) != "reflect.ValueOf" {
					continue
				}
				for _, b := range origins(vc.Call.Args[0]) {
					if _, fv, ok := fieldRef(b.V); ok && fv != nil {
						fld = fv
					}
				}
			}
			if fld == nil {
				return
			}
			tested := false
			okAll := true
			for _, g := range guardsAt(cl.Block()) {
				bo, isB := g.Cond.(*ssa.BinOp)
				if isB && (bo.Op == token.EQL || bo.Op == token.NEQ) && (isNilConst(bo.X) || isNilConst(bo.Y)) {
					x := bo.X
					if isNilConst(x) {
						x = bo.Y
					}
					hit := false
					for _, a := range origins(x) {
						if _, fv, ok := fieldRef(a.V); ok && fv == fld {
							hit = true
						}
					}
					if hit {
						tested = true
						if (bo.Op == token.NEQ) != g.Pol {
							okAll = false
						}
					}
				}
			}
			if !tested {
				return
			}
			n++
			r.Check(okAll, rule, "forward to the recorded original in "+shortName(f)+" is on its non-nil side", p.Pos(posOf(cl)), "field != nil known at the call",
				"the stub callback forwards to the recorded original on the side of the test where it is nil (and keeps serving the mock where it is not): after Cancel the call panics inside reflect or still returns mocked results")
		})
	}
	return n
}

// checkElemUnderKindBelief: a reflect Elem() call is not made where the code itself has just established that its subject
// is NOT of a kind that has an element: on every way into the call, if a test `subject.Kind() == Ptr` (or Interface, for a
// Value) is known to have failed, some other test must have established a kind that Elem() accepts. (An inverted kind
// test makes Elem() panic for exactly the values it was meant to skip, and skips the ones it was meant to unwrap.)
func checkElemUnderKindBelief(p *Prog, r *Report, rule string, inPk func(string) bool) int {
	n := 0
	elemable := map[int64]bool{int64(reflect.Ptr): true, int64(reflect.Interface): true, int64(reflect.Array): true, int64(reflect.Chan): true, int64(reflect.Map): true, int64(reflect.Slice): true}
	for _, f := range p.Funcs {
		if f.Blocks == nil || !strings.HasPrefix(pkgPathOf(f), Mod) || !inPk(relPkg(f)) {
			continue
		}
		nInF := 0
		eachInstr(f, func(i ssa.Instruction) {
			cl, ok := i.(*ssa.Call)
			if !ok {
				return
			}
			var subj ssa.Value
			switch {
			case calleeName(cl.Common()) == "(reflect.Value).Elem":
				subj = cl.Call.Args[0]
			case cl.Call.IsInvoke() && cl.Call.Method.Name() == "Elem" && strings.HasSuffix(cl.Call.Value.Type().String(), "reflect.Type"):
				subj = cl.Call.Value
			default:
				return
			}
			subj = resolveLocal(subj)
			isKindOfSubj := func(v ssa.Value) bool {
				kc, ok := resolveLocal(v).(*ssa.Call)
				if !ok {
					return false
				}
				if calleeName(kc.Common()) == "(reflect.Value).Kind" {
					return resolveLocal(kc.Call.Args[0]) == subj
				}
				if kc.Call.IsInvoke() && kc.Call.Method.Name() == "Kind" {
					return resolveLocal(kc.Call.Value) == subj
				}
				return false
			}
			var ways [][]Guard
			if b := cl.Block(); len(b.Preds) > 1 {
				for _, pr := range b.Preds {
					ways = append(ways, knownAtEdge(pr, b))
				}
			} else {
				ways = append(ways, guardsAt(b))
			}
			tested := false
			bad := false
			for _, gs := range ways {
				refuted, established := false, false
				for _, g := range gs {
					bo, ok := g.Cond.(*ssa.BinOp)
					if !ok || (bo.Op != token.EQL && bo.Op != token.NEQ) {
						continue
					}
					x, y := bo.X, bo.Y
					if _, isC := x.(*ssa.Const); isC {
						x, y = y, x
					}
					kc, isC := constInt(y)
					if !isC || !isKindOfSubj(x) || !elemable[kc] {
						continue
					}
					tested = true
					if (bo.Op == token.EQL) == g.Pol {
						established = true
					} else {
						refuted = true
					}
				}
				if refuted && !established {
					bad = true
				}
			}
			if !tested {
				return
			}
			n++
			nInF++
			r.Check(!bad, rule, "Elem() agrees with the kind test before it in "+shortName(f)+" #"+itoa2(nInF), p.Pos(posOf(cl)), "no way into Elem() on which the element-bearing kind was just ruled out",
				"Elem() is called on a way on which the code has just established that the subject is not of a pointer/interface (element-bearing) kind: the kind test is inverted — Elem() panics for the values it was meant to leave alone and the ones it was meant to unwrap are left wrapped")
		})
	}
	return n
}
