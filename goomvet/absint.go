package main

import (
	"fmt"
	"go/constant"
	"go/token"
	"go/types"
	"math/big"
	"sort"
	"strings"

	"golang.org/x/tools/go/ssa"
)

// Abstract interpreter for straight-line byte-emitting code (no loops; branches are enumerated as paths).
// Integer domain: either a bit vector (each bit 0, 1, a named input bit, or unknown) or a linear form
// a·x + b·y + c (mod 2^W) over the two symbolic inputs, optionally shifted right (for lane extraction).

type bitKind uint8

const (
	bZero bitKind = iota
	bOne
	bSym
	bTop
)

type Bit struct {
	K   bitKind
	Var string
	Idx int
}

// Lin is cf·from + ct·to + c (mod 2^W); variable names are kept generic (X, Y).
type Lin struct {
	W    int
	Coef map[string]int64 // variable → coefficient (mod 2^W, kept small: -1,0,1 typically)
	C    uint64
}

func (l *Lin) norm() {
	mask := uint64(1)<<uint(l.W) - 1
	if l.W == 64 {
		mask = ^uint64(0)
	}
	l.C &= mask
	for k, v := range l.Coef {
		if v == 0 {
			delete(l.Coef, k)
		}
	}
}

func (l *Lin) String() string {
	var ks []string
	for k := range l.Coef {
		ks = append(ks, k)
	}
	sort.Strings(ks)
	s := ""
	for _, k := range ks {
		s += fmt.Sprintf("%+d·%s ", l.Coef[k], k)
	}
	return fmt.Sprintf("%s%+d (mod 2^%d)", s, int64(l.C), l.W)
}

func linEqual(a, b *Lin) bool {
	if a == nil || b == nil || a.W != b.W || a.C != b.C || len(a.Coef) != len(b.Coef) {
		return false
	}
	for k, v := range a.Coef {
		if b.Coef[k] != v {
			return false
		}
	}
	return true
}

// AInt is an abstract integer of width W.
type AInt struct {
	W      int
	Signed bool
	Bits   []Bit // len W when HasBits
	Lin    *Lin  // when non-nil, value>>Sh … only meaningful through lane extraction
	Sh     int
}

func (a *AInt) hasBits() bool { return a.Bits != nil }

func constAInt(v uint64, w int, signed bool) *AInt {
	a := &AInt{W: w, Signed: signed, Bits: make([]Bit, w)}
	for i := 0; i < w; i++ {
		if v>>uint(i)&1 == 1 {
			a.Bits[i] = Bit{K: bOne}
		}
	}
	a.Lin = &Lin{W: w, Coef: map[string]int64{}, C: v}
	a.Lin.norm()
	return a
}

func symAInt(name string, w int) *AInt {
	a := &AInt{W: w, Bits: make([]Bit, w)}
	for i := 0; i < w; i++ {
		a.Bits[i] = Bit{K: bSym, Var: name, Idx: i}
	}
	a.Lin = &Lin{W: w, Coef: map[string]int64{name: 1}}
	return a
}

func topAInt(w int) *AInt {
	a := &AInt{W: w, Bits: make([]Bit, w)}
	for i := range a.Bits {
		a.Bits[i] = Bit{K: bTop}
	}
	return a
}

func (a *AInt) constVal() (uint64, bool) {
	if !a.hasBits() {
		return 0, false
	}
	var v uint64
	for i, b := range a.Bits {
		switch b.K {
		case bOne:
			v |= 1 << uint(i)
		case bZero:
		default:
			return 0, false
		}
	}
	return v, true
}

// AByte is one emitted byte.
type AByte struct {
	Bits [8]Bit
	Lin  *Lin // if set: this byte is bits [Lo, Lo+8) of Lin
	Lo   int
}

func (b AByte) constVal() (byte, bool) {
	if b.Lin != nil {
		if len(b.Lin.Coef) == 0 {
			return byte(b.Lin.C >> uint(b.Lo)), true
		}
		return 0, false
	}
	var v byte
	for i, x := range b.Bits {
		switch x.K {
		case bOne:
			v |= 1 << uint(i)
		case bZero:
		default:
			return 0, false
		}
	}
	return v, true
}

// laneOf: is the byte exactly bits [8k, 8k+8) of variable name?
func (b AByte) laneOf(name string) (int, bool) {
	if b.Lin != nil {
		if len(b.Lin.Coef) == 1 && b.Lin.Coef[name] == 1 && b.Lin.C == 0 && b.Lo%8 == 0 {
			return b.Lo / 8, true
		}
		return 0, false
	}
	if b.Bits[0].K != bSym || b.Bits[0].Var != name || b.Bits[0].Idx%8 != 0 {
		return 0, false
	}
	for i := 1; i < 8; i++ {
		if b.Bits[i].K != bSym || b.Bits[i].Var != name || b.Bits[i].Idx != b.Bits[0].Idx+i {
			return 0, false
		}
	}
	return b.Bits[0].Idx / 8, true
}

func (b AByte) String() string {
	if v, ok := b.constVal(); ok {
		return fmt.Sprintf("%02X", v)
	}
	if b.Lin != nil {
		return fmt.Sprintf("(%s)[%d:%d]", b.Lin, b.Lo, b.Lo+8)
	}
	if b.Bits[0].K == bSym {
		if k, ok := b.laneOf(b.Bits[0].Var); ok {
			return fmt.Sprintf("%s⟨%d⟩", b.Bits[0].Var, k)
		}
	}
	s := ""
	for i := 7; i >= 0; i-- {
		switch b.Bits[i].K {
		case bZero:
			s += "0"
		case bOne:
			s += "1"
		case bSym:
			s += fmt.Sprintf("{%s%d}", b.Bits[i].Var, b.Bits[i].Idx)
		default:
			s += "?"
		}
	}
	return s
}

// byteOf extracts the low byte of an abstract int.
func byteOf(a *AInt) AByte {
	var out AByte
	if a.hasBits() {
		for i := 0; i < 8 && i < a.W; i++ {
			out.Bits[i] = a.Bits[i]
		}
		allTop := true
		for i := 0; i < 8; i++ {
			if out.Bits[i].K != bTop {
				allTop = false
			}
		}
		if !allTop || a.Lin == nil {
			return out
		}
	}
	if a.Lin != nil {
		out.Lin, out.Lo = a.Lin, a.Sh
		return out
	}
	for i := range out.Bits {
		out.Bits[i] = Bit{K: bTop}
	}
	return out
}

// ---- memory / values

type backing struct{ b []AByte }

type ASlice struct {
	bk       *backing
	off, len int
	cap      int
}

type APtr struct {
	bk  *backing
	off int
	w   int // element width in bytes
}

// AAgg is an array or struct value (elements / fields in order); ARef points at one slot of an aggregate (a variable of
// aggregate type is the single slot of a holder).
type AAgg struct{ elems []aval }

type ARef struct {
	agg *AAgg
	idx int
}

func (a *AAgg) deepCopy() *AAgg {
	n := &AAgg{elems: make([]aval, len(a.elems))}
	for i, e := range a.elems {
		if sub, ok := e.(*AAgg); ok {
			n.elems[i] = sub.deepCopy()
		} else {
			n.elems[i] = e
		}
	}
	return n
}

// zeroOf builds the zero value of an aggregate or integer type (nil for anything else).
func zeroOf(t types.Type) aval {
	switch u := t.Underlying().(type) {
	case *types.Array:
		if u.Len() > 4096 {
			return nil
		}
		a := &AAgg{elems: make([]aval, u.Len())}
		for i := range a.elems {
			a.elems[i] = zeroOf(u.Elem())
		}
		return a
	case *types.Struct:
		a := &AAgg{elems: make([]aval, u.NumFields())}
		for i := range a.elems {
			a.elems[i] = zeroOf(u.Field(i).Type())
		}
		return a
	case *types.Basic:
		if w, signed := typeWidth(u); w > 0 {
			return constAInt(0, w, signed)
		}
		if u.Kind() == types.Bool {
			return ABool{Known: true, Val: false}
		}
	}
	return nil
}

type ABool struct {
	Known bool
	Val   bool
	Atom  string    // opaque description
	Src   ssa.Value // originating SSA value
}

type aval interface{}

type pathCond struct {
	Cond ssa.Value
	Pol  bool
	Atom string
}

type emitResult struct {
	Conds []pathCond
	Bytes []AByte
	Err   string
}

type absState struct {
	env   map[ssa.Value]aval
	mem   map[*ssa.Alloc]*backing
	aggs  map[*ssa.Alloc]*AAgg // holder (one slot) of a local array/struct variable
	conds []pathCond
}

func (s *absState) clone() *absState {
	n := &absState{env: map[ssa.Value]aval{}, mem: map[*ssa.Alloc]*backing{}, aggs: map[*ssa.Alloc]*AAgg{}}
	aggRemap := map[*AAgg]*AAgg{}
	var cpAgg func(a *AAgg) *AAgg
	cpAgg = func(a *AAgg) *AAgg {
		if a == nil {
			return nil
		}
		if x, ok := aggRemap[a]; ok {
			return x
		}
		x := &AAgg{elems: make([]aval, len(a.elems))}
		aggRemap[a] = x
		for i, e := range a.elems {
			if sub, ok := e.(*AAgg); ok {
				x.elems[i] = cpAgg(sub)
			} else {
				x.elems[i] = e
			}
		}
		return x
	}
	for k, v := range s.aggs {
		n.aggs[k] = cpAgg(v)
	}
	remap := map[*backing]*backing{}
	cp := func(b *backing) *backing {
		if b == nil {
			return nil
		}
		if x, ok := remap[b]; ok {
			return x
		}
		x := &backing{b: append([]AByte(nil), b.b...)}
		remap[b] = x
		return x
	}
	for k, v := range s.mem {
		n.mem[k] = cp(v)
	}
	for k, v := range s.env {
		switch x := v.(type) {
		case ASlice:
			x.bk = cp(x.bk)
			n.env[k] = x
		case APtr:
			x.bk = cp(x.bk)
			n.env[k] = x
		case ARef:
			x.agg = cpAgg(x.agg)
			n.env[k] = x
		case *AAgg:
			n.env[k] = cpAgg(x)
		default:
			n.env[k] = v
		}
	}
	n.conds = append([]pathCond(nil), s.conds...)
	return n
}

type absInterp struct {
	results []emitResult
	depth   int
	budget  int
	procErr string // a called procedure could not be evaluated: the emitted bytes are not trustworthy
}

func typeWidth(t types.Type) (int, bool) {
	b, ok := t.Underlying().(*types.Basic)
	if !ok {
		return 0, false
	}
	switch b.Kind() {
	case types.Int8:
		return 8, true
	case types.Uint8:
		return 8, false
	case types.Int16:
		return 16, true
	case types.Uint16:
		return 16, false
	case types.Int32:
		return 32, true
	case types.Uint32:
		return 32, false
	case types.Int64, types.Int:
		return 64, true
	case types.Uint64, types.Uint, types.Uintptr:
		return 64, false
	case types.UntypedInt:
		return 64, true
	}
	return 0, false
}

// evalFunc abstractly runs fn with the given argument values; returns per-path results (bytes or other value).
type pathOut struct {
	conds []pathCond
	val   aval
	err   string
}

func (ai *absInterp) evalFunc(fn *ssa.Function, args []aval, conds []pathCond) []pathOut {
	if ai.depth > 6 {
		return []pathOut{{conds: conds, err: "inlining depth exceeded at " + fn.Name()}}
	}
	ai.depth++
	defer func() { ai.depth-- }()
	st := &absState{env: map[ssa.Value]aval{}, mem: map[*ssa.Alloc]*backing{}, aggs: map[*ssa.Alloc]*AAgg{}, conds: append([]pathCond(nil), conds...)}
	for i, p := range fn.Params {
		if i < len(args) {
			st.env[p] = args[i]
		}
	}
	var outs []pathOut
	ai.runBlock(fn, fn.Blocks[0], nil, st, &outs, map[*ssa.BasicBlock]int{})
	return outs
}

func (ai *absInterp) runBlock(fn *ssa.Function, b, from *ssa.BasicBlock, st *absState, outs *[]pathOut, visits map[*ssa.BasicBlock]int) {
	ai.budget++
	if ai.budget > 20000 {
		*outs = append(*outs, pathOut{conds: st.conds, err: "path budget exceeded"})
		return
	}
	if visits[b] > 64 {
		*outs = append(*outs, pathOut{conds: st.conds, err: "loop in emitter " + fn.Name() + " does not terminate within 64 iterations under abstract evaluation"})
		return
	}
	visits[b]++
	defer func() { visits[b]-- }()
	for _, ins := range b.Instrs {
		switch x := ins.(type) {
		case *ssa.Phi:
			for i, p := range b.Preds {
				if p == from {
					st.env[x] = ai.val(st, x.Edges[i])
				}
			}
		case *ssa.If:
			c := ai.val(st, x.Cond)
			if ab, ok := c.(ABool); ok && ab.Known {
				if ab.Val {
					ai.runBlock(fn, b.Succs[0], b, st, outs, visits)
				} else {
					ai.runBlock(fn, b.Succs[1], b, st, outs, visits)
				}
				return
			}
			atom := ""
			if ab, ok := c.(ABool); ok {
				atom = ab.Atom
			}
			if visits[b] > 1 {
				*outs = append(*outs, pathOut{conds: st.conds, err: "loop in emitter " + fn.Name() + " whose condition depends on symbolic input"})
				return
			}
			s1 := st.clone()
			s1.conds = append(s1.conds, pathCond{x.Cond, true, atom})
			ai.runBlock(fn, b.Succs[0], b, s1, outs, visits)
			s2 := st.clone()
			s2.conds = append(s2.conds, pathCond{x.Cond, false, atom})
			ai.runBlock(fn, b.Succs[1], b, s2, outs, visits)
			return
		case *ssa.Jump:
			ai.runBlock(fn, b.Succs[0], b, st, outs, visits)
			return
		case *ssa.Return:
			var v aval
			if len(x.Results) >= 1 {
				v = ai.val(st, x.Results[0])
			}
			*outs = append(*outs, pathOut{conds: st.conds, val: v})
			return
		case *ssa.Panic:
			*outs = append(*outs, pathOut{conds: st.conds, err: "panic"})
			return
		case *ssa.Store:
			ai.store(st, x)
		case *ssa.DebugRef:
		case ssa.Value:
			if cl, ok := ins.(*ssa.Call); ok {
				// copy(dst, src): min(len) elements of the source's backing are written into the destination's
				if bi, isB := cl.Call.Value.(*ssa.Builtin); isB && bi.Name() == "copy" && len(cl.Call.Args) == 2 {
					d, ok1 := ai.val(st, cl.Call.Args[0]).(ASlice)
					sv, ok2 := ai.val(st, cl.Call.Args[1]).(ASlice)
					if ok1 && ok2 && d.bk != nil && sv.bk != nil {
						n := d.len
						if sv.len < n {
							n = sv.len
						}
						tmp := append([]AByte(nil), sv.bk.b[sv.off:sv.off+n]...)
						copy(d.bk.b[d.off:d.off+n], tmp)
						st.env[cl] = constAInt(uint64(n), 64, true)
						continue
					}
				}
				if cal := staticCallee(cl.Common()); cal != nil && cal.Blocks != nil && (strings.HasPrefix(pkgPathOf(cal), Mod) || pkgPathOf(cal) == "encoding/binary") {
					var args []aval
					for _, a := range cl.Call.Args {
						args = append(args, ai.val(st, a))
					}
					res := ai.evalFunc(cal, args, nil)
					if cal.Signature.Results().Len() == 0 {
						// a procedure: its effect is what it stored through the slices/pointers it was given
						if len(res) == 1 && res[0].err == "" {
							continue
						}
						msg := fmt.Sprintf("procedure %s has %d paths", cal.Name(), len(res))
						for _, r0 := range res {
							if r0.err != "" {
								msg = "procedure " + cal.Name() + ": " + r0.err
							}
						}
						st.env[cl] = fmt.Errorf("%s", msg)
						ai.procErr = msg
						continue
					}
					// bool-returning helpers stay opaque atoms (their truth set is analysed separately)
					if isBool(cal.Signature.Results().At(0).Type()) {
						st.env[cl] = ABool{Atom: "call " + cal.Name(), Src: cl}
						continue
					}
					if len(res) == 1 && res[0].err == "" {
						st.env[cl] = res[0].val
						continue
					}
					st.env[cl] = fmt.Errorf("callee %s has %d paths", cal.Name(), len(res))
					continue
				}
			}
			st.env[x] = ai.compute(st, x)
		}
	}
}

func (ai *absInterp) store(st *absState, x *ssa.Store) {
	addr := ai.val(st, x.Addr)
	if rf, isRef := addr.(ARef); isRef && rf.agg != nil && rf.idx < len(rf.agg.elems) {
		v := ai.val(st, x.Val)
		if sub, isAgg := v.(*AAgg); isAgg {
			v = sub.deepCopy()
		}
		rf.agg.elems[rf.idx] = v
		return
	}
	p, ok := addr.(APtr)
	if !ok || p.bk == nil {
		return
	}
	v := ai.val(st, x.Val)
	switch p.w {
	case 1:
		if a, ok := v.(*AInt); ok && p.off < len(p.bk.b) {
			p.bk.b[p.off] = byteOf(a)
		}
	default:
		a, ok := v.(*AInt)
		if !ok {
			return
		}
		for k := 0; k < p.w && p.off+k < len(p.bk.b); k++ { // little endian
			sh := shiftRight(a, 8*k)
			p.bk.b[p.off+k] = byteOf(sh)
		}
	}
}

func shiftRight(a *AInt, n int) *AInt {
	out := &AInt{W: a.W, Signed: a.Signed}
	if a.hasBits() {
		out.Bits = make([]Bit, a.W)
		for i := 0; i < a.W; i++ {
			if i+n < a.W {
				out.Bits[i] = a.Bits[i+n]
			} else if a.Signed {
				out.Bits[i] = a.Bits[a.W-1]
			}
		}
	}
	if a.Lin != nil && !a.Signed {
		out.Lin, out.Sh = a.Lin, a.Sh+n
	} else if a.Lin != nil && a.Signed {
		// arithmetic shift of a linear form: lanes below W stay valid for extraction
		out.Lin, out.Sh = a.Lin, a.Sh+n
	}
	if n == 0 {
		out.Lin, out.Sh = a.Lin, a.Sh
	}
	return out
}

func shiftLeft(a *AInt, n int) *AInt {
	out := &AInt{W: a.W, Signed: a.Signed}
	if a.hasBits() {
		out.Bits = make([]Bit, a.W)
		for i := a.W - 1; i >= 0; i-- {
			if i-n >= 0 {
				out.Bits[i] = a.Bits[i-n]
			}
		}
	}
	return out
}

func (ai *absInterp) val(st *absState, v ssa.Value) aval {
	if x, ok := st.env[v]; ok {
		return x
	}
	switch c := v.(type) {
	case *ssa.Const:
		if c.Value == nil {
			// the nil slice of bytes is an empty byte template
			if sl, ok := c.Type().Underlying().(*types.Slice); ok {
				if ew, _ := typeWidth(sl.Elem()); ew == 8 {
					return ASlice{bk: &backing{}, off: 0, len: 0, cap: 0}
				}
			}
			return nil
		}
		if c.Value.Kind() == constant.Bool {
			return ABool{Known: true, Val: constant.BoolVal(c.Value)}
		}
		if w, signed := typeWidth(c.Type()); w > 0 && c.Value.Kind() == constant.Int {
			if u, ok := constant.Uint64Val(c.Value); ok {
				return constAInt(u, w, signed)
			}
			if i, ok := constant.Int64Val(c.Value); ok {
				return constAInt(uint64(i), w, signed)
			}
		}
	case *ssa.Global:
		// a package-level table (array / struct of integers) that only its initialiser writes
		if agg := constAggregate(c); agg != nil {
			holder := &AAgg{elems: []aval{agg.deepCopy()}}
			rf := ARef{agg: holder, idx: 0}
			st.env[v] = rf
			return rf
		}
		// a package-level byte array that is written only by its initialiser: a constant table
		if bk := constByteArray(c); bk != nil {
			cp := &backing{b: append([]AByte(nil), bk.b...)}
			p := APtr{bk: cp, off: 0, w: 0}
			st.env[v] = p
			return p
		}
	case *ssa.Alloc:
		// array allocation
		if pt, ok := c.Type().Underlying().(*types.Pointer); ok {
			isByteArr := false
			if at, ok := pt.Elem().Underlying().(*types.Array); ok {
				if ew, _ := typeWidth(at.Elem()); ew == 8 {
					isByteArr = true
				}
			}
			if !isByteArr {
				switch pt.Elem().Underlying().(type) {
				case *types.Array, *types.Struct:
					h := st.aggs[c]
					if h == nil {
						z := zeroOf(pt.Elem())
						if z == nil {
							break
						}
						h = &AAgg{elems: []aval{z}}
						st.aggs[c] = h
					}
					rf := ARef{agg: h, idx: 0}
					st.env[v] = rf
					return rf
				}
			}
			if at, ok := pt.Elem().Underlying().(*types.Array); ok {
				ew, _ := typeWidth(at.Elem())
				if ew == 8 {
					bk := st.mem[c]
					if bk == nil {
						bk = &backing{b: make([]AByte, at.Len())}
						st.mem[c] = bk
					}
					p := APtr{bk: bk, off: 0, w: 0}
					st.env[v] = p
					return p
				}
			}
		}
	}
	return nil
}

func (ai *absInterp) compute(st *absState, v ssa.Value) aval {
	switch x := v.(type) {
	case *ssa.Alloc:
		return ai.val(st, x)
	case *ssa.MakeSlice:
		ln, _ := ai.val(st, x.Len).(*AInt)
		cp, _ := ai.val(st, x.Cap).(*AInt)
		if ln == nil || cp == nil {
			return nil
		}
		l, ok1 := ln.constVal()
		c, ok2 := cp.constVal()
		if !ok1 || !ok2 {
			return nil
		}
		bk := &backing{b: make([]AByte, c)}
		return ASlice{bk: bk, off: 0, len: int(l), cap: int(c)}
	case *ssa.Slice:
		base := ai.val(st, x.X)
		lo, hi := 0, -1
		if x.Low != nil {
			if a, ok := ai.val(st, x.Low).(*AInt); ok {
				if c, ok := a.constVal(); ok {
					lo = int(c)
				}
			}
		}
		if x.High != nil {
			if a, ok := ai.val(st, x.High).(*AInt); ok {
				if c, ok := a.constVal(); ok {
					hi = int(c)
				}
			}
		}
		switch b := base.(type) {
		case APtr: // pointer to array
			if hi < 0 {
				hi = len(b.bk.b)
			}
			return ASlice{bk: b.bk, off: b.off + lo, len: hi - lo, cap: len(b.bk.b) - lo}
		case ASlice:
			if hi < 0 {
				hi = b.len
			}
			return ASlice{bk: b.bk, off: b.off + lo, len: hi - lo, cap: b.cap - lo}
		}
		return nil
	case *ssa.FieldAddr:
		if rf, ok := ai.val(st, x.X).(ARef); ok && rf.agg != nil && rf.idx < len(rf.agg.elems) {
			if sub, ok := rf.agg.elems[rf.idx].(*AAgg); ok && x.Field < len(sub.elems) {
				return ARef{agg: sub, idx: x.Field}
			}
		}
		return nil
	case *ssa.Field:
		if sub, ok := ai.val(st, x.X).(*AAgg); ok && x.Field < len(sub.elems) {
			return sub.elems[x.Field]
		}
		return nil
	case *ssa.Index:
		if sub, ok := ai.val(st, x.X).(*AAgg); ok {
			if idx, _ := ai.val(st, x.Index).(*AInt); idx != nil {
				if i, ok := idx.constVal(); ok && int(i) < len(sub.elems) {
					return sub.elems[i]
				}
			}
		}
		return nil
	case *ssa.IndexAddr:
		base := ai.val(st, x.X)
		idx, _ := ai.val(st, x.Index).(*AInt)
		if idx == nil {
			return nil
		}
		i, ok := idx.constVal()
		if !ok {
			return nil
		}
		if rf, isRef := base.(ARef); isRef && rf.agg != nil && rf.idx < len(rf.agg.elems) {
			if sub, ok := rf.agg.elems[rf.idx].(*AAgg); ok && int(i) < len(sub.elems) {
				return ARef{agg: sub, idx: int(i)}
			}
			return nil
		}
		switch b := base.(type) {
		case APtr:
			return APtr{bk: b.bk, off: b.off + int(i), w: 1}
		case ASlice:
			if int(i) >= b.len {
				// indexing a slice past its length panics, also where the element is not used (`_ = b[8]`)
				ai.procErr = fmt.Sprintf("index %d out of range of a slice of length %d in %s", i, b.len, x.Parent().Name())
				return nil
			}
			return APtr{bk: b.bk, off: b.off + int(i), w: 1}
		}
		return nil
	case *ssa.Convert:
		src := ai.val(st, x.X)
		// pointer casts: *byte → unsafe.Pointer → *uint32
		if p, ok := src.(APtr); ok {
			if pt, ok := x.Type().Underlying().(*types.Pointer); ok {
				if w, _ := typeWidth(pt.Elem()); w > 0 {
					p.w = w / 8
				}
			}
			return p
		}
		a, ok := src.(*AInt)
		if !ok {
			return nil
		}
		w, signed := typeWidth(x.Type())
		if w == 0 {
			return nil
		}
		return convertInt(a, w, signed)
	case *ssa.ChangeType:
		return ai.val(st, x.X)
	case *ssa.UnOp:
		switch x.Op {
		case token.SUB:
			a, ok := ai.val(st, x.X).(*AInt)
			if !ok {
				return nil
			}
			return linArith(constAInt(0, a.W, a.Signed), a, token.SUB)
		case token.NOT:
			if b, ok := ai.val(st, x.X).(ABool); ok {
				if b.Known {
					return ABool{Known: true, Val: !b.Val}
				}
				return ABool{Atom: "!" + b.Atom, Src: x}
			}
		case token.MUL:
			// a package-level byte-slice template that only its initialiser writes and nobody modifies
			if g, isG := x.X.(*ssa.Global); isG {
				if bk := constByteSlice(g); bk != nil {
					cp := &backing{b: append([]AByte(nil), bk.b...)}
					return ASlice{bk: cp, off: 0, len: len(cp.b), cap: len(cp.b)}
				}
			}
			if rf, ok := ai.val(st, x.X).(ARef); ok && rf.agg != nil && rf.idx < len(rf.agg.elems) {
				e := rf.agg.elems[rf.idx]
				if sub, isAgg := e.(*AAgg); isAgg {
					return sub.deepCopy()
				}
				return e
			}
			// load through a byte pointer
			if p, ok := ai.val(st, x.X).(APtr); ok && p.w == 1 && p.off < len(p.bk.b) {
				b := p.bk.b[p.off]
				out := &AInt{W: 8, Bits: make([]Bit, 8)}
				copy(out.Bits, b.Bits[:])
				return out
			}
		}
		return nil
	case *ssa.BinOp:
		l, r := ai.val(st, x.X), ai.val(st, x.Y)
		la, lok := l.(*AInt)
		ra, rok := r.(*AInt)
		switch x.Op {
		case token.SHR, token.SHL:
			if lok && rok {
				if n, ok := ra.constVal(); ok {
					if x.Op == token.SHR {
						return shiftRight(la, int(n))
					}
					return shiftLeft(la, int(n))
				}
			}
			return nil
		case token.AND, token.OR, token.XOR, token.AND_NOT:
			if lok && rok && la.hasBits() && ra.hasBits() {
				return bitwise(la, ra, x.Op)
			}
			return nil
		case token.ADD, token.SUB:
			if lok && rok {
				return linArith(la, ra, x.Op)
			}
			return nil
		case token.MUL, token.QUO, token.REM:
			if lok && rok {
				if a, ok1 := la.constVal(); ok1 {
					if b, ok2 := ra.constVal(); ok2 {
						switch x.Op {
						case token.MUL:
							return constAInt(a*b, la.W, la.Signed)
						case token.QUO:
							if b != 0 {
								return constAInt(a/b, la.W, la.Signed)
							}
						case token.REM:
							if b != 0 {
								return constAInt(a%b, la.W, la.Signed)
							}
						}
					}
				}
				return topAInt(la.W)
			}
			return nil
		case token.LSS, token.LEQ, token.GTR, token.GEQ, token.EQL, token.NEQ:
			if lok && rok {
				if a, ok1 := la.constVal(); ok1 {
					if b, ok2 := ra.constVal(); ok2 {
						return ABool{Known: true, Val: cmpConst(a, b, la.W, la.Signed, x.Op)}
					}
				}
			}
			return ABool{Atom: x.String(), Src: x}
		}
		return nil
	case *ssa.Call:
		if bi, ok := x.Call.Value.(*ssa.Builtin); ok {
			switch bi.Name() {
			case "append":
				s, ok1 := ai.val(st, x.Call.Args[0]).(ASlice)
				t, ok2 := ai.val(st, x.Call.Args[1]).(ASlice)
				if !ok1 || !ok2 {
					return nil
				}
				nb := &backing{}
				nb.b = append(nb.b, s.bk.b[s.off:s.off+s.len]...)
				nb.b = append(nb.b, t.bk.b[t.off:t.off+t.len]...)
				return ASlice{bk: nb, off: 0, len: len(nb.b), cap: len(nb.b)}
			case "len":
				if s, ok := ai.val(st, x.Call.Args[0]).(ASlice); ok {
					return constAInt(uint64(s.len), 64, true)
				}
			}
		}
		if cn := calleeName(x.Common()); cn == "unsafe.Sizeof" {
			return nil
		}
		return nil
	}
	return nil
}

func cmpConst(a, b uint64, w int, signed bool, op token.Token) bool {
	if signed {
		sa, sb := int64(a<<(64-uint(w)))>>(64-uint(w)), int64(b<<(64-uint(w)))>>(64-uint(w))
		switch op {
		case token.LSS:
			return sa < sb
		case token.LEQ:
			return sa <= sb
		case token.GTR:
			return sa > sb
		case token.GEQ:
			return sa >= sb
		}
	}
	switch op {
	case token.LSS:
		return a < b
	case token.LEQ:
		return a <= b
	case token.GTR:
		return a > b
	case token.GEQ:
		return a >= b
	case token.EQL:
		return a == b
	case token.NEQ:
		return a != b
	}
	return false
}

func convertInt(a *AInt, w int, signed bool) *AInt {
	out := &AInt{W: w, Signed: signed}
	if a.hasBits() {
		out.Bits = make([]Bit, w)
		for i := 0; i < w; i++ {
			if i < a.W {
				out.Bits[i] = a.Bits[i]
			} else if a.Signed {
				out.Bits[i] = a.Bits[a.W-1]
			}
		}
	}
	if a.Lin != nil && w == 8 && a.Lin.W >= 8 {
		// byte extraction keeps the wide linear form: the byte is lane [Sh, Sh+8) of it
		out.Lin, out.Sh = a.Lin, a.Sh
	} else if a.Lin != nil && a.Sh == 0 {
		if w <= a.W {
			l := &Lin{W: w, Coef: map[string]int64{}, C: a.Lin.C}
			for k, v := range a.Lin.Coef {
				l.Coef[k] = v
			}
			l.norm()
			out.Lin = l
		} else if len(a.Lin.Coef) == 0 {
			// widening a constant
			if c, ok := out.constVal(); ok {
				out.Lin = &Lin{W: w, Coef: map[string]int64{}, C: c}
			}
		}
		// widening a symbolic linear form is not linear: dropped (bits may still be known)
	} else if a.Lin != nil && a.Sh > 0 && w <= 8 {
		out.Lin, out.Sh = a.Lin, a.Sh
	}
	return out
}

func bitwise(a, b *AInt, op token.Token) *AInt {
	out := &AInt{W: a.W, Signed: a.Signed, Bits: make([]Bit, a.W)}
	for i := 0; i < a.W; i++ {
		x, y := a.Bits[i], Bit{}
		if i < len(b.Bits) {
			y = b.Bits[i]
		}
		if op == token.AND_NOT {
			switch y.K {
			case bZero:
				y = Bit{K: bOne}
			case bOne:
				y = Bit{K: bZero}
			default:
				y = Bit{K: bTop}
			}
		}
		switch op {
		case token.AND, token.AND_NOT:
			switch {
			case x.K == bZero || y.K == bZero:
				out.Bits[i] = Bit{K: bZero}
			case x.K == bOne:
				out.Bits[i] = y
			case y.K == bOne:
				out.Bits[i] = x
			case x == y:
				out.Bits[i] = x
			default:
				out.Bits[i] = Bit{K: bTop}
			}
		case token.OR:
			switch {
			case x.K == bOne || y.K == bOne:
				out.Bits[i] = Bit{K: bOne}
			case x.K == bZero:
				out.Bits[i] = y
			case y.K == bZero:
				out.Bits[i] = x
			case x == y:
				out.Bits[i] = x
			default:
				out.Bits[i] = Bit{K: bTop}
			}
		case token.XOR:
			switch {
			case x.K == bZero:
				out.Bits[i] = y
			case y.K == bZero:
				out.Bits[i] = x
			case x.K == bOne && y.K == bOne:
				out.Bits[i] = Bit{K: bZero}
			default:
				out.Bits[i] = Bit{K: bTop}
			}
		}
	}
	return out
}

func linArith(a, b *AInt, op token.Token) *AInt {
	out := &AInt{W: a.W, Signed: a.Signed}
	if ca, ok := a.constVal(); ok {
		if cb, ok := b.constVal(); ok {
			if op == token.ADD {
				return constAInt(ca+cb, a.W, a.Signed)
			}
			return constAInt(ca-cb, a.W, a.Signed)
		}
	}
	if a.Lin == nil || b.Lin == nil || a.Sh != 0 || b.Sh != 0 || a.Lin.W != a.W || b.Lin.W != b.W || a.W != b.W {
		return topAInt(a.W)
	}
	l := &Lin{W: a.W, Coef: map[string]int64{}}
	for k, v := range a.Lin.Coef {
		l.Coef[k] = v
	}
	if op == token.ADD {
		for k, v := range b.Lin.Coef {
			l.Coef[k] += v
		}
		l.C = a.Lin.C + b.Lin.C
	} else {
		for k, v := range b.Lin.Coef {
			l.Coef[k] -= v
		}
		l.C = a.Lin.C - b.Lin.C
	}
	l.norm()
	out.Lin = l
	return out
}

// emit runs an emitter function symbolically: params named by their own names; returns one result per path.
func emit(fn *ssa.Function) []emitResult {
	ai := &absInterp{}
	var args []aval
	for _, p := range fn.Params {
		name := p.Name()
		if name == "_" {
			name = fmt.Sprintf("_%d", len(args))
		}
		if w, _ := typeWidth(p.Type()); w > 0 {
			args = append(args, symAInt(name, w))
		} else {
			args = append(args, nil)
		}
	}
	var out []emitResult
	for _, po := range ai.evalFunc(fn, args, nil) {
		er := emitResult{Conds: po.conds, Err: po.err}
		if s, ok := po.val.(ASlice); ok {
			er.Bytes = append(er.Bytes, s.bk.b[s.off:s.off+s.len]...)
		} else if po.err == "" {
			er.Err = fmt.Sprintf("result is not a byte slice (%T)", po.val)
		}
		if er.Err == "" && ai.procErr != "" {
			er.Err = ai.procErr
		}
		out = append(out, er)
	}
	return out
}

func bytesString(bs []AByte) string {
	var s []string
	for _, b := range bs {
		s = append(s, b.String())
	}
	return strings.Join(s, " ")
}

// ---- wrapped interval sets over int64 (for the relative() guard)

type ival struct{ lo, hi *big.Int } // inclusive, lo<=hi, within [-2^63, 2^63-1]

type iset []ival

var (
	two64  = new(big.Int).Lsh(big.NewInt(1), 64)
	minI64 = new(big.Int).Neg(new(big.Int).Lsh(big.NewInt(1), 63))
	maxI64 = new(big.Int).Sub(new(big.Int).Lsh(big.NewInt(1), 63), big.NewInt(1))
)

func wrapSigned(x *big.Int) *big.Int {
	r := new(big.Int).Mod(x, two64)
	if r.Cmp(maxI64) > 0 {
		r.Sub(r, two64)
	}
	return r
}

// preimage of y∈[lo,hi] under y = wrap(a·δ + c), a = ±1 → set of δ
func preimage(a int64, c, lo, hi *big.Int) iset {
	if lo.Cmp(hi) > 0 {
		return nil
	}
	// δ = a·(y - c)
	var d1, d2 *big.Int
	if a == 1 {
		d1 = new(big.Int).Sub(lo, c)
		d2 = new(big.Int).Sub(hi, c)
	} else {
		d1 = new(big.Int).Sub(c, hi)
		d2 = new(big.Int).Sub(c, lo)
	}
	// [d1,d2] has length < 2^64; wrap into signed range
	n := new(big.Int).Sub(d2, d1)
	w1 := wrapSigned(d1)
	w2 := new(big.Int).Add(w1, n)
	if w2.Cmp(maxI64) <= 0 {
		return iset{{w1, w2}}
	}
	return iset{{w1, new(big.Int).Set(maxI64)}, {new(big.Int).Set(minI64), new(big.Int).Sub(w2, two64)}}
}

func (s iset) intersect(t iset) iset {
	var out iset
	for _, a := range s {
		for _, b := range t {
			lo, hi := a.lo, a.hi
			if b.lo.Cmp(lo) > 0 {
				lo = b.lo
			}
			if b.hi.Cmp(hi) < 0 {
				hi = b.hi
			}
			if lo.Cmp(hi) <= 0 {
				out = append(out, ival{lo, hi})
			}
		}
	}
	return out
}

func (s iset) subsetOf(t iset) (bool, string) {
	// t assumed small; check every interval of s is covered by the union of t (after merging)
	tt := mergeIvals(t)
	for _, a := range mergeIvals(s) {
		covered := false
		for _, b := range tt {
			if b.lo.Cmp(a.lo) <= 0 && b.hi.Cmp(a.hi) >= 0 {
				covered = true
			}
		}
		if !covered {
			// find a witness part
			for _, b := range tt {
				if b.lo.Cmp(a.lo) <= 0 && b.hi.Cmp(a.lo) >= 0 {
					// overlaps at the start; witness beyond b.hi
					w := new(big.Int).Add(b.hi, big.NewInt(1))
					return false, fmt.Sprintf("[%s, %s]", w.String(), a.hi.String())
				}
			}
			return false, fmt.Sprintf("[%s, %s]", a.lo.String(), a.hi.String())
		}
	}
	return true, ""
}

func mergeIvals(s iset) iset {
	if len(s) == 0 {
		return nil
	}
	c := append(iset(nil), s...)
	sort.Slice(c, func(i, j int) bool { return c[i].lo.Cmp(c[j].lo) < 0 })
	out := iset{c[0]}
	for _, x := range c[1:] {
		last := &out[len(out)-1]
		if x.lo.Cmp(new(big.Int).Add(last.hi, big.NewInt(1))) <= 0 {
			if x.hi.Cmp(last.hi) > 0 {
				last.hi = x.hi
			}
		} else {
			out = append(out, x)
		}
	}
	return out
}

func (s iset) String() string {
	var p []string
	for _, a := range mergeIvals(s) {
		if a.lo.Cmp(a.hi) == 0 {
			p = append(p, "{"+a.lo.String()+"}")
		} else {
			p = append(p, "["+a.lo.String()+", "+a.hi.String()+"]")
		}
	}
	if len(p) == 0 {
		return "∅"
	}
	return strings.Join(p, " ∪ ")
}

func fullSet() iset { return iset{{new(big.Int).Set(minI64), new(big.Int).Set(maxI64)}} }

// affine value a·δ + c (a ∈ {-1,0,1}) in wrapping int64 arithmetic
type affine struct {
	a  int64 // coefficient of δ = x − y when the value is a function of δ (valid iff a0 == -a1)
	c  *big.Int
	a0 int64 // coefficient of the first parameter
	a1 int64 // coefficient of the second parameter
}

func mkAff(a0, a1 int64, c *big.Int) affine { return affine{a: a0, c: c, a0: a0, a1: a1} }

func (f affine) deltaOnly() bool { return f.a0+f.a1 == 0 }

// guardTrueSet analyses a bool function g(x, y uintptr) whose decision depends only on δ = int64(x - y):
// returns the set of δ for which it returns true. ok=false when the function leaves the supported fragment.
func guardTrueSet(fn *ssa.Function) (iset, string) {
	if len(fn.Params) != 2 {
		return nil, "guard does not take two addresses"
	}
	type pstate struct {
		env  map[ssa.Value]interface{} // affine | iset-valued bool cmp | bool const
		cons iset
	}
	var trueSet iset
	var fail string
	var run func(b, from *ssa.BasicBlock, st *pstate, depth int)
	evalAff := func(st *pstate, v ssa.Value) (affine, bool) {
		if x, ok := st.env[v]; ok {
			if a, ok := x.(affine); ok {
				return a, true
			}
			return affine{}, false
		}
		if c, ok := v.(*ssa.Const); ok && c.Value != nil && c.Value.Kind() == constant.Int {
			if bi, ok := new(big.Int).SetString(c.Value.ExactString(), 10); ok {
				return mkAff(0, 0, bi), true
			}
		}
		if v == ssa.Value(fn.Params[0]) {
			return mkAff(1, 0, big.NewInt(0)), true
		}
		if v == ssa.Value(fn.Params[1]) {
			return mkAff(0, 1, big.NewInt(0)), true
		}
		return affine{}, false
	}
	type cmp struct {
		l, r affine
		op   token.Token
	}
	cmpSet := func(c cmp) (iset, bool) {
		// only affine vs constant
		if c.r.a != 0 && c.l.a == 0 {
			// swap
			c.l, c.r = c.r, c.l
			switch c.op {
			case token.LSS:
				c.op = token.GTR
			case token.LEQ:
				c.op = token.GEQ
			case token.GTR:
				c.op = token.LSS
			case token.GEQ:
				c.op = token.LEQ
			}
		}
		if c.r.a != 0 {
			return nil, false
		}
		k := wrapSigned(c.r.c)
		if c.l.a == 0 {
			lv := wrapSigned(c.l.c)
			t := false
			switch c.op {
			case token.LSS:
				t = lv.Cmp(k) < 0
			case token.LEQ:
				t = lv.Cmp(k) <= 0
			case token.GTR:
				t = lv.Cmp(k) > 0
			case token.GEQ:
				t = lv.Cmp(k) >= 0
			case token.EQL:
				t = lv.Cmp(k) == 0
			case token.NEQ:
				t = lv.Cmp(k) != 0
			}
			if t {
				return fullSet(), true
			}
			return nil, true
		}
		var lo, hi *big.Int
		switch c.op {
		case token.LSS:
			lo, hi = minI64, new(big.Int).Sub(k, big.NewInt(1))
		case token.LEQ:
			lo, hi = minI64, k
		case token.GTR:
			lo, hi = new(big.Int).Add(k, big.NewInt(1)), maxI64
		case token.GEQ:
			lo, hi = k, maxI64
		case token.EQL:
			lo, hi = k, k
		default:
			return nil, false
		}
		return preimage(c.l.a, c.l.c, lo, hi), true
	}
	complement := func(s iset) iset {
		var out iset
		cur := new(big.Int).Set(minI64)
		for _, a := range mergeIvals(s) {
			if a.lo.Cmp(cur) > 0 {
				out = append(out, ival{new(big.Int).Set(cur), new(big.Int).Sub(a.lo, big.NewInt(1))})
			}
			cur = new(big.Int).Add(a.hi, big.NewInt(1))
		}
		if cur.Cmp(maxI64) <= 0 {
			out = append(out, ival{cur, new(big.Int).Set(maxI64)})
		}
		return out
	}
	run = func(b, from *ssa.BasicBlock, st *pstate, depth int) {
		if depth > 64 || fail != "" {
			if fail == "" {
				fail = "guard has a loop"
			}
			return
		}
		for _, ins := range b.Instrs {
			switch x := ins.(type) {
			case *ssa.Phi:
				for i, p := range b.Preds {
					if p == from {
						if v, ok := st.env[x.Edges[i]]; ok {
							st.env[x] = v
						} else if c, ok := x.Edges[i].(*ssa.Const); ok && c.Value != nil {
							if c.Value.Kind() == constant.Bool {
								st.env[x] = constant.BoolVal(c.Value)
							} else if a, ok := evalAff(st, c); ok {
								st.env[x] = a
							}
						}
					}
				}
			case *ssa.BinOp:
				switch x.Op {
				case token.SUB, token.ADD:
					l, ok1 := evalAff(st, x.X)
					r, ok2 := evalAff(st, x.Y)
					if ok1 && ok2 {
						if x.Op == token.ADD {
							st.env[x] = mkAff(l.a0+r.a0, l.a1+r.a1, new(big.Int).Add(l.c, r.c))
						} else {
							st.env[x] = mkAff(l.a0-r.a0, l.a1-r.a1, new(big.Int).Sub(l.c, r.c))
						}
					}
				case token.LSS, token.LEQ, token.GTR, token.GEQ, token.EQL, token.NEQ:
					l, ok1 := evalAff(st, x.X)
					r, ok2 := evalAff(st, x.Y)
					if ok1 && ok2 {
						if _, signed := typeWidth(x.X.Type()); !signed && (l.a != 0 || r.a != 0) {
							fail = "unsigned comparison of a symbolic distance at " + x.String()
							return
						}
						if !l.deltaOnly() || !r.deltaOnly() {
							fail = "comparison of a value that is not a function of the distance alone: " + x.String()
							return
						}
						if l.a < -1 || l.a > 1 || r.a < -1 || r.a > 1 {
							fail = "distance scaled by a factor other than ±1"
							return
						}
						st.env[x] = cmp{l, r, x.Op}
					}
				}
			case *ssa.UnOp:
				if x.Op == token.SUB {
					if a, ok := evalAff(st, x.X); ok {
						st.env[x] = mkAff(-a.a0, -a.a1, new(big.Int).Neg(a.c))
					}
				}
			case *ssa.Convert:
				if a, ok := evalAff(st, x.X); ok {
					w, _ := typeWidth(x.Type())
					sw, _ := typeWidth(x.X.Type())
					if w == 64 && sw == 64 {
						st.env[x] = a // uintptr ↔ int64 reinterpretation
					} else if a.a0 == 0 && a.a1 == 0 {
						st.env[x] = a
					} else {
						st.env[x] = nil // narrowing of a symbolic value: outside the fragment
					}
				}
			case *ssa.If:
				cv, ok := st.env[x.Cond]
				if c, isC := x.Cond.(*ssa.Const); isC && c.Value != nil {
					cv, ok = constant.BoolVal(c.Value), true
				}
				if !ok {
					fail = "branch on a value outside the fragment: " + x.Cond.String()
					return
				}
				switch c := cv.(type) {
				case bool:
					if c {
						run(b.Succs[0], b, st, depth+1)
					} else {
						run(b.Succs[1], b, st, depth+1)
					}
				case cmp:
					ts, ok := cmpSet(c)
					if !ok {
						fail = "unsupported comparison " + x.Cond.String()
						return
					}
					for k, set := range []iset{ts, complement(ts)} {
						ns := &pstate{env: map[ssa.Value]interface{}{}, cons: st.cons.intersect(set)}
						for kk, vv := range st.env {
							ns.env[kk] = vv
						}
						if len(ns.cons) > 0 {
							run(b.Succs[k], b, ns, depth+1)
						}
					}
				default:
					fail = "branch on unsupported value"
				}
				return
			case *ssa.Jump:
				run(b.Succs[0], b, st, depth+1)
				return
			case *ssa.Return:
				rv := x.Results[0]
				val, ok := st.env[rv]
				if c, isC := rv.(*ssa.Const); isC && c.Value != nil {
					val, ok = constant.BoolVal(c.Value), true
				}
				if !ok {
					fail = "returned value outside the fragment"
					return
				}
				switch c := val.(type) {
				case bool:
					if c {
						trueSet = append(trueSet, st.cons...)
					}
				case cmp:
					ts, ok := cmpSet(c)
					if !ok {
						fail = "unsupported comparison in return"
						return
					}
					trueSet = append(trueSet, st.cons.intersect(ts)...)
				default:
					fail = "returned value unsupported"
				}
				return
			case *ssa.Call:
				// unsafe.Sizeof comparisons are folded to constants by the type checker; nothing else expected
			}
		}
	}
	run(fn.Blocks[0], nil, &pstate{env: map[ssa.Value]interface{}{}, cons: fullSet()}, 0)
	if fail != "" {
		return nil, fail
	}
	return mergeIvals(trueSet), ""
}

var constArrMemo = map[*ssa.Global]*backing{}
var constArrDone = map[*ssa.Global]bool{}

// constByteArray returns the contents of a package-level [N]byte variable when the package initialiser stores a constant
// into every element and nothing else in its package can write it (elements are only loaded; the whole array is only
// sliced as the source operand of append/copy or measured with len). nil otherwise.
func constByteArray(g *ssa.Global) *backing {
	if constArrDone[g] {
		return constArrMemo[g]
	}
	constArrDone[g] = true
	pt, ok := g.Type().Underlying().(*types.Pointer)
	if !ok {
		return nil
	}
	at, ok := pt.Elem().Underlying().(*types.Array)
	if !ok {
		return nil
	}
	if ew, _ := typeWidth(at.Elem()); ew != 8 {
		return nil
	}
	if g.Object() != nil && g.Object().Exported() {
		return nil
	}
	bk := &backing{b: make([]AByte, at.Len())}
	set := make([]bool, at.Len())
	okAll := true
	var fns []*ssa.Function
	var addAnon func(f *ssa.Function)
	addAnon = func(f *ssa.Function) {
		fns = append(fns, f)
		for _, a := range f.AnonFuncs {
			addAnon(a)
		}
	}
	for _, m := range g.Pkg.Members {
		switch x := m.(type) {
		case *ssa.Function:
			addAnon(x)
		case *ssa.Type:
			for _, t := range []types.Type{x.Type(), types.NewPointer(x.Type())} {
				ms := g.Pkg.Prog.MethodSets.MethodSet(t)
				for i := 0; i < ms.Len(); i++ {
					if mf := g.Pkg.Prog.MethodValue(ms.At(i)); mf != nil && mf.Pkg == g.Pkg && mf.Blocks != nil {
						addAnon(mf)
					}
				}
			}
		}
	}
	for _, f := range fns {
		isInit := f.Name() == "init" && f.Parent() == nil && f.Signature.Recv() == nil
		for _, b := range f.Blocks {
			for _, ins := range b.Instrs {
				for _, op := range ins.Operands(nil) {
					if op == nil || *op != ssa.Value(g) {
						continue
					}
					switch x := ins.(type) {
					case *ssa.IndexAddr:
						for _, ref := range *x.Referrers() {
							switch r := ref.(type) {
							case *ssa.UnOp:
							case *ssa.Store:
								cv, isC := r.Val.(*ssa.Const)
								ic, isI := x.Index.(*ssa.Const)
								if !isInit || r.Addr != ssa.Value(x) || !isC || !isI || cv.Value == nil {
									okAll = false
									continue
								}
								i := int(ic.Int64())
								if i < 0 || i >= len(set) {
									okAll = false
									continue
								}
								bk.b[i] = byteOf(constAInt(uint64(cv.Int64())&0xff, 8, false))
								set[i] = true
							default:
								okAll = false
							}
						}
					case *ssa.Slice:
						for _, ref := range *x.Referrers() {
							cl, isCall := ref.(*ssa.Call)
							if !isCall {
								okAll = false
								continue
							}
							bi, isB := cl.Call.Value.(*ssa.Builtin)
							if !isB {
								okAll = false
								continue
							}
							switch bi.Name() {
							case "len", "cap":
							case "append", "copy":
								if len(cl.Call.Args) < 2 || cl.Call.Args[1] != ssa.Value(x) || cl.Call.Args[0] == ssa.Value(x) {
									okAll = false
								}
							default:
								okAll = false
							}
						}
					default:
						okAll = false
					}
				}
			}
		}
	}
	for i := range set {
		if !set[i] {
			// elements not mentioned by the initialiser are zero
			bk.b[i] = byteOf(constAInt(0, 8, false))
		}
	}
	if !okAll {
		return nil
	}
	constArrMemo[g] = bk
	return bk
}

var constSliceMemo = map[*ssa.Global]*backing{}
var constSliceDone = map[*ssa.Global]bool{}

// constByteSlice: g is an unexported package-level []byte that the package initialiser sets once to a composite literal of
// constants, and that is otherwise only loaded to be read — as the source of append/copy, for len/cap, or element by
// element. The result is its (constant) contents.
func constByteSlice(g *ssa.Global) *backing {
	if constSliceDone[g] {
		return constSliceMemo[g]
	}
	constSliceDone[g] = true
	pt, ok := g.Type().Underlying().(*types.Pointer)
	if !ok || (g.Object() != nil && g.Object().Exported()) {
		return nil
	}
	sl, ok := pt.Elem().Underlying().(*types.Slice)
	if !ok {
		return nil
	}
	if ew, _ := typeWidth(sl.Elem()); ew != 8 {
		return nil
	}
	var fns []*ssa.Function
	var addAnon func(f *ssa.Function)
	addAnon = func(f *ssa.Function) {
		fns = append(fns, f)
		for _, a := range f.AnonFuncs {
			addAnon(a)
		}
	}
	for _, m := range g.Pkg.Members {
		switch x := m.(type) {
		case *ssa.Function:
			addAnon(x)
		case *ssa.Type:
			for _, t := range []types.Type{x.Type(), types.NewPointer(x.Type())} {
				ms := g.Pkg.Prog.MethodSets.MethodSet(t)
				for i := 0; i < ms.Len(); i++ {
					if mf := g.Pkg.Prog.MethodValue(ms.At(i)); mf != nil && mf.Pkg == g.Pkg && mf.Blocks != nil {
						addAnon(mf)
					}
				}
			}
		}
	}
	var bk *backing
	readOnly := func(v ssa.Value) bool {
		for _, ref := range *v.Referrers() {
			switch r := ref.(type) {
			case *ssa.DebugRef:
			case *ssa.Call:
				bi, isB := r.Call.Value.(*ssa.Builtin)
				if !isB {
					return false
				}
				switch bi.Name() {
				case "len", "cap":
				case "append", "copy":
					if len(r.Call.Args) < 2 || r.Call.Args[1] != v || r.Call.Args[0] == v {
						return false
					}
				default:
					return false
				}
			case *ssa.IndexAddr:
				for _, r2 := range *r.Referrers() {
					if u, ok := r2.(*ssa.UnOp); !ok || u.Op != token.MUL {
						return false
					}
				}
			default:
				return false
			}
		}
		return true
	}
	for _, f := range fns {
		isInit := f.Name() == "init" && f.Parent() == nil && f.Signature.Recv() == nil
		for _, b := range f.Blocks {
			for _, ins := range b.Instrs {
				for _, op := range ins.Operands(nil) {
					if op == nil || *op != ssa.Value(g) {
						continue
					}
					switch x := ins.(type) {
					case *ssa.Store:
						if !isInit || x.Addr != ssa.Value(g) || bk != nil {
							return nil
						}
						// the literal: a slice of a fresh array whose elements init stores as constants
						slc, ok := x.Val.(*ssa.Slice)
						if !ok || slc.Low != nil || slc.High != nil || slc.Max != nil {
							return nil
						}
						al, ok := slc.X.(*ssa.Alloc)
						if !ok {
							return nil
						}
						at, ok := al.Type().Underlying().(*types.Pointer).Elem().Underlying().(*types.Array)
						if !ok {
							return nil
						}
						nb := &backing{b: make([]AByte, at.Len())}
						for i := range nb.b {
							nb.b[i] = byteOf(constAInt(0, 8, false))
						}
						for _, ref := range *al.Referrers() {
							switch r := ref.(type) {
							case *ssa.Slice:
								if r != slc {
									return nil
								}
							case *ssa.IndexAddr:
								ic, isI := r.Index.(*ssa.Const)
								if !isI || len(*r.Referrers()) != 1 {
									return nil
								}
								st, isSt := (*r.Referrers())[0].(*ssa.Store)
								if !isSt || st.Addr != ssa.Value(r) {
									return nil
								}
								cv, isC := st.Val.(*ssa.Const)
								if !isC || cv.Value == nil || ic.Int64() < 0 || ic.Int64() >= at.Len() {
									return nil
								}
								nb.b[ic.Int64()] = byteOf(constAInt(uint64(cv.Int64())&0xff, 8, false))
							case *ssa.DebugRef:
							default:
								return nil
							}
						}
						if len(*slc.Referrers()) != 1 {
							return nil
						}
						bk = nb
					case *ssa.UnOp:
						if x.Op != token.MUL || !readOnly(x) {
							return nil
						}
					case *ssa.DebugRef:
					default:
						return nil
					}
				}
			}
		}
	}
	constSliceMemo[g] = bk
	return bk
}

var constAggMemo = map[*ssa.Global]*AAgg{}
var constAggDone = map[*ssa.Global]bool{}

// constAggregate returns the contents of an unexported package-level array/struct variable (of integers, nested) when the
// package initialiser fills it with constants and nothing else in its package stores through it or lets its address
// escape (elements are only read; whole-value loads are allowed). nil otherwise. Byte arrays are handled by constByteArray.
func constAggregate(g *ssa.Global) *AAgg {
	if constAggDone[g] {
		return constAggMemo[g]
	}
	constAggDone[g] = true
	pt, ok := g.Type().Underlying().(*types.Pointer)
	if !ok || (g.Object() != nil && g.Object().Exported()) {
		return nil
	}
	switch u := pt.Elem().Underlying().(type) {
	case *types.Array:
		if ew, _ := typeWidth(u.Elem()); ew == 8 {
			return nil
		}
	case *types.Struct:
	default:
		return nil
	}
	root, _ := zeroOf(pt.Elem()).(*AAgg)
	if root == nil {
		return nil
	}
	holder := &AAgg{elems: []aval{root}}
	okAll := true
	var fns []*ssa.Function
	var addAnon func(f *ssa.Function)
	addAnon = func(f *ssa.Function) {
		fns = append(fns, f)
		for _, a := range f.AnonFuncs {
			addAnon(a)
		}
	}
	for _, m := range g.Pkg.Members {
		switch x := m.(type) {
		case *ssa.Function:
			addAnon(x)
		case *ssa.Type:
			for _, t := range []types.Type{x.Type(), types.NewPointer(x.Type())} {
				ms := g.Pkg.Prog.MethodSets.MethodSet(t)
				for i := 0; i < ms.Len(); i++ {
					if mf := g.Pkg.Prog.MethodValue(ms.At(i)); mf != nil && mf.Pkg == g.Pkg && mf.Blocks != nil {
						addAnon(mf)
					}
				}
			}
		}
	}
	// address paths rooted at g: g → IndexAddr/FieldAddr chains; leaves may be loaded anywhere, stored (constants) in init only
	var follow func(v ssa.Value, ref ARef, isInit bool)
	follow = func(v ssa.Value, ref ARef, isInit bool) {
		refs := v.Referrers()
		if refs == nil {
			return
		}
		for _, r := range *refs {
			switch x := r.(type) {
			case *ssa.IndexAddr:
				ic, isC := x.Index.(*ssa.Const)
				sub, isAgg := ref.agg.elems[ref.idx].(*AAgg)
				if x.X != v {
					continue
				}
				if !isAgg {
					okAll = false
					continue
				}
				if !isC {
					// dynamic index: reading only
					for _, r2 := range *x.Referrers() {
						if u, ok := r2.(*ssa.UnOp); !ok || u.Op != token.MUL {
							if _, isFA := r2.(*ssa.FieldAddr); isFA {
								for _, r3 := range *r2.(*ssa.FieldAddr).Referrers() {
									if u3, ok := r3.(*ssa.UnOp); !ok || u3.Op != token.MUL {
										okAll = false
									}
								}
								continue
							}
							okAll = false
						}
					}
					continue
				}
				i := int(ic.Int64())
				if i < 0 || i >= len(sub.elems) {
					okAll = false
					continue
				}
				follow(x, ARef{agg: sub, idx: i}, isInit)
			case *ssa.FieldAddr:
				if x.X != v {
					continue
				}
				sub, isAgg := ref.agg.elems[ref.idx].(*AAgg)
				if !isAgg || x.Field >= len(sub.elems) {
					okAll = false
					continue
				}
				follow(x, ARef{agg: sub, idx: x.Field}, isInit)
			case *ssa.UnOp:
				if x.Op != token.MUL {
					okAll = false
				}
			case *ssa.Store:
				if x.Addr != v || !isInit {
					okAll = false
					continue
				}
				cv, isC := x.Val.(*ssa.Const)
				if !isC || cv.Value == nil {
					okAll = false
					continue
				}
				w, signed := typeWidth(cv.Type())
				if w == 0 {
					okAll = false
					continue
				}
				if u, ok := constant.Uint64Val(cv.Value); ok {
					ref.agg.elems[ref.idx] = constAInt(u, w, signed)
				} else if i, ok := constant.Int64Val(cv.Value); ok {
					ref.agg.elems[ref.idx] = constAInt(uint64(i), w, signed)
				} else {
					okAll = false
				}
			case *ssa.DebugRef:
			default:
				okAll = false
			}
		}
	}
	// globals have no referrer lists: scan the package for instructions that use g directly
	for _, f := range fns {
		isInit := f.Name() == "init" && f.Parent() == nil && f.Signature.Recv() == nil
		for _, b := range f.Blocks {
			for _, ins := range b.Instrs {
				uses := false
				for _, op := range ins.Operands(nil) {
					if op != nil && *op == ssa.Value(g) {
						uses = true
					}
				}
				if !uses {
					continue
				}
				switch x := ins.(type) {
				case *ssa.IndexAddr:
					if x.X != ssa.Value(g) {
						okAll = false
						continue
					}
					ic, isC := x.Index.(*ssa.Const)
					if !isC {
						for _, r2 := range *x.Referrers() {
							if u, ok := r2.(*ssa.UnOp); !ok || u.Op != token.MUL {
								if fa, isFA := r2.(*ssa.FieldAddr); isFA {
									for _, r3 := range *fa.Referrers() {
										if u3, ok := r3.(*ssa.UnOp); !ok || u3.Op != token.MUL {
											okAll = false
										}
									}
									continue
								}
								okAll = false
							}
						}
						continue
					}
					i := int(ic.Int64())
					if i < 0 || i >= len(root.elems) {
						okAll = false
						continue
					}
					follow(x, ARef{agg: root, idx: i}, isInit)
				case *ssa.FieldAddr:
					if x.X != ssa.Value(g) || x.Field >= len(root.elems) {
						okAll = false
						continue
					}
					follow(x, ARef{agg: root, idx: x.Field}, isInit)
				case *ssa.UnOp:
					if x.Op != token.MUL {
						okAll = false
					}
				default:
					okAll = false
				}
			}
		}
	}
	_ = holder
	if !okAll {
		return nil
	}
	constAggMemo[g] = root
	return root
}
