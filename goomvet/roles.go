package main

import (
	"go/types"
	"strings"

	"golang.org/x/tools/go/ssa"
)

// PatchRoles resolves the private fields of package patch by the role they play, so that renaming an
// unexported identifier does not disturb the rules. Anchors used: the exported type patch.Guard, the
// package-level patch table (a map with pointer-to-struct values), memory.WriteTo, memory.RawRead, bytecode.GetPtr.
type PatchRoles struct {
	Guard      *types.Named
	GOrigin    *types.Var // address written to
	GInstall   *types.Var // jump bytes
	GRestore   *types.Var // captured original bytes
	GApplied   *types.Var
	GFixOrigin *types.Var
	Patch      *types.Named // the private patch record
	POrigin    *types.Var   // patched address (table key)
	PInstall   *types.Var
	PRestore   *types.Var
	PReplVal   *types.Var // reflect.Value of the replacement (GetPtr operand)
	POrigVal   *types.Var // reflect.Value of the target
	PFixOrigin *types.Var
	Ctor       *ssa.Function // builds the Guard from the patch record
	Installer  *ssa.Function
	Problems   []string
}

func (p *Prog) patchRoles() *PatchRoles {
	if p.proles != nil {
		return p.proles
	}
	pr := &PatchRoles{}
	p.proles = pr
	pr.Guard = p.NamedType("internal/patch", "Guard")
	if pr.Guard == nil {
		pr.Problems = append(pr.Problems, "exported type patch.Guard not found")
		return pr
	}
	fns := p.FuncsIn("internal/patch")
	pr.Installer = patchInstaller(p)
	// the patch record: value type of the package-level table
	if pk := p.Pkg("internal/patch"); pk != nil {
		sc := pk.Types.Scope()
		for _, n := range sc.Names() {
			if v, ok := sc.Lookup(n).(*types.Var); ok {
				if mt, ok := v.Type().Underlying().(*types.Map); ok {
					if pt, ok := mt.Elem().(*types.Pointer); ok {
						if nt, ok := pt.Elem().(*types.Named); ok {
							if _, isS := nt.Underlying().(*types.Struct); isS {
								pr.Patch = nt
							}
						}
					}
				}
			}
		}
	}
	gst, _ := pr.Guard.Underlying().(*types.Struct)
	if gst == nil {
		pr.Problems = append(pr.Problems, "patch.Guard is not a struct")
		return pr
	}
	isGuardField := func(fv *types.Var) bool {
		for i := 0; i < gst.NumFields(); i++ {
			if gst.Field(i) == fv {
				return true
			}
		}
		return false
	}
	// constructor: stores into fields of a freshly allocated Guard; source → target field mapping
	srcOf := map[*types.Var]*types.Var{} // guard field → patch field it is copied from
	for _, f := range fns {
		eachInstr(f, func(i ssa.Instruction) {
			st, ok := i.(*ssa.Store)
			if !ok {
				return
			}
			fa, ok := st.Addr.(*ssa.FieldAddr)
			if !ok {
				return
			}
			gf := fieldVar(fa.X.Type(), fa.Field)
			if gf == nil || !isGuardField(gf) {
				return
			}
			if _, isAlloc := fa.X.(*ssa.Alloc); !isAlloc {
				return
			}
			if _, sf, ok := fieldRef(resolveLocal(st.Val)); ok && sf != nil {
				srcOf[gf] = sf
				pr.Ctor = f
			}
		})
	}
	// Guard fields by use in its own methods
	var names []string
	for _, w := range p.textWriters() {
		names = append(names, w.Object().(*types.Func).FullName())
	}
	dataFields := map[*types.Var]bool{}
	for _, f := range fns {
		for _, cs := range callsTo(f, names...) {
			args := callCommon(cs).Args
			if _, fv, ok := fieldRef(resolveLocal(args[0])); ok && fv != nil && isGuardField(fv) {
				pr.GOrigin = fv
			}
			if _, fv, ok := fieldRef(resolveLocal(args[1])); ok && fv != nil && isGuardField(fv) {
				dataFields[fv] = true
			}
		}
	}
	for i := 0; i < gst.NumFields(); i++ {
		f := gst.Field(i)
		if isBool(f.Type()) {
			pr.GApplied = f
		}
	}
	// patch-side roles from the installer
	if pr.Installer != nil {
		eachInstr(pr.Installer, func(i ssa.Instruction) {
			switch x := i.(type) {
			case *ssa.MapUpdate:
				if as := origins(x.Map); len(as) > 0 && as[0].Kind == "global" {
					if _, fv, ok := fieldRef(resolveLocal(x.Key)); ok {
						pr.POrigin = fv
					}
				}
			case *ssa.Call:
				if calleeName(x.Common()) == qual("internal/bytecode", "GetPtr") {
					if _, fv, ok := fieldRef(resolveLocal(x.Call.Args[0])); ok {
						pr.PReplVal = fv
					}
				}
			case *ssa.Store:
				fa, ok := x.Addr.(*ssa.FieldAddr)
				if !ok || isLocalAddr(fa.X) {
					return
				}
				pf := fieldVar(fa.X.Type(), fa.Field)
				if pf == nil {
					return
				}
				for _, a := range origins(x.Val) {
					ex, ok := a.V.(*ssa.Extract)
					if !ok {
						continue
					}
					cl, ok := ex.Tuple.(*ssa.Call)
					if !ok {
						continue
					}
					cal := staticCallee(cl.Common())
					if cal == nil {
						continue
					}
					reach := p.staticReach(cal)
					isSlice := false
					if sl, ok := pf.Type().Underlying().(*types.Slice); ok && isByte(sl.Elem()) {
						isSlice = true
					}
					switch {
					case isSlice && reach[p.Fn(memPkg, "RawRead")] && !reachesEmitter(p, reach):
						pr.PRestore = pf
					case isSlice && reachesEmitter(p, reach):
						pr.PInstall = pf
					case !isSlice && isUintptr(pf.Type()) && reachesTextWriter(p, reach):
						pr.PFixOrigin = pf
					}
				}
			}
		})
	}
	for gf, pf := range srcOf {
		switch pf {
		case pr.PInstall:
			pr.GInstall = gf
		case pr.PRestore:
			pr.GRestore = gf
		case pr.PFixOrigin:
			pr.GFixOrigin = gf
		case pr.POrigin:
			if pr.GOrigin == nil {
				pr.GOrigin = gf
			}
		}
	}
	// reflect.Value fields of the patch record
	if pr.Patch != nil {
		pst := pr.Patch.Underlying().(*types.Struct)
		for i := 0; i < pst.NumFields(); i++ {
			f := pst.Field(i)
			if strings.HasSuffix(f.Type().String(), "reflect.Value") && f != pr.PReplVal {
				pr.POrigVal = f
			}
		}
	}
	check := func(name string, v *types.Var) {
		if v == nil {
			pr.Problems = append(pr.Problems, "role "+name+" unresolved")
		}
	}
	check("Guard.origin", pr.GOrigin)
	check("Guard.jump-bytes", pr.GInstall)
	check("Guard.original-bytes", pr.GRestore)
	check("Guard.applied", pr.GApplied)
	check("Guard.relocated-origin", pr.GFixOrigin)
	check("patch.origin", pr.POrigin)
	check("patch.jump-bytes", pr.PInstall)
	check("patch.original-bytes", pr.PRestore)
	check("patch.replacement-value", pr.PReplVal)
	check("patch.origin-value", pr.POrigVal)
	check("patch.relocated-origin", pr.PFixOrigin)
	if pr.Patch == nil {
		pr.Problems = append(pr.Problems, "patch record type unresolved")
	}
	_ = dataFields
	return pr
}

func reachesEmitter(p *Prog, reach map[*ssa.Function]bool) bool {
	for _, e := range emitterFuncs(p) {
		if reach[e] {
			return true
		}
	}
	return false
}

func reachesTextWriter(p *Prog, reach map[*ssa.Function]bool) bool {
	for _, w := range p.textWriters() {
		if reach[w] {
			return true
		}
	}
	return false
}

// fname returns the field's name or "?" (for messages).
func fname(v *types.Var) string {
	if v == nil {
		return "?"
	}
	return v.Name()
}
