package main

import (
	"fmt"
	"go/token"
	"go/types"
	"os"
	"sort"
	"strings"

	"golang.org/x/tools/go/ssa"
)

func init() { register("C12", c12) }

// exprKey renders an SSA value structurally (loads of the same field print the same).
func exprKey(v ssa.Value, depth int) string {
	if depth > 12 {
		return "…"
	}
	switch x := v.(type) {
	case *ssa.Const:
		return x.String()
	case *ssa.Parameter:
		return "$" + x.Name()
	case *ssa.MakeInterface:
		return exprKey(x.X, depth+1)
	case *ssa.ChangeInterface:
		return exprKey(x.X, depth+1)
	case *ssa.ChangeType:
		return exprKey(x.X, depth+1)
	case *ssa.Convert:
		return "conv(" + exprKey(x.X, depth+1) + ")"
	case *ssa.BinOp:
		return "(" + exprKey(x.X, depth+1) + x.Op.String() + exprKey(x.Y, depth+1) + ")"
	case *ssa.UnOp:
		if x.Op == token.MUL {
			if b, fv, ok := fieldRef(x); ok && fv != nil {
				return exprKey(b, depth+1) + "." + fv.Name()
			}
			if a, ok := x.X.(*ssa.Alloc); ok {
				// local: describe through its stores (whole-value and per-field)
				var parts []string
				for _, ref := range *a.Referrers() {
					if st, ok := ref.(*ssa.Store); ok && st.Addr == a {
						parts = append(parts, exprKey(st.Val, depth+1))
					}
					if fa, ok := ref.(*ssa.FieldAddr); ok {
						for _, r2 := range *fa.Referrers() {
							if st, ok := r2.(*ssa.Store); ok && st.Addr == ssa.Value(fa) {
								parts = append(parts, fieldVar(fa.X.Type(), fa.Field).Name()+"="+exprKey(st.Val, depth+1))
							}
						}
					}
				}
				sort.Strings(parts)
				return "local{" + strings.Join(parts, "|") + "}"
			}
		}
		return x.Op.String() + exprKey(x.X, depth+1)
	case *ssa.Call:
		var as []string
		for _, a := range x.Call.Args {
			as = append(as, exprKey(a, depth+1))
		}
		return calleeName(x.Common()) + "(" + strings.Join(as, ",") + ")"
	case *ssa.Extract:
		return exprKey(x.Tuple, depth+1) + fmt.Sprintf("#%d", x.Index)
	case *ssa.Slice:
		return "slice(" + exprKey(x.X, depth+1) + ")"
	case *ssa.Alloc:
		var parts []string
		for _, ref := range *x.Referrers() {
			switch u := ref.(type) {
			case *ssa.IndexAddr:
				for _, r2 := range *u.Referrers() {
					if st, ok := r2.(*ssa.Store); ok {
						parts = append(parts, exprKey(st.Val, depth+1))
					}
				}
			}
		}
		return "arr{" + strings.Join(parts, ",") + "}"
	case *ssa.Phi:
		var parts []string
		for _, e := range x.Edges {
			parts = append(parts, exprKey(e, depth+1))
		}
		return "phi{" + strings.Join(parts, "|") + "}"
	}
	return v.Name()
}

func c12(c *Ctx) {
	p, r := c.K1(), c.R
	r.Expl = "Structural clauses behind 'within a builder the most recent instruction for a target wins': every Builder/Cached* lookup consults and stores its cache under the same key and hands a cached mocker back only if it is not cancelled; every exported Apply clears the stub continuation (so a later Return/When re-installs the stub) and nothing on the When/Return path clears it; Cancel clears it and sets the flag Canceled() reads on every path; every Builder lookup that consumes the package override resets it on every return path; the caller-depth constants equal the static call-chain length. Behaviour of the target itself is not decided."
	r.RuleText = "one obligation per (rule, method / lookup site / call path)"
	r.Floor("C12.R1", 5)
	r.Floor("C12.R2", 4)
	r.Floor("C12.R3", 3)
	r.Floor("C12.R4", 3)
	r.Floor("C12.R5", 6)
	cc := checkCacheKeys(p, r, "C12.R1", "C12.R5")
	if cc == nil {
		return
	}
	root, mockerI, builder, pkgFld, cacheMap := cc.root, cc.mockerI, cc.builder, cc.pkgFld, cc.cacheMap
	_, _, _ = builder, pkgFld, cacheMap
	// ---------- R2: stub continuation
	whenT := p.NamedType("", "When")
	var contFld *types.Var
	var contOwner *types.Named
	for _, n := range namedTypesOf(p.Pkg("").Types) {
		st, ok := n.Underlying().(*types.Struct)
		if !ok {
			continue
		}
		for i := 0; i < st.NumFields(); i++ {
			if pt, ok := st.Field(i).Type().(*types.Pointer); ok && whenT != nil && types.Identical(pt.Elem(), whenT) && implementsIface(n, mockerI) == false {
				contFld, contOwner = st.Field(i), n
			}
		}
	}
	if contFld == nil {
		// fall back: any struct with a *When field
		for _, n := range namedTypesOf(p.Pkg("").Types) {
			if st, ok := n.Underlying().(*types.Struct); ok && n != whenT {
				for i := 0; i < st.NumFields(); i++ {
					if pt, ok := st.Field(i).Type().(*types.Pointer); ok && whenT != nil && types.Identical(pt.Elem(), whenT) {
						contFld, contOwner = st.Field(i), n
					}
				}
			}
		}
	}
	if contFld == nil {
		r.Und("C12.R2", "stub continuation", "", "no struct field of type *When found")
	} else {
		isNilStoreCont := func(i ssa.Instruction) bool {
			st, ok := i.(*ssa.Store)
			if !ok || !isNilConst(st.Val) {
				return false
			}
			fa, ok := st.Addr.(*ssa.FieldAddr)
			return ok && fieldVar(fa.X.Type(), fa.Field) == contFld
		}
		allowedClear := map[*ssa.Function]bool{}
		for _, n := range namedTypesOf(p.Pkg("").Types) {
			if _, isI := n.Underlying().(*types.Interface); isI || !implementsIface(n, mockerI) {
				continue
			}
			if !embeds(n, contOwner) {
				continue
			}
			ap := methodOf(p, n, "Apply")
			if ap == nil || ap.Blocks == nil {
				continue
			}
			allowedClear[ap] = true
			okAll := true
			for _, ret := range returnsOf(ap) {
				if !passedBefore(ap, ret, isNilStoreCont, nil) {
					okAll = false
				}
			}
			r.Check(okAll, "C12.R2", shortName(ap)+" clears the stub continuation", p.Pos(ap.Pos()), "Apply stores nil to "+contFld.Name()+" on every path",
				"Apply installs the callback but leaves the previous When continuation in place: a later Return/When only extends the old continuation while the callback stays installed (Return(1);Apply(f);Return(3) keeps running f)")
		}
		// Cancel of the owner clears it too
		if cn := methodOf(p, contOwner, "Cancel"); cn != nil && cn.Blocks != nil {
			allowedClear[cn] = true
			okAll := true
			for _, ret := range returnsOf(cn) {
				if !passedBefore(cn, ret, isNilStoreCont, nil) {
					okAll = false
				}
			}
			r.Check(okAll, "C12.R2", shortName(cn)+" clears the stub continuation", p.Pos(cn.Pos()), "Cancel clears the continuation", "Cancel leaves the When continuation: after Reset a new configuration continues the old stubs")
		}
		// no other function clears it
		for _, f := range root {
			if allowedClear[f] {
				continue
			}
			eachInstr(f, func(i ssa.Instruction) {
				if isNilStoreCont(i) {
					if fa := i.(*ssa.Store).Addr.(*ssa.FieldAddr); isLocalAddr(fa.X) {
						return // constructor literal
					}
					r.Bad("C12.R2", "continuation cleared in "+shortName(f), p.Pos(posOf(i)), "the stub continuation is cleared outside Apply/Cancel: a When/Return configuration in progress is lost")
				}
			})
		}
		// the continuation is set only together with installing the stub callback: every non-nil store is in a function
		// that also makes the MakeFunc stub (or is followed by an apply in all its callers) — checked as: stores of non-nil only in
		// functions reachable from When/Return/Returns methods
		for _, fs := range storesToField(root, func(fv *types.Var, _ ssa.Value) bool { return fv == contFld }) {
			if isNilConst(fs.Store.Val) || isLocalAddr(fs.Addr.X) {
				continue
			}
			okSrc := allAtoms(origins(fs.Store.Val), func(a Atom) bool { return a.Kind == "param" || a.Kind == "call" })
			r.Check(okSrc, "C12.R2", "continuation set in "+shortName(fs.Fn), p.Pos(posOf(fs.Store)), "set from the freshly created When", "continuation set from an unexpected source")
		}
	}

	checkStubInstalledWithContinuation(p, r, "C12.R2", nil)

	// ---------- R3: override consumed ⇒ reset
	if pkgFld != nil {
		var resetFns []*ssa.Function
		for _, f := range root {
			if f.Signature.Recv() == nil || !recvIs(f, builder) {
				continue
			}
			if storesField(f, pkgFld) {
				fromParam := false
				eachInstr(f, func(i ssa.Instruction) {
					if st, ok := i.(*ssa.Store); ok {
						if fa, ok := st.Addr.(*ssa.FieldAddr); ok && fieldVar(fa.X.Type(), fa.Field) == pkgFld {
							for _, a := range origins(st.Val) {
								if a.Kind == "param" {
									fromParam = true
								}
							}
						}
					}
				})
				if !fromParam {
					resetFns = append(resetFns, f)
				}
			}
		}
		nSetters := 0
		// the override is recorded: some exported Builder method that takes one string and answers with the builder itself
		// without consulting the package name (the setter) stores that string into the package field
		for _, f := range root {
			if f.Signature.Recv() == nil || !recvIs(f, builder) || f.Object() == nil || !f.Object().Exported() || f.Blocks == nil {
				continue
			}
			sig := f.Signature
			if sig.Params().Len() != 1 || sig.Results().Len() != 1 || !types.Identical(sig.Results().At(0).Type(), sig.Recv().Type()) {
				continue
			}
			if b, ok := sig.Params().At(0).Type().Underlying().(*types.Basic); !ok || b.Kind() != types.String {
				continue
			}
			callsOut := false
			eachInstr(f, func(i ssa.Instruction) {
				if ci, ok := i.(ssa.CallInstruction); ok {
					if cal := staticCallee(ci.Common()); cal != nil && strings.HasPrefix(pkgPathOf(cal), Mod) {
						callsOut = true
					}
				}
			})
			if callsOut {
				continue
			}
			stored := false
			eachInstr(f, func(i ssa.Instruction) {
				if st, ok := i.(*ssa.Store); ok {
					if fa, ok := st.Addr.(*ssa.FieldAddr); ok && fieldVar(fa.X.Type(), fa.Field) == pkgFld && resolveLocal(st.Val) == ssa.Value(f.Params[1]) && resolveLocal(fa.X) == ssa.Value(f.Params[0]) {
						stored = true
					}
				}
			})
			if stored {
				nSetters++
			}
		}
		r.Check(nSetters > 0, "C12.R3", "package override is recorded", p.Pos(builder.Obj().Pos()), "an exported Builder method stores its string argument into the package field", "no exported Builder method records a package override (b.pkg = name is gone): Pkg(\"x\") has no effect and the next lookup still resolves in the caller's package")
		if len(resetFns) == 0 {
			r.Bad("C12.R3", "package override reset", p.Pos(builder.Obj().Pos()), "no Builder method puts the package name back to the caller's package")
		}
		isReset := func(i ssa.Instruction) bool {
			if ci, ok := i.(ssa.CallInstruction); ok {
				cal := staticCallee(ci.Common())
				for _, rf := range resetFns {
					if cal == rf {
						return true
					}
				}
			}
			return false
		}
		for _, f := range root {
			if f.Signature.Recv() == nil || !recvIs(f, builder) || f.Object() == nil || !f.Object().Exported() {
				continue
			}
			// consuming = the override flows into a call argument or map key
			consumes := false
			eachInstr(f, func(i ssa.Instruction) {
				isPkgLoad := func(v ssa.Value) bool { _, fv, ok := fieldRef(v); return ok && fv == pkgFld }
				switch x := i.(type) {
				case *ssa.Call:
					for _, a := range x.Call.Args {
						if dependsOn(a, isPkgLoad) && !isPkgLoad(a) || isPkgLoad(a) {
							if cal := staticCallee(x.Common()); cal != nil && strings.HasPrefix(pkgPathOf(cal), Mod) {
								consumes = true
							}
						}
					}
				case *ssa.Lookup:
					if dependsOn(x.Index, isPkgLoad) {
						consumes = true
					}
				}
			})
			if !consumes {
				continue
			}
			okAll := true
			for _, ret := range returnsOf(f) {
				if !passedBefore(f, ret, isReset, nil) {
					okAll = false
				}
			}
			r.Check(okAll, "C12.R3", shortName(f)+" resets the package override", p.Pos(f.Pos()), "reset on every return path",
				"a lookup that uses the Pkg override can return without putting the package name back: the override leaks into later lookups")
		}
	}

	// ---------- R4: caller-depth constants
	var callerFns []*ssa.Function
	for _, f := range root {
		for _, cs := range callsTo(f, "runtime.Caller") {
			if _, ok := callCommon(cs).Args[0].(*ssa.Parameter); ok {
				callerFns = append(callerFns, f)
			}
		}
	}
	for _, cf := range callerFns {
		for _, e := range root {
			if e.Object() == nil || !e.Object().Exported() || e == cf {
				continue
			}
			if e.Signature.Recv() != nil && !recvIs(e, builder) {
				continue
			}
			for _, path := range staticPaths(e, cf, 5) {
				// constant passed at the last call (or propagated)
				last := path.sites[len(path.sites)-1].(ssa.CallInstruction)
				argIdx := 0
				if last.Common().Signature().Recv() != nil {
					argIdx = 1
				}
				cv, ok := constInt(last.Common().Args[argIdx])
				cons := "caller depth on path " + path.String()
				if !ok {
					r.Und("C12.R4", cons, p.Pos(posOf(last)), "skip argument is not a constant")
					continue
				}
				want := int64(len(path.fns))
				r.Check(cv == want, "C12.R4", cons, p.Pos(posOf(last)), fmt.Sprintf("skip=%d equals chain length", cv),
					fmt.Sprintf("runtime.Caller skip constant is %d but the call chain from the exported entry point has %d frames: the builder resolves the wrong caller package", cv, want))
			}
		}
	}

	// ---------- R5a: Cancel sets the flag Canceled() reads
	for _, rel := range []string{"", "internal/iface"} {
		pk := p.Pkg(rel)
		if pk == nil {
			continue
		}
		for _, n := range namedTypesOf(pk.Types) {
			cn := declaredMethod(p, n, "Cancel")
			cd := declaredMethod(p, n, "Canceled")
			if cn == nil || cd == nil || cn.Blocks == nil || cd.Blocks == nil {
				continue
			}
			// flag = field loaded and returned by Canceled
			var flag *types.Var
			for _, ret := range returnsOf(cd) {
				if len(ret.Results) == 1 {
					if _, fv, ok := fieldRef(ret.Results[0]); ok {
						flag = fv
					}
				}
			}
			if flag == nil {
				// delegating Canceled (e.g. to a context): checked at the delegate
				continue
			}
			isSet := func(i ssa.Instruction) bool {
				st, ok := i.(*ssa.Store)
				if !ok {
					return false
				}
				fa, ok := st.Addr.(*ssa.FieldAddr)
				if !ok || fieldVar(fa.X.Type(), fa.Field) != flag {
					return false
				}
				c, ok := st.Val.(*ssa.Const)
				return ok && c.Value != nil && c.Value.String() == "true"
			}
			okAll := true
			for _, ret := range returnsOf(cn) {
				if !passedBefore(cn, ret, isSet, nil) {
					okAll = false
				}
			}
			r.Check(okAll, "C12.R5", shortName(cn)+" sets "+flag.Name(), p.Pos(cn.Pos()), "Cancel marks the mocker cancelled on every path",
				"Cancel can return without setting the flag Canceled() reports: the cancelled mocker is handed back by the next lookup")
			// nothing resets the flag to false outside constructors
			for _, fs := range storesToField(p.Funcs, func(fv *types.Var, _ ssa.Value) bool { return fv == flag }) {
				if isLocalAddr(fs.Addr.X) {
					continue
				}
				cc, ok := fs.Store.Val.(*ssa.Const)
				r.Check(ok && cc.Value != nil && cc.Value.String() == "true", "C12.R5", "store to "+flag.Name()+" in "+shortName(fs.Fn), p.Pos(posOf(fs.Store)), "only set to true", "the cancelled flag is cleared again")
			}
		}
	}
}

// embeds reports whether struct type n embeds (pointer to) owner, directly or transitively, or is owner.
func embeds(n, owner *types.Named) bool {
	if n == owner {
		return true
	}
	seen := map[*types.Named]bool{}
	var walk func(t *types.Named) bool
	walk = func(t *types.Named) bool {
		if t == nil || seen[t] {
			return false
		}
		seen[t] = true
		st, ok := t.Underlying().(*types.Struct)
		if !ok {
			return false
		}
		for i := 0; i < st.NumFields(); i++ {
			f := st.Field(i)
			if !f.Embedded() {
				continue
			}
			ft := f.Type()
			if pt, ok := ft.(*types.Pointer); ok {
				ft = pt.Elem()
			}
			if nt, ok := ft.(*types.Named); ok {
				if nt == owner || walk(nt) {
					return true
				}
			}
		}
		return false
	}
	return walk(n)
}

// storesField: does f contain a store to field fld?
func storesField(f *ssa.Function, fld *types.Var) bool {
	found := false
	eachInstr(f, func(i ssa.Instruction) {
		if st, ok := i.(*ssa.Store); ok {
			if fa, ok := st.Addr.(*ssa.FieldAddr); ok && fieldVar(fa.X.Type(), fa.Field) == fld {
				found = true
			}
		}
	})
	return found
}

func recvIs(f *ssa.Function, n *types.Named) bool {
	rt := f.Signature.Recv().Type()
	if pt, ok := rt.(*types.Pointer); ok {
		rt = pt.Elem()
	}
	return rt == types.Type(n)
}

// declaredMethod returns the method declared directly on n (not promoted).
func declaredMethod(p *Prog, n *types.Named, name string) *ssa.Function {
	for i := 0; i < n.NumMethods(); i++ {
		if n.Method(i).Name() == name {
			return p.SSA.FuncValue(n.Method(i))
		}
	}
	return nil
}

// checkStubInstalledWithContinuation: in every method that creates the stub continuation (stores a non-nil *When into the
// mocker) the stub callback is (re)installed on every path — directly or through helpers that install on all their paths.
func checkStubInstalledWithContinuation(p *Prog, r *Report, rule string, only func(*ssa.Function) bool) {
	whenT := p.NamedType("", "When")
	if whenT == nil {
		r.Und(rule, "When", "", "type When not found")
		return
	}
	root := p.FuncsIn("")
	var contFld *types.Var
	for _, n := range namedTypesOf(p.Pkg("").Types) {
		if st, ok := n.Underlying().(*types.Struct); ok && n != whenT {
			for i := 0; i < st.NumFields(); i++ {
				if pt, ok := st.Field(i).Type().(*types.Pointer); ok && types.Identical(pt.Elem(), whenT) {
					contFld = st.Field(i)
				}
			}
		}
	}
	if contFld == nil {
		r.Und(rule, "stub continuation", "", "no *When field")
		return
	}
	// installers: functions of the root package from which a non-restore text write or the interface apply is reachable
	var targets []*ssa.Function
	for _, s := range p.textWriteSites() {
		if s.Kind != "restore" {
			targets = append(targets, s.Fn)
		}
	}
	if f := p.Fn("internal/proxy", "Interface"); f != nil {
		targets = append(targets, f)
	}
	reach := p.modReachers(targets...)
	memo := map[*ssa.Function]int{}
	var must func(f *ssa.Function) bool
	isInstallCall := func(i ssa.Instruction) bool {
		ci, ok := i.(ssa.CallInstruction)
		if !ok {
			return false
		}
		if _, isGo := i.(*ssa.Go); isGo {
			return false
		}
		for _, cal := range p.modCallees(ci) {
			if relPkg(cal) != "" {
				if reach[cal] {
					return true
				}
				continue
			}
			if must(cal) {
				return true
			}
		}
		return false
	}
	must = func(f *ssa.Function) bool {
		switch memo[f] {
		case 1:
			return true
		case 2, 3:
			return false
		}
		if f.Blocks == nil || !reach[f] {
			memo[f] = 2
			return false
		}
		memo[f] = 3
		ok := true
		for _, ret := range returnsOf(f) {
			if !passedBefore(f, ret, isInstallCall, nil) {
				ok = false
			}
		}
		if ok {
			memo[f] = 1
		} else {
			memo[f] = 2
		}
		return ok
	}
	n := 0
	for _, f := range root {
		if f.Object() == nil || !f.Object().Exported() || f.Signature.Recv() == nil || (only != nil && !only(f)) {
			continue
		}
		// does f (or a helper it calls directly) store a non-nil continuation?
		creates := false
		check := func(g *ssa.Function) {
			eachInstr(g, func(i ssa.Instruction) {
				if st, ok := i.(*ssa.Store); ok && !isNilConst(st.Val) {
					if fa, ok := st.Addr.(*ssa.FieldAddr); ok && fieldVar(fa.X.Type(), fa.Field) == contFld && !isLocalAddr(fa.X) {
						creates = true
					}
				}
			})
		}
		check(f)
		eachInstr(f, func(i ssa.Instruction) {
			if ci, ok := i.(ssa.CallInstruction); ok {
				if cal := staticCallee(ci.Common()); cal != nil && relPkg(cal) == "" && cal.Blocks != nil && cal.Signature.Recv() != nil && (cal.Object() == nil || !cal.Object().Exported()) {
					check(cal)
				}
			}
		})
		if !creates {
			continue
		}
		n++
		// on the paths where a continuation is created (i.e. not the early "extend existing" returns), install must happen:
		okAll := true
		for _, ret := range returnsOf(f) {
			// early returns that delegate to the existing continuation are guarded by cont != nil
			if isNil, known := nilGuardOnField(ret.Block(), contFld); known && !isNil {
				continue
			}
			if !passedBefore(f, ret, isInstallCall, nil) {
				okAll = false
			}
		}
		r.Check(okAll, rule, shortName(f)+" installs the stub whenever it creates the continuation", p.Pos(f.Pos()), "every creating path passes an installing call",
			"a path creates the When continuation without (re)installing the stub callback (the install is skipped or conditional on a sticky flag): after stub → Apply(cb) → stub, calls still reach cb and the new stub is ignored")
	}
	if n == 0 {
		r.Und(rule, "continuation-creating methods", "", "none found")
	}
	// where one function both installs the stub and records the continuation itself, the continuation is recorded only
	// once the install succeeded: an install that panics (rejected template) must not leave a never-installed continuation
	// behind, to which the next, well-formed instruction would merely be appended
	for _, f := range root {
		if f.Signature.Recv() == nil || (only != nil && !only(f)) || !reach[f] {
			continue
		}
		var installs []ssa.Instruction
		var contStores []*ssa.Store
		eachInstr(f, func(i ssa.Instruction) {
			if isInstallCall(i) {
				installs = append(installs, i)
			}
			if st, ok := i.(*ssa.Store); ok && !isNilConst(st.Val) {
				if fa, ok := st.Addr.(*ssa.FieldAddr); ok && fieldVar(fa.X.Type(), fa.Field) == contFld && !isLocalAddr(fa.X) {
					contStores = append(contStores, st)
				}
			}
		})
		if len(installs) == 0 {
			continue
		}
		for _, st := range contStores {
			okOrder := false
			for _, in := range installs {
				if domInstr(in, st) {
					okOrder = true
				}
			}
			r.Check(okOrder, rule, "continuation recorded after the install in "+shortName(f), p.Pos(posOf(st)), "the installing call dominates the store of the continuation",
				"the When continuation is recorded before the stub is installed: if the install is rejected (panics) a never-installed continuation stays behind and the next instruction for the same target is appended to it instead of being applied")
		}
	}
	// every exported Apply installs its callback on every path (no "same callback, skip" shortcuts)
	// (an Apply that takes a callback, of a type some method of which can install: the Apply of a variable mock or of a
	// guard installs nothing by design)
	typeInstalls := map[string]bool{}
	recvName := func(f *ssa.Function) string {
		t := f.Signature.Recv().Type()
		if pt, ok := t.(*types.Pointer); ok {
			t = pt.Elem()
		}
		if nt, ok := t.(*types.Named); ok {
			return nt.Obj().Name()
		}
		return ""
	}
	for _, f := range root {
		if f.Signature.Recv() == nil {
			continue
		}
		if reach[f] {
			typeInstalls[recvName(f)] = true
		}
		// a type that carries the stub continuation (directly or through an embedded base) is a mocker of code: its Apply
		// must install
		var hasCont func(t types.Type, depth int) bool
		hasCont = func(t types.Type, depth int) bool {
			if pt, ok := t.(*types.Pointer); ok {
				t = pt.Elem()
			}
			st, ok := t.Underlying().(*types.Struct)
			if !ok || depth > 3 {
				return false
			}
			for k := 0; k < st.NumFields(); k++ {
				if st.Field(k) == contFld {
					return true
				}
				if st.Field(k).Embedded() && hasCont(st.Field(k).Type(), depth+1) {
					return true
				}
			}
			return false
		}
		if hasCont(f.Signature.Recv().Type(), 0) {
			typeInstalls[recvName(f)] = true
		}
	}
	for _, f := range root {
		if f.Object() == nil || f.Name() != "Apply" || f.Signature.Recv() == nil || (only != nil && !only(f)) || f.Signature.Params().Len() != 1 || f.Blocks == nil {
			continue
		}
		if !reach[f] && !typeInstalls[recvName(f)] {
			continue
		}
		okAll := true
		for _, ret := range returnsOf(f) {
			if !passedBefore(f, ret, isInstallCall, nil) {
				okAll = false
			}
		}
		if os.Getenv("GOOMVET_DEBUG") != "" {
			eachInstr(f, func(i ssa.Instruction) {
				if isInstallCall(i) {
					fmt.Println("C12 install call in", shortName(f), ":", i.String())
				}
			})
		}
		r.Check(okAll, rule, shortName(f)+" installs the given callback on every path", p.Pos(f.Pos()), "every return passes an installing call",
			"Apply can return without installing the callback it was given (an early-out such as 'same callback as before'): the most recent Apply is dropped and the earlier callback stays in effect")
	}
}

// checkCacheKeys (C12.R1/R5, shared with C02.R6): every exported lookup method that consults a mocker cache stores the
// mocker it creates under the same key it consulted (with no reset of the package override between the two key
// computations), hands a cached mocker back only if found and not cancelled, and never shrinks the cache: a mocker the
// builder forgot, or filed under another key, is not reached by Reset.
type cacheCtx struct {
	root     []*ssa.Function
	mockerI  *types.Interface
	builder  *types.Named
	pkgFld   *types.Var
	cacheMap *types.Var
}

func checkCacheKeys(p *Prog, r *Report, rKey, rGuard string) *cacheCtx {
	root := p.FuncsIn("")
	builder := p.NamedType("", "Builder")
	mockerT := p.NamedType("", "Mocker")
	if builder == nil || mockerT == nil {
		r.Und(rKey, "Builder/Mocker", "", "exported types not found")
		return nil
	}
	mockerI := mockerT.Underlying().(*types.Interface)
	pkgFld := structField(builder, "pkgName")
	var cacheMap *types.Var
	bst := builder.Underlying().(*types.Struct)
	for i := 0; i < bst.NumFields(); i++ {
		if _, ok := bst.Field(i).Type().Underlying().(*types.Map); ok {
			cacheMap = bst.Field(i)
		}
	}
	if cacheMap == nil {
		r.Und(rKey, "Builder cache", "", "Builder has no map field")
		return nil
	}
	if pkgFld == nil {
		// the package override field: the string field of Builder
		for i := 0; i < bst.NumFields(); i++ {
			if b, ok := bst.Field(i).Type().Underlying().(*types.Basic); ok && b.Kind() == types.String {
				pkgFld = bst.Field(i)
			}
		}
	}

	// ---------- R1 + R5b: lookups
	// a "store helper" is a method that does MapUpdate on a map field with its parameters
	isMapFieldOfRecv := func(v ssa.Value) (*types.Var, bool) {
		_, fv, ok := fieldRef(v)
		if !ok || fv == nil {
			return nil, false
		}
		_, isMap := fv.Type().Underlying().(*types.Map)
		return fv, isMap
	}
	type storeSite struct {
		key ssa.Value
		val ssa.Value
		at  ssa.Instruction
		fld *types.Var
	}
	storeHelpers := map[*ssa.Function]*types.Var{}
	for _, f := range root {
		if f.Signature.Recv() == nil || len(f.Params) != 3 {
			continue
		}
		eachInstr(f, func(i ssa.Instruction) {
			if mu, ok := i.(*ssa.MapUpdate); ok {
				if fv, ok := isMapFieldOfRecv(mu.Map); ok && mu.Key == ssa.Value(f.Params[1]) && mu.Value == ssa.Value(f.Params[2]) {
					storeHelpers[f] = fv
				}
			}
		})
	}
	nLookups := 0
	for _, f := range root {
		if f.Signature.Recv() == nil || f.Object() == nil || !f.Object().Exported() {
			continue
		}
		var lookups []*ssa.Lookup
		var stores []storeSite
		eachInstr(f, func(i ssa.Instruction) {
			switch x := i.(type) {
			case *ssa.Lookup:
				if fv, ok := isMapFieldOfRecv(x.X); ok && x.CommaOk {
					mt := fv.Type().Underlying().(*types.Map)
					if implementsIface(mt.Elem(), mockerI) || types.Implements(mt.Elem(), mockerI) {
						lookups = append(lookups, x)
					}
				}
			case *ssa.MapUpdate:
				if fv, ok := isMapFieldOfRecv(x.Map); ok {
					stores = append(stores, storeSite{x.Key, x.Value, x, fv})
				}
			case *ssa.Call:
				if cal := staticCallee(x.Common()); cal != nil {
					if fv, ok := storeHelpers[cal]; ok {
						stores = append(stores, storeSite{x.Call.Args[1], x.Call.Args[2], x, fv})
					}
				}
			}
		})
		for _, lk := range lookups {
			nLookups++
			fv, _ := isMapFieldOfRecv(lk.X)
			cons := "lookup in " + shortName(f) + " map " + fv.Name()
			lkKey := exprKey(lk.Index, 0)
			// matching store
			var match *storeSite
			for k := range stores {
				if stores[k].fld == fv {
					match = &stores[k]
				}
			}
			if match == nil {
				r.Bad(rKey, cons, p.Pos(posOf(lk)), "the lookup consults the cache but the freshly created mocker is never stored in it: the next lookup discards the configuration")
			} else {
				stKey := exprKey(match.key, 0)
				same := lkKey == stKey
				// the override must not be reset between the key computations
				if same && pkgFld != nil {
					eachInstr(f, func(i ssa.Instruction) {
						if ci, ok := i.(ssa.CallInstruction); ok {
							if cal := staticCallee(ci.Common()); cal != nil && storesField(cal, pkgFld) {
								if reachableAfter(lk, i) && reachableAfter(i, match.at) && strings.Contains(lkKey, pkgFld.Name()) {
									same = false
								}
							}
						}
					})
				}
				r.Check(same, rKey, cons, p.Pos(posOf(match.at)), "consult key = store key = "+lkKey,
					"the cache is consulted under key "+lkKey+" but the new mocker is stored under "+stKey+": asking again for the same target creates a fresh mocker and discards the configuration")
			}
			// returns of the looked-up value are guarded by ok && !Canceled()
			var ex0, ex1 ssa.Value
			for _, ref := range *lk.Referrers() {
				if ex, ok := ref.(*ssa.Extract); ok {
					if ex.Index == 0 {
						ex0 = ex
					} else {
						ex1 = ex
					}
				}
			}
			returned := false
			for _, ret := range returnsOf(f) {
				for k := range ret.Results {
					rv := retResult(ret, k)
					if ex0 != nil && dependsOn(rv, func(v ssa.Value) bool { return v == ex0 }) {
						returned = true
						// the looked-up value may reach the return directly or as one incoming edge of a phi (single-exit
						// style): in the latter case the conditions known on that edge count
						var ways [][]Guard
						var findWays func(v ssa.Value, extra []Guard, depth int)
						findWays = func(v ssa.Value, extra []Guard, depth int) {
							if depth > 4 {
								return
							}
							switch x := v.(type) {
							case *ssa.TypeAssert:
								findWays(x.X, extra, depth+1)
							case *ssa.ChangeInterface:
								findWays(x.X, extra, depth+1)
							case *ssa.MakeInterface:
								findWays(x.X, extra, depth+1)
							case *ssa.Phi:
								for ei, e := range x.Edges {
									if dependsOn(e, func(w ssa.Value) bool { return w == ex0 }) {
										findWays(e, append(append([]Guard{}, extra...), knownAtEdge(x.Block().Preds[ei], x.Block())...), depth+1)
									}
								}
							default:
								if v == ex0 || dependsOn(v, func(w ssa.Value) bool { return w == ex0 }) {
									ways = append(ways, extra)
								}
							}
						}
						findWays(rv, guardsAt(ret.Block()), 0)
						if len(ways) == 0 {
							ways = append(ways, guardsAt(ret.Block()))
						}
						okG, notCanceled := true, true
						for _, gs := range ways {
							wOK, wNC := false, false
							for _, g := range gs {
								if g.Cond == ex1 && g.Pol {
									wOK = true
								}
								if cl, ok := g.Cond.(*ssa.Call); ok && !g.Pol && cl.Call.IsInvoke() && cl.Call.Method.Name() == "Canceled" && cl.Call.Value == ex0 {
									wNC = true
								}
								if cl, ok := g.Cond.(*ssa.Call); ok && !g.Pol && !cl.Call.IsInvoke() {
									if cal := staticCallee(cl.Common()); cal != nil && cal.Name() == "Canceled" && len(cl.Call.Args) > 0 && dependsOn(cl.Call.Args[0], func(v ssa.Value) bool { return v == ex0 }) {
										wNC = true
									}
								}
							}
							if !wOK {
								okG = false
							}
							if !wNC {
								notCanceled = false
							}
						}
						r.Check(okG && notCanceled, rGuard, "cached mocker handed back in "+shortName(f)+" map "+fv.Name(), p.Pos(posOf(ret)), "returned only if found and not cancelled",
							"a cached mocker is handed back without the 'found && !Canceled()' guard: after Reset the old, cancelled configuration is continued instead of starting from scratch")
					}
				}
			}
			if !returned {
				r.Bad(rKey, "cached mocker continued in "+shortName(f)+" map "+fv.Name(), p.Pos(posOf(lk)), "the cached mocker is looked up but never returned: the existing configuration is discarded on every lookup")
			}
		}
	}
	r.Stat("cache_lookups", nLookups)

	// the caches are never shrunk: a retained mocker handle that is used again must still be cancelled by the next Reset
	for _, f := range root {
		eachInstr(f, func(i ssa.Instruction) {
			cl, isCall := i.(*ssa.Call)
			if !isCall {
				return
			}
			if bi, isB := cl.Call.Value.(*ssa.Builtin); isB && bi.Name() == "delete" {
				if fv, isM := isMapFieldOfRecv(cl.Call.Args[0]); isM {
					mt := fv.Type().Underlying().(*types.Map)
					if implementsIface(mt.Elem(), mockerI) || types.Implements(mt.Elem(), mockerI) {
						r.Bad(rKey, "mocker cache "+fv.Name()+" shrunk in "+shortName(f), p.Pos(posOf(i)), "an entry is deleted from a mocker cache: a mocker handle the caller still holds is forgotten, so a later Reset no longer cancels what it re-applies")
					}
				}
			}
		})
	}
	return &cacheCtx{root, mockerI, builder, pkgFld, cacheMap}
}
