package main

import (
	"go/constant"
	"go/token"
	"go/types"
	"strings"

	"golang.org/x/tools/go/ssa"
)

// c13Preconditions: C13.R10 — a precondition panic of the configuration API (a panic with a text message in the root
// package) sits on the side of its test that names the mistake: "x is empty" under x == "", "must … before" under
// x == nil (non-error values), "… not found" under !ok of a by-name method lookup, "must be a pointer/func" under
// Kind() != K. An inverted test accepts the mistake and refuses every well-formed call.
func c13Preconditions(p *Prog, r *Report) {
	n := 0
	for _, f := range p.FuncsIn("") {
		if f.Blocks == nil {
			continue
		}
		nInF := 0
		for _, b := range f.Blocks {
			pn, ok := b.Instrs[len(b.Instrs)-1].(*ssa.Panic)
			if !ok {
				continue
			}
			mi, ok := pn.X.(*ssa.MakeInterface)
			if !ok || !isString(mi.X.Type()) {
				continue
			}
			// the tests that lead straight to the panic: one per incoming edge (`a || b` gives two)
			for _, pr := range b.Preds {
				iff, ok := lastInstr(pr).(*ssa.If)
				if !ok || pr.Succs[0] == pr.Succs[1] {
					continue
				}
				pol := pr.Succs[0] == b
				kind, mistakeSide, known := preconditionSide(iff.Cond)
				if !known {
					continue
				}
				n++
				nInF++
				r.Check(pol == mistakeSide, "C13.R10", "precondition ("+kind+") of "+shortName(f)+" #"+itoa2(nInF), p.Pos(posOf(pn)),
					"the panic is on the side of the test that names the mistake",
					"a precondition panic of the configuration API is on the wrong side of its "+kind+" test: the mistake it names is accepted and every well-formed call is refused")
			}
		}
	}
	r.Stat("precondition_panics", n)
	r.Floor("C13.R10", 15)
}

// preconditionSide classifies a guard condition of a precondition panic: which kind of test it is and on which outcome of
// the condition (true/false) the mistake lies.
func preconditionSide(cond ssa.Value) (kind string, mistakeWhen bool, ok bool) {
	switch c := cond.(type) {
	case *ssa.BinOp:
		if c.Op != token.EQL && c.Op != token.NEQ {
			return "", false, false
		}
		x, y := c.X, c.Y
		if _, isC := x.(*ssa.Const); isC {
			x, y = y, x
		}
		yc, isC := y.(*ssa.Const)
		if !isC {
			return "", false, false
		}
		switch {
		case isString(x.Type()) && yc.Value != nil && yc.Value.Kind() == constant.String && constant.StringVal(yc.Value) == "":
			return "emptiness", c.Op == token.EQL, true
		case yc.Value == nil && !isErrorType(x.Type()):
			switch x.Type().Underlying().(type) {
			case *types.Interface, *types.Pointer, *types.Signature, *types.Slice, *types.Map:
				return "nil", c.Op == token.EQL, true
			}
		case yc.Value != nil && isLenCall(x):
			if n, ok := constInt(yc); ok && n == 0 {
				// len(x) == 0 is the emptiness test
				return "emptiness", c.Op == token.EQL, true
			}
			// "must be N": the mistake is a length other than N
			return "count", c.Op == token.NEQ, true
		case yc.Value != nil && strings.HasSuffix(x.Type().String(), "reflect.Kind"):
			if cl, isCall := x.(*ssa.Call); isCall && strings.HasSuffix(calleeName(cl.Common()), ".Kind") {
				return "kind", c.Op == token.NEQ, true
			}
		}
	case *ssa.Extract:
		if cl, isCall := c.Tuple.(*ssa.Call); isCall && c.Index == 1 && strings.HasSuffix(calleeName(cl.Common()), ".MethodByName") {
			return "method lookup", false, true
		}
	}
	return "", false, false
}

// c13MethodNameValidated: C13.R11 — for a mocker type one of whose methods resolves a method by name through reflection,
// every exported method that records a caller-given name in the receiver has, on every way to its return, passed such a
// lookup (directly or through a helper of the same receiver): an unknown method name is refused when it is given.
func c13MethodNameValidated(p *Prog, r *Report) {
	usesLookup := func(f *ssa.Function) bool {
		found := false
		eachInstr(f, func(i ssa.Instruction) {
			if c := callCommon(i); c != nil && strings.HasSuffix(calleeName(c), ".MethodByName") {
				found = true
			}
		})
		return found
	}
	recvNamed := func(f *ssa.Function) *types.Named {
		if f.Signature.Recv() == nil {
			return nil
		}
		t := f.Signature.Recv().Type()
		if pt, ok := t.(*types.Pointer); ok {
			t = pt.Elem()
		}
		nt, _ := t.(*types.Named)
		return nt
	}
	lookupTypes := map[*types.Named]bool{}
	for _, f := range p.FuncsIn("") {
		if f.Blocks != nil && usesLookup(f) {
			if nt := recvNamed(f); nt != nil {
				lookupTypes[nt] = true
			}
		}
	}
	n := 0
	for _, f := range p.FuncsIn("") {
		nt := recvNamed(f)
		if f.Blocks == nil || nt == nil || !lookupTypes[nt] || f.Object() == nil || !f.Object().Exported() {
			continue
		}
		// records a string parameter in a receiver field
		var rec *ssa.Store
		eachInstr(f, func(i ssa.Instruction) {
			st, ok := i.(*ssa.Store)
			if !ok {
				return
			}
			fa, ok := st.Addr.(*ssa.FieldAddr)
			if !ok || fa.X != ssa.Value(f.Params[0]) {
				return
			}
			for _, prm := range f.Params[1:] {
				if isString(prm.Type()) && st.Val == ssa.Value(prm) {
					rec = st
				}
			}
		})
		if rec == nil {
			continue
		}
		n++
		isLookup := func(i ssa.Instruction) bool {
			c := callCommon(i)
			if c == nil {
				return false
			}
			if strings.HasSuffix(calleeName(c), ".MethodByName") {
				return true
			}
			cal := staticCallee(c)
			return cal != nil && cal.Blocks != nil && relPkg(cal) == "" && usesLookup(cal)
		}
		okAll := true
		for _, ret := range returnsOf(f) {
			if !passedBefore(f, ret, isLookup, nil) {
				okAll = false
			}
		}
		r.Check(okAll, "C13.R11", "method name validated in "+shortName(f), p.Pos(f.Pos()), "a by-name lookup is passed on every way to the return",
			"the method records the caller's method name without looking it up on the target type: an unknown method name is not refused when it is given (and a later step falls back to slot 0 or fails far from the mistake)")
	}
	r.Stat("method_name_setters", n)
	r.Floor("C13.R11", 2)
}

func isString(t types.Type) bool {
	b, ok := t.Underlying().(*types.Basic)
	return ok && b.Info()&types.IsString != 0
}

func isErrorType(t types.Type) bool {
	return types.Identical(t, types.Universe.Lookup("error").Type())
}

