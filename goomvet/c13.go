package main

import (
	"fmt"
	"go/ast"
	"go/constant"
	"go/token"
	"go/types"
	"sort"
	"strings"

	"golang.org/x/tools/go/ssa"
)

func init() { register("C13", c13) }

// suppressions for C13.R1/R2: one named construct each, with the reason.
var c13Suppress = map[string]string{
	"error return after internal/patch.Trampoline in internal/proxy.Func from call:" + Mod + "/internal/unexports2.CreateFuncForCodePtr#1":                 "CreateFuncForCodePtr fails only for a non-pointer placeholder, which the dominating bytecode.IsValidPtr test excludes",
	"error return after internal/patch.InstanceMethodTrampoline in internal/proxy.Method from call:" + Mod + "/internal/unexports2.CreateFuncForCodePtr#1": "CreateFuncForCodePtr fails only for a non-pointer placeholder, which the dominating bytecode.IsValidPtr test excludes",
	"error of internal/unexports2.GetSymbolTable in internal/unexports2.initAlignmentFunc":                                                                 "redundant warm-up call after both symbol lookups already succeeded through the same loader; nothing depends on its result",
	// the same construct in rename-stable form (the function is unexported)
	"error of internal/unexports2.GetSymbolTable in internal/unexports2.~func()()#0":        "redundant warm-up call after both symbol lookups already succeeded through the same loader; nothing depends on its result",
	"error of internal/unexports2.FindFuncByName in (*mocker.UnexportedMethodMocker).Apply": "deliberate pre-load of the symbol table: the same lookup is repeated and checked in proxy.FuncName, reached through applyByName on the next line",
}

// c13Suppressed looks a construct up literally and in its rename-stable form.
func c13Suppressed(p *Prog, cons string) (string, bool) {
	if why, ok := c13Suppress[cons]; ok {
		return why, true
	}
	why, ok := c13Suppress[p.StableConstruct(cons)]
	return why, ok
}

func c13(c *Ctx) {
	p, r := c.K1(), c.R
	r.Expl = "Structural clauses behind 'configuration mistakes are rejected up front and leave nothing patched': (R1) inside every function of the apply chain each call that can reach a text write is dominated by the err==nil continuation of every earlier fallible in-module call, signature checking lies on every static path from the checked entry points to the patch installer, and proxy.Interface returns no error after it mutated anything; (R2) no error result of an in-module call is dropped in the mocking packages; (R3) every erro type with Cause() is Traceable so the chain can be walked; (R4) every exported erro error type is actually constructed by a constructor; (R5) the count/size reject conditions compare exactly the quantities the property names. That every mistake class is detected for every value is not decided. (R7) no validation test is left without a consequence; (R8) on the side of an error test where the error is nil it is not reported (inverted tests); (R9) for a variadic function the list converters refuse exactly the lists too short to cover the fixed parameters; (R10) a precondition panic of the configuration API is on the side of its test that names the mistake (empty name, missing As(), method not found, wrong kind); (R11) a mocker that resolves methods by name looks the name up when it is given."
	r.RuleText = "one obligation per (rule, call site / function / type)"
	r.Floor("C13.R1", 5)
	r.Floor("C13.R2", 20)
	r.Floor("C13.R3", 2)
	r.Floor("C13.R4", 5)
	r.Floor("C13.R5", 4)

	var wfns []*ssa.Function
	for _, s := range p.textWriteSites() {
		if s.Kind != "restore" { // restoring the original bytes is the rollback, allowed on error paths
			wfns = append(wfns, s.Fn)
		}
	}
	if len(wfns) == 0 {
		r.Und("C13.R1", "text writers", "", "no non-restore call of memory.WriteTo found")
		return
	}
	reach := p.modReachers(wfns...)
	inChain := func(rel string) bool {
		switch rel {
		case "", "internal/proxy", "internal/patch", "internal/iface":
			return true
		}
		return false
	}
	// ---- R1a: writes dominated by err==nil of earlier fallible calls
	nW := 0
	for _, f := range p.Funcs {
		if !inChain(relPkg(f)) {
			continue
		}
		var wcalls []ssa.CallInstruction
		var fallible []*ssa.Call
		eachInstr(f, func(i ssa.Instruction) {
			ci, ok := i.(ssa.CallInstruction)
			if !ok {
				return
			}
			for _, cal := range p.modCallees(ci) {
				if reach[cal] {
					wcalls = append(wcalls, ci)
					break
				}
			}
			if cl, ok := i.(*ssa.Call); ok {
				if cal := staticCallee(cl.Common()); cal != nil && strings.HasPrefix(pkgPathOf(cal), Mod) && errIndex(cal.Signature) >= 0 && canReturnNonNilError(cal) {
					fallible = append(fallible, cl)
				}
			}
		})
		for _, w := range wcalls {
			for _, d := range fallible {
				if ssa.Instruction(d) == ssa.Instruction(w) || !domInstr(d, w) {
					continue
				}
				nW++
				cal := staticCallee(d.Common())
				cons := "error of " + shortName(cal) + " in " + shortName(f)
				if why, ok := c13Suppressed(p, cons); ok {
					r.OK("C13.R1", cons+" before "+calleeShort(w), p.Pos(posOf(w)), "suppressed: "+why)
					continue
				}
				r.Check(errNilGuarded(w.Block(), d), "C13.R1", cons+" before "+calleeShort(w), p.Pos(posOf(w)),
					"write-reaching call runs only when the earlier error is nil",
					"a call that can reach a text write ("+calleeShort(w)+") is not confined to the err==nil continuation of "+shortName(cal)+": a rejected configuration can still patch")
			}
		}
	}
	r.Stat("write_reaching_call_x_fallible_pairs", nW)

	// ---- R1d: nothing is rejected after a write-reaching call (except by that call's own error)
	for _, f := range p.Funcs {
		if !inChain(relPkg(f)) {
			continue
		}
		var wcalls []ssa.CallInstruction
		eachInstr(f, func(i ssa.Instruction) {
			if ci, ok := i.(ssa.CallInstruction); ok {
				for _, cal := range p.modCallees(ci) {
					if reach[cal] {
						wcalls = append(wcalls, ci)
						break
					}
				}
			}
		})
		if len(wcalls) == 0 {
			continue
		}
		ei := errIndex(f.Signature)
		for _, w := range wcalls {
			wv, _ := w.(*ssa.Call)
			fromW := func(v ssa.Value) bool {
				for _, a := range errRootOrigins(v, 3) {
					switch x := a.V.(type) {
					case *ssa.Extract:
						if x.Tuple == ssa.Value(wv) {
							return true
						}
					case *ssa.Call:
						if x == wv {
							return true
						}
					}
				}
				return false
			}
			if ei >= 0 {
				for _, ret := range returnsOf(f) {
					rv := retResult(ret, ei)
					if rv == nil || isNilConst(rv) || !reachableAfter(w, ret) {
						continue
					}
					if wv != nil && fromW(rv) {
						continue
					}
					// error produced by a later write-reaching call is judged at that call
					later := false
					for _, w2 := range wcalls {
						if w2v, ok := w2.(*ssa.Call); ok && w2 != w {
							for _, a := range errRootOrigins(rv, 3) {
								if ex, ok := a.V.(*ssa.Extract); ok && ex.Tuple == ssa.Value(w2v) {
									later = true
								}
								if cl, ok := a.V.(*ssa.Call); ok && cl == w2v {
									later = true
								}
							}
						}
					}
					if later {
						continue
					}
					cons := "error return after " + calleeShort(w) + " in " + shortName(f) + " from " + atomsString(errRootOrigins(rv, 3))
					if why, ok := c13Suppressed(p, cons); ok {
						r.OK("C13.R1", cons, p.Pos(posOf(ret)), "suppressed: "+why)
						continue
					}
					r.Bad("C13.R1", cons, p.Pos(posOf(ret)), "the call can be rejected after "+calleeShort(w)+" already wrote text: a failed apply leaves the target or the placeholder modified")
				}
			}
		}
	}

	// ---- R1e: nothing that can reject by panicking runs after a write-reaching call of the same function
	mayPanic := map[*ssa.Function]int{}
	var mp func(f *ssa.Function, d int) bool
	mp = func(f *ssa.Function, d int) bool {
		if f == nil || f.Blocks == nil || d > 8 {
			return false
		}
		switch mayPanic[f] {
		case 1:
			return true
		case 2, 3:
			return false
		}
		mayPanic[f] = 3
		res := false
		eachInstr(f, func(i ssa.Instruction) {
			if _, ok := i.(*ssa.Panic); ok {
				res = true
			}
			if ci, ok := i.(ssa.CallInstruction); ok && !res {
				for _, cal := range p.modCallees(ci) {
					rel := relPkg(cal)
					if rel == "internal/logger" || strings.HasPrefix(rel, "?") {
						continue
					}
					if mp(cal, d+1) {
						res = true
					}
				}
			}
		})
		if res {
			mayPanic[f] = 1
		} else {
			mayPanic[f] = 2
		}
		return res
	}
	for _, f := range p.FuncsIn("") {
		var wcalls []ssa.CallInstruction
		eachInstr(f, func(i ssa.Instruction) {
			if ci, ok := i.(ssa.CallInstruction); ok {
				for _, cal := range p.modCallees(ci) {
					if reach[cal] {
						wcalls = append(wcalls, ci)
						break
					}
				}
			}
		})
		if len(wcalls) == 0 || f.Object() == nil {
			continue
		}
		eachInstr(f, func(i ssa.Instruction) {
			ci, ok := i.(ssa.CallInstruction)
			if !ok {
				return
			}
			isW := false
			for _, w := range wcalls {
				if w == ci {
					isW = true
				}
			}
			if isW {
				return
			}
			var rej *ssa.Function
			for _, cal := range p.modCallees(ci) {
				rel := relPkg(cal)
				// validation lives in the stub-configuration layer (root package When/matchers, arg)
				if (rel == "" || rel == "arg") && mp(cal, 0) {
					rej = cal
				}
			}
			if rej == nil {
				return
			}
			for _, w := range wcalls {
				if reachableAfter(w, i) {
					r.Bad("C13.R1", "validation "+shortName(rej)+" after "+calleeShort(w)+" in "+shortName(f), p.Pos(posOf(i)),
						"a call that can reject the configuration by panicking ("+shortName(rej)+") runs after "+calleeShort(w)+" already patched the target: an ill-formed configuration panics but leaves the previously un-mocked target patched")
					return
				}
			}
			r.OK("C13.R1", "validation "+shortName(rej)+" precedes the write in "+shortName(f), p.Pos(posOf(i)), "rejecting call is not reachable after a write-reaching call")
		})
	}

	// ---- R1b: signature check on every static path from checked entry points to the installer
	sigEq := p.Fn("internal/patch", "SignatureEquals")
	var installer *ssa.Function
	// installer role: the function in patch that stores into the package-level patch table
	for _, f := range p.FuncsIn("internal/patch") {
		eachInstr(f, func(i ssa.Instruction) {
			if mu, ok := i.(*ssa.MapUpdate); ok {
				if as := origins(mu.Map); len(as) > 0 && as[0].Kind == "global" {
					installer = f
				}
			}
		})
	}
	if sigEq == nil || installer == nil {
		r.Und("C13.R1", "signature check path", "", "SignatureEquals or the patch installer not found")
	} else {
		for _, entry := range []*ssa.Function{p.Fn("internal/proxy", "Func"), p.Fn("internal/proxy", "Method")} {
			if entry == nil {
				r.Und("C13.R1", "signature check path", "", "proxy.Func/Method not found")
				continue
			}
			paths := staticPaths(entry, installer, 8)
			if len(paths) == 0 {
				r.Und("C13.R1", "signature check path from "+shortName(entry), p.Pos(entry.Pos()), "no static path to the patch installer")
			}
			for _, path := range paths {
				ok := false
				for k := 0; k+1 < len(path.fns); k++ {
					for _, sc := range callsTo(path.fns[k], sigEq.Object().(*types.Func).FullName()) {
						if domInstr(sc, path.sites[k]) {
							ok = true
						}
					}
				}
				r.Check(ok, "C13.R1", "signature check on path "+path.String(), p.Pos(posOf(path.sites[0])), "SignatureEquals dominates the continuation",
					"a type-checked apply path reaches the patch installer without passing the signature comparison")
			}
		}
	}
	// ---- R1c: proxy.Interface returns no error after mutating
	if pi := p.Fn("internal/proxy", "Interface"); pi != nil {
		var muts []ssa.Instruction
		eachInstr(pi, func(i ssa.Instruction) {
			if ci, ok := i.(ssa.CallInstruction); ok {
				if cal := staticCallee(ci.Common()); cal != nil && strings.HasPrefix(pkgPathOf(cal), Mod) {
					if relPkg(cal) == "erro" || relPkg(cal) == "internal/hack" {
						return
					}
					if hasEffects(cal) {
						muts = append(muts, i)
					}
				}
			}
			if _, ok := i.(*ssa.Store); ok {
				if st := i.(*ssa.Store); !isLocalAddr(st.Addr) {
					muts = append(muts, i)
				}
			}
		})
		for _, ret := range returnsOf(pi) {
			if len(ret.Results) == 1 && !isNilConst(retResult(ret, 0)) {
				late := false
				for _, m := range muts {
					if reachableAfter(m, ret) {
						late = true
					}
				}
				r.Check(!late, "C13.R1", "error return of proxy.Interface "+p.Pos(posOf(ret)), p.Pos(posOf(ret)), "rejects precede every mutation",
					"proxy.Interface can return an error after it already mutated the variable/context: a rejected call leaves the variable half-mocked")
			}
		}
	} else {
		r.Und("C13.R1", "proxy.Interface", "", "not found")
	}

	// ---- R2 error discipline
	inPk := func(rel string) bool {
		switch rel {
		case "", "arg", "internal/patch", "internal/proxy", "internal/iface", "internal/bytecode/stub", "internal/unexports2":
			return true
		}
		return false
	}
	// wrap the report to honour suppressions
	sub := NewReport("tmp", "")
	sub.SetConfig(r.cfg)
	n := checkErrorsUsed(p, sub, "C13.R2", func(cal *ssa.Function) bool { return strings.HasPrefix(pkgPathOf(cal), Mod) }, inPk)
	for _, o := range sub.Obls {
		if why, ok := c13Suppressed(p, o.Construct); ok && o.Verdict == Violated {
			r.OK(o.Rule, o.Construct, o.Pos, "suppressed: "+why)
			continue
		}
		r.add(o.Rule, o.Construct, o.Pos, o.Verdict, o.Reason)
	}
	r.Stat("error_call_sites", n)

	// ---- R7 every validation test has a consequence; R8 an error is reported only where it can be non-nil
	checkNoDeadComparisons(p, r, "C13.R7", inPk)
	checkErrorPolarity(p, r, "C13.R8", inPk)

	// ---- R7 (clause) a validation is not inverted against the use that follows it: reflect.Value.Call / CallSlice is never
	// reached on the side of a `Kind() == reflect.Func` test of the same value where it is NOT a func (it would panic for
	// every accepted input, and the inputs it was meant for are the ones rejected)
	for _, f := range p.Funcs {
		if !inPk(relPkg(f)) || !strings.HasPrefix(pkgPathOf(f), Mod) || f.Blocks == nil {
			continue
		}
		nInF := 0
		eachInstr(f, func(i ssa.Instruction) {
			cl, ok := i.(*ssa.Call)
			if !ok {
				return
			}
			cn := calleeName(cl.Common())
			if cn != "(reflect.Value).Call" && cn != "(reflect.Value).CallSlice" {
				return
			}
			recv := resolveLocal(cl.Call.Args[0])
			for _, g := range guardsAt(cl.Block()) {
				k, kv, isK := kindTest(g.Cond)
				neg := false
				if !isK {
					if bo, isB := g.Cond.(*ssa.BinOp); isB && bo.Op == token.NEQ {
						if kc, isC := constInt(bo.Y); isC && strings.HasSuffix(bo.X.Type().String(), "reflect.Kind") {
							k, kv, isK, neg = kc, bo.X, true, true
						}
					}
				}
				if !isK || k != 19 {
					continue
				}
				kc, isCall := resolveLocal(kv).(*ssa.Call)
				if !isCall || calleeName(kc.Common()) != "(reflect.Value).Kind" || resolveLocal(kc.Call.Args[0]) != recv {
					continue
				}
				isFuncHere := g.Pol != neg
				nInF++
				r.Check(isFuncHere, "C13.R7", "callback called where it is known to be a func in "+shortName(f)+" #"+itoa2(nInF), p.Pos(posOf(cl)), "Call on the func side of the kind test",
					"the value is called on the side of its kind test where it is known NOT to be a func: the validation is inverted — every valid callback is rejected and an invalid one reaches reflect's own panic")
			}
		})
	}
	// ---- R5 (clause) like is compared with like: a comparison between two reflect.Type counts compares parameter counts with
	// parameter counts or result counts with result counts, never one with the other
	nCnt := 0
	for _, f := range p.Funcs {
		if !inPk(relPkg(f)) || !strings.HasPrefix(pkgPathOf(f), Mod) || f.Blocks == nil {
			continue
		}
		nInF := 0
		eachInstr(f, func(i ssa.Instruction) {
			bo, ok := i.(*ssa.BinOp)
			if !ok || !isBool(bo.Type()) || !isIntegerType(bo.X.Type()) {
				return
			}
			last := func(v ssa.Value) string {
				v = resolveLocal(v)
				for {
					if b2, ok := v.(*ssa.BinOp); ok && (b2.Op == token.ADD || b2.Op == token.SUB) {
						if _, isC := b2.Y.(*ssa.Const); isC {
							v = resolveLocal(b2.X)
							continue
						}
					}
					break
				}
				c, ok := v.(*ssa.Call)
				if !ok || !c.Call.IsInvoke() || !strings.HasSuffix(c.Call.Value.Type().String(), "reflect.Type") {
					return ""
				}
				switch c.Call.Method.Name() {
				case "NumIn", "NumOut":
					return c.Call.Method.Name()
				}
				return ""
			}
			lx, ly := last(bo.X), last(bo.Y)
			if lx == "" || ly == "" {
				return
			}
			nCnt++
			nInF++
			// a count comparison of two signatures is made for every configuration: where the function can report success
			// (nil error / normal return) the comparison has been evaluated — it is not skipped on a cache hit or a flag
			if iffs := bo.Referrers(); iffs != nil && errIndex(f.Signature) >= 0 {
				isCmp := func(j ssa.Instruction) bool { return j == ssa.Instruction(bo) }
				skipped := ""
				for _, ret := range returnsOf(f) {
					if !isNilConst(retResult(ret, errIndex(f.Signature))) {
						continue
					}
					if !passedBefore(f, ret, isCmp, nil) {
						skipped = p.Pos(posOf(ret))
					}
				}
				r.Check(skipped == "", "C13.R5", "count comparison made on every successful way through "+shortName(f)+" #"+itoa2(nInF), p.Pos(posOf(bo)), "every nil-error return has passed the comparison",
					"the function can report success ("+skipped+") without having compared the counts of the two signatures (the check is skipped on a cache hit, a flag or a re-apply): a callback with too few parameters is woven in without being rejected")
			}
			r.Check(lx == ly, "C13.R5", "counts of the same kind compared in "+shortName(f)+" #"+itoa2(nInF), p.Pos(posOf(bo)), lx+" against "+ly,
				"a count check compares the number of parameters of one signature with the number of results of the other ("+lx+" against "+ly+"): callbacks with too few or too many parameters pass the check, or well-formed ones are refused")
		})
	}
	r.Stat("type_count_comparisons", nCnt)

	// ---- R9 list converters: for a variadic function a list is refused exactly when it is too short to cover the fixed
	// parameters — every failing return taken under the variadic flag and under a test of len(list) is entailed
	// len(list) <= len(types)-2 by the conditions that lead to it
	nConv := 0
	for _, f := range p.FuncsIn("arg") {
		if f.Blocks == nil || errIndex(f.Signature) < 0 {
			continue
		}
		var list, typs *ssa.Parameter
		for _, pr := range f.Params {
			if sl, ok := pr.Type().Underlying().(*types.Slice); ok {
				if types.IsInterface(sl.Elem()) && !strings.HasSuffix(sl.Elem().String(), "reflect.Type") {
					list = pr
				}
				if strings.HasSuffix(sl.Elem().String(), "reflect.Type") {
					typs = pr
				}
			}
		}
		if list == nil || typs == nil {
			continue
		}
		k := NewKeyer(f)
		lenList := "len(" + k.Key(list) + ")"
		lenTyps := "len(" + k.Key(typs) + ")"
		for _, ret := range returnsOf(f) {
			if isNilConst(retResult(ret, errIndex(f.Signature))) || !underVariadic(p, ret.Block()) {
				continue
			}
			// only returns decided by a length test
			mentions := false
			for _, g := range guardsAt(ret.Block()) {
				if bo, ok := g.Cond.(*ssa.BinOp); ok {
					for _, side := range []ssa.Value{bo.X, bo.Y} {
						if t := k.TermOf(side); t.Var == lenList {
							mentions = true
						}
					}
				}
			}
			if !mentions {
				continue
			}
			nConv++
			m := NewDBM()
			guardsToDBM(m, k, ret.Block())
			okShort := m.EntailsLE(Term{lenList, 2}, Term{lenTyps, 0})
			r.Check(okShort, "C13.R9", "variadic list refused only when too short in "+shortName(f)+" at "+blockOrdinalRet(ret), p.Pos(posOf(ret)), "failure implies len(list) <= len(types)-2",
				"for a variadic function the list converter refuses a list that covers all fixed parameters (and lets a too-short one through): well-formed When/Return calls fail, short ones index past the end")
			// and conversely: past the innermost length test that leads here, the list covers the fixed parameters
			var inner *Guard
			gsHere := guardsAt(ret.Block())
			for gi := range gsHere {
				g := gsHere[gi]
				if bo, ok := g.Cond.(*ssa.BinOp); ok && g.If != nil {
					for _, side := range []ssa.Value{bo.X, bo.Y} {
						if t := k.TermOf(side); t.Var == lenList {
							if inner == nil || inner.If.Block().Dominates(g.If.Block()) {
								inner = &gsHere[gi]
							}
						}
					}
				}
			}
			if inner != nil {
				gs := append([]Guard{}, guardsAt(inner.If.Block())...)
				gs = append(gs, Guard{Cond: inner.Cond, Pol: !inner.Pol, If: inner.If})
				m2 := NewDBM()
				guardListToDBM(m2, k, gs)
				okLong := m2.EntailsLE(Term{lenTyps, -1}, Term{lenList, 0})
				r.Check(okLong, "C13.R9", "variadic list accepted only when it covers the fixed parameters in "+shortName(f)+" at "+blockOrdinalRet(ret), p.Pos(posOf(inner.If)), "passing the test implies len(list) >= len(types)-1",
					"for a variadic function the list converter lets through a list that is too short to cover the fixed parameters: the missing positions are indexed past the end or matched against nothing")
			}
		}
	}
	r.Stat("variadic_count_checks", nConv)

	c13Preconditions(p, r)
	c13MethodNameValidated(p, r)

	// ---- R3/R4 erro types
	ep := p.Pkg("erro")
	if ep == nil {
		r.Und("C13.R3", "package erro", "", "not found")
		return
	}
	var traceable *types.Interface
	if tn := p.NamedType("erro", "Traceable"); tn != nil {
		traceable, _ = tn.Underlying().(*types.Interface)
	}
	errIface := types.Universe.Lookup("error").Type().Underlying().(*types.Interface)
	var errTypes []*types.Named
	for _, n := range namedTypesOf(ep.Types) {
		if _, isI := n.Underlying().(*types.Interface); isI {
			continue
		}
		if implementsIface(n, errIface) {
			errTypes = append(errTypes, n)
		}
		// has Cause() error ?
		ms := types.NewMethodSet(types.NewPointer(n))
		for i := 0; i < ms.Len(); i++ {
			if ms.At(i).Obj().Name() == "Cause" && traceable != nil {
				r.Check(implementsIface(n, traceable), "C13.R3", "erro."+n.Obj().Name(), p.Pos(n.Obj().Pos()), "implements Traceable",
					"erro."+n.Obj().Name()+" carries a cause (has Cause()) but does not implement erro.Traceable, which erro.Cause/CauseBy assert on: the cause chain stops here and the typed cause cannot be reached")
			}
		}
	}
	// Cause()/CauseBy() walk through the Traceable assertion
	if cf := p.Fn("erro", "Cause"); cf != nil {
		okA := false
		eachInstr(cf, func(i ssa.Instruction) {
			if ta, ok := i.(*ssa.TypeAssert); ok && ta.CommaOk {
				okA = true
			}
		})
		r.Check(okA, "C13.R3", "erro.Cause", p.Pos(cf.Pos()), "checked assertion to the cause-bearing interface", "erro.Cause does not use a checked type assertion")
	}
	// constructed dynamic types
	built := map[*types.Named][]string{}
	for _, f := range p.FuncsIn("erro") {
		if f.Object() == nil || !f.Object().Exported() || f.Signature.Recv() != nil {
			continue
		}
		for _, ret := range returnsOf(f) {
			for _, res := range ret.Results {
				t := res.Type()
				if mi, ok := res.(*ssa.MakeInterface); ok {
					t = mi.X.Type()
				}
				if pt, ok := t.Underlying().(*types.Pointer); ok {
					t = pt.Elem()
				}
				if nt, ok := t.(*types.Named); ok {
					if _, isI := nt.Underlying().(*types.Interface); !isI {
						built[nt] = append(built[nt], f.Name())
					}
				}
			}
		}
	}
	for _, n := range errTypes {
		if !n.Obj().Exported() {
			continue
		}
		r.Check(len(built[n]) > 0, "C13.R4", "erro."+n.Obj().Name(), p.Pos(n.Obj().Pos()), "constructed by "+strings.Join(built[n], ","),
			"no constructor of package erro ever returns a value of type erro."+n.Obj().Name()+": this typed cause can never appear in a cause chain (its constructor builds a sibling type)")
	}
	// constructor name ↔ type agreement: NewXxxError must build a type whose name shares Xxx's stem
	for nt, ctors := range built {
		for _, cn := range ctors {
			stem := strings.TrimSuffix(strings.TrimPrefix(cn, "New"), "Error")
			stem = strings.TrimRight(stem, "sc") // NewTraceableErrors / NewTraceableErrorc variants
			tname := nt.Obj().Name()
			okName := strings.HasPrefix(normStem(tname), normStem(stem)) || strings.HasPrefix(normStem(stem), normStem(tname)) || ctorAlias(cn, tname)
			r.Check(okName, "C13.R4", "erro."+cn, p.Pos(nt.Obj().Pos()), "builds erro."+tname, "constructor erro."+cn+" builds erro."+tname+", a different error type than its name promises")
		}
	}

	// ---- R5 reject conditions compare the right quantities
	c13Counts(p, r)
	// ---- R6 a value whose size does not fit is rejected, never reinterpreted (shared with C09.R3)
	var convs []*ssa.Function
	for _, f := range p.FuncsIn("arg") {
		if len(callsTo(f, "reflect.Zero")) > 0 {
			convs = append(convs, f)
		}
	}
	checkSizeGuards(p, r, "C13.R6", convs)
	r.Floor("C13.R6", 2)
}

func normStem(s string) string {
	s = strings.ToLower(s)
	s = strings.TrimSuffix(s, "error")
	s = strings.ReplaceAll(s, "args", "arg")
	s = strings.ReplaceAll(s, "returns", "return")
	s = strings.ReplaceAll(s, "params", "param")
	return s
}

// ctorAlias lists constructor names that legitimately build a type with a different stem.
func ctorAlias(ctor, typ string) bool {
	switch {
	case typ == "IllegalParam" && (ctor == "NewIllegalParamCError" || ctor == "NewIllegalCallError"):
		return true
	case typ == "TraceableError" && strings.HasPrefix(ctor, "NewTraceableError"):
		return true
	}
	return false
}

func calleeShort(ci ssa.CallInstruction) string {
	n := calleeName(ci.Common())
	return strings.ReplaceAll(strings.ReplaceAll(n, Mod+"/", ""), Mod, "mocker")
}

type callPath struct {
	fns   []*ssa.Function
	sites []ssa.Instruction
}

func (cp callPath) String() string {
	var s []string
	for _, f := range cp.fns {
		s = append(s, shortName(f))
	}
	return strings.Join(s, "→")
}

// staticPaths enumerates acyclic static-call paths from from to to (bounded depth).
func staticPaths(from, to *ssa.Function, depth int) []callPath {
	var out []callPath
	var cur callPath
	on := map[*ssa.Function]bool{}
	var dfs func(f *ssa.Function, d int)
	dfs = func(f *ssa.Function, d int) {
		if d > depth || on[f] {
			return
		}
		cur.fns = append(cur.fns, f)
		on[f] = true
		if f == to {
			cp := callPath{append([]*ssa.Function(nil), cur.fns...), append([]ssa.Instruction(nil), cur.sites...)}
			out = append(out, cp)
		} else {
			eachInstr(f, func(i ssa.Instruction) {
				if ci, ok := i.(ssa.CallInstruction); ok {
					if cal := staticCallee(ci.Common()); cal != nil && cal.Blocks != nil && strings.HasPrefix(pkgPathOf(cal), Mod) {
						cur.sites = append(cur.sites, i)
						dfs(cal, d+1)
						cur.sites = cur.sites[:len(cur.sites)-1]
					}
				}
			})
		}
		on[f] = false
		cur.fns = cur.fns[:len(cur.fns)-1]
	}
	dfs(from, 0)
	return out
}

// isLocalAddr: the address is a local alloc (or element/field of one).
func isLocalAddr(v ssa.Value) bool {
	for {
		switch x := v.(type) {
		case *ssa.Alloc:
			return true
		case *ssa.FieldAddr:
			v = x.X
		case *ssa.IndexAddr:
			v = x.X
		case *ssa.MakeSlice:
			return true // elements of a slice this function made
		case *ssa.Slice:
			v = x.X
		default:
			return false
		}
	}
}

// isFrameCapture: addr lies in a variable that closure f captured from its parent's frame, where the variable is a
// local of the parent and every closure capturing it is only called or deferred there (never started as a goroutine,
// stored or returned): the write stays inside one invocation of the parent, like a write to its own local.
func isFrameCapture(f *ssa.Function, addr ssa.Value) bool {
	for {
		switch x := addr.(type) {
		case *ssa.FieldAddr:
			addr = x.X
			continue
		case *ssa.IndexAddr:
			if _, isPtr := x.X.Type().Underlying().(*types.Pointer); isPtr {
				addr = x.X
				continue
			}
		}
		break
	}
	fv, ok := addr.(*ssa.FreeVar)
	if !ok || f.Parent() == nil {
		return false
	}
	idx := -1
	for k, x := range f.FreeVars {
		if x == fv {
			idx = k
		}
	}
	var al *ssa.Alloc
	eachInstr(f.Parent(), func(i ssa.Instruction) {
		if mc, ok := i.(*ssa.MakeClosure); ok && mc.Fn == ssa.Value(f) && idx >= 0 {
			al, _ = mc.Bindings[idx].(*ssa.Alloc)
		}
	})
	if al == nil {
		return false
	}
	for _, ref := range *al.Referrers() {
		mc, ok := ref.(*ssa.MakeClosure)
		if !ok {
			continue
		}
		for _, use := range *mc.Referrers() {
			switch u := use.(type) {
			case *ssa.Defer:
				if u.Call.Value != ssa.Value(mc) {
					return false
				}
			case *ssa.Call:
				if u.Call.Value != ssa.Value(mc) {
					return false
				}
			case *ssa.DebugRef:
			default:
				return false
			}
		}
	}
	return true
}

// isNilPredicate: a module function of one reflect.Value parameter returning bool whose body asks (reflect.Value).IsNil.
func isNilPredicate(cal *ssa.Function) bool {
	if cal == nil || cal.Blocks == nil || !strings.HasPrefix(pkgPathOf(cal), Mod) || len(cal.Params) != 1 || cal.Signature.Results().Len() != 1 {
		return false
	}
	if !strings.HasSuffix(cal.Params[0].Type().String(), "reflect.Value") || !isBool(cal.Signature.Results().At(0).Type()) {
		return false
	}
	return len(callsTo(cal, "(reflect.Value).IsNil")) > 0
}

// hasEffects: fn (transitively over static module callees, depth-bounded) stores to non-local memory or updates a map.
func hasEffects(fn *ssa.Function) bool {
	seen := map[*ssa.Function]bool{}
	var walk func(f *ssa.Function, d int) bool
	walk = func(f *ssa.Function, d int) bool {
		if f == nil || f.Blocks == nil || seen[f] || d > 6 {
			return false
		}
		seen[f] = true
		eff := false
		eachInstr(f, func(i ssa.Instruction) {
			switch x := i.(type) {
			case *ssa.Store:
				if !isLocalAddr(x.Addr) {
					eff = true
				}
			case *ssa.MapUpdate:
				if _, fresh := resolveLocal(x.Map).(*ssa.MakeMap); !fresh {
					eff = true // filling a map this function made itself is not an effect on anything that existed before
				}
			case ssa.CallInstruction:
				if cal := staticCallee(x.Common()); cal != nil && strings.HasPrefix(pkgPathOf(cal), Mod) && relPkg(cal) != "internal/logger" {
					if walk(cal, d+1) {
						eff = true
					}
				}
			}
		})
		return eff
	}
	return walk(fn, 0)
}

// c13Counts checks the shape of the count/size reject conditions.
func c13Counts(p *Prog, r *Report) {
	for _, f := range p.FuncsIn("arg") {
		for _, cs := range callsTo(f, "(reflect.Value).Convert") {
			r.Bad("C13.R5", "mismatched value coerced in "+shortName(f), p.Pos(posOf(cs)), "a value whose type differs from the declared one is converted with reflect's Convert instead of being rejected with the typed cause: the configuration mistake is accepted and the target is patched")
		}
	}
	// the validation functions decide from their arguments alone: a verdict remembered under a key that is coarser than
	// the types compared would let a later, ill-fitting configuration through
	var vroots []*ssa.Function
	for _, f := range []*ssa.Function{p.Fn("internal/patch", "SignatureEquals"), p.Fn("", "CreateWhen"), p.Fn("arg", "I2V"), p.Fn("arg", "ToExpr")} {
		if f != nil {
			vroots = append(vroots, f)
		}
	}
	checkNoMutableState(p, r, "C13.R5", "validation", vroots, func(f *ssa.Function) bool {
		switch relPkg(f) {
		case "internal/patch":
			return f.Name() == "SignatureEquals" || p.modReach(p.Fn("internal/patch", "SignatureEquals"))[f] && relPkg(f) == "internal/patch"
		case "arg":
			return true
		case "":
			return p.modReach(p.Fn("", "CreateWhen"))[f]
		}
		return false
	}, "a configuration that should be rejected is accepted because an earlier, different one was accepted under the same key")
	// (a) SignatureEquals: panics on NumIn/NumOut/In(i).Size/Out(i).Size inequality between the two types
	if se := p.Fn("internal/patch", "SignatureEquals"); se != nil {
		got := map[string]bool{}
		// the comparison may be delegated to helpers that every accepting return of SignatureEquals has passed through and
		// that receive the two types as distinct arguments
		fnset := []*ssa.Function{se}
		var addHelpers func(f *ssa.Function, depth int)
		addHelpers = func(f *ssa.Function, depth int) {
			if depth == 0 {
				return
			}
			eachInstr(f, func(i ssa.Instruction) {
				cl, ok := i.(*ssa.Call)
				if !ok {
					return
				}
				cal := staticCallee(cl.Common())
				if cal == nil || cal.Blocks == nil || relPkg(cal) != relPkg(se) || cal == f {
					return
				}
				for _, ret := range returnsOf(f) {
					if len(ret.Results) > 0 {
						if cv, isC := retResult(ret, 0).(*ssa.Const); isC && cv.Value != nil && isBool(cv.Type()) && !constant.BoolVal(cv.Value) {
							continue // a rejecting return need not have run the helper
						}
					}
					if !domInstr(cl, ret) {
						return
					}
				}
				// the reflect.Type arguments are pairwise distinct values
				var tys []ssa.Value
				for _, a := range cl.Call.Args {
					if strings.HasSuffix(a.Type().String(), "reflect.Type") {
						for _, t := range tys {
							if resolveLocal(t) == resolveLocal(a) {
								return
							}
						}
						tys = append(tys, a)
					}
				}
				if len(tys) < 2 {
					return
				}
				fnset = append(fnset, cal)
				addHelpers(cal, depth-1)
			})
		}
		addHelpers(se, 2)
		for _, sf := range fnset {
			eachInstr(sf, func(i ssa.Instruction) {
				if _, ok := i.(*ssa.Panic); !ok {
					return
				}
				for _, g := range guardsAt(i.Block()) {
					bo, ok := g.Cond.(*ssa.BinOp)
					if !ok || !((bo.Op == token.NEQ && g.Pol) || (bo.Op == token.EQL && !g.Pol)) {
						continue
					}
					lx, lrecv := accessorChain(bo.X)
					ly, rrecv := accessorChain(bo.Y)
					if lx != "" && lx == ly && lrecv != rrecv {
						got[lx] = true
					}
				}
			})
		}
		for _, want := range []string{"NumIn", "NumOut", "In.Size", "Out.Size"} {
			r.Check(got[want], "C13.R5", "SignatureEquals compares "+want, p.Pos(se.Pos()), "mismatch panics",
				"SignatureEquals no longer panics when "+want+" of target and replacement differ: an ill-fitting callback is installed")
		}
		// loops cover every index: loop conditions i < X.NumIn() / X.NumOut() with i starting at 0
		for _, want := range []string{"NumIn", "NumOut"} {
			okLoop := false
			for _, sf := range fnset {
				eachInstr(sf, func(i ssa.Instruction) {
					iff, ok := i.(*ssa.If)
					if !ok {
						return
					}
					bo, ok := iff.Cond.(*ssa.BinOp)
					if !ok || bo.Op != token.LSS {
						return
					}
					if nm, _ := accessorChain(bo.Y); nm != want {
						return
					}
					if ph, ok := bo.X.(*ssa.Phi); ok {
						zero, step := false, false
						for _, e := range ph.Edges {
							if cv, ok := constInt(e); ok && cv == 0 {
								zero = true
							}
							if b2, ok := e.(*ssa.BinOp); ok && b2.Op == token.ADD && b2.X == ph {
								if cv, ok := constInt(b2.Y); ok && cv == 1 {
									step = true
								}
							}
						}
						if zero && step {
							okLoop = true
						}
					}
				})
			}
			r.Check(okLoop, "C13.R5", "SignatureEquals loop over 0.."+want, p.Pos(se.Pos()), "every slot compared",
				"the per-slot size comparison does not range over every index 0.."+want+"()-1")
		}
	} else {
		r.Und("C13.R5", "SignatureEquals", "", "not found")
	}
	// (b) count checks in the stub configuration: calls constructing Args/Returns-not-match errors
	for _, spec := range []struct{ ctor, accessor string }{{"NewArgsNotMatchError", "NumIn"}, {"NewReturnsNotMatchError", "NumOut"}} {
		full := qual("erro", spec.ctor)
		n := 0
		for _, f := range p.FuncsIn("") {
			for _, cs := range callsTo(f, full) {
				n++
				cons := spec.ctor + " guard in " + shortName(f)
				// case split on a phi operand of the guards (a bound computed on two paths, e.g. NumIn or NumIn-1)
				type ccase struct {
					subst map[ssa.Value]ssa.Value
					extra []Guard
				}
				cases := []ccase{{nil, nil}}
				for _, g := range guardsAt(cs.Block()) {
					if bo, ok := g.Cond.(*ssa.BinOp); ok && isIntegerType(bo.X.Type()) {
						for _, side := range []ssa.Value{bo.X, bo.Y} {
							if ph, ok := resolveLocal(side).(*ssa.Phi); ok && len(ph.Edges) > 1 && len(ph.Edges) <= 4 && len(cases) == 1 {
								cases = nil
								for ei, e := range ph.Edges {
									pred := ph.Block().Preds[ei]
									cases = append(cases, ccase{map[ssa.Value]ssa.Value{ph: e}, knownAtEdge(pred, ph.Block())})
								}
							}
						}
					}
				}
				okAll, found := true, true
				skipTxt := ""
				for _, cc := range cases {
					k := NewKeyer(f)
					k.Subst = cc.subst
					m := NewDBM()
					guardsToDBM(m, k, cs.Block())
					gs := append(append([]Guard{}, guardsAt(cs.Block())...), cc.extra...)
					// expected: len(list)+skip < T.accessor(), skip = 1 under an isMethod-true guard else 0
					var lenT, accT *Term
					skip := int64(0)
					for _, g := range gs {
						if pr, ok := g.Cond.(*ssa.Parameter); ok && g.Pol && types.Identical(pr.Type(), types.Typ[types.Bool]) {
							skip = 1
						}
					}
					for _, g := range guardsAt(cs.Block()) {
						bo, ok := g.Cond.(*ssa.BinOp)
						if !ok {
							continue
						}
						for _, side := range []ssa.Value{bo.X, bo.Y} {
							base := k.res(side)
							for {
								if b2, ok := base.(*ssa.BinOp); ok && (b2.Op == token.ADD || b2.Op == token.SUB) {
									if _, isC := constInt(b2.Y); isC {
										base = k.res(b2.X)
										continue
									}
								}
								break
							}
							if nm, _ := accessorChain(base); nm == spec.accessor {
								t := k.TermOf(base)
								accT = &t
							} else if t := k.TermOf(side); strings.HasPrefix(t.Var, "len(") {
								tt := Term{t.Var, 0}
								lenT = &tt
							}
						}
					}
					if lenT == nil || accT == nil {
						found = false
						break
					}
					exp := NewDBM()
					exp.AddLE(Term{lenT.Var, skip + 1}, *accT) // len+skip < acc
					imp1 := m.EntailsLE(Term{lenT.Var, skip + 1}, *accT)
					// converse: expected entails every translatable guard
					imp2 := true
					for _, g := range guardsAt(cs.Block()) {
						bo, ok := g.Cond.(*ssa.BinOp)
						if !ok || !isIntegerType(bo.X.Type()) {
							continue
						}
						if !exp.EntailsCmp(k.TermOf(bo.X), bo.Op, k.TermOf(bo.Y), g.Pol) {
							imp2 = false
						}
					}
					if !(imp1 && imp2) {
						okAll = false
					}
					skipTxt += fmt.Sprintf(" len+%d<%s()", skip, spec.accessor)
				}
				if !found {
					r.Bad("C13.R5", cons, p.Pos(posOf(cs)), "the count error is not raised under a comparison of len(supplied list) with "+spec.accessor+"()")
					continue
				}
				r.Check(okAll, "C13.R5", cons, p.Pos(posOf(cs)), "raised exactly when"+skipTxt,
					"the count check is not 'len(supplied)+skip < "+spec.accessor+"()' (skip = 1 for methods): too-short lists are accepted or well-formed ones rejected")
			}
		}
		if n == 0 {
			r.Bad("C13.R5", spec.ctor+" raised", "", "no stub-configuration code raises "+spec.ctor+": the count mistake is not rejected with its typed cause")
		}
	}
}

// accessorChain names a call chain like T.In(i).Size() → "In.Size" and returns a key for the root receiver.
func accessorChain(v ssa.Value) (string, string) {
	var names []string
	for {
		v = peel(v)
		c, ok := v.(*ssa.Call)
		if !ok {
			break
		}
		var nm string
		var recv ssa.Value
		if c.Call.IsInvoke() {
			nm, recv = c.Call.Method.Name(), c.Call.Value
		} else if f := staticCallee(c.Common()); f != nil && f.Signature.Recv() != nil && len(c.Call.Args) > 0 {
			nm, recv = f.Name(), c.Call.Args[0]
		} else {
			break
		}
		names = append([]string{nm}, names...)
		v = recv
	}
	root := ""
	if pr, ok := v.(*ssa.Parameter); ok {
		root = pr.Name()
	} else if v != nil {
		root = v.Name()
	}
	sort.Strings(nil)
	return strings.Join(names, "."), root
}

// errRootOrigins is origins(v) where an error built by fmt.Errorf around other errors (the %w / %v operands) is replaced by
// the origins of those wrapped errors: wrapping an error does not change where the failure came from.
func errRootOrigins(v ssa.Value, depth int) []Atom {
	var out []Atom
	errT := types.Universe.Lookup("error").Type().Underlying().(*types.Interface)
	for _, a := range origins(v) {
		cl, ok := a.V.(*ssa.Call)
		if !ok || depth <= 0 || calleeName(cl.Common()) != "fmt.Errorf" {
			out = append(out, a)
			continue
		}
		var wrapped []ssa.Value
		for _, av := range variadicArgValues(cl) {
			pv := av
			if mi, isMI := pv.(*ssa.MakeInterface); isMI {
				pv = mi.X
			}
			if ci, isCI := pv.(*ssa.ChangeInterface); isCI {
				pv = ci.X
			}
			if types.Implements(pv.Type(), errT) {
				wrapped = append(wrapped, pv)
			}
		}
		if len(wrapped) == 0 {
			out = append(out, a)
			continue
		}
		for _, w := range wrapped {
			out = append(out, errRootOrigins(w, depth-1)...)
		}
	}
	return out
}

// variadicArgValues returns the values stored into the implicit slice of a variadic call's last argument.
func variadicArgValues(cl *ssa.Call) []ssa.Value {
	args := cl.Call.Args
	if len(args) == 0 {
		return nil
	}
	sl, ok := args[len(args)-1].(*ssa.Slice)
	if !ok {
		return nil
	}
	al, ok := sl.X.(*ssa.Alloc)
	if !ok {
		return nil
	}
	var out []ssa.Value
	for _, ref := range *al.Referrers() {
		ia, ok := ref.(*ssa.IndexAddr)
		if !ok {
			continue
		}
		for _, r2 := range *ia.Referrers() {
			if st, ok := r2.(*ssa.Store); ok && st.Addr == ssa.Value(ia) {
				out = append(out, st.Val)
			}
		}
	}
	return out
}

// varargsDependOn: v is (a slice of) a variadic argument array one of whose stored elements depends on a target value.
func varargsDependOn(v ssa.Value, isT func(ssa.Value) bool) bool {
	if sl, ok := v.(*ssa.Slice); ok {
		if al, ok := sl.X.(*ssa.Alloc); ok {
			for _, ref := range *al.Referrers() {
				ia, ok := ref.(*ssa.IndexAddr)
				if !ok {
					continue
				}
				for _, r2 := range *ia.Referrers() {
					if st, ok := r2.(*ssa.Store); ok && st.Addr == ssa.Value(ia) && dependsOn(st.Val, isT) {
						return true
					}
				}
			}
		}
	}
	if mi, ok := v.(*ssa.MakeInterface); ok {
		return dependsOn(mi.X, isT)
	}
	return false
}

// checkNoDeadComparisons: in the packages inPk accepts, no comparison is left without a use (the body of
// `if name == "" { panic(…) }` was lost: go/ssa then drops the branch and leaves the comparison behind).
func checkNoDeadComparisons(p *Prog, r *Report, rule string, inPk func(string) bool) {
	nFn := 0
	for _, pk := range p.Pkgs {
		rel := strings.TrimPrefix(strings.TrimPrefix(pk.PkgPath, Mod), "/")
		if !strings.HasPrefix(pk.PkgPath, Mod) || !inPk(rel) {
			continue
		}
		for _, file := range pk.Syntax {
			for _, d := range file.Decls {
				fd, ok := d.(*ast.FuncDecl)
				if !ok || fd.Body == nil {
					continue
				}
				nFn++
				name := fd.Name.Name
				ast.Inspect(fd.Body, func(n ast.Node) bool {
					ifs, ok := n.(*ast.IfStmt)
					if !ok || ifs.Else != nil || len(ifs.Body.List) != 0 {
						return true
					}
					// an empty branch on a call is a call made for its effect, not a test
					if _, isCall := ifs.Cond.(*ast.CallExpr); isCall {
						return true
					}
					r.Bad(rule, "test without consequence in "+rel+"."+name, p.Pos(ifs.Pos()), "a condition is tested and nothing depends on it (an `if` with an empty body): the mistake it tests for is no longer rejected")
					return true
				})
			}
		}
	}
	r.OK(rule, "validation tests have consequences", "", fmt.Sprintf("%d functions: no `if` has an empty body", nFn))
}

// checkErrorPolarity: on the side of an `err == nil` / `err != nil` test where the error is known to be nil, it is not
// handed to a call, asked for its message or panicked with (a test whose sense was inverted reports success as failure and
// lets the failure through).
func checkErrorPolarity(p *Prog, r *Report, rule string, inPk func(string) bool) {
	nTests := 0
	errT := types.Universe.Lookup("error").Type()
	for _, f := range p.Funcs {
		if !inPk(relPkg(f)) || !strings.HasPrefix(pkgPathOf(f), Mod) || f.Blocks == nil {
			continue
		}
		nInF := 0
		eachInstr(f, func(i ssa.Instruction) {
			iff, ok := i.(*ssa.If)
			if !ok {
				return
			}
			bo, ok := iff.Cond.(*ssa.BinOp)
			if !ok || (bo.Op != token.EQL && bo.Op != token.NEQ) {
				return
			}
			var e ssa.Value
			if isNilConst(bo.Y) {
				e = bo.X
			} else if isNilConst(bo.X) {
				e = bo.Y
			}
			if e == nil || !types.Identical(e.Type(), errT) {
				return
			}
			// the tested value comes from a call (not a parameter or a field: those may legitimately be re-reported)
			fromCall := false
			for _, a := range origins(e) {
				if a.Kind == "call" {
					fromCall = true
				}
			}
			if !fromCall {
				return
			}
			nTests++
			nInF++
			nilSucc := iff.Block().Succs[0]
			if bo.Op == token.NEQ {
				nilSucc = iff.Block().Succs[1]
			}
			if len(nilSucc.Preds) != 1 {
				return // the nil side is the join: nothing is specific to it
			}
			isE := func(v ssa.Value) bool { return v == e }
			// does the side where the error is non-nil report it (return, panic, call)?
			otherSideReports := false
			nonNil := iff.Block().Succs[1]
			if bo.Op == token.NEQ {
				nonNil = iff.Block().Succs[0]
			}
			for _, b := range f.Blocks {
				if b != nonNil && !(len(nonNil.Preds) == 1 && nonNil.Dominates(b)) {
					continue
				}
				for _, ins := range b.Instrs {
					switch x := ins.(type) {
					case *ssa.Return:
						for _, rv := range x.Results {
							if dependsOn(rv, isE) {
								otherSideReports = true
							}
						}
					case *ssa.Panic:
						otherSideReports = true
					case ssa.CallInstruction:
						for _, a := range x.Common().Args {
							if a == e || varargsDependOn(a, isE) || dependsOn(a, isE) {
								otherSideReports = true
							}
						}
					}
				}
			}
			bad := ""
			for _, b := range f.Blocks {
				if b != nilSucc && !nilSucc.Dominates(b) {
					continue
				}
				for _, ins := range b.Instrs {
					switch x := ins.(type) {
					case *ssa.Panic:
						if dependsOn(x.X, isE) || varargsDependOn(x.X, isE) {
							bad = "panics with it at " + p.Pos(posOf(ins))
						}
					case *ssa.Return:
						// `return …, err` on the side where err is nil, in a function that does not report it where it is not
						if ei := errIndex(f.Signature); ei >= 0 && ei < len(x.Results) && resolveLocal(x.Results[ei]) == e && !otherSideReports {
							bad = "returns it as the error at " + p.Pos(posOf(ins))
						}
					case ssa.CallInstruction:
						c := x.Common()
						if c.IsInvoke() && c.Value == e {
							bad = "asks it for " + c.Method.Name() + "() at " + p.Pos(posOf(ins))
						}
						for _, a := range c.Args {
							if a == e || varargsDependOn(a, isE) {
								bad = "hands it to " + calleeName(c) + " at " + p.Pos(posOf(ins))
							}
						}
					}
				}
			}
			// on the side where the error is non-nil, the other results of the failed call are not used
			if ex, isEx := e.(*ssa.Extract); isEx && len(nonNil.Preds) == 1 && bad == "" {
				if tc, isCall := ex.Tuple.(*ssa.Call); isCall && tc.Referrers() != nil {
					if cal := staticCallee(tc.Common()); cal != nil && strings.HasPrefix(pkgPathOf(cal), Mod) {
						for _, ref := range *tc.Referrers() {
							sib, ok := ref.(*ssa.Extract)
							if !ok || sib == ex || sib.Referrers() == nil {
								continue
							}
							for _, use := range *sib.Referrers() {
								ub := use.Block()
								if ph, isPhi := use.(*ssa.Phi); isPhi {
									// a phi uses the value on the edge it arrives by
									for k, edge := range ph.Edges {
										if edge == ssa.Value(sib) && (ub.Preds[k] == nonNil || nonNil.Dominates(ub.Preds[k])) {
											if _, isRet := lastInstr(ub).(*ssa.Return); !isRet {
												bad = "uses another result of the failed call at " + p.Pos(posOf(use))
											}
										}
									}
									continue
								}
								if _, isRet := use.(*ssa.Return); isRet {
									continue // returning (value, err) together is the usual report
								}
								if st, isSt := use.(*ssa.Store); isSt && isResultSpill(st.Addr) {
									continue // the same, in a function with a defer: results pass through spill slots
								}
								if _, isDbg := use.(*ssa.DebugRef); isDbg {
									continue
								}
								if ub == nonNil || nonNil.Dominates(ub) {
									bad = "uses another result of the failed call at " + p.Pos(posOf(use))
								}
							}
						}
					}
				}
			}
			r.Check(bad == "", rule, "error used only where it can be non-nil in "+shortName(f)+" #"+itoa2(nInF), p.Pos(posOf(iff)), "the nil side does not report the error",
				"on the side of the test where the error is nil the code "+bad+": the sense of the test is inverted — success is reported as failure and a real failure passes unnoticed")
		})
	}
	r.Stat("error_tests", nTests)

}


// isResultSpill: addr is a local slot go/ssa uses to carry a result to the return of a function with deferred calls — it is
// only stored to and loaded for Return instructions.
func isResultSpill(addr ssa.Value) bool {
	al, ok := addr.(*ssa.Alloc)
	if !ok || al.Heap || al.Referrers() == nil {
		return false
	}
	for _, ref := range *al.Referrers() {
		switch x := ref.(type) {
		case *ssa.Store:
			if x.Addr != ssa.Value(al) {
				return false
			}
		case *ssa.UnOp:
			if x.Referrers() == nil {
				return false
			}
			for _, r2 := range *x.Referrers() {
				if _, isRet := r2.(*ssa.Return); !isRet {
					return false
				}
			}
		case *ssa.DebugRef:
		default:
			return false
		}
	}
	return true
}
