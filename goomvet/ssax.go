package main

import (
	"fmt"
	"go/constant"
	"go/token"
	"go/types"
	"sort"
	"strings"

	"golang.org/x/tools/go/ssa"
)

// ---------- calls ----------

// callCommon returns the CallCommon of an instruction, or nil.
func callCommon(i ssa.Instruction) *ssa.CallCommon {
	if c, ok := i.(ssa.CallInstruction); ok {
		return c.Common()
	}
	return nil
}

// calleeName gives a canonical name for the callee of a call instruction:
// "pkg/path.Func", "(*pkg/path.T).M", "(pkg/path.T).M", "invoke (pkg/path.I).M", "builtin len", "closure f$1", "dynamic".
func calleeName(c *ssa.CallCommon) string {
	if c == nil {
		return ""
	}
	if c.IsInvoke() {
		return "invoke " + c.Method.FullName()
	}
	switch v := c.Value.(type) {
	case *ssa.Builtin:
		return "builtin " + v.Name()
	case *ssa.Function:
		if v.Object() != nil {
			return v.Object().(*types.Func).FullName()
		}
		return "closure " + v.String()
	case *ssa.MakeClosure:
		return "closure " + v.Fn.String()
	}
	return "dynamic"
}

// isCallTo reports whether instruction i is a call (call/go/defer) to one of the full names.
func isCallTo(i ssa.Instruction, names ...string) bool {
	c := callCommon(i)
	if c == nil {
		return false
	}
	n := calleeName(c)
	for _, want := range names {
		if n == want {
			return true
		}
	}
	return false
}

// staticCallee returns the statically known callee (function or closure body) or nil.
func staticCallee(c *ssa.CallCommon) *ssa.Function {
	if c == nil || c.IsInvoke() {
		return nil
	}
	switch v := c.Value.(type) {
	case *ssa.Function:
		return v
	case *ssa.MakeClosure:
		if f, ok := v.Fn.(*ssa.Function); ok {
			return f
		}
	}
	return nil
}

// eachInstr visits every instruction of fn.
func eachInstr(fn *ssa.Function, f func(ssa.Instruction)) {
	if fn == nil {
		return
	}
	for _, b := range fn.Blocks {
		for _, i := range b.Instrs {
			f(i)
		}
	}
}

// callsTo lists call instructions in fn to any of names.
func callsTo(fn *ssa.Function, names ...string) []ssa.Instruction {
	var out []ssa.Instruction
	eachInstr(fn, func(i ssa.Instruction) {
		if isCallTo(i, names...) {
			out = append(out, i)
		}
	})
	return out
}

// qual builds a full function name inside the module.
func qual(rel, name string) string {
	if rel == "" {
		return Mod + "." + name
	}
	return Mod + "/" + rel + "." + name
}

// qmeth builds a full method name "(*mod/rel.T).m" (ptr) or "(mod/rel.T).m".
func qmeth(rel, typ, name string, ptr bool) string {
	p := Mod
	if rel != "" {
		p = Mod + "/" + rel
	}
	if ptr {
		return "(*" + p + "." + typ + ")." + name
	}
	return "(" + p + "." + typ + ")." + name
}

// ---------- positions ----------

// posOf returns the best source position for an instruction.
func posOf(i ssa.Instruction) token.Pos {
	if i == nil {
		return token.NoPos
	}
	if p := i.Pos(); p.IsValid() {
		return p
	}
	if v, ok := i.(ssa.Value); ok {
		// operands may carry positions
		for _, op := range i.Operands(nil) {
			if *op != nil {
				if p := (*op).Pos(); p.IsValid() {
					return p
				}
			}
		}
		_ = v
	}
	// fall back to neighbours in the block
	b := i.Block()
	if b != nil {
		idx := -1
		for k, x := range b.Instrs {
			if x == i {
				idx = k
			}
		}
		for k := idx - 1; k >= 0; k-- {
			if p := b.Instrs[k].Pos(); p.IsValid() {
				return p
			}
		}
		for k := idx + 1; k < len(b.Instrs); k++ {
			if p := b.Instrs[k].Pos(); p.IsValid() {
				return p
			}
		}
		if b.Parent() != nil {
			return b.Parent().Pos()
		}
	}
	return token.NoPos
}

// ---------- dominance / reachability ----------

func instrIndex(i ssa.Instruction) int {
	for k, x := range i.Block().Instrs {
		if x == i {
			return k
		}
	}
	return -1
}

// domInstr reports whether a dominates b (same function).
func domInstr(a, b ssa.Instruction) bool {
	if a.Block() == b.Block() {
		return instrIndex(a) < instrIndex(b)
	}
	return a.Block().Dominates(b.Block())
}

// blockReach returns the set of blocks reachable from b via ≥1 edge.
func blockReach(b *ssa.BasicBlock) map[*ssa.BasicBlock]bool {
	seen := map[*ssa.BasicBlock]bool{}
	var st []*ssa.BasicBlock
	st = append(st, b.Succs...)
	for len(st) > 0 {
		x := st[len(st)-1]
		st = st[:len(st)-1]
		if seen[x] {
			continue
		}
		seen[x] = true
		st = append(st, x.Succs...)
	}
	return seen
}

// reachableAfter reports whether instruction b can execute after instruction a (a ≠ b) on some path.
func reachableAfter(a, b ssa.Instruction) bool {
	if a.Block() == b.Block() && instrIndex(a) < instrIndex(b) {
		return true
	}
	return blockReach(a.Block())[b.Block()]
}

// mustPass computes, for every block, whether every path from the entry to the START of the block
// has passed an instruction satisfying phi. Returns in[block]. kill resets the fact (may be nil).
func mustPass(fn *ssa.Function, phi func(ssa.Instruction) bool, kill func(ssa.Instruction) bool) map[*ssa.BasicBlock]bool {
	in := map[*ssa.BasicBlock]bool{}
	out := map[*ssa.BasicBlock]bool{}
	for _, b := range fn.Blocks {
		in[b], out[b] = true, true
	}
	if len(fn.Blocks) == 0 {
		return in
	}
	in[fn.Blocks[0]] = false
	transfer := func(b *ssa.BasicBlock, v bool) bool {
		for _, i := range b.Instrs {
			if phi(i) {
				v = true
			} else if kill != nil && kill(i) {
				v = false
			}
		}
		return v
	}
	for changed := true; changed; {
		changed = false
		for _, b := range fn.Blocks {
			v := true
			if b == fn.Blocks[0] {
				v = false
			} else {
				if len(b.Preds) == 0 {
					v = true // unreachable (e.g. recover block)
				}
				for _, p := range b.Preds {
					v = v && out[p]
				}
			}
			o := transfer(b, v)
			if v != in[b] || o != out[b] {
				in[b], out[b] = v, o
				changed = true
			}
		}
	}
	return in
}

// passedBefore reports whether every path from entry to instruction at has passed phi (kill resets).
func passedBefore(fn *ssa.Function, at ssa.Instruction, phi func(ssa.Instruction) bool, kill func(ssa.Instruction) bool) bool {
	in := mustPass(fn, phi, kill)
	v := in[at.Block()]
	for _, i := range at.Block().Instrs {
		if i == at {
			return v
		}
		if phi(i) {
			v = true
		} else if kill != nil && kill(i) {
			v = false
		}
	}
	return v
}

// returnsOf lists the Return instructions of fn.
func returnsOf(fn *ssa.Function) []*ssa.Return {
	var out []*ssa.Return
	skipRecover := fn.Recover != nil && !mayRecover(fn)
	eachInstr(fn, func(i ssa.Instruction) {
		if r, ok := i.(*ssa.Return); ok {
			if skipRecover && r.Block() == fn.Recover {
				return // the return go/ssa synthesises for "a deferred call recovered": nothing deferred here can recover
			}
			out = append(out, r)
		}
	})
	return out
}

// mayRecover: some function deferred by fn (a closure or a static callee with a body) contains a call of recover().
func mayRecover(fn *ssa.Function) bool {
	found := false
	hasRecover := func(f *ssa.Function) bool {
		if f == nil || f.Blocks == nil {
			return f != nil && f.Blocks == nil && strings.HasPrefix(pkgPathOf(f), Mod) // unknown module body: assume it may
		}
		r := false
		eachInstr(f, func(i ssa.Instruction) {
			if c := callCommon(i); c != nil {
				if bi, ok := c.Value.(*ssa.Builtin); ok && bi.Name() == "recover" {
					r = true
				}
			}
		})
		return r
	}
	eachInstr(fn, func(i ssa.Instruction) {
		d, ok := i.(*ssa.Defer)
		if !ok {
			return
		}
		switch v := d.Call.Value.(type) {
		case *ssa.MakeClosure:
			if cf, ok := v.Fn.(*ssa.Function); ok && hasRecover(cf) {
				found = true
			}
		case *ssa.Function:
			if hasRecover(v) {
				found = true
			}
		default:
			if d.Call.IsInvoke() {
				found = true
			} else if _, isBuiltin := v.(*ssa.Builtin); !isBuiltin {
				if sc := staticCallee(&d.Call); sc != nil {
					if hasRecover(sc) {
						found = true
					}
				} else {
					found = true // a function value of unknown origin
				}
			}
		}
	})
	return found
}

// ---------- guards ----------

// Guard is a branch condition known to hold (Pol=true) or not hold at a program point.
type Guard struct {
	Cond ssa.Value
	Pol  bool
	If   *ssa.If
}

// guardsAt returns the branch conditions that hold on every path reaching block b.
func guardsAt(b *ssa.BasicBlock) []Guard { return guardsAtDepth(b, 4) }

// expandBoolPhi: go/ssa materialises `a && b` / `a || b` used as a value (switch-case expressions, assignments) as a phi of
// constants and the last operand. Knowing the phi's value identifies the incoming edge, hence the operand's value and the
// conditions that held where it was evaluated.
func expandBoolPhi(g Guard, depth int) []Guard {
	cond, pol := g.Cond, g.Pol
	for {
		if u, ok := cond.(*ssa.UnOp); ok && u.Op == token.NOT {
			cond, pol = u.X, !pol
			continue
		}
		break
	}
	if depth <= 0 {
		return nil
	}
	var ph *ssa.Phi
	var compatible func(e ssa.Value) (bool, bool) // (edge can give the known value, edge is decided)
	switch x := cond.(type) {
	case *ssa.Phi:
		if !isBool(x.Type()) {
			return nil
		}
		ph = x
		compatible = func(e ssa.Value) (bool, bool) {
			if c, isC := e.(*ssa.Const); isC && c.Value != nil {
				return constant.BoolVal(c.Value) == pol, true
			}
			return true, false
		}
	case *ssa.BinOp:
		// p == nil / p != nil on a phi whose edges are nil constants and freshly built (non-nil) values: the inlined form
		// of `if err := check(); err != nil { return }` — knowing err == nil identifies the edges that returned nil
		if x.Op != token.EQL && x.Op != token.NEQ {
			return nil
		}
		var other ssa.Value
		if isNilConst(x.Y) {
			other = x.X
		} else if isNilConst(x.X) {
			other = x.Y
		} else {
			return nil
		}
		p2, ok := other.(*ssa.Phi)
		if !ok {
			return nil
		}
		ph = p2
		isNil := (x.Op == token.EQL) == pol
		compatible = func(e ssa.Value) (bool, bool) {
			switch {
			case isNilConst(e):
				return isNil, true
			case definitelyNonNil(e):
				return !isNil, true
			}
			return true, false
		}
	default:
		return nil
	}
	var live []int
	for i, e := range ph.Edges {
		if ok, _ := compatible(e); ok {
			live = append(live, i)
		}
	}
	if len(live) == 0 || len(live) == len(ph.Edges) {
		return nil
	}
	// conditions common to every edge that can have supplied the value
	var out []Guard
	for n, k := range live {
		var eg []Guard
		if _, isC := ph.Edges[k].(*ssa.Const); !isC && isBool(ph.Type()) {
			eg = append(eg, Guard{ph.Edges[k], pol, g.If})
		}
		pred := ph.Block().Preds[k]
		eg = append(eg, guardsAtDepth(pred, depth-1)...)
		if len(pred.Instrs) > 0 {
			if iff, ok := pred.Instrs[len(pred.Instrs)-1].(*ssa.If); ok && pred.Succs[0] != pred.Succs[1] {
				eg = append(eg, Guard{iff.Cond, pred.Succs[0] == ph.Block(), iff})
			}
		}
		if n == 0 {
			out = eg
		} else {
			out = intersectGuards(out, eg)
		}
	}
	return out
}

func guardsAtDepth(b *ssa.BasicBlock, depth int) []Guard {
	out := guardsAtRaw(b)
	n := len(out)
	for i := 0; i < n; i++ {
		for _, e := range expandBoolPhi(out[i], depth) {
			out = append(out, e)
			out = append(out, expandBoolPhi(e, depth-1)...)
		}
	}
	return out
}

func guardsAtRaw(b *ssa.BasicBlock) []Guard {
	out := guardsAtDom(b)
	return append(out, joinFacts(b, out, 0)...)
}

// joinFacts: facts that hold at b although no single branch dominates it — at a join J on b's dominator chain, the
// incoming edges whose conditions contradict what is known at b (the same test, re-evaluated after the join, came out the
// other way) cannot have been taken; what holds on every remaining edge holds at b. (The search loop
// `for i < n && !match(i) { i++ }; if i < n { use(i) }` is the typical case: at use(i), match(i) is known.)
func joinFacts(b *ssa.BasicBlock, known []Guard, depth int) []Guard {
	if depth > 1 {
		return nil
	}
	var out []Guard
	for j := b; j != nil; j = j.Idom() {
		if len(j.Preds) < 2 {
			continue
		}
		// facts established between j and b
		var after []Guard
		for _, g := range known {
			if g.If != nil && (g.If.Block() == j || j.Dominates(g.If.Block())) {
				after = append(after, g)
			}
		}
		if len(after) == 0 {
			continue
		}
		var feasible [][]Guard
		pruned := 0
		for _, pr := range j.Preds {
			if j.Dominates(pr) && pr != j.Idom() {
				// a back edge: the loop body; treat like any other edge
			}
			eg := guardsAtDom(pr)
			if iff, ok := pr.Instrs[len(pr.Instrs)-1].(*ssa.If); ok {
				if pr.Succs[0] == j && pr.Succs[1] != j {
					eg = append(eg, Guard{iff.Cond, true, iff})
				} else if pr.Succs[1] == j && pr.Succs[0] != j {
					eg = append(eg, Guard{iff.Cond, false, iff})
				}
			}
			contradicted := false
			for _, e := range eg {
				for _, a := range after {
					if e.Pol != a.Pol && e.Cond != a.Cond && sameCondExpr(e.Cond, a.Cond, 0) {
						contradicted = true
					}
				}
			}
			if contradicted {
				pruned++
				continue
			}
			feasible = append(feasible, eg)
		}
		if pruned == 0 || len(feasible) == 0 {
			continue
		}
		// intersection over the feasible edges
		for _, g := range feasible[0] {
			all := true
			for _, other := range feasible[1:] {
				has := false
				for _, o := range other {
					if o.Cond == g.Cond && o.Pol == g.Pol {
						has = true
					}
				}
				if !has {
					all = false
				}
			}
			if all {
				dup := false
				for _, k := range known {
					if k.Cond == g.Cond && k.Pol == g.Pol {
						dup = true
					}
				}
				if !dup {
					out = append(out, g)
				}
			}
		}
	}
	return out
}

// sameCondExpr: two conditions (or operands) that are separate instructions but compute the same thing from the same
// values: same operator over the same operands, len/cap of the same value, loads of the same address, equal constants.
func sameCondExpr(a, b ssa.Value, depth int) bool {
	if a == b {
		return true
	}
	if depth > 4 {
		return false
	}
	switch x := a.(type) {
	case *ssa.BinOp:
		y, ok := b.(*ssa.BinOp)
		return ok && x.Op == y.Op && sameCondExpr(x.X, y.X, depth+1) && sameCondExpr(x.Y, y.Y, depth+1)
	case *ssa.UnOp:
		y, ok := b.(*ssa.UnOp)
		if !ok || x.Op != y.Op {
			return false
		}
		if x.Op == token.MUL {
			// two loads are the same value only if nothing can have written in between: accept loads of a local that is
			// stored once, and field/element addresses of the same base that the function never stores to
			return sameCondExpr(x.X, y.X, depth+1) && !storedInFunction(x.X)
		}
		return sameCondExpr(x.X, y.X, depth+1)
	case *ssa.Call:
		y, ok := b.(*ssa.Call)
		if !ok {
			return false
		}
		bx, okx := x.Call.Value.(*ssa.Builtin)
		by, oky := y.Call.Value.(*ssa.Builtin)
		if okx && oky && bx.Name() == by.Name() && (bx.Name() == "len" || bx.Name() == "cap") {
			return sameCondExpr(x.Call.Args[0], y.Call.Args[0], depth+1)
		}
		return false
	case *ssa.Const:
		y, ok := b.(*ssa.Const)
		return ok && x.Value != nil && y.Value != nil && x.Value.ExactString() == y.Value.ExactString() && types.Identical(x.Type(), y.Type())
	case *ssa.FieldAddr:
		y, ok := b.(*ssa.FieldAddr)
		return ok && x.Field == y.Field && sameCondExpr(x.X, y.X, depth+1)
	case *ssa.IndexAddr:
		y, ok := b.(*ssa.IndexAddr)
		return ok && sameCondExpr(x.X, y.X, depth+1) && sameCondExpr(x.Index, y.Index, depth+1)
	case *ssa.Convert:
		y, ok := b.(*ssa.Convert)
		return ok && types.Identical(x.Type(), y.Type()) && sameCondExpr(x.X, y.X, depth+1)
	}
	return false
}

// storedInFunction: some store in addr's function writes through an address with the same shape (field of the same base /
// the same local).
func storedInFunction(addr ssa.Value) bool {
	ins, ok := addr.(ssa.Instruction)
	if !ok {
		return true
	}
	found := false
	eachInstr(ins.Parent(), func(i ssa.Instruction) {
		if st, ok := i.(*ssa.Store); ok && sameCondExpr(st.Addr, addr, 3) {
			found = true
		}
	})
	return found
}

func guardsAtDom(b *ssa.BasicBlock) []Guard {
	var out []Guard
	for d := b.Idom(); d != nil; d = d.Idom() {
		if len(d.Instrs) == 0 {
			continue
		}
		iff, ok := d.Instrs[len(d.Instrs)-1].(*ssa.If)
		if !ok {
			continue
		}
		t, f := d.Succs[0], d.Succs[1]
		tOK := edgeDominates(d, t, b)
		fOK := edgeDominates(d, f, b)
		if tOK && !fOK {
			out = append(out, Guard{iff.Cond, true, iff})
		} else if fOK && !tOK {
			out = append(out, Guard{iff.Cond, false, iff})
		}
	}
	return out
}

// edgeDominates: every path to b goes through the edge d→s.
func edgeDominates(d, s, b *ssa.BasicBlock) bool {
	if s == b || s.Dominates(b) {
		// the edge d→s must be the only way into s (besides back edges from blocks s dominates)
		for _, p := range s.Preds {
			if p != d && !s.Dominates(p) {
				return false
			}
		}
		return true
	}
	return false
}

// ---------- values ----------

// peel strips value-preserving wrappers.
func peel(v ssa.Value) ssa.Value {
	for {
		switch x := v.(type) {
		case *ssa.ChangeType:
			v = x.X
		case *ssa.Convert:
			v = x.X
		case *ssa.ChangeInterface:
			v = x.X
		case *ssa.MakeInterface:
			v = x.X
		case *ssa.Phi:
			if len(x.Edges) == 1 {
				v = x.Edges[0]
				continue
			}
			return v
		case *ssa.UnOp:
			if rv := resolveLocal(x); rv != ssa.Value(x) {
				v = rv
				continue
			}
			return v
		default:
			return v
		}
	}
}

// constInt returns the integer value of a constant SSA value.
func constInt(v ssa.Value) (int64, bool) {
	v = peel(v)
	c, ok := v.(*ssa.Const)
	if !ok || c.Value == nil {
		return 0, false
	}
	if c.Value.Kind() != constant.Int {
		return 0, false
	}
	if i, ok := constant.Int64Val(c.Value); ok {
		return i, true
	}
	if u, ok := constant.Uint64Val(c.Value); ok {
		return int64(u), true
	}
	return 0, false
}

func isNilConst(v ssa.Value) bool {
	c, ok := v.(*ssa.Const)
	return ok && c.IsNil()
}

// fieldAddrOf: if v is a load of x.f (UnOp * of FieldAddr) or the FieldAddr itself or a Field, return base and field.
func fieldRef(v ssa.Value) (base ssa.Value, fld *types.Var, ok bool) {
	switch x := v.(type) {
	case *ssa.UnOp:
		if x.Op == token.MUL {
			if fa, ok := x.X.(*ssa.FieldAddr); ok {
				return fa.X, fieldVar(fa.X.Type(), fa.Field), true
			}
		}
	case *ssa.FieldAddr:
		return x.X, fieldVar(x.X.Type(), x.Field), true
	case *ssa.Field:
		return x.X, fieldVar(x.X.Type(), x.Field), true
	}
	return nil, nil, false
}

func fieldVar(t types.Type, idx int) *types.Var {
	if p, ok := t.Underlying().(*types.Pointer); ok {
		t = p.Elem()
	}
	st, ok := t.Underlying().(*types.Struct)
	if !ok || idx >= st.NumFields() {
		return nil
	}
	return st.Field(idx)
}

// isFieldLoad reports whether v is a load of field named name of a struct type named typ (any package in module).
func isFieldNamed(f *types.Var, name string) bool { return f != nil && f.Name() == name }

// ownerTypeName returns the named struct type that declares field f by scanning base type.
func baseTypeName(base ssa.Value) string {
	t := base.Type()
	if p, ok := t.Underlying().(*types.Pointer); ok {
		t = p.Elem()
	}
	if n, ok := t.(*types.Named); ok {
		return n.Obj().Name()
	}
	return t.String()
}

// fieldStores lists every Store in the given functions whose address is a FieldAddr of field fld (by object identity).
type fieldStore struct {
	Fn    *ssa.Function
	Store *ssa.Store
	Addr  *ssa.FieldAddr
}

func storesToField(fns []*ssa.Function, match func(*types.Var, ssa.Value) bool) []fieldStore {
	var out []fieldStore
	for _, fn := range fns {
		eachInstr(fn, func(i ssa.Instruction) {
			st, ok := i.(*ssa.Store)
			if !ok {
				return
			}
			fa, ok := st.Addr.(*ssa.FieldAddr)
			if !ok {
				return
			}
			fv := fieldVar(fa.X.Type(), fa.Field)
			if fv != nil && match(fv, fa.X) {
				out = append(out, fieldStore{fn, st, fa})
			}
		})
	}
	return out
}

// structField looks up a field object of a named struct.
func structField(n *types.Named, name string) *types.Var {
	if n == nil {
		return nil
	}
	st, ok := n.Underlying().(*types.Struct)
	if !ok {
		return nil
	}
	for i := 0; i < st.NumFields(); i++ {
		if st.Field(i).Name() == name {
			return st.Field(i)
		}
	}
	return nil
}

// ---------- provenance ----------

// Atom is an origin of a value found by backward slicing.
type Atom struct {
	Kind string    // "param", "field", "call", "const", "global", "alloc", "other", "freevar", "binop", "index", "slice", "extract", "make", "lookup"
	V    ssa.Value // the SSA value
	Name string    // param name / field name / callee name / global name
}

func (a Atom) String() string { return a.Kind + ":" + a.Name }

// origins slices backwards through Phi, conversions, and loads/stores of local allocs until it meets atoms.
// Field loads are atoms (Kind "field", Name "Type.field"); calls are atoms; Extract of a call → atom "call" with #idx.
func origins(v ssa.Value) []Atom {
	seen := map[ssa.Value]bool{}
	var out []Atom
	var walk func(v ssa.Value)
	walk = func(v ssa.Value) {
		if v == nil || seen[v] {
			return
		}
		seen[v] = true
		switch x := v.(type) {
		case *ssa.Phi:
			live := liveEdges(x)
			for i, e := range x.Edges {
				if live[i] {
					walk(e)
				}
			}
		case *ssa.ChangeType:
			walk(x.X)
		case *ssa.Convert:
			walk(x.X)
		case *ssa.ChangeInterface:
			walk(x.X)
		case *ssa.MakeInterface:
			walk(x.X)
		case *ssa.Parameter:
			out = append(out, Atom{"param", x, x.Name()})
		case *ssa.FreeVar:
			out = append(out, Atom{"freevar", x, x.Name()})
		case *ssa.Const:
			out = append(out, Atom{"const", x, x.String()})
		case *ssa.Global:
			out = append(out, Atom{"global", x, x.Name()})
		case *ssa.UnOp:
			if x.Op == token.MUL {
				switch a := x.X.(type) {
				case *ssa.Alloc:
					// local variable: the stores that reach this load (flow-sensitive); fall back to all stores
					if vals, ok := reachDefs(a, x); ok && len(vals) > 0 {
						for _, sv := range vals {
							walk(sv)
						}
						break
					}
					n := 0
					for _, ref := range *a.Referrers() {
						if st, ok := ref.(*ssa.Store); ok && st.Addr == a {
							walk(st.Val)
							n++
						}
					}
					if n == 0 {
						out = append(out, Atom{"alloc", a, a.Comment})
					}
				case *ssa.FieldAddr:
					fv := fieldVar(a.X.Type(), a.Field)
					nm := "?"
					if fv != nil {
						nm = baseTypeName(a.X) + "." + fv.Name()
					}
					out = append(out, Atom{"field", x, nm})
				case *ssa.Global:
					out = append(out, Atom{"global", a, a.Name()})
				case *ssa.FreeVar:
					out = append(out, Atom{"freevar", a, a.Name()})
				case *ssa.IndexAddr:
					out = append(out, Atom{"index", x, ""})
				default:
					out = append(out, Atom{"other", x, x.String()})
				}
			} else {
				out = append(out, Atom{"unop", x, x.Op.String()})
			}
		case *ssa.Field:
			fv := fieldVar(x.X.Type(), x.Field)
			nm := "?"
			if fv != nil {
				nm = baseTypeName(x.X) + "." + fv.Name()
			}
			out = append(out, Atom{"field", x, nm})
		case *ssa.Call:
			out = append(out, Atom{"call", x, calleeName(x.Common())})
		case *ssa.Extract:
			if c, ok := x.Tuple.(*ssa.Call); ok {
				out = append(out, Atom{"call", x, fmt.Sprintf("%s#%d", calleeName(c.Common()), x.Index)})
			} else {
				out = append(out, Atom{"extract", x, x.Tuple.String()})
			}
		case *ssa.BinOp:
			out = append(out, Atom{"binop", x, x.Op.String()})
		case *ssa.Slice:
			out = append(out, Atom{"slice", x, ""})
		case *ssa.MakeSlice:
			out = append(out, Atom{"make", x, ""})
		case *ssa.Alloc:
			out = append(out, Atom{"alloc", x, x.Comment})
		case *ssa.Lookup:
			out = append(out, Atom{"lookup", x, ""})
		default:
			out = append(out, Atom{"other", v, v.String()})
		}
	}
	walk(v)
	return out
}

// atomsString renders a set of atoms.
func atomsString(as []Atom) string {
	var s []string
	for _, a := range as {
		s = append(s, a.String())
	}
	return strings.Join(s, ",")
}

// allAtoms reports whether every atom satisfies pred (and there is at least one).
func allAtoms(as []Atom, pred func(Atom) bool) bool {
	if len(as) == 0 {
		return false
	}
	for _, a := range as {
		if !pred(a) {
			return false
		}
	}
	return true
}

// dependsOn reports whether value v is (transitively, within the function) computed from target.
// It follows operands of pure value instructions, loads of local allocs (via their stores), and phis.
func dependsOn(v ssa.Value, isTarget func(ssa.Value) bool) bool {
	return dependsOnCut(v, isTarget, nil)
}

// dependsOnCut is dependsOn that does not look behind values for which cut returns true.
func dependsOnCut(v ssa.Value, isTarget func(ssa.Value) bool, cut func(ssa.Value) bool) bool {
	seen := map[ssa.Value]bool{}
	var walk func(v ssa.Value) bool
	walk = func(v ssa.Value) bool {
		if v == nil || seen[v] {
			return false
		}
		seen[v] = true
		if isTarget(v) {
			return true
		}
		if cut != nil && cut(v) {
			return false
		}
		switch x := v.(type) {
		case *ssa.UnOp:
			if x.Op == token.MUL {
				if a, ok := x.X.(*ssa.Alloc); ok {
					// stores into fields/elements of the local (struct or array literal) feed the loaded value too
					if allocPartsDepend(a, walk) {
						return true
					}
					if vals, ok := reachDefs(a, x); ok && len(vals) > 0 {
						for _, sv := range vals {
							if walk(sv) {
								return true
							}
						}
						return false
					}
					for _, ref := range *a.Referrers() {
						if st, ok := ref.(*ssa.Store); ok && st.Addr == a {
							if walk(st.Val) {
								return true
							}
						}
					}
					return false
				}
			}
		case *ssa.Call:
			// result depends on args
			for _, a := range x.Call.Args {
				if walk(a) {
					return true
				}
			}
			if !x.Call.IsInvoke() {
				return walk(x.Call.Value)
			}
			return walk(x.Call.Value)
		case *ssa.Slice:
			if a, ok := x.X.(*ssa.Alloc); ok && allocPartsDepend(a, walk) {
				return true
			}
		case *ssa.Alloc:
			// the address of a local flows on: what is stored in the local is a dependency too
			for _, ref := range *x.Referrers() {
				if st, ok := ref.(*ssa.Store); ok && st.Addr == ssa.Value(x) && walk(st.Val) {
					return true
				}
			}
			return allocPartsDepend(x, walk)
		case *ssa.Parameter, *ssa.Const, *ssa.Global, *ssa.FreeVar, *ssa.Function, *ssa.Builtin:
			return false
		}
		if ins, ok := v.(ssa.Instruction); ok {
			for _, op := range ins.Operands(nil) {
				if *op != nil && walk(*op) {
					return true
				}
			}
		}
		return false
	}
	return walk(v)
}

// ---------- call graph reachability over static calls + CHA ----------

// reachableFuncs returns every function reachable from roots through the CHA call graph.
func (p *Prog) reachableFuncs(roots ...*ssa.Function) map[*ssa.Function]bool {
	cg := p.CG()
	seen := map[*ssa.Function]bool{}
	var st []*ssa.Function
	for _, r := range roots {
		if r != nil {
			st = append(st, r)
		}
	}
	for len(st) > 0 {
		f := st[len(st)-1]
		st = st[:len(st)-1]
		if seen[f] {
			continue
		}
		seen[f] = true
		if n := cg.Nodes[f]; n != nil {
			for _, e := range n.Out {
				st = append(st, e.Callee.Func)
			}
		}
		// closures created inside f are considered reachable from f
		for _, af := range f.AnonFuncs {
			st = append(st, af)
		}
	}
	return seen
}

// staticReach: reachability through static calls and closures only, restricted to module functions.
func (p *Prog) staticReach(roots ...*ssa.Function) map[*ssa.Function]bool {
	seen := map[*ssa.Function]bool{}
	var st []*ssa.Function
	for _, r := range roots {
		if r != nil {
			st = append(st, r)
		}
	}
	for len(st) > 0 {
		f := st[len(st)-1]
		st = st[:len(st)-1]
		if seen[f] || f.Blocks == nil {
			continue
		}
		seen[f] = true
		eachInstr(f, func(i ssa.Instruction) {
			if c := callCommon(i); c != nil {
				if cal := staticCallee(c); cal != nil && strings.HasPrefix(pkgPathOf(cal), Mod) {
					st = append(st, cal)
				}
			}
			if mc, ok := i.(*ssa.MakeClosure); ok {
				if cf, ok := mc.Fn.(*ssa.Function); ok {
					st = append(st, cf)
				}
			}
		})
	}
	return seen
}

// callersOf lists (caller, call instruction) pairs that statically call fn within the module.
type callSite struct {
	Caller *ssa.Function
	Instr  ssa.CallInstruction
}

func (p *Prog) callersOf(fn *ssa.Function) []callSite {
	var out []callSite
	for _, f := range p.Funcs {
		eachInstr(f, func(i ssa.Instruction) {
			if ci, ok := i.(ssa.CallInstruction); ok {
				if staticCallee(ci.Common()) == fn {
					out = append(out, callSite{f, ci})
				}
			}
		})
	}
	return out
}

// implementsIface reports whether *T or T implements iface.
func implementsIface(t types.Type, iface *types.Interface) bool {
	return types.Implements(t, iface) || types.Implements(types.NewPointer(t), iface)
}

// namedTypesOf lists the named (non-alias) types declared in a package scope.
func namedTypesOf(pk *types.Package) []*types.Named {
	var out []*types.Named
	sc := pk.Scope()
	for _, n := range sc.Names() {
		if tn, ok := sc.Lookup(n).(*types.TypeName); ok && !tn.IsAlias() {
			if nt, ok := tn.Type().(*types.Named); ok {
				out = append(out, nt)
			}
		}
	}
	return out
}

// reachersOf returns every function from which one of targets is reachable in the CHA call graph.
func (p *Prog) reachersOf(targets ...*ssa.Function) map[*ssa.Function]bool {
	cg := p.CG()
	seen := map[*ssa.Function]bool{}
	var st []*ssa.Function
	for _, t := range targets {
		if t != nil {
			st = append(st, t)
		}
	}
	for len(st) > 0 {
		f := st[len(st)-1]
		st = st[:len(st)-1]
		if seen[f] {
			continue
		}
		seen[f] = true
		if n := cg.Nodes[f]; n != nil {
			for _, e := range n.In {
				st = append(st, e.Caller.Func)
			}
		}
		// a closure is "reached" from its parent's creation site: treat parent as a reacher
		if f.Parent() != nil {
			st = append(st, f.Parent())
		}
	}
	return seen
}

// calleesOf resolves the possible callees of a call instruction (static or CHA).
func (p *Prog) calleesOf(i ssa.CallInstruction) []*ssa.Function {
	if f := staticCallee(i.Common()); f != nil {
		return []*ssa.Function{f}
	}
	var out []*ssa.Function
	if n := p.CG().Nodes[i.Parent()]; n != nil {
		for _, e := range n.Out {
			if e.Site == i {
				out = append(out, e.Callee.Func)
			}
		}
	}
	return out
}

// textWriters lists the raw text-write primitives of package memory present in this configuration.
func (p *Prog) textWriters() []*ssa.Function {
	var out []*ssa.Function
	for _, n := range []string{"WriteTo", "WriteToNoFlush", "WriteToNoFlushNoLock"} {
		if f := p.Fn("internal/bytecode/memory", n); f != nil {
			out = append(out, f)
		}
	}
	return out
}

// canReturnNonNilError reports whether fn has a return whose error result is not the nil constant.
func canReturnNonNilError(fn *ssa.Function) bool {
	if fn == nil || fn.Blocks == nil {
		return true
	}
	errT := types.Universe.Lookup("error").Type()
	res := fn.Signature.Results()
	for _, ret := range returnsOf(fn) {
		for k := 0; k < res.Len(); k++ {
			if types.Identical(res.At(k).Type(), errT) && k < len(ret.Results) {
				if !isNilConst(retResult(ret, k)) {
					return true
				}
			}
		}
	}
	return false
}

// errIndex returns the index of the error result of a signature, or -1.
func errIndex(sig *types.Signature) int {
	errT := types.Universe.Lookup("error").Type()
	for k := 0; k < sig.Results().Len(); k++ {
		if types.Identical(sig.Results().At(k).Type(), errT) {
			return k
		}
	}
	return -1
}

// errNilGuarded reports whether block b runs only when the error result of call d is nil.
func errNilGuarded(b *ssa.BasicBlock, d *ssa.Call) bool {
	isErrOfD := func(v ssa.Value) bool {
		for _, a := range origins(v) {
			switch x := a.V.(type) {
			case *ssa.Extract:
				if x.Tuple == d {
					return true
				}
			case *ssa.Call:
				if x == d {
					return true
				}
			}
		}
		return false
	}
	for _, g := range guardsAt(b) {
		bo, ok := g.Cond.(*ssa.BinOp)
		if !ok || (bo.Op != token.EQL && bo.Op != token.NEQ) {
			continue
		}
		var other ssa.Value
		if isNilConst(bo.Y) {
			other = bo.X
		} else if isNilConst(bo.X) {
			other = bo.Y
		} else {
			continue
		}
		if isErrOfD(other) && (bo.Op == token.EQL) == g.Pol {
			return true
		}
	}
	return false
}

// modEdges builds the module-internal call graph: static calls, closures, and invokes on
// interfaces declared in the module (resolved to every module method with that name whose receiver implements it).
func (p *Prog) modEdges() map[*ssa.Function][]*ssa.Function {
	if p.medges != nil {
		return p.medges
	}
	edges := map[*ssa.Function][]*ssa.Function{}
	// method index by name for module types
	byName := map[string][]*ssa.Function{}
	for _, f := range p.Funcs {
		if f.Signature.Recv() != nil && f.Object() != nil {
			byName[f.Name()] = append(byName[f.Name()], f)
		}
	}
	for _, f := range p.Funcs {
		if relPkg(f) == "internal/logger" {
			continue
		}
		eachInstr(f, func(i ssa.Instruction) {
			if mc, ok := i.(*ssa.MakeClosure); ok {
				if cf, ok := mc.Fn.(*ssa.Function); ok {
					edges[f] = append(edges[f], cf)
				}
			}
			// function values used as operands (callbacks such as sync.Once.Do(f)) may be called
			for _, op := range i.Operands(nil) {
				if fv, ok := (*op).(*ssa.Function); ok && fv.Blocks != nil && strings.HasPrefix(pkgPathOf(fv), Mod) {
					if ci, isCall := i.(ssa.CallInstruction); !isCall || ci.Common().Value != ssa.Value(fv) {
						edges[f] = append(edges[f], fv)
					}
				}
			}
			ci, ok := i.(ssa.CallInstruction)
			if !ok {
				return
			}
			c := ci.Common()
			if cal := staticCallee(c); cal != nil {
				if strings.HasPrefix(pkgPathOf(cal), Mod) && relPkg(cal) != "internal/logger" {
					edges[f] = append(edges[f], cal)
				}
				return
			}
			if c.IsInvoke() {
				it, _ := c.Value.Type().Underlying().(*types.Interface)
				nt, _ := c.Value.Type().(*types.Named)
				if it == nil || nt == nil || nt.Obj().Pkg() == nil || !strings.HasPrefix(nt.Obj().Pkg().Path(), Mod) {
					return
				}
				for _, m := range byName[c.Method.Name()] {
					rt := m.Signature.Recv().Type()
					if types.Implements(rt, it) {
						edges[f] = append(edges[f], m)
					}
				}
			}
		})
	}
	p.medges = edges
	return edges
}

// modReachers: functions from which one of targets is reachable over modEdges.
func (p *Prog) modReachers(targets ...*ssa.Function) map[*ssa.Function]bool {
	edges := p.modEdges()
	rev := map[*ssa.Function][]*ssa.Function{}
	for a, bs := range edges {
		for _, b := range bs {
			rev[b] = append(rev[b], a)
		}
	}
	seen := map[*ssa.Function]bool{}
	st := append([]*ssa.Function(nil), targets...)
	for len(st) > 0 {
		f := st[len(st)-1]
		st = st[:len(st)-1]
		if f == nil || seen[f] {
			continue
		}
		seen[f] = true
		st = append(st, rev[f]...)
	}
	return seen
}

// modReach: functions reachable from roots over modEdges.
func (p *Prog) modReach(roots ...*ssa.Function) map[*ssa.Function]bool {
	edges := p.modEdges()
	seen := map[*ssa.Function]bool{}
	st := append([]*ssa.Function(nil), roots...)
	for len(st) > 0 {
		f := st[len(st)-1]
		st = st[:len(st)-1]
		if f == nil || seen[f] {
			continue
		}
		seen[f] = true
		st = append(st, edges[f]...)
	}
	return seen
}

// modCallees resolves a call instruction over the module graph (static or module-interface invoke).
func (p *Prog) modCallees(ci ssa.CallInstruction) []*ssa.Function {
	c := ci.Common()
	if cal := staticCallee(c); cal != nil {
		return []*ssa.Function{cal}
	}
	if !c.IsInvoke() {
		return nil
	}
	it, _ := c.Value.Type().Underlying().(*types.Interface)
	nt, _ := c.Value.Type().(*types.Named)
	if it == nil || nt == nil || nt.Obj().Pkg() == nil || !strings.HasPrefix(nt.Obj().Pkg().Path(), Mod) {
		return nil
	}
	var out []*ssa.Function
	for _, m := range p.Funcs {
		if m.Signature.Recv() != nil && m.Object() != nil && m.Name() == c.Method.Name() && types.Implements(m.Signature.Recv().Type(), it) {
			out = append(out, m)
		}
	}
	return out
}

// textWriteSite is a call of a text-write primitive, classified by what it writes. When the primitive is called from a
// helper that receives the bytes as a parameter, the site is the helper's call site in each caller (Via = the helper).
type textWriteSite struct {
	Fn       *ssa.Function
	Call     ssa.CallInstruction
	Kind     string // "install" (jump bytes), "restore" (origin bytes), "other"
	Addr     []Atom
	Data     []Atom
	AddrV    ssa.Value // address operand in Fn's terms (nil if not expressible)
	DataV    ssa.Value
	AddrBase ssa.Value     // object whose field the address is (in Fn's terms), if any
	DataBase ssa.Value     // object whose field the data is
	Via      *ssa.Function // helper containing the primitive call, when lifted
	Raw      ssa.CallInstruction
}

func (p *Prog) classifyWrite(s *textWriteSite) {
	pr := p.patchRoles()
	s.Kind = "other"
	for _, a := range s.Data {
		if a.Kind != "field" {
			continue
		}
		if b, fv, ok := fieldRef(a.V); ok && fv != nil {
			if fv == pr.GInstall || fv == pr.PInstall {
				s.Kind = "install"
				s.DataBase = resolveLocal(b)
			}
			if fv == pr.GRestore || fv == pr.PRestore {
				s.Kind = "restore"
				s.DataBase = resolveLocal(b)
			}
		}
	}
}

// textWriteSites lists every call to memory.WriteTo* in the module (lifted through byte-parameter helpers).
func (p *Prog) textWriteSites() []textWriteSite {
	if p.tws != nil {
		return p.tws
	}
	var out []textWriteSite
	var names []string
	for _, w := range p.textWriters() {
		names = append(names, w.Object().(*types.Func).FullName())
	}
	paramIdx := func(f *ssa.Function, v ssa.Value) int {
		if pr, ok := resolveLocal(v).(*ssa.Parameter); ok && pr.Parent() == f {
			for k, q := range f.Params {
				if q == pr {
					return k
				}
			}
		}
		return -1
	}
	var lift func(s textWriteSite, depth int) []textWriteSite
	lift = func(s textWriteSite, depth int) []textWriteSite {
		di := -1
		if s.DataV != nil {
			di = paramIdx(s.Fn, s.DataV)
		}
		if s.Kind != "other" || di < 0 || depth == 0 || relPkg(s.Fn) != "internal/patch" {
			return []textWriteSite{s}
		}
		callers := p.callersOf(s.Fn)
		if len(callers) == 0 {
			return []textWriteSite{s}
		}
		var ls []textWriteSite
		anyClassified := false
		for _, cs := range callers {
			args := cs.Instr.Common().Args
			n := textWriteSite{Fn: cs.Caller, Call: cs.Instr, Via: s.Fn, Raw: s.Raw}
			if s.Via != nil {
				n.Via = s.Via
			}
			if di < len(args) {
				n.DataV = args[di]
				n.Data = origins(n.DataV)
			}
			if ai := paramIdx(s.Fn, s.AddrV); s.AddrV != nil && ai >= 0 && ai < len(args) {
				n.AddrV = args[ai]
				n.Addr = origins(n.AddrV)
			} else {
				n.Addr = s.Addr
				if bi := paramIdx(s.Fn, s.AddrBase); s.AddrBase != nil && bi >= 0 && bi < len(args) {
					n.AddrBase = resolveLocal(args[bi])
				}
			}
			if n.AddrV != nil {
				for _, a := range n.Addr {
					if b, _, ok := fieldRef(a.V); ok {
						n.AddrBase = resolveLocal(b)
					}
				}
			}
			p.classifyWrite(&n)
			if n.Kind != "other" {
				anyClassified = true
			}
			ls = append(ls, lift(n, depth-1)...)
		}
		if !anyClassified {
			// lifting did not reveal what is written: keep the primitive's own site (the callers are covered by reachability)
			stay := true
			for _, l := range ls {
				if l.Kind != "other" {
					stay = false
				}
			}
			if stay {
				return []textWriteSite{s}
			}
		}
		return ls
	}
	for _, f := range p.Funcs {
		if relPkg(f) == "internal/bytecode/memory" {
			continue
		}
		for _, cs := range callsTo(f, names...) {
			ci := cs.(ssa.CallInstruction)
			args := ci.Common().Args
			s := textWriteSite{Fn: f, Call: ci, Raw: ci, Addr: origins(args[0]), Data: origins(args[1]), AddrV: args[0], DataV: args[1]}
			for _, a := range s.Addr {
				if b, _, ok := fieldRef(a.V); ok {
					s.AddrBase = resolveLocal(b)
				}
			}
			p.classifyWrite(&s)
			out = append(out, lift(s, 3)...)
		}
	}
	p.tws = out
	return out
}

// retResult returns the value actually returned at index idx, looking through the result spill
// go/ssa introduces in functions with defers (store to a result alloc, rundefers, load, return).
func retResult(ret *ssa.Return, idx int) ssa.Value {
	if idx >= len(ret.Results) {
		return nil
	}
	return resolveLocal(ret.Results[idx])
}

// reachDefs returns the values of the stores to local alloc a that reach instruction at (flow-sensitive,
// ignoring writes through closures). ok=false if some path reaches the function entry without a store.
func reachDefs(a *ssa.Alloc, at ssa.Instruction) (vals []ssa.Value, ok bool) {
	return reachStores(at, func(st *ssa.Store) (ssa.Value, bool) {
		if st.Addr == ssa.Value(a) {
			return st.Val, true
		}
		return nil, false
	})
}

// reachStores: the values produced by match for the last matching store on every path to at.
func reachStores(at ssa.Instruction, match func(*ssa.Store) (ssa.Value, bool)) (vals []ssa.Value, ok bool) {
	ok = true
	seenB := map[*ssa.BasicBlock]bool{}
	seenV := map[ssa.Value]bool{}
	var fromEnd func(b *ssa.BasicBlock)
	scan := func(b *ssa.BasicBlock, from int) bool {
		for k := from; k >= 0; k-- {
			if st, isS := b.Instrs[k].(*ssa.Store); isS {
				if v, hit := match(st); hit {
					if !seenV[v] {
						seenV[v] = true
						vals = append(vals, v)
					}
					return true
				}
			}
		}
		return false
	}
	fromEnd = func(b *ssa.BasicBlock) {
		if seenB[b] {
			return
		}
		seenB[b] = true
		if scan(b, len(b.Instrs)-1) {
			return
		}
		if len(b.Preds) == 0 {
			ok = false
			return
		}
		for _, p := range b.Preds {
			fromEnd(p)
		}
	}
	b := at.Block()
	if scan(b, instrIndex(at)-1) {
		return
	}
	if len(b.Preds) == 0 {
		return nil, false
	}
	for _, p := range b.Preds {
		fromEnd(p)
	}
	return
}

// resolveLocal looks through loads of local allocs that have exactly one reaching definition.
func resolveLocal(v ssa.Value) ssa.Value {
	for depth := 0; depth < 16; depth++ {
		ld, ok := v.(*ssa.UnOp)
		if !ok || ld.Op != token.MUL {
			return v
		}
		if fa, isFA := ld.X.(*ssa.FieldAddr); isFA {
			// a field of a local struct variable that never escapes: scalar replacement
			if a, isA := fa.X.(*ssa.Alloc); isA && privateStruct(a) {
				if fv, okF := reachFieldDef(a, fa.Field, ld, 0); okF {
					v = fv
					continue
				}
			}
			return v
		}
		a, ok := ld.X.(*ssa.Alloc)
		if !ok {
			return v
		}
		vals, ok := reachDefs(a, ld)
		if !ok || len(vals) != 1 {
			return v
		}
		v = vals[0]
	}
	return v
}

// isPkgInit: f is a package initialiser (synthetic "init" or a source-level init#N).
func isPkgInit(f *ssa.Function) bool {
	if f == nil || f.Signature.Recv() != nil || f.Parent() != nil {
		return false
	}
	return f.Name() == "init" || strings.HasPrefix(f.Name(), "init#")
}

// allocPartsDepend: does any value stored into a field/element of local alloc a satisfy walk?
func allocPartsDepend(a *ssa.Alloc, walk func(ssa.Value) bool) bool {
	for _, ref := range *a.Referrers() {
		switch u := ref.(type) {
		case *ssa.FieldAddr:
			for _, r2 := range *u.Referrers() {
				if st, ok := r2.(*ssa.Store); ok && st.Addr == ssa.Value(u) && walk(st.Val) {
					return true
				}
			}
		case *ssa.IndexAddr:
			for _, r2 := range *u.Referrers() {
				if st, ok := r2.(*ssa.Store); ok && st.Addr == ssa.Value(u) && walk(st.Val) {
					return true
				}
			}
		}
	}
	return false
}

// originsDeep is origins that looks through static calls of module functions: a call atom is replaced by the origins of
// the callee's corresponding result, and the callee's parameters are bound to the call's arguments (depth-bounded).
func originsDeep(v ssa.Value, depth int) []Atom { return originsDeepIn(v, depth, nil) }

// originsDeepIn expands only callees accepted by into (nil = every module function).
func originsDeepIn(v ssa.Value, depth int, into func(*ssa.Function) bool) []Atom {
	var out []Atom
	for _, a := range origins(v) {
		if depth <= 0 {
			out = append(out, a)
			continue
		}
		var call *ssa.Call
		idx := 0
		switch x := a.V.(type) {
		case *ssa.Call:
			call = x
		case *ssa.Extract:
			if c, ok := x.Tuple.(*ssa.Call); ok {
				call, idx = c, x.Index
			}
		}
		if a.Kind != "call" || call == nil {
			out = append(out, a)
			continue
		}
		cal := staticCallee(call.Common())
		if cal == nil || cal.Blocks == nil || !strings.HasPrefix(pkgPathOf(cal), Mod) || relPkg(cal) == "internal/logger" || (into != nil && !into(cal)) {
			out = append(out, a)
			continue
		}
		expanded := false
		for _, ret := range returnsOf(cal) {
			rv := retResult(ret, idx)
			if rv == nil {
				continue
			}
			for _, b := range originsDeepIn(rv, depth-1, into) {
				expanded = true
				if b.Kind == "param" {
					if pr, ok := b.V.(*ssa.Parameter); ok && pr.Parent() == cal {
						for k, q := range cal.Params {
							if q == pr && k < len(call.Call.Args) {
								out = append(out, originsDeepIn(call.Call.Args[k], depth-1, into)...)
							}
						}
						continue
					}
				}
				out = append(out, b)
			}
		}
		if !expanded {
			out = append(out, a)
		}
	}
	return out
}

// liftedSite is a call site viewed from a caller: the values of the callee's parameters as passed at that call.
type liftedSite struct {
	Fn    *ssa.Function
	Instr ssa.Instruction
	Vals  []ssa.Value // the tracked values (e.g. addr, data) expressed in Fn's terms
}

// liftSites lifts a site whose tracked values are parameters of its function to the callers of that function (bounded).
func (p *Prog) liftSites(s liftedSite, depth int) []liftedSite {
	out := []liftedSite{s}
	if depth <= 0 {
		return out
	}
	// which tracked values are plain parameters?
	idx := make([]int, len(s.Vals))
	any := false
	for i, v := range s.Vals {
		idx[i] = -1
		if pr, ok := resolveLocal(v).(*ssa.Parameter); ok && pr.Parent() == s.Fn {
			for k, q := range s.Fn.Params {
				if q == pr {
					idx[i] = k
					any = true
				}
			}
		}
	}
	if !any {
		return out
	}
	for _, cs := range p.callersOf(s.Fn) {
		vals := make([]ssa.Value, len(s.Vals))
		for i := range s.Vals {
			if idx[i] >= 0 && idx[i] < len(cs.Instr.Common().Args) {
				vals[i] = cs.Instr.Common().Args[idx[i]]
			} else {
				vals[i] = nil // not expressible in the caller
			}
		}
		out = append(out, p.liftSites(liftedSite{cs.Caller, cs.Instr, vals}, depth-1)...)
	}
	return out
}

// structBuild is one construction of a struct value seen from function Fn: directly (stores into the fields of a fresh
// allocation) or through a constructor (a static module callee that stores its parameters/constants into a fresh
// allocation it returns). Fields maps the field to the value stored, expressed in Fn's terms.
type structBuild struct {
	Fn     *ssa.Function
	At     ssa.Instruction // a store of the literal, or the constructor call
	Fields map[*types.Var]ssa.Value
	Via    *ssa.Function
}

func (p *Prog) structBuilds(fn *ssa.Function, depth int) []structBuild {
	var out []structBuild
	byBase := map[ssa.Value]*structBuild{}
	var order []ssa.Value
	eachInstr(fn, func(i ssa.Instruction) {
		switch x := i.(type) {
		case *ssa.Store:
			fa, ok := x.Addr.(*ssa.FieldAddr)
			if !ok {
				return
			}
			if _, isAlloc := fa.X.(*ssa.Alloc); !isAlloc {
				return
			}
			fv := fieldVar(fa.X.Type(), fa.Field)
			if fv == nil {
				return
			}
			b := byBase[fa.X]
			if b == nil {
				b = &structBuild{Fn: fn, At: x, Fields: map[*types.Var]ssa.Value{}}
				byBase[fa.X] = b
				order = append(order, fa.X)
			}
			b.Fields[fv] = x.Val
		case *ssa.Call:
			if depth <= 0 {
				return
			}
			cal := staticCallee(x.Common())
			if cal == nil || cal.Blocks == nil || !strings.HasPrefix(pkgPathOf(cal), Mod) || cal == fn {
				return
			}
			// a constructor: single block-structure is not required, but every returned value must be its fresh allocation
			subs := p.structBuilds(cal, depth-1)
			if len(subs) != 1 || subs[0].Fn != cal {
				return
			}
			rets := returnsOf(cal)
			if len(rets) == 0 || cal.Signature.Results().Len() != 1 {
				return
			}
			var base ssa.Value
			if st, ok := subs[0].At.(*ssa.Store); ok {
				base = st.Addr.(*ssa.FieldAddr).X
			}
			for _, ret := range rets {
				if resolveLocal(ret.Results[0]) != base {
					return
				}
			}
			nb := structBuild{Fn: fn, At: x, Fields: map[*types.Var]ssa.Value{}, Via: cal}
			for fv, v := range subs[0].Fields {
				rv := resolveLocal(v)
				if pr, ok := rv.(*ssa.Parameter); ok && pr.Parent() == cal {
					for k, q := range cal.Params {
						if q == pr && k < len(x.Call.Args) {
							nb.Fields[fv] = x.Call.Args[k]
						}
					}
				} else if _, ok := rv.(*ssa.Const); ok {
					nb.Fields[fv] = rv
				} else {
					nb.Fields[fv] = nil // not expressible in the caller
				}
			}
			out = append(out, nb)
		}
	})
	for _, b := range order {
		out = append(out, *byBase[b])
	}
	return out
}

var privStructMemo = map[*ssa.Alloc]bool{}

// privateStruct: a is a local struct variable whose address is used only to address its fields (which are only stored and
// loaded) and to load or store the whole value — it never escapes, so its fields behave like local variables.
func privateStruct(a *ssa.Alloc) bool {
	if v, ok := privStructMemo[a]; ok {
		return v
	}
	res := func() bool {
		pt, ok := a.Type().Underlying().(*types.Pointer)
		if !ok {
			return false
		}
		if _, ok := pt.Elem().Underlying().(*types.Struct); !ok {
			return false
		}
		for _, ref := range *a.Referrers() {
			switch r := ref.(type) {
			case *ssa.FieldAddr:
				for _, r2 := range *r.Referrers() {
					switch x := r2.(type) {
					case *ssa.Store:
						if x.Addr != ssa.Value(r) {
							return false
						}
					case *ssa.UnOp:
						if x.Op != token.MUL {
							return false
						}
					case *ssa.DebugRef:
					default:
						return false
					}
				}
			case *ssa.UnOp:
				if r.Op != token.MUL {
					return false
				}
			case *ssa.Store:
				if r.Addr != ssa.Value(a) {
					return false
				}
			case *ssa.DebugRef:
			default:
				return false
			}
		}
		return true
	}()
	privStructMemo[a] = res
	return res
}

// reachFieldDef: the single value that field fld of private struct a holds at instruction at.
func reachFieldDef(a *ssa.Alloc, fld int, at ssa.Instruction, depth int) (ssa.Value, bool) {
	if depth > 4 {
		return nil, false
	}
	wholeVal := map[ssa.Value]bool{}
	vals, ok := reachStores(at, func(st *ssa.Store) (ssa.Value, bool) {
		if fa, isFA := st.Addr.(*ssa.FieldAddr); isFA && fa.X == ssa.Value(a) && fa.Field == fld {
			return st.Val, true
		}
		if st.Addr == ssa.Value(a) {
			wholeVal[st.Val] = true // whole-value store
			return st.Val, true
		}
		return nil, false
	})
	if !ok || len(vals) != 1 {
		return nil, false
	}
	if wholeVal[vals[0]] {
		// the struct was assigned as a whole: follow a copy of another private struct
		if ld, isLd := vals[0].(*ssa.UnOp); isLd && ld.Op == token.MUL {
			if b, isA := ld.X.(*ssa.Alloc); isA && privateStruct(b) {
				return reachFieldDef(b, fld, ld, depth+1)
			}
		}
		return nil, false
	}
	return vals[0], true
}

var liveEdgeMemo = map[*ssa.Phi][]bool{}

// liveEdges: which incoming edges of a phi can supply the value at its uses. The idiom `v, err := …; if err != nil
// { return }; use(v)` (and its inlined form, where v and err are sibling phis of one block) makes the edges on which the
// sibling is a non-nil error irrelevant to every use of v: an edge is dead when a condition that holds at every use of
// the phi contradicts the value a sibling phi of the same block takes on that edge.
func liveEdges(ph *ssa.Phi) []bool {
	if l, ok := liveEdgeMemo[ph]; ok {
		return l
	}
	live := make([]bool, len(ph.Edges))
	for i := range live {
		live[i] = true
	}
	liveEdgeMemo[ph] = live // provisional (cycles)
	refs := ph.Referrers()
	if refs == nil || len(*refs) == 0 {
		return live
	}
	// conditions common to all uses
	var common []Guard
	first := true
	for _, ref := range *refs {
		if _, isDbg := ref.(*ssa.DebugRef); isDbg {
			continue
		}
		var gs []Guard
		if rp, isPhi := ref.(*ssa.Phi); isPhi {
			// used on the edges where it is an operand
			var acc []Guard
			firstE := true
			for ei, e := range rp.Edges {
				if e != ssa.Value(ph) {
					continue
				}
				eg := knownAtEdge(rp.Block().Preds[ei], rp.Block())
				if firstE {
					acc, firstE = eg, false
				} else {
					acc = intersectGuards(acc, eg)
				}
			}
			gs = acc
		} else {
			gs = guardsAt(ref.Block())
		}
		if first {
			common, first = gs, false
		} else {
			common = intersectGuards(common, gs)
		}
		if len(common) == 0 {
			return live
		}
	}
	for _, g := range common {
		cond, pol := g.Cond, g.Pol
		for {
			if u, ok := cond.(*ssa.UnOp); ok && u.Op == token.NOT {
				cond, pol = u.X, !pol
				continue
			}
			break
		}
		// boolean sibling
		if sib, ok := cond.(*ssa.Phi); ok && sib != ph && sib.Block() == ph.Block() && len(sib.Edges) == len(ph.Edges) {
			for i, e := range sib.Edges {
				if c, isC := e.(*ssa.Const); isC && c.Value != nil && isBool(c.Type()) && constant.BoolVal(c.Value) != pol {
					live[i] = false
				}
			}
			continue
		}
		bo, ok := cond.(*ssa.BinOp)
		if !ok || (bo.Op != token.EQL && bo.Op != token.NEQ) {
			continue
		}
		var other ssa.Value
		if isNilConst(bo.Y) {
			other = bo.X
		} else if isNilConst(bo.X) {
			other = bo.Y
		} else {
			continue
		}
		sib, ok := other.(*ssa.Phi)
		if !ok || sib == ph || sib.Block() != ph.Block() || len(sib.Edges) != len(ph.Edges) {
			continue
		}
		isNil := (bo.Op == token.EQL) == pol // the sibling is nil at every use
		for i, e := range sib.Edges {
			switch {
			case isNil && definitelyNonNil(e):
				live[i] = false
			case !isNil && isNilConst(e):
				live[i] = false
			}
		}
	}
	any := false
	for _, l := range live {
		if l {
			any = true
		}
	}
	if !any {
		for i := range live {
			live[i] = true
		}
	}
	return live
}

func intersectGuards(a, b []Guard) []Guard {
	var out []Guard
	for _, x := range a {
		for _, y := range b {
			if x.Cond == y.Cond && x.Pol == y.Pol {
				out = append(out, x)
				break
			}
		}
	}
	return out
}

// definitelyNonNil: a value that cannot be nil (a freshly built error or boxed concrete value).
func definitelyNonNil(v ssa.Value) bool {
	switch x := v.(type) {
	case *ssa.MakeInterface:
		if _, isPtr := x.X.Type().Underlying().(*types.Pointer); isPtr {
			_, isAlloc := x.X.(*ssa.Alloc)
			return isAlloc
		}
		return true
	case *ssa.Alloc, *ssa.MakeSlice, *ssa.MakeMap, *ssa.MakeChan, *ssa.MakeClosure, *ssa.Function:
		return true
	case *ssa.Call:
		switch calleeName(x.Common()) {
		case "fmt.Errorf", "errors.New":
			return true
		}
	}
	return false
}

// mutableGlobals: module package-level variables that something outside a package initialiser can modify: a store to the
// variable, a store/map update/delete through its loaded value, or its address handed to a call (pointer-receiver methods
// such as sync.Map.Store, Mutex.Lock) outside init. Variables that are only ever assigned nil/zero and read are not
// included (a never-allocated debug table is inert).
func (p *Prog) mutableGlobals() map[*ssa.Global]string {
	if p.mglob != nil {
		return p.mglob
	}
	out := map[*ssa.Global]string{}
	for _, f := range p.Funcs {
		if isPkgInit(f) {
			continue
		}
		eachInstr(f, func(i ssa.Instruction) {
			for _, op := range i.Operands(nil) {
				if op == nil || *op == nil {
					continue
				}
				g, ok := (*op).(*ssa.Global)
				if !ok || g.Pkg == nil || !strings.HasPrefix(g.Pkg.Pkg.Path(), Mod) {
					continue
				}
				switch x := i.(type) {
				case *ssa.Store:
					if x.Addr == ssa.Value(g) {
						out[g] = "assigned in " + shortName(f)
					}
				case *ssa.UnOp:
					// a load: look at what is done with the loaded value
					for _, ref := range *x.Referrers() {
						switch u := ref.(type) {
						case *ssa.MapUpdate:
							if u.Map == ssa.Value(x) {
								out[g] = "map updated in " + shortName(f)
							}
						case *ssa.Call:
							if bi, ok := u.Call.Value.(*ssa.Builtin); ok && bi.Name() == "delete" {
								out[g] = "map entry deleted in " + shortName(f)
							}
						case *ssa.IndexAddr:
							for _, r2 := range *u.Referrers() {
								if st, ok := r2.(*ssa.Store); ok && st.Addr == ssa.Value(u) {
									out[g] = "element stored in " + shortName(f)
								}
							}
						}
					}
				case *ssa.FieldAddr, *ssa.IndexAddr:
					v := i.(ssa.Value)
					for _, ref := range *v.Referrers() {
						switch r2 := ref.(type) {
						case *ssa.Store:
							if r2.Addr == v {
								out[g] = "field/element stored in " + shortName(f)
							}
						case ssa.CallInstruction:
							out[g] = "part of it handed to a call in " + shortName(f)
						}
					}
				case ssa.CallInstruction:
					out[g] = "its address is handed to " + calleeName(x.Common()) + " in " + shortName(f)
				}
			}
		})
	}
	// element stores through a global that is never allocated cannot happen
	for g, why := range out {
		if strings.HasPrefix(why, "element stored") && !p.globalEverAllocated(g) {
			delete(out, g)
		}
	}
	p.mglob = out
	return out
}

// globalEverAllocated: some store anywhere (including initialisers) assigns a non-nil value to g.
func (p *Prog) globalEverAllocated(g *ssa.Global) bool {
	found := false
	for _, f := range p.Funcs {
		eachInstr(f, func(i ssa.Instruction) {
			if st, ok := i.(*ssa.Store); ok && st.Addr == ssa.Value(g) && !isNilConst(st.Val) {
				found = true
			}
		})
	}
	return found
}

// checkNoMutableState: the functions reachable from roots inside the accepted packages consult no mutable module-level
// state (tables filled by initialisers are fine): their result is a function of their arguments, so it cannot depend on
// what was asked before (a memo keyed too coarsely, a shared scratch buffer, a "last hit").
func checkNoMutableState(p *Prog, r *Report, rule, what string, roots []*ssa.Function, within func(*ssa.Function) bool, consequence string) {
	mg := p.mutableGlobals()
	reach := p.modReach(roots...)
	var fns []*ssa.Function
	for f := range reach {
		if within(f) {
			fns = append(fns, f)
		}
	}
	sort.Slice(fns, func(i, j int) bool { return fns[i].String() < fns[j].String() })
	seen := map[string]bool{}
	n := 0
	for _, f := range fns {
		n++
		eachInstr(f, func(i ssa.Instruction) {
			for _, op := range i.Operands(nil) {
				if op == nil || *op == nil {
					continue
				}
				g, ok := (*op).(*ssa.Global)
				if !ok {
					continue
				}
				why, mut := mg[g]
				if !mut || relPkgOfGlobal(g) == "internal/logger" {
					continue
				}
				if isPureMemo(p, g) {
					continue // a memo of a function of its key alone: what it answers does not depend on what was asked before
				}
				key := f.String() + "|" + g.Name()
				if seen[key] {
					continue
				}
				seen[key] = true
				r.Bad(rule, what+" "+shortName(f)+" uses mutable package state "+g.Name(), p.Pos(posOf(i)), what+" consults the package-level variable "+g.Name()+", which is modified at run time ("+why+"): "+consequence)
			}
		})
	}
	if n == 0 {
		r.Und(rule, what+" functions", "", "no function found on this path")
		return
	}
	r.OK(rule, what+" is a function of its arguments", "", fmt.Sprintf("%d functions consult no run-time-modified package state", n))
}

func relPkgOfGlobal(g *ssa.Global) string {
	if g.Pkg == nil {
		return ""
	}
	return strings.TrimPrefix(strings.TrimPrefix(g.Pkg.Pkg.Path(), Mod), "/")
}

func lastInstr(b *ssa.BasicBlock) ssa.Instruction { return b.Instrs[len(b.Instrs)-1] }


// isPureMemo: g is a package-level sync.Map used only inside one single-parameter function K ↦ …, always under the key K
// itself, and filled only with the result of a module function applied to K alone: `if v, ok := m.Load(k); ok { return v }
// v, _ := m.LoadOrStore(k, compute(k))`. Its content is a function of the key.
func isPureMemo(p *Prog, g *ssa.Global) bool {
	if !strings.HasSuffix(g.Type().String(), "sync.Map") {
		return false
	}
	var compute *ssa.Function
	ok := true
	n := 0
	unwrap := func(v ssa.Value) ssa.Value {
		switch x := v.(type) {
		case *ssa.MakeInterface:
			return x.X
		case *ssa.ChangeInterface:
			return x.X
		}
		return v
	}
	for _, f := range p.Funcs {
		if f.Blocks == nil {
			continue
		}
		eachInstr(f, func(i ssa.Instruction) {
			uses := false
			for _, op := range i.Operands(nil) {
				if op != nil && *op == ssa.Value(g) {
					uses = true
				}
			}
			if !uses {
				return
			}
			n++
			ci, isCall := i.(ssa.CallInstruction)
			if !isCall || len(ci.Common().Args) < 2 || ci.Common().Args[0] != ssa.Value(g) {
				ok = false
				return
			}
			key := resolveLocal(unwrap(ci.Common().Args[1]))
			switch calleeName(ci.Common()) {
			case "(*sync.Map).Load":
			case "(*sync.Map).LoadOrStore", "(*sync.Map).Store":
				// the value filed under a key is one fixed module function applied to that key alone
				cl, isC := resolveLocal(unwrap(ci.Common().Args[2])).(*ssa.Call)
				if !isC {
					ok = false
					return
				}
				cal := staticCallee(cl.Common())
				if cal == nil || !strings.HasPrefix(pkgPathOf(cal), Mod) || len(cl.Call.Args) != 1 || resolveLocal(cl.Call.Args[0]) != key {
					ok = false
					return
				}
				if compute != nil && compute != cal {
					ok = false
				}
				compute = cal
			default:
				ok = false
			}
		})
	}
	return ok && n > 0
}
