package main

import (
	"fmt"
	"go/token"
	"go/types"
	"os"
	"strings"

	"golang.org/x/tools/go/ssa"
)

func init() { register("C05", c05) }

// seqInfo describes the sequenced-result mechanism found by role.
type seqInfo struct {
	result  []*ssa.Function // Result methods that index a result list
	owner   *types.Named    // struct owning list + cursor
	resFld  *types.Var
	curFld  *types.Var
	curGlob *ssa.Global // set when the cursor is (wrongly) package level
}

// matcherIface returns the exported Matcher interface of the root package.
func matcherIface(p *Prog) *types.Interface {
	n := p.NamedType("", "Matcher")
	if n == nil {
		return nil
	}
	i, _ := n.Underlying().(*types.Interface)
	return i
}

// matcherImpls lists named types of the root package implementing Matcher.
func matcherImpls(p *Prog) []*types.Named {
	mi := matcherIface(p)
	if mi == nil {
		return nil
	}
	var out []*types.Named
	for _, n := range namedTypesOf(p.Pkg("").Types) {
		if _, isI := n.Underlying().(*types.Interface); isI {
			continue
		}
		if implementsIface(n, mi) {
			out = append(out, n)
		}
	}
	return out
}

// methodOf resolves method name on *T (following embedding) to its SSA function.
func methodOf(p *Prog, n *types.Named, name string) *ssa.Function {
	ms := types.NewMethodSet(types.NewPointer(n))
	for i := 0; i < ms.Len(); i++ {
		if ms.At(i).Obj().Name() == name {
			return p.SSA.FuncValue(ms.At(i).Obj().(*types.Func))
		}
	}
	return nil
}

func findSeq(p *Prog) (*seqInfo, string) {
	si := &seqInfo{}
	seen := map[*ssa.Function]bool{}
	for _, n := range matcherImpls(p) {
		f := methodOf(p, n, "Result")
		if f == nil || seen[f] || f.Blocks == nil {
			continue
		}
		seen[f] = true
		hasIdx := false
		eachInstr(f, func(i ssa.Instruction) {
			if _, ok := i.(*ssa.IndexAddr); ok {
				hasIdx = true
			}
		})
		if hasIdx {
			si.result = append(si.result, f)
		}
	}
	if len(si.result) == 0 {
		return nil, "no Matcher.Result implementation indexes a result list"
	}
	for _, f := range si.result {
		recv := f.Params[0]
		eachInstr(f, func(i ssa.Instruction) {
			switch x := i.(type) {
			case *ssa.IndexAddr:
				if b, fv, ok := fieldRef(x.X); ok && b == recv && fv != nil {
					if _, isSl := fv.Type().Underlying().(*types.Slice); isSl {
						si.resFld = fv
					}
				}
			case *ssa.FieldAddr:
				if x.X == recv {
					fv := fieldVar(x.X.Type(), x.Field)
					if fv != nil && isIntegerType(fv.Type()) {
						si.curFld = fv
					}
				}
			case ssa.CallInstruction:
				if strings.HasPrefix(calleeName(x.Common()), "sync/atomic.") && len(x.Common().Args) > 0 {
					if g, ok := x.Common().Args[0].(*ssa.Global); ok {
						si.curGlob = g
					}
				}
			}
		})
		if pt, ok := recv.Type().Underlying().(*types.Pointer); ok {
			si.owner, _ = pt.Elem().(*types.Named)
		}
	}
	if si.resFld == nil {
		return nil, "result list field not found in Result()"
	}
	return si, ""
}

func c05(c *Ctx) {
	p, r := c.K1(), c.R
	if !c.importing {
		// R5: what a call returns is computed by the selection function on every call (C04.R2): no remembered result
		importSibling(c, "C04", "C05.R5", func(rule string) bool { return rule == "C04.R2" || rule == "C04.R9" })
		// R7: a sequence given after an Apply starts a fresh stub that is installed (C12.R2): otherwise the values are
		// appended to a dead sequence and the callback keeps answering
		importSibling(c, "C12", "C05.R7", func(rule string) bool { return rule == "C12.R2" })
	}
	r.Expl = "Structural clauses behind 'result sequences are served in order and stick at the last element': the cursor is a per-matcher struct field advanced only by an atomic +1 (an add, or a compare-and-swap that replaces the atomically loaded value by that value plus 1 and counts only where it succeeded); the mocker-level Return/Returns hand the caller's values to the When on every way to a return; every index into the result list is proven in range by difference-constraint reasoning over the dominating branch conditions; the advancing path serves the pre-increment position, non-advancing paths serve the last element; Return/AndReturn feed the open condition's or the default's list first-write-wins. Schedules themselves are not explored."
	r.RuleText = "one obligation per (rule, function/field/call site); distinct = distinct rule×construct pairs; all are non-trivial (each names a concrete SSA construct of /repo)"
	r.Floor("C05.R2", 2)
	r.Floor("C05.R3", 2)
	r.Floor("C05.R4", 2)

	si, why := findSeq(p)
	if si == nil {
		r.Und("C05.R1", "Matcher.Result", "", why)
		return
	}
	all := p.Funcs
	// ---- R1 cursor is per matcher
	if si.curGlob != nil {
		r.Bad("C05.R1", "cursor", p.Pos(si.curGlob.Pos()), "the sequence cursor is the package-level variable "+si.curGlob.Name()+": all matchers would share one position")
	} else if si.curFld == nil {
		r.Und("C05.R1", "cursor", p.Pos(si.result[0].Pos()), "no integer cursor field of the receiver is referenced in Result()")
		return
	} else {
		r.OK("C05.R1", "cursor="+si.owner.Obj().Name()+"."+si.curFld.Name(), p.Pos(si.curFld.Pos()), "cursor is a field of the matcher base struct")
	}
	// constructors hand out fresh bases: every store into a field of type *owner takes a fresh allocation
	ownerPtr := types.NewPointer(si.owner)
	fresh := func(v ssa.Value) (bool, string) {
		for _, a := range origins(v) {
			switch a.Kind {
			case "alloc":
				continue
			case "const":
				continue // nil
			case "call":
				cs, _ := a.V.(*ssa.Call)
				cal := (*ssa.Function)(nil)
				if cs != nil {
					cal = staticCallee(cs.Common())
				}
				if cal == nil || cal.Blocks == nil {
					return false, "value comes from " + a.Name
				}
				okAll := true
				for _, ret := range returnsOf(cal) {
					for _, res := range ret.Results {
						if types.Identical(res.Type(), ownerPtr) {
							for _, a2 := range origins(res) {
								if a2.Kind != "alloc" && a2.Kind != "const" {
									okAll = false
								}
							}
						}
					}
				}
				if !okAll {
					return false, "constructor " + shortName(cal) + " does not return a fresh allocation"
				}
			default:
				return false, "value has origin " + a.String()
			}
		}
		return true, ""
	}
	for _, fs := range storesToField(all, func(fv *types.Var, _ ssa.Value) bool { return types.Identical(fv.Type(), ownerPtr) }) {
		ok, why := fresh(fs.Store.Val)
		fv := fieldVar(fs.Addr.X.Type(), fs.Addr.Field)
		r.Check(ok, "C05.R1", "base of "+baseTypeName(fs.Addr.X)+"."+fv.Name()+" in "+shortName(fs.Fn), p.Pos(posOf(fs.Store)),
			"embedded matcher base is a fresh allocation", "matcher base shared between matchers (cursor and list would be shared): "+why)
	}

	// ---- R2 monotone atomic writes
	isCur := func(v ssa.Value) bool {
		fa, ok := v.(*ssa.FieldAddr)
		return ok && fieldVar(fa.X.Type(), fa.Field) == si.curFld
	}
	nAdd := 0
	var addSites []ssa.Instruction
	casOld := map[ssa.Instruction]ssa.Value{} // compare-and-swap advance → the loaded value it replaces
	for _, fn := range all {
		eachInstr(fn, func(i ssa.Instruction) {
			fa, ok := i.(*ssa.FieldAddr)
			if !ok || !isCur(fa) {
				return
			}
			for _, ref := range *fa.Referrers() {
				name := shortName(fn)
				pos := p.Pos(posOf(ref))
				switch u := ref.(type) {
				case *ssa.Store:
					if u.Addr != fa {
						r.Bad("C05.R2", "cursor address escapes in "+name, pos, "address of the cursor is stored")
						continue
					}
					_, inCtor := fa.X.(*ssa.Alloc)
					cv, isC := constInt(u.Val)
					r.Check(inCtor && isC && cv == 0, "C05.R2", "cursor store in "+name, pos, "constructor initialises the cursor to 0",
						"plain (non-atomic) store to the sequence cursor outside a constructor literal: positions can go backwards / race")
				case *ssa.UnOp:
					inRes := false
					for _, rf := range si.result {
						if rf == fn {
							inRes = true
						}
					}
					r.Check(inRes, "C05.R2", "plain cursor load in "+name, pos, "plain load confined to Result() (checked by R3 fast path)", "cursor read without atomic outside Result()")
				case ssa.CallInstruction:
					cn := calleeName(u.Common())
					switch {
					case strings.HasPrefix(cn, "sync/atomic.Load"):
						r.OK("C05.R2", "atomic load in "+name, pos, cn)
					case strings.HasPrefix(cn, "sync/atomic.Add"):
						d, ok := constInt(u.Common().Args[1])
						if r.Check(ok && d == 1, "C05.R2", "atomic add in "+name, pos, "cursor advanced by atomic +1", "the cursor, which is used as the position served, is advanced by something other than the constant 1: positions go backwards or are skipped") {
							nAdd++
							addSites = append(addSites, ref)
						}
					case strings.HasPrefix(cn, "sync/atomic.CompareAndSwap") && len(u.Common().Args) == 3:
						// a compare-and-swap advances the cursor when it replaces the value this call loaded atomically by that
						// value plus a positive constant (the position is taken only if the swap succeeds: R3)
						okCas := false
						oldV := resolveLocal(u.Common().Args[1])
						if ld, isLd := oldV.(*ssa.Call); isLd && strings.HasPrefix(calleeName(ld.Common()), "sync/atomic.Load") && isCur(ld.Call.Args[0]) {
							if bo, isB := resolveLocal(u.Common().Args[2]).(*ssa.BinOp); isB && bo.Op == token.ADD {
								x, y := resolveLocal(bo.X), resolveLocal(bo.Y)
								if _, isC := x.(*ssa.Const); isC {
									x, y = y, x
								}
								if d, isC := constInt(y); isC && d == 1 && x == oldV {
									okCas = true
								}
							}
						}
						if r.Check(okCas, "C05.R2", "atomic compare-and-swap in "+name, pos, "cursor advanced from the loaded value to that value +1", "the compare-and-swap does not replace the atomically loaded cursor value by that value plus 1: positions can go backwards or be skipped") {
							nAdd++
							addSites = append(addSites, ref)
							casOld[ref] = oldV
						}
					default:
						r.Bad("C05.R2", "cursor op "+cn+" in "+name, pos, "cursor modified by "+cn+": only an atomic advance by a positive constant keeps positions monotone")
					}
				default:
					r.Bad("C05.R2", "cursor use in "+name, pos, fmt.Sprintf("unexpected use of the cursor address: %T", ref))
				}
			}
		})
	}
	r.Check(nAdd >= 1, "C05.R2", "cursor advances", p.Pos(si.result[0].Pos()), "an atomic increment exists", "no atomic increment of the cursor exists: the sequence never advances (or advances non-atomically)")

	// ---- list only grows: every store to the results field is append(load(same), …) or a constructor store
	for _, fs := range storesToField(all, func(fv *types.Var, _ ssa.Value) bool { return fv == si.resFld }) {
		_, inCtor := fs.Addr.X.(*ssa.Alloc)
		okGrow := inCtor
		if call, ok := fs.Store.Val.(*ssa.Call); ok && !okGrow {
			if bi, ok := call.Call.Value.(*ssa.Builtin); ok && bi.Name() == "append" {
				if b, fv, ok := fieldRef(call.Call.Args[0]); ok && fv == si.resFld && b == fs.Addr.X {
					okGrow = true
				}
			}
		}
		r.Check(okGrow, "C05.R3", "list store in "+shortName(fs.Fn), p.Pos(posOf(fs.Store)), "result list only grows (append of itself)",
			"result list is replaced/re-sliced rather than appended to: served positions may become invalid or restart")
	}

	// ---- R3 indices in range, and which element each path serves
	for _, f := range si.result {
		k := NewKeyer(f)
		k.FreshLoad = func(fv *types.Var) bool { return fv == si.curFld }
		recv := f.Params[0]
		nKey := func(base ssa.Value) (Term, bool) {
			if b, fv, ok := fieldRef(base); ok && b == recv && fv == si.resFld {
				return Term{"len(" + k.Key(base) + ")", 0}, true
			}
			return Term{}, false
		}
		adds := []ssa.Instruction{}
		for _, a := range addSites {
			if a.Parent() == f {
				adds = append(adds, a)
			}
		}
		// I1: every increment is control dependent on N>=2 and cur<N, and nothing more (liveness of the sequence)
		var nTerm Term
		haveN := false
		eachInstr(f, func(i ssa.Instruction) {
			if ia, ok := i.(*ssa.IndexAddr); ok && !haveN {
				nTerm, haveN = nKey(ia.X)
			}
		})
		if !haveN {
			r.Und("C05.R3", "list length in "+shortName(f), p.Pos(f.Pos()), "cannot name the list length")
			continue
		}
		atomicLoads := map[string]bool{}
		eachInstr(f, func(i ssa.Instruction) {
			if cl, ok := i.(*ssa.Call); ok && strings.HasPrefix(calleeName(cl.Common()), "sync/atomic.Load") && isCur(cl.Call.Args[0]) {
				atomicLoads[k.Key(cl)] = true
			}
		})
		axioms := func(m *DBM) {
			m.AddLE(Term{"", 1}, nTerm) // N >= 1: matchers are consulted only after a result was added (R4 protocol)
			for v := range atomicLoads {
				m.AddLE(Term{"", 0}, Term{v, 0}) // cursor starts at 0 and only grows (R2)
			}
		}
		for _, a := range adds {
			m := NewDBM()
			axioms(m)
			guardsToDBM(m, k, a.Block())
			safe := m.EntailsLE(Term{"", 2}, nTerm)
			r.Check(safe, "C05.R3", "increment guarded by len>1 in "+shortName(f), p.Pos(posOf(a)), "increment only when the list has >1 element (fast path keeps cursor 0)",
				"cursor may advance while the list has ≤1 element: the unguarded fast path list[cursor] then reads out of range")
			// liveness: guards at the increment must follow from N>=2 ∧ 0<=c<=N-1 for the atomic value compared
			asm := NewDBM()
			axioms(asm)
			asm.AddLE(Term{"", 2}, nTerm)
			for v := range atomicLoads {
				asm.AddLE(Term{v, 1}, nTerm)
			}
			live := true
			for _, g := range guardsAt(a.Block()) {
				bo, ok := g.Cond.(*ssa.BinOp)
				if !ok || !isIntegerType(bo.X.Type()) {
					live = false
					continue
				}
				if !asm.EntailsCmp(k.TermOf(bo.X), bo.Op, k.TermOf(bo.Y), g.Pol) {
					live = false
				}
			}
			r.Check(live, "C05.R3", "increment reached whenever cursor<len in "+shortName(f), p.Pos(posOf(a)), "advance happens for every position before the last",
				"the increment is guarded by more than (len>1 ∧ cursor<len): some configured results are never served")
		}
		for _, ret := range returnsOf(f) {
			if len(ret.Results) != 1 {
				continue
			}
			ld, ok := ret.Results[0].(*ssa.UnOp)
			var ia *ssa.IndexAddr
			if ok {
				ia, _ = ld.X.(*ssa.IndexAddr)
			}
			cons := fmt.Sprintf("return#%s in %s", p.Pos(posOf(ret)), shortName(f))
			cons = "return of list element in " + shortName(f) + " (" + blockKind(ret.Block(), adds) + ")"
			if ia == nil {
				r.Und("C05.R3", cons, p.Pos(posOf(ret)), "returned value is not an element of the result list")
				continue
			}
			n, ok := nKey(ia.X)
			if !ok {
				r.Bad("C05.R3", cons, p.Pos(posOf(ret)), "Result() returns an element of something other than the receiver's result list")
				continue
			}
			// the index may be one value per path merged in a phi (single exit): decide each incoming edge on its own
			type icase struct {
				idx   ssa.Value
				gs    []Guard
				at    *ssa.BasicBlock // block whose end the case leaves from (for "an add was passed")
				label string
			}
			cases := []icase{{ia.Index, guardsAt(ret.Block()), ret.Block(), ""}}
			if ph, isPhi := resolveLocal(ia.Index).(*ssa.Phi); isPhi && len(ph.Edges) >= 2 && len(ph.Edges) <= 6 && (ph.Block() == ret.Block() || ph.Block().Dominates(ret.Block())) {
				cases = nil
				for ei, e := range ph.Edges {
					pred := ph.Block().Preds[ei]
					gs := append(append([]Guard{}, knownAtEdge(pred, ph.Block())...), guardsAt(ret.Block())...)
					cases = append(cases, icase{e, gs, pred, fmt.Sprintf(" way#%d", ei)})
				}
			}
			baseCons := cons
			for _, cs := range cases {
				cons := baseCons + cs.label
				m := NewDBM()
				axioms(m)
				guardListToDBM(m, k, cs.gs)
				idx := k.TermOf(cs.idx)
				// plain cursor load on the fast path: cursor==0 there by I1 (checked above)
				ul, plain := peel(cs.idx).(*ssa.UnOp)
				if (plain && ul.Op == token.MUL && isCur(ul.X)) || (atomicLoads[idx.Var] && idx.K == 0) {
					if m.EntailsLE(n, Term{"", 1}) {
						m.AddLE(idx, Term{"", 0})
						m.AddLE(Term{"", 0}, idx)
					}
				}
				inRange := m.EntailsLE(Term{"", 0}, idx) && m.EntailsLE(idx, Term{n.Var, n.K - 1})
				if !r.Check(inRange, "C05.R3", cons, p.Pos(posOf(ret)), "index "+idx.String()+" proven within [0,len-1]",
					"index "+idx.String()+" into the result list is not proven within [0,len-1] by the dominating conditions: a call can panic or read a wrong element") {
					continue
				}
				advancing := false
				var domAdd ssa.Instruction
				for _, a := range adds {
					if (cs.label == "" && domInstr(a, ret)) || (cs.label != "" && (a.Block() == cs.at || a.Block().Dominates(cs.at))) {
						if _, isCas := casOld[a]; isCas {
							// a compare-and-swap has advanced only where it is known to have succeeded
							won := false
							for _, g := range cs.gs {
								if g.Cond == a.(ssa.Value) && g.Pol {
									won = true
								}
							}
							if !won {
								continue
							}
						}
						advancing, domAdd = true, a
					}
				}
				if advancing {
					// must serve the pre-increment position: an atomic load that precedes the add, or add-result-1
					okPos := false
					if ov, isCas := casOld[domAdd]; isCas {
						okPos = idx.Var == k.Key(ov) && idx.K == 0
					} else if atomicLoads[idx.Var] && idx.K == 0 {
						okPos = true
					}
					if cv, ok := domAdd.(ssa.Value); ok && idx.Var == k.Key(cv) && idx.K == -1 {
						okPos = true
					}
					r.Check(okPos, "C05.R3", cons+" serves pre-increment position", p.Pos(posOf(ret)), "k-th call serves position k",
						"the advancing path does not serve the position read before the increment")
				} else {
					last := m.EntailsLE(Term{n.Var, n.K - 1}, idx)
					r.Check(last, "C05.R3", cons+" serves last element", p.Pos(posOf(ret)), "non-advancing path serves the last element",
						"a path that does not advance the cursor serves an element other than the last one: the sequence does not stick at its last element")
				}
			}
		}
	}

	// ---- R6 the mocker-level Return/Returns hand the caller's values to the When
	r.Floor("C05.R6", 4)
	checkValuesForwarded(p, r, "C05.R6", map[string]bool{"Return": true, "Returns": true}, "results")
	checkSequenceNotDropped(p, r, "C05.R6")
	checkFirstValueRegisters(p, r, "C05.R6")

	// ---- R4 feeding the right list
	when := p.NamedType("", "When")
	mi := matcherIface(p)
	if when == nil || mi == nil {
		r.Und("C05.R4", "When", "", "type When / Matcher not found")
		return
	}
	var defFld, curMFld, matchesFld *types.Var
	st := when.Underlying().(*types.Struct)
	for i := 0; i < st.NumFields(); i++ {
		f := st.Field(i)
		if sl, ok := f.Type().Underlying().(*types.Slice); ok && types.Identical(sl.Elem(), p.NamedType("", "Matcher")) {
			matchesFld = f
		}
	}
	retFn := p.Meth("", "When", "Return")
	andFn := p.Meth("", "When", "AndReturn")
	if retFn == nil || andFn == nil || matchesFld == nil {
		r.Und("C05.R4", "When.Return/AndReturn", "", "exported methods Return/AndReturn or the condition list not found")
		return
	}
	// roles: curMatch = the Matcher field appended to the condition list in Return; default = the other Matcher field stored in Return
	eachInstr(retFn, func(i ssa.Instruction) {
		if s, ok := i.(*ssa.Store); ok {
			if fa, ok := s.Addr.(*ssa.FieldAddr); ok {
				fv := fieldVar(fa.X.Type(), fa.Field)
				if fv != nil && fv != matchesFld && types.Identical(fv.Type(), p.NamedType("", "Matcher")) {
					defFld = fv
				}
			}
		}
	})
	for i := 0; i < st.NumFields(); i++ {
		f := st.Field(i)
		if f != defFld && types.Identical(f.Type(), p.NamedType("", "Matcher")) {
			curMFld = f
		}
	}
	if defFld == nil || curMFld == nil {
		r.Und("C05.R4", "When fields", p.Pos(retFn.Pos()), "cannot identify the default/current matcher fields by role")
		return
	}
	addResultOn := func(fn *ssa.Function, fld *types.Var) []ssa.Instruction {
		var out []ssa.Instruction
		eachInstr(fn, func(i ssa.Instruction) {
			c := callCommon(i)
			if c != nil && c.IsInvoke() && c.Method.Name() == "AddResult" {
				if _, fv, ok := fieldRef(c.Value); ok && fv == fld {
					out = append(out, i)
				}
			}
		})
		return out
	}
	nilGuard := func(b *ssa.BasicBlock, fld *types.Var) (isNil, known bool) {
		for _, g := range guardsAt(b) {
			bo, ok := g.Cond.(*ssa.BinOp)
			if !ok || (bo.Op != token.EQL && bo.Op != token.NEQ) {
				continue
			}
			var other ssa.Value
			if isNilConst(bo.Y) {
				other = bo.X
			} else if isNilConst(bo.X) {
				other = bo.Y
			} else {
				continue
			}
			if _, fv, ok := fieldRef(other); ok && fv == fld {
				eq := bo.Op == token.EQL
				return eq == g.Pol, true
			}
		}
		return false, false
	}
	// Return: stores to default only when default==nil; AddResult(default) when non-nil; AddResult(cur)+append when cur!=nil
	nDefStore := 0
	eachInstr(retFn, func(i ssa.Instruction) {
		if s, ok := i.(*ssa.Store); ok {
			if fa, ok := s.Addr.(*ssa.FieldAddr); ok && fieldVar(fa.X.Type(), fa.Field) == defFld {
				nDefStore++
				isNil, known := nilGuard(s.Block(), defFld)
				r.Check(known && isNil, "C05.R4", "store to default list in When.Return", p.Pos(posOf(s)), "default matcher created only when none exists",
					"Return replaces an existing default matcher instead of appending to it: an earlier Return/AndReturn sequence is lost")
			}
		}
	})
	ad := addResultOn(retFn, defFld)
	okAd := false
	for _, a := range ad {
		if isNil, known := nilGuard(a.Block(), defFld); known && !isNil {
			if cn, kn := nilGuard(a.Block(), curMFld); kn && cn {
				okAd = true
			}
		}
	}
	r.Check(okAd, "C05.R4", "When.Return appends to existing default", p.Pos(retFn.Pos()), "AddResult on the default when no condition is open and a default exists",
		"When.Return does not add the value to the existing default's list on the (no open condition, default exists) path")
	ac := addResultOn(retFn, curMFld)
	okAc := false
	for _, a := range ac {
		if isNil, known := nilGuard(a.Block(), curMFld); known && !isNil {
			okAc = true
		}
	}
	r.Check(okAc, "C05.R4", "When.Return appends to open condition", p.Pos(retFn.Pos()), "AddResult on the open condition",
		"When.Return does not add the value to the open condition's list")
	// AndReturn: must add to the open condition without touching the default on that path
	aac := addResultOn(andFn, curMFld)
	okAnd := false
	for _, a := range aac {
		if isNil, known := nilGuard(a.Block(), curMFld); known && !isNil {
			okAnd = true
		}
	}
	r.Check(okAnd, "C05.R4", "When.AndReturn appends to open condition", p.Pos(andFn.Pos()), "AddResult on the open condition",
		"AndReturn does not add the value to the open condition's list")
	for _, a := range addResultOn(andFn, defFld) {
		isNil, known := nilGuard(a.Block(), curMFld)
		r.Check(known && isNil, "C05.R4", "When.AndReturn default only without open condition", p.Pos(posOf(a)), "", "AndReturn feeds the default list while a condition is open")
	}
	// AddResult implementations append exactly one converted result to their own list
	for _, n := range matcherImpls(p) {
		f := methodOf(p, n, "AddResult")
		if f == nil || f.Blocks == nil {
			continue
		}
		nApp := 0
		eachInstr(f, func(i ssa.Instruction) {
			if s, ok := i.(*ssa.Store); ok {
				if fa, ok := s.Addr.(*ssa.FieldAddr); ok && fieldVar(fa.X.Type(), fa.Field) == si.resFld {
					nApp++
				}
			}
		})
		r.Check(nApp == 1, "C05.R4", "AddResult appends once in "+shortName(f), p.Pos(f.Pos()), "one append per AddResult", fmt.Sprintf("AddResult stores to the result list %d times (expected exactly one append)", nApp))
	}
	r.Stat("result_methods", len(si.result))
	r.Stat("atomic_add_sites", nAdd)
}

func blockKind(b *ssa.BasicBlock, adds []ssa.Instruction) string {
	for _, a := range adds {
		if a.Block() == b || a.Block().Dominates(b) {
			return "advancing path"
		}
	}
	var conds []string
	for _, g := range guardsAt(b) {
		s := g.Cond.String()
		if bo, ok := g.Cond.(*ssa.BinOp); ok {
			s = bo.Op.String()
		}
		if !g.Pol {
			s = "!" + s
		}
		conds = append(conds, s)
	}
	return "path under " + strings.Join(conds, "∧")
}

// checkValuesForwarded: a mocker's exported configuration method that takes the caller's values as its one variadic
// []interface{} parameter and answers with the *When hands those values on — on every way to a return it has passed a call
// into the When machinery (a method of *When, or a function that builds a *When) with an argument derived from that
// parameter. names selects the methods; methods of When itself are the machinery and are not obligations.
func checkValuesForwarded(p *Prog, r *Report, rule string, names map[string]bool, what string) int {
	when := p.NamedType("", "When")
	if when == nil {
		r.Und(rule, "When", "", "type When not found")
		return 0
	}
	isWhenPtr := func(t types.Type) bool {
		pt, ok := t.(*types.Pointer)
		return ok && pt.Elem() == types.Type(when)
	}
	n := 0
	for _, f := range p.FuncsIn("") {
		if f.Object() == nil || !f.Object().Exported() || f.Signature.Recv() == nil || !names[f.Name()] || f.Blocks == nil {
			continue
		}
		if isWhenPtr(f.Signature.Recv().Type()) || !f.Signature.Variadic() || f.Signature.Params().Len() != 1 || f.Signature.Results().Len() != 1 || !isWhenPtr(f.Signature.Results().At(0).Type()) {
			continue
		}
		vp := f.Params[len(f.Params)-1]
		isVP := func(v ssa.Value) bool { return v == ssa.Value(vp) }
		isFeed := func(j ssa.Instruction) bool {
			ci, ok := j.(ssa.CallInstruction)
			if !ok {
				return false
			}
			cal := staticCallee(ci.Common())
			if cal == nil || relPkg(cal) != "" {
				return false
			}
			machinery := cal.Signature.Recv() != nil && isWhenPtr(cal.Signature.Recv().Type())
			for k := 0; k < cal.Signature.Results().Len(); k++ {
				if isWhenPtr(cal.Signature.Results().At(k).Type()) {
					machinery = true
				}
			}
			if !machinery {
				return false
			}
			for _, a := range ci.Common().Args {
				if dependsOn(a, isVP) {
					return true
				}
			}
			return false
		}
		n++
		okAll := true
		at := f.Pos()
		for _, ret := range returnsOf(f) {
			if !passedBefore(f, ret, isFeed, nil) {
				okAll = false
				at = posOf(ret)
			}
		}
		r.Check(okAll, rule, what+" of "+shortName(f)+" reach the When", p.Pos(at), "every return has passed a call into the When machinery carrying the caller's values",
			"the method can return without handing the caller's "+what+" to the When: the stub is created (and the function patched) but answers with something other than what was configured")
	}
	return n
}

// checkSequenceNotDropped: C05.R6 clause — a method of When that spreads its variadic values over Return/AndReturn gives up
// without feeding anything only for the empty list: a return that has not passed a feeding call is entailed len(values) <= 0.
func checkSequenceNotDropped(p *Prog, r *Report, rule string) {
	when := p.NamedType("", "When")
	if when == nil {
		return
	}
	for _, f := range p.FuncsIn("") {
		if f.Blocks == nil || f.Signature.Recv() == nil || !f.Signature.Variadic() || f.Object() == nil || !f.Object().Exported() {
			continue
		}
		if pt, ok := f.Signature.Recv().Type().(*types.Pointer); !ok || pt.Elem() != types.Type(when) {
			continue
		}
		vp := f.Params[len(f.Params)-1]
		isVP := func(v ssa.Value) bool { return v == ssa.Value(vp) }
		// feeding calls: calls of other When methods (or AddResult) with values taken out of the parameter
		isFeed := func(j ssa.Instruction) bool {
			ci, ok := j.(ssa.CallInstruction)
			if !ok {
				return false
			}
			cal := staticCallee(ci.Common())
			if cal == nil || cal == f || relPkg(cal) != "" || cal.Signature.Recv() == nil {
				return false
			}
			for _, a := range ci.Common().Args[1:] {
				if dependsOn(a, isVP) {
					return true
				}
			}
			return false
		}
		var derivesFromVP func(v ssa.Value, depth int) bool
		derivesFromVP = func(v ssa.Value, depth int) bool {
			v = resolveLocal(v)
			if v == ssa.Value(vp) {
				return true
			}
			if depth > 4 {
				return false
			}
			switch x := v.(type) {
			case *ssa.Phi:
				for _, e := range x.Edges {
					if e != v && derivesFromVP(e, depth+1) {
						return true
					}
				}
			case *ssa.Slice:
				return derivesFromVP(x.X, depth+1)
			}
			return false
		}
		spreads := false
		eachInstr(f, func(i ssa.Instruction) {
			if isFeed(i) {
				// only methods that take the list apart element by element (index / range over it)
				eachInstr(f, func(j ssa.Instruction) {
					if ia, ok := j.(*ssa.IndexAddr); ok && derivesFromVP(ia.X, 0) {
						spreads = true
					}
				})
			}
		})
		if !spreads {
			continue
		}
		k := NewKeyer(f)
		okAll := true
		for _, ret := range returnsOf(f) {
			if passedBefore(f, ret, isFeed, nil) {
				continue
			}
			// a way out without feeding: loop exits after the last element are fine (the loop body fed), an early return is
			// fine only for the empty list
			m := NewDBM()
			guardsToDBM(m, k, ret.Block())
			empty := m.EntailsLE(Term{"len(" + k.Key(vp) + ")", 0}, Term{"", 0})
			viaLoop := false
			for _, b := range f.Blocks {
				for _, pr := range b.Preds {
					if b.Dominates(pr) && b.Dominates(ret.Block()) && b != ret.Block() {
						viaLoop = true
					}
				}
			}
			if !empty && !viaLoop {
				okAll = false
			}
		}
		// the list that is spread is the caller's list: it is not cut short first (trailing values that "repeat" are values)
		cut := ""
		eachInstr(f, func(i ssa.Instruction) {
			sl, ok := i.(*ssa.Slice)
			if !ok || sl.High == nil {
				return
			}
			if derivesFromVP(sl.X, 0) {
				cut = p.Pos(posOf(sl))
			}
		})
		r.Check(cut == "", rule, "values of "+shortName(f)+" are spread as given", p.Pos(f.Pos()), "the variadic list is not truncated before it is spread",
			"the list of values is cut short ("+cut+") before it is spread over the single-value methods: values the caller gave (equal-looking trailing ones included — distinct pointers, a sequence extended later) are never recorded")
		r.Check(okAll, rule, "values of "+shortName(f)+" are dropped only when there are none", p.Pos(f.Pos()), "an early return without feeding is entailed len(values) == 0",
			"the method gives up without recording anything for a non-empty list (e.g. for a single value): Returns(v) configures nothing and the call panics with 'no suitable condition' or falls through to another stub")
	}
}


// whenRegisters: the When method m, called while a pending condition exists (the condition field is non-nil), appends that
// condition to the condition list before it returns: for every return that is not on the "no pending condition" side, a
// store list = append(list, <pending condition field>) has been passed.
func whenRegisters(m *ssa.Function) (registers, hasPending bool) {
	if m == nil || m.Blocks == nil {
		return false, false
	}
	var stores []ssa.Instruction
	var pendingFld *types.Var
	eachInstr(m, func(i ssa.Instruction) {
		st, ok := i.(*ssa.Store)
		if !ok {
			return
		}
		cl, ok := st.Val.(*ssa.Call)
		if !ok {
			return
		}
		bi, ok := cl.Call.Value.(*ssa.Builtin)
		if !ok || bi.Name() != "append" || len(cl.Call.Args) != 2 {
			return
		}
		if _, fv, ok := fieldRef(st.Addr); !ok || fv == nil {
			return
		}
		// the appended element(s): append(list, x) passes x through a fresh one-element array
		var elems []ssa.Value
		if sl, ok := cl.Call.Args[1].(*ssa.Slice); ok {
			if al, ok := sl.X.(*ssa.Alloc); ok {
				for _, ref := range *al.Referrers() {
					if ia, ok := ref.(*ssa.IndexAddr); ok {
						for _, r2 := range *ia.Referrers() {
							if st2, ok := r2.(*ssa.Store); ok && st2.Addr == ssa.Value(ia) {
								elems = append(elems, st2.Val)
							}
						}
					}
				}
			}
		}
		for _, e := range elems {
			for _, a := range origins(e) {
				if _, fv, ok := fieldRef(a.V); ok && fv != nil {
					pendingFld = fv
					stores = append(stores, st)
				}
			}
		}
	})
	// does the method test a pointer field against nil at all?
	var tested *types.Var
	eachInstr(m, func(i ssa.Instruction) {
		if bo, ok := i.(*ssa.BinOp); ok && (bo.Op == token.EQL || bo.Op == token.NEQ) && (isNilConst(bo.X) || isNilConst(bo.Y)) {
			x := bo.X
			if isNilConst(x) {
				x = bo.Y
			}
			if _, fv, ok := fieldRef(x); ok && fv != nil {
				switch fv.Type().Underlying().(type) {
				case *types.Pointer, *types.Interface:
					tested = fv
				}
			}
		}
	})
	if tested == nil && pendingFld == nil {
		return false, false
	}
	if pendingFld == nil {
		return false, true
	}
	isStore := func(j ssa.Instruction) bool {
		for _, s := range stores {
			if s == j {
				return true
			}
		}
		return false
	}
	for _, ret := range returnsOf(m) {
		if passedBefore(m, ret, isStore, nil) {
			continue
		}
		// allowed only where the pending condition is known to be nil
		nilSide := false
		for _, g := range guardsAt(ret.Block()) {
			bo, ok := g.Cond.(*ssa.BinOp)
			if !ok || !(isNilConst(bo.X) || isNilConst(bo.Y)) {
				continue
			}
			x := bo.X
			if isNilConst(x) {
				x = bo.Y
			}
			if _, fv, ok := fieldRef(x); ok && fv == pendingFld {
				if (bo.Op == token.EQL && g.Pol) || (bo.Op == token.NEQ && !g.Pol) {
					nilSide = true
				}
			}
		}
		if !nilSide {
			return false, true
		}
	}
	return true, true
}

// checkFirstValueRegisters: C05.R6 clause — in a When method that spreads its variadic values over the single-value
// methods, the value at position 0 goes through a method that registers the pending condition (Return), not through one
// that only adds a further result to it (AndReturn): otherwise When(x).Returns(v) records v on a condition that never
// enters the list, and the stub behaves as if the condition had not been given.
func checkFirstValueRegisters(p *Prog, r *Report, rule string) {
	when := p.NamedType("", "When")
	if when == nil {
		return
	}
	for _, f := range p.FuncsIn("") {
		if f.Blocks == nil || f.Signature.Recv() == nil || !f.Signature.Variadic() || f.Object() == nil || !f.Object().Exported() {
			continue
		}
		if pt, ok := f.Signature.Recv().Type().(*types.Pointer); !ok || pt.Elem() != types.Type(when) {
			continue
		}
		vp := f.Params[len(f.Params)-1]
		// the element index in use
		var idxs []ssa.Value
		eachInstr(f, func(j ssa.Instruction) {
			if ia, ok := j.(*ssa.IndexAddr); ok && resolveLocal(ia.X) == ssa.Value(vp) {
				idxs = append(idxs, ia.Index)
			}
		})
		if len(idxs) == 0 {
			continue
		}
		isVP := func(v ssa.Value) bool { return v == ssa.Value(vp) }
		type feed struct {
			call ssa.CallInstruction
			cal  *ssa.Function
		}
		var feeds []feed
		eachInstr(f, func(j ssa.Instruction) {
			ci, ok := j.(ssa.CallInstruction)
			if !ok {
				return
			}
			cal := staticCallee(ci.Common())
			if cal == nil || cal == f || relPkg(cal) != "" || cal.Signature.Recv() == nil || !recvIs(cal, when) {
				return
			}
			for _, a := range ci.Common().Args[1:] {
				if dependsOn(a, isVP) {
					feeds = append(feeds, feed{ci, cal})
					return
				}
			}
		})
		if os.Getenv("GOOMVET_DEBUG") != "" {
			for _, fd := range feeds {
				reg, pend := whenRegisters(fd.cal)
				fmt.Fprintln(os.Stderr, "C05 first-value feed", fd.cal, reg, pend)
			}
		}
		if len(feeds) < 2 {
			continue // a single feeding method: nothing to tell apart
		}
		anyReg, anyPlain := false, false
		for _, fd := range feeds {
			reg, pend := whenRegisters(fd.cal)
			if !pend {
				continue
			}
			if reg {
				anyReg = true
			} else {
				anyPlain = true
			}
		}
		if !anyReg || !anyPlain {
			continue // the methods fed do not differ in registering
		}
		handled := false
		okAll := true
		for _, fd := range feeds {
			reg, pend := whenRegisters(fd.cal)
			if !pend {
				continue
			}
			// can this call see position 0? — by the element(s) of the list its arguments are taken from
			admits := c05AdmitsFirst(fd.call, vp)
			if admits == 1 {
				handled = true
				if !reg {
					okAll = false
				}
			}
			if admits == -1 {
				handled = true
			}
		}
		r.Check(okAll && handled, rule, "first value of "+shortName(f)+" registers the pending condition", p.Pos(f.Pos()), "position 0 goes through the registering method",
			"the value at position 0 is handed to a method that only adds a result to the pending condition without entering it into the condition list (the registering and the adding method are exchanged): When(args).Returns(v) leaves the condition unregistered and the call falls through to the default or panics")
	}
}


// c05AdmitsFirst: can the call be fed the element at position 0 of the variadic list vp? 1 yes, 0 no, -1 unknown.
// The elements are found in the dependency cone of the call's arguments: vp[c] (c constant), vp[i] for a loop position i
// (start value, and the position tests that lead to the call), or elements of vp[L:] (positions from L on).
func c05AdmitsFirst(call ssa.CallInstruction, vp *ssa.Parameter) int {
	type src struct {
		ia  *ssa.IndexAddr
		low int64 // positions of the base slice start here
	}
	var srcs []src
	seen := map[ssa.Value]bool{}
	var walk func(v ssa.Value, depth int)
	walk = func(v ssa.Value, depth int) {
		if v == nil || seen[v] || depth > 12 {
			return
		}
		seen[v] = true
		if ia, ok := v.(*ssa.IndexAddr); ok {
			base := resolveLocal(ia.X)
			if base == ssa.Value(vp) {
				srcs = append(srcs, src{ia, 0})
				return
			}
			if sl, ok := base.(*ssa.Slice); ok && resolveLocal(sl.X) == ssa.Value(vp) {
				low := int64(0)
				if sl.Low != nil {
					c, isC := constInt(sl.Low)
					if !isC {
						low = -1
					} else {
						low = c
					}
				}
				srcs = append(srcs, src{ia, low})
				return
			}
		}
		if al, ok := v.(*ssa.Alloc); ok && al.Referrers() != nil {
			for _, ref := range *al.Referrers() {
				switch x := ref.(type) {
				case *ssa.Store:
					if x.Addr == ssa.Value(al) {
						walk(x.Val, depth+1)
					}
				case *ssa.IndexAddr:
					if x.Referrers() != nil {
						for _, r2 := range *x.Referrers() {
							if st, ok := r2.(*ssa.Store); ok && st.Addr == ssa.Value(x) {
								walk(st.Val, depth+1)
							}
						}
					}
				}
			}
		}
		if ins, ok := v.(ssa.Instruction); ok {
			for _, op := range ins.Operands(nil) {
				if *op != nil {
					walk(*op, depth+1)
				}
			}
		}
	}
	for _, a := range call.Common().Args[1:] {
		walk(a, 0)
	}
	if len(srcs) == 0 {
		return -1
	}
	res := 0
	for _, sc := range srcs {
		if sc.low > 0 {
			continue // elements of vp[L:], L >= 1
		}
		if sc.low < 0 {
			res = -1
			continue
		}
		if c, isC := constInt(sc.ia.Index); isC {
			if c == 0 {
				return 1
			}
			continue
		}
		if first, step, ok := loopIndex(sc.ia.Index); ok && step > 0 && first > 0 {
			continue
		}
		// a running position: the tests on it that lead to the call
		adm := 1
		for _, g := range guardsAt(call.Block()) {
			bo, ok := g.Cond.(*ssa.BinOp)
			if !ok || bo.X != sc.ia.Index {
				continue
			}
			c, isC := constInt(bo.Y)
			if !isC {
				continue
			}
			var holds bool
			switch bo.Op {
			case token.EQL:
				holds = 0 == c
			case token.NEQ:
				holds = 0 != c
			case token.LSS:
				holds = 0 < c
			case token.LEQ:
				holds = 0 <= c
			case token.GTR:
				holds = 0 > c
			case token.GEQ:
				holds = 0 >= c
			default:
				continue
			}
			if holds != g.Pol {
				adm = 0
			}
		}
		if adm == 1 {
			return 1
		}
	}
	return res
}
