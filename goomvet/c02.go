package main

import (
	"strings"
	"fmt"
	"go/constant"
	"go/token"
	"go/types"

	"golang.org/x/tools/go/ssa"
)

func init() { register("C02", c02) }

// guardType returns the patch.Guard named type.
func guardType(p *Prog) *types.Named { return p.NamedType("internal/patch", "Guard") }

// restoreReachers: functions from which a restore-kind text write is reachable.
func restoreReachers(p *Prog) map[*ssa.Function]bool {
	var fns []*ssa.Function
	for _, s := range p.textWriteSites() {
		if s.Kind == "restore" {
			fns = append(fns, s.Fn)
		}
	}
	return p.modReachers(fns...)
}

var sentinelDone = map[*ssa.Function]bool{}

// checkSentinelRecognises: the already-patched test, evaluated abstractly on what the entry-jump emitter produces (for all
// addresses at once), answers true on every path: a function that carries goom's jump is always recognised, so its jump is
// never captured as "original bytes".
func checkSentinelRecognises(c *Ctx, p *Prog, r *Report, sf *ssa.Function, cfg string) {
	gen := jumpGenerator(p)
	if gen == nil || sf.Blocks == nil || len(sf.Params) != 1 {
		r.Und("C02.R1", "sentinel test recognises the entry jump", p.Pos(sf.Pos()), "entry-jump generator or sentinel body not found")
		return
	}
	var ems []*ssa.Function
	for _, ret := range returnsOf(gen) {
		for _, a := range origins(retResult(ret, 0)) {
			if cl, ok := a.V.(*ssa.Call); ok {
				if em := staticCallee(cl.Common()); em != nil && relPkg(em) == "internal/patch" && em.Blocks != nil {
					ems = append(ems, em)
				}
			}
		}
	}
	if len(ems) == 0 {
		r.Und("C02.R1", "sentinel test recognises the entry jump", p.Pos(sf.Pos()), "the entry-jump emitter was not identified")
		return
	}
	for _, em := range ems {
		okAll, why := true, ""
		n := 0
		for _, e := range emit(em) {
			if e.Err != "" || len(e.Bytes) == 0 {
				okAll, why = false, "emitter not evaluable: "+e.Err
				continue
			}
			bk := &backing{b: append([]AByte(nil), e.Bytes...)}
			ai := &absInterp{}
			for _, po := range ai.evalFunc(sf, []aval{ASlice{bk: bk, off: 0, len: len(bk.b), cap: len(bk.b)}}, nil) {
				n++
				if po.err != "" {
					okAll, why = false, "evaluation of the test fails ("+po.err+")"
					continue
				}
				if b, ok := po.val.(ABool); !ok || !b.Known || !b.Val {
					okAll, why = false, "the test answers 'not patched' (or depends on the address) for bytes "+bytesString(e.Bytes)
				}
			}
			if ai.procErr != "" {
				okAll, why = false, ai.procErr
			}
		}
		r.Check(okAll && n > 0, "C02.R1", "sentinel test "+shortName(sf)+" recognises what "+shortName(em)+" emits", p.Pos(sf.Pos()), fmt.Sprintf("true on all %d paths, for every address", n),
			"the already-patched test does not recognise goom's own entry jump ("+why+"): re-applying a mock captures the jump as 'original bytes', and Reset then writes a jump back")
	}
}

func c02(c *Ctx) {
	p, r := c.K1(), c.R
	// R10: every method mocked through a per-type cache has a mocker (and so a guard slot) of its own (C06.R5): mockers
	// that share one base record keep only the last guard, and Reset restores only that method
	if !c.importing {
		importSibling(c, "C06", "C02.R10", func(rule string) bool { return rule == "C06.R5" })
	}
	r.Expl = "Structural clauses behind 'Reset/Cancel restores the exact original bytes': the bytes written back on unpatch are the guard's originBytes at the guard's origin; those bytes have exactly one provenance — a private copy read of len(jump) bytes at the patch origin, accepted only when the already-patched sentinel test is false; before that capture every path restores a previously registered patch of the same origin (so the captured bytes are pristine); guard fields are written once, in the constructor, from the patch's corresponding fields; nothing reachable from Cancel/Reset writes jump bytes; Reset cancels every cached mocker unconditionally and container mockers cancel every child of every cache. Byte equality of the live image is not decided."
	r.RuleText = "one obligation per (rule, store / call site / loop)"
	r.Floor("C02.R1", 3)
	// R8: a recorded guard is replaced only by the outcome of a successful construction
	if n := checkGuardReplacedOnSuccess(p, r, "C02.R8"); n == 0 {
		r.Und("C02.R8", "guard replacement", "", "no mocker records a guard built from a fallible call")
	}
	checkCancelledFlagOnlyByCancel(p, r, "C02.R9", nil)
	checkForwardUnderCancelGuards(p, r, "C02.R9")
	r.Floor("C02.R2", 2)
	r.Floor("C02.R3", 3)
	r.Floor("C02.R4", 3)
	r.Floor("C02.R5", 5)
	r.Floor("C02.R6", 1)
	gt := guardType(p)
	roles := p.patchRoles()
	for _, prob := range roles.Problems {
		r.Und("C02.R4", "patch roles: "+prob, "", "cannot identify the patch package's fields by role: "+prob)
	}
	inst := patchInstaller(p)
	if gt == nil || inst == nil {
		r.Und("C02.R1", "patch.Guard / installer", "", "anchors not found")
		return
	}
	patchFns := p.FuncsIn("internal/patch")
	// ---- R3 what each writer writes
	sites := p.textWriteSites()
	nRestore, nInstall := 0, 0
	for _, s := range sites {
		if relPkg(s.Fn) != "internal/patch" {
			continue
		}
		cons := "write in " + shortName(s.Fn)
		switch s.Kind {
		case "restore", "install":
			if s.Kind == "restore" {
				nRestore++
			} else {
				nInstall++
			}
			isFld := func(a Atom, want ...*types.Var) bool {
				if a.Kind != "field" {
					return false
				}
				_, fv, ok := fieldRef(a.V)
				if !ok {
					return false
				}
				for _, w := range want {
					if fv == w && w != nil {
						return true
					}
				}
				return false
			}
			okA := allAtoms(s.Addr, func(a Atom) bool { return isFld(a, roles.GOrigin) })
			okD := allAtoms(s.Data, func(a Atom) bool { return isFld(a, roles.GRestore, roles.GInstall) })
			r.Check(okA && okD, "C02.R3", cons+" ("+s.Kind+")", p.Pos(posOf(s.Call)), "writes "+atomsString(s.Data)+" at "+atomsString(s.Addr),
				"an entry write does not write the guard's own bytes at the guard's origin")
			// guarded by the applied flag for restore
			if s.Kind == "restore" {
				af := roles.GApplied
				okG := false
				if af != nil {
					if v, k := boolGuardOnField(s.Call.Block(), af); k && v {
						okG = true
					}
				}
				r.Check(okG, "C02.R3", cons+" only if applied", p.Pos(posOf(s.Call)), "restore only for an applied guard",
					"original bytes are written back for a guard that was never applied (its captured bytes may be stale or empty)")
			}
		}
	}
	r.Check(nRestore >= 1, "C02.R3", "a restore writer exists", "", "originBytes are written back somewhere", "no function writes the captured original bytes back")
	// nothing reachable from Cancel / Reset installs
	var roots []*ssa.Function
	mockerT := p.NamedType("", "Mocker")
	if mockerT != nil {
		mi := mockerT.Underlying().(*types.Interface)
		for _, n := range namedTypesOf(p.Pkg("").Types) {
			if _, isI := n.Underlying().(*types.Interface); !isI && implementsIface(n, mi) {
				if f := methodOf(p, n, "Cancel"); f != nil {
					roots = append(roots, f)
				}
			}
		}
	}
	if f := p.Meth("", "Builder", "Reset"); f != nil {
		roots = append(roots, f)
	}
	reachC := p.modReach(roots...)
	for _, s := range sites {
		if s.Kind == "restore" {
			continue
		}
		r.Check(!reachC[s.Fn], "C02.R3", "cancel path avoids "+shortName(s.Fn), p.Pos(posOf(s.Call)), "not reachable from Cancel/Reset", "a non-restore text write is reachable from Cancel/Reset: resetting writes something other than the original bytes")
	}
	// every patch-based Cancel reaches a restore under the patch lock
	rr := restoreReachers(p)
	// the guard adapter: the root-package type that wraps a *patch.Guard
	var pgs []*types.Named
	for _, n := range namedTypesOf(p.Pkg("").Types) {
		if st, ok := n.Underlying().(*types.Struct); ok && gt != nil {
			for i := 0; i < st.NumFields(); i++ {
				if pt, ok := st.Field(i).Type().(*types.Pointer); ok && types.Identical(pt.Elem(), gt) {
					pgs = append(pgs, n)
				}
			}
		}
	}
	if len(pgs) == 0 {
		r.Und("C02.R5", "patch guard adapter", "", "no type of the root package wraps *patch.Guard")
	}
	for _, pg := range pgs {
		cf := methodOf(p, pg, "Cancel")
		r.Check(cf != nil && rr[cf], "C02.R5", "patch guard Cancel reaches restore", p.Pos(pg.Obj().Pos()), "Cancel → restore write", "cancelling a patch-based mock no longer reaches the write-back of the original bytes")
	}

	// ---- R7 Reset can only cancel what the builder still knows under the key it was filed: cache keys agree, nothing is evicted
	checkCacheKeys(p, r, "C02.R7", "C02.R7")

	// ---- R6 every path of a mocker's own Cancel reaches its guard's Cancel (unless there is no guard)
	if mockerT != nil {
		mi := mockerT.Underlying().(*types.Interface)
		mg := p.NamedType("", "MockGuard")
		seenC := map[*ssa.Function]bool{}
		for _, n := range namedTypesOf(p.Pkg("").Types) {
			if _, isI := n.Underlying().(*types.Interface); isI || !implementsIface(n, mi) || mg == nil {
				continue
			}
			cf := methodOf(p, n, "Cancel")
			if cf == nil || cf.Blocks == nil || seenC[cf] {
				continue
			}
			seenC[cf] = true
			var inv []ssa.Instruction
			var guardFld *types.Var
			eachInstr(cf, func(i ssa.Instruction) {
				if c := callCommon(i); c != nil && c.IsInvoke() && c.Method.Name() == "Cancel" && types.Identical(c.Value.Type(), mg) {
					inv = append(inv, i)
					if _, fv, ok := fieldRef(c.Value); ok {
						guardFld = fv
					}
				}
			})
			if len(inv) == 0 {
				continue
			}
			okAll := true
			for _, ret := range returnsOf(cf) {
				passed := passedBefore(cf, ret, func(i ssa.Instruction) bool {
					for _, x := range inv {
						if x == i {
							return true
						}
					}
					return false
				}, nil)
				if passed {
					continue
				}
				// allowed only when the guard is nil on this path
				isNil, known := false, false
				if guardFld != nil {
					isNil, known = nilGuardOnField(ret.Block(), guardFld)
					if !known {
						// the return may sit after the join of `if guard != nil { guard.Cancel() }`: check per predecessor path
						isNil, known = true, true
						for _, pr := range ret.Block().Preds {
							okP := false
							if nn, k := nilGuardOnFieldEdge(pr, ret.Block(), guardFld); k && nn {
								okP = true
							}
							for _, x := range inv {
								if x.Block() == pr || x.Block().Dominates(pr) {
									okP = true
								}
							}
							if !okP {
								isNil, known = false, false
							}
						}
					}
				}
				if !(known && isNil) {
					okAll = false
				}
			}
			r.Check(okAll, "C02.R6", shortName(cf)+" always cancels its guard", p.Pos(cf.Pos()), "every path reaches guard.Cancel() unless guard is nil",
				"Cancel can return without cancelling its guard although one exists (e.g. an early return on an 'already cancelled' flag): a mock re-applied through a retained handle after a Cancel is never removed again, Reset leaves the entry jump in place")
		}
	}

	// ---- R4 guard fields written once, in the constructor, from the patch's fields
	gfields := []struct {
		role   string
		gf, pf *types.Var
	}{{"origin", roles.GOrigin, roles.POrigin}, {"original bytes", roles.GRestore, roles.PRestore}, {"jump bytes", roles.GInstall, roles.PInstall}}
	for _, gfe := range gfields {
		gf, pfWant, gname, pname := gfe.gf, gfe.pf, gfe.role, gfe.role
		if gf == nil || pfWant == nil {
			continue // reported above as unresolved role
		}
		sts := storesToField(p.Funcs, func(fv *types.Var, _ ssa.Value) bool { return fv == gf })
		for _, fs := range sts {
			cons := "store to Guard." + gname + " in " + shortName(fs.Fn)
			inCtor := isLocalAddr(fs.Addr.X)
			okSrc := allAtoms(origins(fs.Store.Val), func(a Atom) bool {
				_, fv, ok := fieldRef(a.V)
				return a.Kind == "field" && ok && fv == pfWant
			})
			r.Check(inCtor && okSrc, "C02.R4", cons, p.Pos(posOf(fs.Store)), "constructor copies patch."+pname,
				"Guard."+gname+" is assigned outside the guard constructor or from something other than patch."+pname+": the bytes restored / address restored to are not the captured ones")
		}
		if len(sts) == 0 {
			r.Bad("C02.R4", "store to Guard."+gname, p.Pos(gf.Pos()), "the guard field is never initialised")
		}
	}
	// the guard is built once per patch (cached) or always from the same patch
	// ---- R1 pristine capture provenance
	ob := roles.PRestore
	jb := roles.PInstall
	op := roles.POrigin
	if ob == nil || op == nil {
		return
	}
	var captureCall *ssa.Call
	for _, fs := range storesToField(patchFns, func(fv *types.Var, _ ssa.Value) bool { return fv == ob }) {
		if isLocalAddr(fs.Addr.X) {
			continue
		}
		cons := "capture into patch.originBytes in " + shortName(fs.Fn)
		as := origins(fs.Store.Val)
		var cl *ssa.Call
		if len(as) == 1 {
			if ex, ok := as[0].V.(*ssa.Extract); ok {
				cl, _ = ex.Tuple.(*ssa.Call)
			}
		}
		if cl == nil {
			r.Bad("C02.R1", cons, p.Pos(posOf(fs.Store)), "captured bytes do not come from a single reader call ("+atomsString(as)+")")
			continue
		}
		captureCall = cl
		reader := staticCallee(cl.Common())
		// address argument = this patch's origin
		okAddr := false
		for _, a := range cl.Call.Args {
			if _, fv, ok := fieldRef(resolveLocal(a)); ok && fv == op {
				okAddr = true
			}
		}
		r.Check(okAddr, "C02.R1", cons+" reads at the patch origin", p.Pos(posOf(cl)), "reader addressed by p.originPtr", "the original bytes are read from an address other than the patch origin")
		// captured under err == nil
		r.Check(errNilGuarded(fs.Store.Block(), cl), "C02.R1", cons+" accepted only on success", p.Pos(posOf(fs.Store)), "stored on the err==nil continuation", "bytes are accepted although the reader reported an error (already patched)")
		// reader: result on success = private copy read of (param addr, param len); sentinel test precedes
		if reader == nil || reader.Blocks == nil {
			r.Und("C02.R1", cons+" reader", p.Pos(posOf(cl)), "reader body unavailable")
			continue
		}
		for _, ret := range returnsOf(reader) {
			ei := errIndex(reader.Signature)
			if ei < 0 || !isNilConst(retResult(ret, ei)) {
				continue
			}
			rv := retResult(ret, 1-ei)
			okRead := false
			var rd *ssa.Call
			for _, a := range origins(rv) {
				if c2, ok := a.V.(*ssa.Call); ok && calleeName(c2.Common()) == qual(memPkg, "RawRead") {
					rd = c2
					if _, ok := resolveLocal(c2.Call.Args[0]).(*ssa.Parameter); ok {
						if _, ok := resolveLocal(c2.Call.Args[1]).(*ssa.Parameter); ok {
							okRead = true
						}
					}
				}
			}
			r.Check(okRead, "C02.R1", "reader "+shortName(reader)+" returns a private copy of (addr,len)", p.Pos(posOf(ret)), "memory.RawRead(addr param, len param)", "the captured bytes are not a private copy read of the requested address/length")
			// sentinel: success return guarded by a false already-patched test on the same bytes
			okSent := false
			for _, g := range guardsAt(ret.Block()) {
				if gc, ok := g.Cond.(*ssa.Call); ok && !g.Pol && rd != nil {
					for _, a := range gc.Call.Args {
						if resolveLocal(a) == ssa.Value(rd) {
							okSent = true
						}
					}
				}
			}
			if okSent && !sentinelDone[reader] {
				sentinelDone[reader] = true
				for _, g := range guardsAt(ret.Block()) {
					if gc, ok := g.Cond.(*ssa.Call); ok && !g.Pol {
						if sf := staticCallee(gc.Common()); sf != nil {
							// (amd64 only: the arm64 entry jump carries no leading NOP, there the table lookup of R2 alone keeps a
							// jump from being captured; see DESIGN.md §3 C02)
							checkSentinelRecognises(c, p, r, sf, "linux/amd64")
						}
					}
				}
			}
			r.Check(okSent, "C02.R1", "reader "+shortName(reader)+" rejects an already patched entry", p.Pos(posOf(ret)), "success only when the sentinel test on the read bytes is false",
				"the bytes are accepted without the already-patched sentinel test: a jump written by an earlier patch can be captured as 'original'")
		}
	}
	if captureCall == nil {
		r.Bad("C02.R1", "capture into patch.originBytes", p.Pos(inst.Pos()), "the installer never captures the original bytes")
		return
	}
	_ = jb
	// ---- R2 unpatch before re-capture, registration before capture
	// a lookup of the patch table keyed by this origin whose found-branch restores, dominating the capture
	okUnpatch := prevPatchRestoredBefore(p, inst, captureCall)
	r.Check(okUnpatch, "C02.R2", "previous patch restored before capture in "+shortName(inst), p.Pos(posOf(captureCall)), "if registered(origin) { restore(origin) } dominates the capture",
		"the installer captures the 'original' bytes without first restoring a previously registered patch of the same origin: re-applying a mock captures the old jump, and Reset then 'restores' a jump")
	// no restore-less deletion: every delete from the table is preceded by a restore of that entry
	for _, f := range patchFns {
		eachInstr(f, func(i ssa.Instruction) {
			cl, ok := i.(*ssa.Call)
			if !ok {
				return
			}
			if bi, ok := cl.Call.Value.(*ssa.Builtin); !ok || bi.Name() != "delete" {
				return
			}
			if as := origins(cl.Call.Args[0]); len(as) != 1 || as[0].Kind != "global" {
				return
			}
			if ownUnappliedEntry(p, inst, f, cl) {
				r.OK("C02.R2", "table entry deleted only after restore in "+shortName(f), p.Pos(posOf(cl)), "the failing installer withdraws its own, never activated registration")
				return
			}
			okPrev := passedBefore(f, cl, func(j ssa.Instruction) bool {
				if ci, ok := j.(ssa.CallInstruction); ok {
					if cal := staticCallee(ci.Common()); cal != nil && rr[cal] {
						return true
					}
				}
				return false
			}, nil)
			r.Check(okPrev, "C02.R2", "table entry deleted only after restore in "+shortName(f), p.Pos(posOf(cl)), "restore precedes delete", "a patch is forgotten (deleted from the table) without restoring its bytes first: the entry jump stays but can no longer be undone, and the closure it points to may be collected")
		})
	}

	// ---- R5 Reset fan-out
	if reset := p.Meth("", "Builder", "Reset"); reset != nil {
		okFan := rangesAndCancels(reset, nil)
		r.Check(okFan, "C02.R5", "Builder.Reset cancels every cached mocker", p.Pos(reset.Pos()), "unconditional Cancel in a range over the mocker map",
			"Builder.Reset does not call Cancel unconditionally on every cached mocker")
	} else {
		r.Und("C02.R5", "Builder.Reset", "", "not found")
	}
	if mockerT != nil {
		mi := mockerT.Underlying().(*types.Interface)
		for _, n := range namedTypesOf(p.Pkg("").Types) {
			st, ok := n.Underlying().(*types.Struct)
			if !ok || !implementsIface(n, mi) {
				continue
			}
			cf := declaredMethod(p, n, "Cancel")
			for i := 0; i < st.NumFields(); i++ {
				f := st.Field(i)
				mt, ok := f.Type().Underlying().(*types.Map)
				if !ok {
					continue
				}
				if !hasMethod(mt.Elem(), "Cancel") {
					continue
				}
				cons := n.Obj().Name() + ".Cancel covers cache " + f.Name()
				if cf == nil {
					r.Bad("C02.R5", cons, p.Pos(n.Obj().Pos()), "a container mocker with a child cache has no Cancel of its own: children are never cancelled on Reset")
					continue
				}
				r.Check(rangesAndCancels(cf, f), "C02.R5", cons, p.Pos(cf.Pos()), "ranges over the cache and cancels each child unconditionally",
					"Cancel does not cancel every child held in cache "+f.Name()+": methods mocked through it stay patched after Reset")
			}
		}
	}
}

func hasMethod(t types.Type, name string) bool {
	for _, tt := range []types.Type{t, types.NewPointer(t)} {
		ms := types.NewMethodSet(tt)
		for i := 0; i < ms.Len(); i++ {
			if ms.At(i).Obj().Name() == name {
				return true
			}
		}
	}
	return false
}

// rangesAndCancels: fn contains a range over a map (field fld of the receiver, or any map field when fld==nil)
// whose body calls Cancel on the ranged value with no guard other than the loop's own.
func rangesAndCancels(fn *ssa.Function, fld *types.Var) bool {
	found := false
	eachInstr(fn, func(i ssa.Instruction) {
		rg, ok := i.(*ssa.Range)
		if !ok {
			return
		}
		_, fv, okF := fieldRef(rg.X)
		if !okF || (fld != nil && fv != fld) {
			return
		}
		// Next instrs on this iterator
		for _, ref := range *rg.Referrers() {
			nx, ok := ref.(*ssa.Next)
			if !ok {
				continue
			}
			var val, okV ssa.Value
			for _, r2 := range *nx.Referrers() {
				if ex, ok := r2.(*ssa.Extract); ok {
					switch ex.Index {
					case 0:
						okV = ex
					case 2:
						val = ex
					}
				}
			}
			if val == nil {
				continue
			}
			eachInstr(fn, func(j ssa.Instruction) {
				c := callCommon(j)
				if c == nil {
					return
				}
				isCancel := (c.IsInvoke() && c.Method.Name() == "Cancel" && (c.Value == val || dependsOn(c.Value, func(v ssa.Value) bool { return v == val }))) ||
					(!c.IsInvoke() && staticCallee(c) != nil && staticCallee(c).Name() == "Cancel" && len(c.Args) > 0 && dependsOn(c.Args[0], func(v ssa.Value) bool { return v == val }))
				if !isCancel {
					return
				}
				// guards: only the iterator's ok
				onlyLoop := true
				for _, g := range guardsAt(j.Block()) {
					if g.Cond == okV {
						continue
					}
					// exit condition of an earlier range loop is not a filter
					if ex, ok := g.Cond.(*ssa.Extract); ok && ex.Index == 0 {
						if _, ok := ex.Tuple.(*ssa.Next); ok && !g.Pol {
							continue
						}
					}
					onlyLoop = false
				}
				if onlyLoop {
					found = true
				}
			})
		}
	})
	return found
}

// nilGuardOnFieldEdge: is field fld known nil on the edge pred→succ ?
func nilGuardOnFieldEdge(pred, succ *ssa.BasicBlock, fld *types.Var) (isNil bool, known bool) {
	for _, g := range knownAtEdge(pred, succ) {
		bo, ok := g.Cond.(*ssa.BinOp)
		if !ok || (bo.Op != token.EQL && bo.Op != token.NEQ) {
			continue
		}
		var other ssa.Value
		if isNilConst(bo.Y) {
			other = bo.X
		} else if isNilConst(bo.X) {
			other = bo.Y
		} else {
			continue
		}
		if _, fv, ok := fieldRef(other); ok && fv == fld {
			return (bo.Op == token.EQL) == g.Pol, true
		}
	}
	return false, false
}

// prevPatchRestoredBefore: in the installer, a lookup of the patch table keyed by this patch's origin whose found-branch
// restores the registered patch (and falls through) dominates instruction at.
// ownUnappliedEntry: the delete at del (in f) withdraws the registration the installer made in this very call, on its
// failure path, before anything was activated — f is a closure the installer defers; the delete runs only when the
// installer's own error result is non-nil and the entry found under the origin key is the installer's receiver; and the
// installer reaches no code that marks a guard applied. (A pre-existing entry has been restored before the registration:
// that is the other half of R2.)
func ownUnappliedEntry(p *Prog, inst, f *ssa.Function, del *ssa.Call) bool {
	pr := p.patchRoles()
	if inst == nil || f.Parent() != inst || len(inst.Params) == 0 || inst.Signature.Recv() == nil {
		return false
	}
	// deferred only
	nDefer := 0
	okUse := true
	eachInstr(inst, func(i ssa.Instruction) {
		if mc, ok := i.(*ssa.MakeClosure); ok && mc.Fn == ssa.Value(f) {
			for _, u := range *mc.Referrers() {
				if d, ok := u.(*ssa.Defer); ok && d.Call.Value == ssa.Value(mc) {
					nDefer++
				} else if _, ok := u.(*ssa.DebugRef); !ok {
					okUse = false
				}
			}
		}
	})
	if nDefer != 1 || !okUse {
		return false
	}
	// the key is the receiver's origin
	capParam := func(v ssa.Value) *ssa.Parameter {
		fv, ok := originOfFreeVar(v)
		if !ok {
			return nil
		}
		sv := capturedValue(inst, f, fv)
		prm, _ := sv.(*ssa.Parameter)
		return prm
	}
	recvOf := func(v ssa.Value) bool { return capParam(v) == inst.Params[0] }
	keyOK := false
	if base, fv, ok := fieldRef(resolveLocal(del.Call.Args[1])); ok && fv == pr.POrigin && recvOf(base) {
		keyOK = true
	}
	if !keyOK {
		return false
	}
	// the installer's result variable: every return of the installer loads it
	var resAl *ssa.Alloc
	for _, ret := range returnsOf(inst) {
		if len(ret.Results) != 1 {
			return false
		}
		u, ok := ret.Results[0].(*ssa.UnOp)
		if !ok {
			return false
		}
		al, ok := u.X.(*ssa.Alloc)
		if !ok || (resAl != nil && resAl != al) {
			return false
		}
		resAl = al
	}
	if resAl == nil {
		return false
	}
	failing, own := false, false
	for _, g := range guardsAt(del.Block()) {
		b, ok := g.Cond.(*ssa.BinOp)
		if !ok {
			continue
		}
		for _, side := range [][2]ssa.Value{{b.X, b.Y}, {b.Y, b.X}} {
			// err != nil on the installer's result
			if c, isC := side[1].(*ssa.Const); isC && c.Value == nil {
				if fv, isFv := originOfFreeVar(side[0]); isFv {
					for k, x := range f.FreeVars {
						if x != fv {
							continue
						}
						eachInstr(inst, func(i ssa.Instruction) {
							if mc, ok := i.(*ssa.MakeClosure); ok && mc.Fn == ssa.Value(f) && mc.Bindings[k] == ssa.Value(resAl) {
								if (b.Op == token.NEQ) == g.Pol {
									failing = true
								}
							}
						})
					}
				}
			}
			// found entry == receiver
			if ex, isEx := side[0].(*ssa.Extract); isEx && ex.Index == 0 {
				if lk, isLk := ex.Tuple.(*ssa.Lookup); isLk {
					if as := origins(lk.X); len(as) == 1 && as[0].Kind == "global" && sameGlobal(lk.X, del.Call.Args[0]) && recvOf(side[1]) {
						if _, fv, ok := fieldRef(resolveLocal(lk.Index)); ok && fv == pr.POrigin && (b.Op == token.EQL) == g.Pol {
							own = true
						}
					}
				}
			}
		}
	}
	if !failing || !own {
		return false
	}
	// nothing the installer reaches marks a guard applied
	activates := false
	for fn := range p.modReach(inst) {
		eachInstr(fn, func(i ssa.Instruction) {
			st, ok := i.(*ssa.Store)
			if !ok {
				return
			}
			if fa, ok := st.Addr.(*ssa.FieldAddr); ok && fieldVar(fa.X.Type(), fa.Field) == pr.GApplied {
				if c, isC := st.Val.(*ssa.Const); !isC || c.Value == nil || constant.BoolVal(c.Value) {
					activates = true
				}
			}
		})
	}
	return !activates
}

func prevPatchRestoredBefore(p *Prog, inst *ssa.Function, at ssa.Instruction) bool {
	op := p.patchRoles().POrigin
	rr := restoreReachers(p)
	isOriginField := func(v ssa.Value) bool {
		_, fv, ok := fieldRef(resolveLocal(v))
		return ok && fv == op
	}
	// lookupRestores: fn looks the patch table up under a key accepted by isKey and, where the entry was found, calls a
	// function that reaches the restore — for that key or on the entry found; before (dominating) `before` when given
	var lookupRestores func(fn *ssa.Function, isKey func(ssa.Value) bool, before ssa.Instruction) bool
	lookupRestores = func(fn *ssa.Function, isKey func(ssa.Value) bool, before ssa.Instruction) bool {
		found := false
		eachInstr(fn, func(i ssa.Instruction) {
			lk, ok := i.(*ssa.Lookup)
			if !ok || !lk.CommaOk || found {
				return
			}
			if as := origins(lk.X); len(as) != 1 || as[0].Kind != "global" {
				return
			}
			if !isKey(lk.Index) {
				return
			}
			if before != nil && !domInstr(lk, before) {
				return
			}
			var okV, entry ssa.Value
			for _, ref := range *lk.Referrers() {
				if ex, ok := ref.(*ssa.Extract); ok {
					if ex.Index == 1 {
						okV = ex
					} else {
						entry = ex
					}
				}
			}
			iff, _ := lastInstr(lk.Block()).(*ssa.If)
			if iff == nil || iff.Cond != okV {
				return
			}
			tb := lk.Block().Succs[0]
			if len(tb.Preds) != 1 {
				return
			}
			restored, returned := false, false
			for _, b := range fn.Blocks {
				if b != tb && !tb.Dominates(b) {
					continue
				}
				for _, ins := range b.Instrs {
					if ci, ok := ins.(ssa.CallInstruction); ok {
						if cal := staticCallee(ci.Common()); cal != nil && rr[cal] {
							for _, a := range ci.Common().Args {
								if isKey(a) || (entry != nil && resolveLocal(a) == entry) {
									restored = true
								}
							}
						}
					}
					if _, ok := ins.(*ssa.Return); ok && b == tb && before != nil {
						returned = true // in the installer the restore branch must rejoin before the capture
					}
				}
			}
			if restored && !returned {
				found = true
			}
		})
		return found
	}
	if lookupRestores(inst, isOriginField, at) {
		return true
	}
	// or: an unconditional call, before the capture, of a helper that does exactly that for the origin it is given
	ok := false
	eachInstr(inst, func(i ssa.Instruction) {
		ci, isCall := i.(ssa.CallInstruction)
		if !isCall || ok || !domInstr(i, at) {
			return
		}
		cal := staticCallee(ci.Common())
		if cal == nil || cal.Blocks == nil || !strings.HasPrefix(pkgPathOf(cal), Mod) {
			return
		}
		for k, a := range ci.Common().Args {
			if !isOriginField(a) || k >= len(cal.Params) {
				continue
			}
			prm := cal.Params[k]
			if lookupRestores(cal, func(v ssa.Value) bool { return resolveLocal(v) == ssa.Value(prm) }, nil) {
				ok = true
			}
		}
	})
	return ok
}

// sameGlobal: both values are reads of one and the same package-level variable.
func sameGlobal(a, b ssa.Value) bool {
	oa, ob := origins(a), origins(b)
	return len(oa) == 1 && len(ob) == 1 && oa[0].Kind == "global" && ob[0].Kind == "global" && oa[0].Name == ob[0].Name
}
