package main

// Normalised view ("V1"): a semantics-preserving source-to-source transformation of the analysed tree in which calls of
// unexported same-package helper functions that are NOT part of the frozen function inventory of the pinned tree
// (/verif/inventory.txt) are inlined into their callers. A maintainer who extracts a few statements into a new helper
// changes the shape the rules look at without changing behaviour; inlining the helper back restores the shape. The
// transformed files are handed to go/packages as an overlay, type-checked and SSA-built like the real ones; when a rule
// set does not discharge on the tree as written (V0) it is decided again on V1, and a proof on V1 is a proof about the
// tree because the transformation preserves behaviour:
//
//   - only calls whose evaluation can be hoisted in front of the enclosing statement without reordering it with any other
//     call, receive or conditional evaluation are inlined (the call is the first call evaluated by the statement);
//   - arguments and the receiver are bound once, in order, to fresh typed variables; every object declared by the callee is
//     renamed apart; free identifiers of the callee are checked to resolve to the same objects at the call site;
//   - the body is placed in `L: switch { default: … }`, `return e` becomes `results = e; break L` — straight-line code in
//     go/ssa, so dominance is preserved; callees with defer/recover/goto, generic, recursive or variadic-spread-less
//     complications are left alone.
//
// If the transformed tree does not type-check the view is discarded and the V0 verdict stands.

import (
	"bytes"
	"fmt"
	"go/ast"
	"go/parser"
	"go/printer"
	"go/token"
	"go/types"
	"os"
	"path/filepath"
	"reflect"
	"sort"
	"strings"

	"golang.org/x/tools/go/packages"
)

type inlineStats struct {
	Sites     int
	Functions map[string]int
	Files     int
	Skipped   map[string]int
	Removed   []string
	Renamed   int
}

type inliner struct {
	pkg       *packages.Package
	info      *types.Info
	decls     map[*types.Func]*ast.FuncDecl
	declFile  map[*types.Func]*ast.File
	cand      map[*types.Func]bool
	orig      map[*ast.Ident]*ast.Ident // cloned ident → ident known to info
	origCall  map[*ast.CallExpr]*ast.CallExpr
	origSel   map[*ast.SelectorExpr]*ast.SelectorExpr
	origExpr  map[ast.Expr]ast.Expr
	skipCall  map[*ast.CallExpr]bool
	noTemp    map[*ast.CallExpr]bool
	tailNow   bool // the statement about to be processed is in tail position of a function body
	curTail   bool // the statement being hoisted is in tail position
	allowTemp bool
	tempType  map[string]types.Type
	seq       int
	file      *ast.File
	newImport map[string]string // path → alias, for the current file
	sitePos   token.Pos
	stats     *inlineStats
	changed   bool
}

func funcKey(f *types.Func) string { return f.FullName() }

// readInventory returns the frozen function names of the pinned tree with their shape descriptors.
func readInventory(verifDir string) (map[string]string, error) {
	b, err := os.ReadFile(filepath.Join(verifDir, "inventory.txt"))
	if err != nil {
		return nil, err
	}
	inv := map[string]string{}
	for _, l := range strings.Split(string(b), "\n") {
		l = strings.TrimSpace(l)
		if l != "" && !strings.HasPrefix(l, "#") {
			parts := strings.SplitN(l, "\t", 2)
			if len(parts) == 2 {
				inv[parts[0]] = parts[1]
			} else {
				inv[parts[0]] = ""
			}
		}
	}
	return inv, nil
}

// shapeOf describes a function by package, receiver shape and parameter/result types — what survives a rename.
func shapeOf(fn *types.Func) string {
	sig := fn.Type().(*types.Signature)
	q := func(pk *types.Package) string { return pk.Name() }
	var sb strings.Builder
	if fn.Pkg() != nil {
		sb.WriteString(strings.TrimPrefix(strings.TrimPrefix(fn.Pkg().Path(), Mod), "/"))
	}
	sb.WriteString("|")
	if rv := sig.Recv(); rv != nil {
		t := rv.Type()
		if pt, ok := t.(*types.Pointer); ok {
			t = pt.Elem()
			sb.WriteString("*")
		}
		if nt, ok := t.(*types.Named); ok && nt.Obj().Exported() {
			sb.WriteString(nt.Obj().Name())
		} else {
			sb.WriteString("~")
		}
	}
	sb.WriteString("|(")
	for i := 0; i < sig.Params().Len(); i++ {
		if i > 0 {
			sb.WriteString(",")
		}
		sb.WriteString(types.TypeString(sig.Params().At(i).Type(), q))
	}
	sb.WriteString(")(")
	for i := 0; i < sig.Results().Len(); i++ {
		if i > 0 {
			sb.WriteString(",")
		}
		sb.WriteString(types.TypeString(sig.Results().At(i).Type(), q))
	}
	sb.WriteString(")")
	if sig.Variadic() {
		sb.WriteString("...")
	}
	return sb.String()
}

// inventoryOf lists every declared function of the module packages of p as "name<TAB>shape".
func inventoryOf(p *Prog) []string {
	var out []string
	for _, pk := range p.Pkgs {
		for _, f := range pk.Syntax {
			for _, d := range f.Decls {
				if fd, ok := d.(*ast.FuncDecl); ok {
					if fn, ok := pk.TypesInfo.Defs[fd.Name].(*types.Func); ok {
						out = append(out, funcKey(fn)+"\t"+shapeOf(fn))
					}
				}
			}
		}
	}
	sort.Strings(out)
	return out
}

// buildOverlay transforms the packages of p (which it mutates: pass a Prog loaded for this purpose only) and returns the
// overlay for go/packages.
func buildOverlay(p *Prog, inv map[string]string) (map[string][]byte, *inlineStats) {
	st := &inlineStats{Functions: map[string]int{}, Skipped: map[string]int{}}
	overlay := map[string][]byte{}
	// a function that is not in the inventory but has exactly the shape of an inventory function that disappeared is that
	// function renamed, not an extracted helper: it is left alone (the rules find it by role)
	present := map[string]bool{}
	for _, pk := range p.Pkgs {
		for _, f := range pk.Syntax {
			for _, d := range f.Decls {
				if fd, ok := d.(*ast.FuncDecl); ok {
					if fn, ok := pk.TypesInfo.Defs[fd.Name].(*types.Func); ok {
						present[funcKey(fn)] = true
					}
				}
			}
		}
	}
	vanished := map[string]int{} // shape → number of inventory functions of this configuration's packages that are gone
	pkgsHere := map[string]bool{}
	for _, pk := range p.Pkgs {
		pkgsHere[strings.TrimPrefix(strings.TrimPrefix(pk.PkgPath, Mod), "/")] = true
	}
	for name, shape := range inv {
		if !present[name] && shape != "" && pkgsHere[strings.SplitN(shape, "|", 2)[0]] {
			vanished[shape]++
		}
	}
	renamed := map[string]bool{}
	var newcomers []*types.Func
	for _, pk := range p.Pkgs {
		for _, f := range pk.Syntax {
			for _, d := range f.Decls {
				if fd, ok := d.(*ast.FuncDecl); ok {
					if fn, ok := pk.TypesInfo.Defs[fd.Name].(*types.Func); ok {
						if _, known := inv[funcKey(fn)]; !known {
							newcomers = append(newcomers, fn)
						}
					}
				}
			}
		}
	}
	sort.Slice(newcomers, func(i, j int) bool { return funcKey(newcomers[i]) < funcKey(newcomers[j]) })
	for _, fn := range newcomers {
		sh := shapeOf(fn)
		if vanished[sh] > 0 {
			vanished[sh]--
			renamed[funcKey(fn)] = true
		}
	}
	st.Renamed = len(renamed)
	for _, pk := range p.Pkgs {
		in := &inliner{pkg: pk, info: pk.TypesInfo, decls: map[*types.Func]*ast.FuncDecl{}, declFile: map[*types.Func]*ast.File{}, cand: map[*types.Func]bool{},
			orig: map[*ast.Ident]*ast.Ident{}, origCall: map[*ast.CallExpr]*ast.CallExpr{}, origSel: map[*ast.SelectorExpr]*ast.SelectorExpr{}, origExpr: map[ast.Expr]ast.Expr{},
			skipCall: map[*ast.CallExpr]bool{}, noTemp: map[*ast.CallExpr]bool{}, tempType: map[string]types.Type{}, stats: st}
		for _, f := range pk.Syntax {
			for _, d := range f.Decls {
				if fd, ok := d.(*ast.FuncDecl); ok && fd.Body != nil {
					if fn, ok := pk.TypesInfo.Defs[fd.Name].(*types.Func); ok {
						in.decls[fn] = fd
						in.declFile[fn] = f
						_, known := inv[funcKey(fn)]
						if !fn.Exported() && !known && !renamed[funcKey(fn)] && inlinableDecl(fd, fn) && !importsC(f) {
							in.cand[fn] = true
						}
					}
				}
			}
		}
		if len(in.cand) == 0 {
			continue
		}
		changedFile := map[*ast.File]bool{}
		imports := map[*ast.File]map[string]string{}
		for fi, f := range pk.Syntax {
			if importsC(f) || fi >= len(pk.CompiledGoFiles) {
				continue
			}
			in.file, in.newImport, in.changed = f, map[string]string{}, false
			for _, d := range f.Decls {
				fd, ok := d.(*ast.FuncDecl)
				if !ok || fd.Body == nil {
					continue
				}
				var stack []*types.Func
				if fn, ok := pk.TypesInfo.Defs[fd.Name].(*types.Func); ok {
					stack = append(stack, fn)
				}
				fd.Body.List = in.topStmts(fd.Body.List, stack, 0)
			}
			if in.changed {
				changedFile[f] = true
				imports[f] = in.newImport
			}
		}
		// helpers whose every use was inlined are dead code now: drop their declarations so that the rules do not look at
		// a second, context-free copy of the statements
		refs := map[*types.Func]int{}
		for _, f := range pk.Syntax {
			ast.Inspect(f, func(n ast.Node) bool {
				if id, ok := n.(*ast.Ident); ok {
					if fn, ok := in.objOf(id).(*types.Func); ok && in.cand[fn] {
						if in.info.Defs[in.rootIdent(id)] != fn || in.orig[id] != nil {
							refs[fn]++
						}
					}
				}
				return true
			})
		}
		for fn := range in.cand {
			if st.Functions[funcKey(fn)] == 0 || refs[fn] > 0 {
				continue
			}
			f := in.declFile[fn]
			for i, d := range f.Decls {
				if d == ast.Decl(in.decls[fn]) {
					f.Decls = append(f.Decls[:i:i], f.Decls[i+1:]...)
					changedFile[f] = true
					st.Removed = append(st.Removed, funcKey(fn))
					break
				}
			}
		}
		for fi, f := range pk.Syntax {
			if !changedFile[f] || fi >= len(pk.CompiledGoFiles) {
				continue
			}
			in.newImport = imports[f]
			if in.newImport == nil {
				in.newImport = map[string]string{}
			}
			name := pk.CompiledGoFiles[fi]
			src, err := os.ReadFile(name)
			if err != nil {
				continue
			}
			txt, err := in.render(f, src)
			if err != nil {
				st.Skipped["render: "+err.Error()]++
				continue
			}
			overlay[name] = txt
			st.Files++
		}
	}
	return overlay, st
}

func importsC(f *ast.File) bool {
	for _, im := range f.Imports {
		if im.Path.Value == `"C"` {
			return true
		}
	}
	return false
}

// inlinableDecl: structural conditions on the callee.
func inlinableDecl(fd *ast.FuncDecl, fn *types.Func) bool {
	sig := fn.Type().(*types.Signature)
	if sig.TypeParams() != nil || sig.RecvTypeParams() != nil {
		return false
	}
	return inlinableBody(fd.Body)
}

// hasDefer: the body registers deferred calls (outside nested function literals).
func hasDefer(body *ast.BlockStmt) bool {
	found := false
	ast.Inspect(body, func(x ast.Node) bool {
		switch x.(type) {
		case *ast.FuncLit:
			return false
		case *ast.DeferStmt:
			found = true
		}
		return !found
	})
	return found
}

// inlinableBody: structural conditions on a callee body. Deferred calls are tolerated only in the simple form
// `defer f(args)` with a named function or method f and call-free, address-free arguments: such a callee is inlined only
// at a call in tail position of the caller (see expand), where "at the end of the callee" and "at the end of the caller"
// coincide.
func inlinableBody(body *ast.BlockStmt) bool {
	ok := true
	n := 0
	ast.Inspect(body, func(x ast.Node) bool {
		switch y := x.(type) {
		case *ast.FuncLit:
			return false
		case *ast.DeferStmt:
			switch f := ast.Unparen(y.Call.Fun).(type) {
			case *ast.Ident:
			case *ast.SelectorExpr:
				if _, isId := f.X.(*ast.Ident); !isId {
					ok = false
				}
			default:
				ok = false
			}
			for _, a := range y.Call.Args {
				ast.Inspect(a, func(z ast.Node) bool {
					switch w := z.(type) {
					case *ast.CallExpr, *ast.FuncLit:
						ok = false
					case *ast.UnaryExpr:
						if w.Op == token.AND || w.Op == token.ARROW {
							ok = false
						}
					}
					return ok
				})
			}
		case *ast.BranchStmt:
			if y.Tok == token.GOTO {
				ok = false
			}
		case *ast.CallExpr:
			if id, isId := y.Fun.(*ast.Ident); isId && id.Name == "recover" {
				ok = false
			}
		case ast.Stmt:
			n++
		}
		return ok
	})
	return ok && n <= 120
}

func (in *inliner) fresh(base string) string {
	in.seq++
	return fmt.Sprintf("%s_inl%d", strings.TrimLeft(base, "_"), in.seq)
}

// ---- info lookups through clones

func (in *inliner) rootIdent(id *ast.Ident) *ast.Ident {
	for {
		o, ok := in.orig[id]
		if !ok {
			return id
		}
		id = o
	}
}

func (in *inliner) objOf(id *ast.Ident) types.Object {
	r := in.rootIdent(id)
	if o := in.info.Uses[r]; o != nil {
		return o
	}
	return in.info.Defs[r]
}

func (in *inliner) rootExpr(e ast.Expr) ast.Expr {
	for {
		o, ok := in.origExpr[e]
		if !ok {
			return e
		}
		e = o
	}
}

func (in *inliner) typeOf(e ast.Expr) types.Type {
	if tv, ok := in.info.Types[in.rootExpr(e)]; ok {
		return tv.Type
	}
	if id, ok := e.(*ast.Ident); ok {
		if o := in.objOf(id); o != nil {
			return o.Type()
		}
		if t, ok := in.tempType[id.Name]; ok {
			return t
		}
	}
	return nil
}

// isRealCall: a call that is not a conversion and not a side-effect-free builtin.
func (in *inliner) isRealCall(c *ast.CallExpr) bool {
	fun := ast.Unparen(c.Fun)
	if tv, ok := in.info.Types[in.rootExpr(fun)]; ok {
		if tv.IsType() {
			return false
		}
		if tv.IsBuiltin() {
			if id, ok := fun.(*ast.Ident); ok {
				switch id.Name {
				case "len", "cap", "new", "make", "real", "imag", "complex", "min", "max":
					return false
				}
			}
			return true
		}
		return true
	}
	// unknown (synthesised) expression: synthesised code only contains identifiers, so a call here came from user code
	switch f := fun.(type) {
	case *ast.Ident:
		if o := in.objOf(f); o != nil {
			if _, isT := o.(*types.TypeName); isT {
				return false
			}
			if _, isB := o.(*types.Builtin); isB {
				switch f.Name {
				case "len", "cap", "new", "make", "real", "imag", "complex", "min", "max":
					return false
				}
			}
		}
	case *ast.ArrayType, *ast.MapType, *ast.StarExpr, *ast.InterfaceType, *ast.FuncType, *ast.ChanType, *ast.StructType:
		return false
	}
	return true
}

// callee resolves a call to a candidate function of this package.
func (in *inliner) callee(c *ast.CallExpr) (*types.Func, ast.Expr) {
	switch f := ast.Unparen(c.Fun).(type) {
	case *ast.Ident:
		if fn, ok := in.objOf(f).(*types.Func); ok {
			return fn, nil
		}
	case *ast.SelectorExpr:
		if fn, ok := in.objOf(f.Sel).(*types.Func); ok {
			sig := fn.Type().(*types.Signature)
			if sig.Recv() == nil {
				return nil, nil // qualified identifier of another package
			}
			return fn, f.X
		}
	}
	return nil, nil
}

// ---- evaluation-order search

// firstCall walks *pe in evaluation order and returns the slot of the first real call evaluated if that call is an
// inlinable candidate; blocked is true when some other call / receive / conditional evaluation comes first.
func (in *inliner) firstCall(pe *ast.Expr, stack []*types.Func) (slot *ast.Expr, blocked bool) {
	e := *pe
	switch x := e.(type) {
	case nil:
		return nil, false
	case *ast.Ident, *ast.BasicLit, *ast.FuncLit:
		return nil, false
	case *ast.ParenExpr:
		return in.firstCall(&x.X, stack)
	case *ast.SelectorExpr:
		return in.firstCall(&x.X, stack)
	case *ast.StarExpr:
		return in.firstCall(&x.X, stack)
	case *ast.TypeAssertExpr:
		return in.firstCall(&x.X, stack)
	case *ast.IndexExpr:
		if s, b := in.firstCall(&x.X, stack); s != nil || b {
			return s, b
		}
		return in.firstCall(&x.Index, stack)
	case *ast.SliceExpr:
		for _, sub := range []*ast.Expr{&x.X, &x.Low, &x.High, &x.Max} {
			if s, b := in.firstCall(sub, stack); s != nil || b {
				return s, b
			}
		}
		return nil, false
	case *ast.UnaryExpr:
		if x.Op == token.ARROW {
			return nil, true
		}
		return in.firstCall(&x.X, stack)
	case *ast.BinaryExpr:
		if s, b := in.firstCall(&x.X, stack); s != nil || b {
			return s, b
		}
		if x.Op == token.LAND || x.Op == token.LOR {
			if in.hasCall(x.Y) {
				return nil, true
			}
			return nil, false
		}
		return in.firstCall(&x.Y, stack)
	case *ast.KeyValueExpr:
		if s, b := in.firstCall(&x.Key, stack); s != nil || b {
			return s, b
		}
		return in.firstCall(&x.Value, stack)
	case *ast.CompositeLit:
		for i := range x.Elts {
			if s, b := in.firstCall(&x.Elts[i], stack); s != nil || b {
				return s, b
			}
		}
		return nil, false
	case *ast.CallExpr:
		if !in.isRealCall(x) {
			// conversion or pure builtin: operands only
			for i := range x.Args {
				if s, b := in.firstCall(&x.Args[i], stack); s != nil || b {
					return s, b
				}
			}
			return nil, false
		}
		if s, b := in.firstCall(&x.Fun, stack); s != nil || b {
			return s, b
		}
		for i := range x.Args {
			if s, b := in.firstCall(&x.Args[i], stack); s != nil || b {
				return s, b
			}
		}
		if in.skipCall[x] {
			return in.tempSlot(pe, x)
		}
		if _, isLit := ast.Unparen(x.Fun).(*ast.FuncLit); isLit {
			if in.isCandidateCall(x, stack) {
				return pe, false
			}
			return in.tempSlot(pe, x)
		}
		fn, _ := in.callee(x)
		if fn == nil || !in.cand[fn] || in.decls[fn] == nil {
			return in.tempSlot(pe, x)
		}
		for _, s := range stack {
			if s == fn {
				return in.tempSlot(pe, x)
			}
		}
		return pe, false
	}
	// anything else (type expressions, …): be conservative
	if in.hasCall(e) {
		return nil, true
	}
	return nil, false
}

// tempSlot: a call that is not inlined but is the first one evaluated. When temping is enabled (a candidate call follows
// in the same statement) its slot is returned so that it can be evaluated into a temporary first, which keeps the order.
func (in *inliner) tempSlot(pe *ast.Expr, c *ast.CallExpr) (*ast.Expr, bool) {
	if !in.allowTemp || in.noTemp[c] {
		return nil, true
	}
	return pe, false
}

// isCandidateCall: c resolves to an inlinable helper that is not being expanded already.
func (in *inliner) isCandidateCall(c *ast.CallExpr, stack []*types.Func) bool {
	if in.skipCall[c] {
		return false
	}
	if lit, ok := ast.Unparen(c.Fun).(*ast.FuncLit); ok {
		return inlinableBody(lit.Body)
	}
	if !in.isRealCall(c) {
		return false
	}
	fn, _ := in.callee(c)
	if fn == nil || !in.cand[fn] || in.decls[fn] == nil {
		return false
	}
	for _, s := range stack {
		if s == fn {
			return false
		}
	}
	return true
}

// candidateInside: some candidate call occurs in the expressions (outside function literals).
func (in *inliner) candidateInside(es []ast.Expr, stack []*types.Func) bool {
	found := false
	for _, e := range es {
		if e == nil {
			continue
		}
		ast.Inspect(e, func(n ast.Node) bool {
			switch x := n.(type) {
			case *ast.FuncLit:
				return false
			case *ast.CallExpr:
				if in.isCandidateCall(x, stack) {
					found = true
				}
			}
			return !found
		})
	}
	return found
}

func (in *inliner) hasCall(e ast.Expr) bool {
	found := false
	ast.Inspect(e, func(n ast.Node) bool {
		switch x := n.(type) {
		case *ast.FuncLit:
			return false
		case *ast.CallExpr:
			if in.isRealCall(x) {
				found = true
			}
		case *ast.UnaryExpr:
			if x.Op == token.ARROW {
				found = true
			}
		}
		return !found
	})
	return found
}

func (in *inliner) exprsCallFree(es []ast.Expr) bool {
	for _, e := range es {
		if in.hasCall(e) {
			return false
		}
	}
	return true
}

// firstInList: slot of the first call among expressions evaluated left to right.
func (in *inliner) firstInList(es []ast.Expr, stack []*types.Func) *ast.Expr {
	for i := range es {
		s, b := in.firstCall(&es[i], stack)
		if s != nil {
			return s
		}
		if b {
			return nil
		}
	}
	return nil
}

// ---- statement traversal

func (in *inliner) stmts(list []ast.Stmt, stack []*types.Func, depth int) []ast.Stmt {
	var out []ast.Stmt
	for _, s := range list {
		in.tailNow = false
		out = append(out, in.stmt(s, stack, depth)...)
	}
	return out
}

// topStmts processes the statement list of a function body (declaration or literal): a statement is in tail position
// when only returns of call-free values follow it.
func (in *inliner) topStmts(list []ast.Stmt, stack []*types.Func, depth int) []ast.Stmt {
	var out []ast.Stmt
	for i, s := range list {
		tail := true
		for _, rest := range list[i+1:] {
			r, ok := rest.(*ast.ReturnStmt)
			if !ok || !in.exprsCallFree(r.Results) {
				tail = false
			}
			for _, e := range func() []ast.Expr {
				if ok {
					return r.Results
				}
				return nil
			}() {
				ast.Inspect(e, func(n ast.Node) bool {
					if _, isLit := n.(*ast.FuncLit); isLit {
						tail = false
					}
					return tail
				})
			}
		}
		in.tailNow = tail
		out = append(out, in.stmt(s, stack, depth)...)
		in.tailNow = false
	}
	return out
}

// funcLits processes the bodies of function literals inside an expression tree.
func (in *inliner) funcLits(n ast.Node, stack []*types.Func, depth int) {
	if n == nil || reflect.ValueOf(n).IsNil() {
		return
	}
	ast.Inspect(n, func(x ast.Node) bool {
		if fl, ok := x.(*ast.FuncLit); ok {
			fl.Body.List = in.topStmts(fl.Body.List, stack, depth)
			return false
		}
		return true
	})
}

func (in *inliner) stmt(s ast.Stmt, stack []*types.Func, depth int) []ast.Stmt {
	tail := in.tailNow
	in.tailNow = false
	switch x := s.(type) {
	case *ast.BlockStmt:
		x.List = in.stmts(x.List, stack, depth)
		return []ast.Stmt{x}
	case *ast.LabeledStmt:
		r := in.stmt(x.Stmt, stack, depth)
		if len(r) == 1 {
			x.Stmt = r[0]
		} else {
			// a prelude cannot be placed in front of a label target; keep the statement as it was processed
			x.Stmt = &ast.BlockStmt{List: r}
		}
		return []ast.Stmt{x}
	case *ast.IfStmt:
		if x.Init != nil && (in.stmtHasCandidate(x.Init, stack) || in.exprHasCandidate(x.Cond, stack)) {
			init := x.Init
			x.Init = nil
			blk := &ast.BlockStmt{List: []ast.Stmt{init, x}}
			blk.List = in.stmts(blk.List, stack, depth)
			return []ast.Stmt{blk}
		}
		in.funcLits(x.Init, stack, depth)
		in.funcLits(x.Cond, stack, depth)
		x.Body.List = in.stmts(x.Body.List, stack, depth)
		switch e := x.Else.(type) {
		case *ast.BlockStmt:
			e.List = in.stmts(e.List, stack, depth)
		case *ast.IfStmt:
			r := in.stmt(e, stack, depth)
			if len(r) == 1 {
				if _, isIf := r[0].(*ast.IfStmt); isIf {
					x.Else = r[0]
				} else if b, isB := r[0].(*ast.BlockStmt); isB {
					x.Else = b
				} else {
					x.Else = &ast.BlockStmt{List: r}
				}
			} else {
				x.Else = &ast.BlockStmt{List: r}
			}
		}
		if x.Init == nil {
			return in.hoist(x, func() *ast.Expr { s, _ := in.firstCall(&x.Cond, stack); return s }, stack, depth)
		}
		return []ast.Stmt{x}
	case *ast.SwitchStmt:
		if x.Init != nil && (in.stmtHasCandidate(x.Init, stack) || in.exprHasCandidate(x.Tag, stack)) {
			init := x.Init
			x.Init = nil
			blk := &ast.BlockStmt{List: []ast.Stmt{init, x}}
			blk.List = in.stmts(blk.List, stack, depth)
			return []ast.Stmt{blk}
		}
		in.funcLits(x.Init, stack, depth)
		for _, c := range x.Body.List {
			cc := c.(*ast.CaseClause)
			for _, e := range cc.List {
				in.funcLits(e, stack, depth)
			}
			cc.Body = in.stmts(cc.Body, stack, depth)
		}
		if x.Init == nil && x.Tag != nil {
			return in.hoist(x, func() *ast.Expr { s, _ := in.firstCall(&x.Tag, stack); return s }, stack, depth)
		}
		return []ast.Stmt{x}
	case *ast.TypeSwitchStmt:
		for _, c := range x.Body.List {
			cc := c.(*ast.CaseClause)
			cc.Body = in.stmts(cc.Body, stack, depth)
		}
		return []ast.Stmt{x}
	case *ast.SelectStmt:
		for _, c := range x.Body.List {
			cc := c.(*ast.CommClause)
			cc.Body = in.stmts(cc.Body, stack, depth)
		}
		return []ast.Stmt{x}
	case *ast.ForStmt:
		in.funcLits(x.Init, stack, depth)
		in.funcLits(x.Cond, stack, depth)
		in.funcLits(x.Post, stack, depth)
		x.Body.List = in.stmts(x.Body.List, stack, depth)
		return []ast.Stmt{x}
	case *ast.RangeStmt:
		x.Body.List = in.stmts(x.Body.List, stack, depth)
		return in.hoist(x, func() *ast.Expr { s, _ := in.firstCall(&x.X, stack); return s }, stack, depth)
	case *ast.ExprStmt:
		in.funcLits(x.X, stack, depth)
		in.curTail = tail
		defer func() { in.curTail = false }()
		return in.hoist(x, func() *ast.Expr { s, _ := in.firstCall(&x.X, stack); return s }, stack, depth)
	case *ast.AssignStmt:
		for _, e := range x.Rhs {
			in.funcLits(e, stack, depth)
		}
		if !in.exprsCallFree(x.Lhs) {
			return []ast.Stmt{x}
		}
		in.curTail = tail
		defer func() { in.curTail = false }()
		return in.hoist(x, func() *ast.Expr { return in.firstInList(x.Rhs, stack) }, stack, depth)
	case *ast.ReturnStmt:
		for _, e := range x.Results {
			in.funcLits(e, stack, depth)
		}
		return in.hoist(x, func() *ast.Expr { return in.firstInList(x.Results, stack) }, stack, depth)
	case *ast.DeclStmt:
		gd, ok := x.Decl.(*ast.GenDecl)
		if !ok || gd.Tok != token.VAR || len(gd.Specs) != 1 {
			return []ast.Stmt{x}
		}
		vs := gd.Specs[0].(*ast.ValueSpec)
		for _, e := range vs.Values {
			in.funcLits(e, stack, depth)
		}
		return in.hoist(x, func() *ast.Expr { return in.firstInList(vs.Values, stack) }, stack, depth)
	case *ast.GoStmt:
		in.funcLits(x.Call, stack, depth)
		return []ast.Stmt{x}
	case *ast.DeferStmt:
		in.funcLits(x.Call, stack, depth)
		return []ast.Stmt{x}
	case *ast.SendStmt:
		in.funcLits(x.Value, stack, depth)
		return []ast.Stmt{x}
	}
	return []ast.Stmt{s}
}

func (in *inliner) exprHasCandidate(e ast.Expr, stack []*types.Func) bool {
	if e == nil {
		return false
	}
	return in.candidateInside([]ast.Expr{e}, stack)
}

func (in *inliner) stmtHasCandidate(s ast.Stmt, stack []*types.Func) bool {
	switch x := s.(type) {
	case *ast.ExprStmt:
		return in.exprHasCandidate(x.X, stack)
	case *ast.AssignStmt:
		return in.exprsCallFree(x.Lhs) && in.candidateInside(x.Rhs, stack)
	}
	return false
}

// hoist repeatedly inlines the first-evaluated candidate call of statement s in front of it.
func (in *inliner) hoist(s ast.Stmt, find func() *ast.Expr, stack []*types.Func, depth int) []ast.Stmt {
	var out []ast.Stmt
	for iter := 0; iter < 10; iter++ {
		in.allowTemp = in.candidateInside(stmtExprs(s), stack)
		slot := find()
		in.allowTemp = false
		if slot == nil {
			break
		}
		call := (*slot).(*ast.CallExpr)
		if !in.isCandidateCall(call, stack) {
			// evaluate this earlier call into a temporary, in place, so that the candidate after it becomes the first call
			t := in.typeOf(call)
			if tup, isTuple := t.(*types.Tuple); t == nil || isTuple && tup.Len() != 1 {
				in.noTemp[call] = true
				continue
			}
			if es, isExprStmt := s.(*ast.ExprStmt); isExprStmt && ast.Unparen(es.X) == ast.Expr(call) {
				in.noTemp[call] = true
				continue
			}
			name := in.fresh("tmp")
			if tup, isTuple := t.(*types.Tuple); isTuple {
				t = tup.At(0).Type()
			}
			in.tempType[name] = t
			out = append(out, &ast.AssignStmt{Lhs: []ast.Expr{ast.NewIdent(name)}, Tok: token.DEFINE, Rhs: []ast.Expr{call}})
			*slot = ast.NewIdent(name)
			in.changed = true
			continue
		}
		fn, recv := in.callee(call)
		if depth == 0 {
			in.sitePos = in.rootPos(call)
		}
		var pre []ast.Stmt
		var results []string
		var ok bool
		if lit, isLit := ast.Unparen(call.Fun).(*ast.FuncLit); isLit {
			pre, results, ok = in.expandLit(call, lit, stack, depth)
		} else {
			pre, results, ok = in.expand(call, fn, recv, stack, depth)
		}
		if !ok {
			in.skipCall[call] = true
			continue
		}
		n := len(results)
		dropped := false
		switch x := s.(type) {
		case *ast.ExprStmt:
			if ast.Unparen(x.X) == ast.Expr(call) {
				dropped = true
			}
		case *ast.AssignStmt:
			if n != 1 {
				if len(x.Rhs) == 1 && x.Rhs[0] == ast.Expr(call) {
					x.Rhs = identExprs(results)
					out = append(out, pre...)
					in.noteInlined(fn)
					continue
				}
				in.skipCall[call] = true
				continue
			}
		case *ast.ReturnStmt:
			if n != 1 {
				if len(x.Results) == 1 && x.Results[0] == ast.Expr(call) {
					x.Results = identExprs(results)
					out = append(out, pre...)
					in.noteInlined(fn)
					continue
				}
				in.skipCall[call] = true
				continue
			}
		case *ast.DeclStmt:
			vs := x.Decl.(*ast.GenDecl).Specs[0].(*ast.ValueSpec)
			if n != 1 {
				if len(vs.Values) == 1 && vs.Values[0] == ast.Expr(call) {
					vs.Values = identExprs(results)
					out = append(out, pre...)
					in.noteInlined(fn)
					continue
				}
				in.skipCall[call] = true
				continue
			}
		}
		if dropped {
			out = append(out, pre...)
			in.noteInlined(fn)
			return out
		}
		if n != 1 {
			in.skipCall[call] = true
			continue
		}
		*slot = ast.NewIdent(results[0])
		out = append(out, pre...)
		in.noteInlined(fn)
	}
	return append(out, s)
}

func (in *inliner) noteInlined(fn *types.Func) {
	in.changed = true
	in.stats.Sites++
	if fn != nil {
		in.stats.Functions[funcKey(fn)]++
	}
}

func (in *inliner) rootPos(c *ast.CallExpr) token.Pos {
	for {
		o, ok := in.origCall[c]
		if !ok {
			return c.Pos()
		}
		c = o
	}
}

// stmtExprs lists the expressions of a statement that hoisting looks at.
func stmtExprs(s ast.Stmt) []ast.Expr {
	switch x := s.(type) {
	case *ast.ExprStmt:
		return []ast.Expr{x.X}
	case *ast.AssignStmt:
		return x.Rhs
	case *ast.ReturnStmt:
		return x.Results
	case *ast.DeclStmt:
		if gd, ok := x.Decl.(*ast.GenDecl); ok && len(gd.Specs) == 1 {
			if vs, ok := gd.Specs[0].(*ast.ValueSpec); ok {
				return vs.Values
			}
		}
	case *ast.IfStmt:
		return []ast.Expr{x.Cond}
	case *ast.SwitchStmt:
		return []ast.Expr{x.Tag}
	case *ast.RangeStmt:
		return []ast.Expr{x.X}
	}
	return nil
}

func identExprs(names []string) []ast.Expr {
	var out []ast.Expr
	for _, n := range names {
		out = append(out, ast.NewIdent(n))
	}
	return out
}

// ---- expansion of one call

func (in *inliner) skip(why string) ([]ast.Stmt, []string, bool) {
	in.stats.Skipped[why]++
	return nil, nil, false
}

func (in *inliner) expand(call *ast.CallExpr, fn *types.Func, recvExpr ast.Expr, stack []*types.Func, depth int) ([]ast.Stmt, []string, bool) {
	if depth > 3 {
		return in.skip("depth")
	}
	decl := in.decls[fn]
	sig := fn.Type().(*types.Signature)
	if call.Ellipsis.IsValid() && !sig.Variadic() {
		return in.skip("ellipsis")
	}
	if hasDefer(decl.Body) && !(in.curTail && depth == 0) {
		return in.skip("deferring callee not in tail position")
	}
	suffix := in.fresh("")
	var pre []ast.Stmt   // result temporaries, in the caller's scope
	var bind []ast.Stmt  // receiver / parameter bindings, inside the block
	var results []string // names of the result temporaries
	declVar := func(name string, t types.Type, val ast.Expr) (ast.Stmt, bool) {
		// when the bound expression already has exactly the wanted type (and is not a constant, whose recorded type is
		// the converted one) a short declaration avoids spelling the type, which a local of the same name could shadow
		if val != nil {
			if vt := in.typeOf(val); vt != nil && types.Identical(vt, t) && !in.isConstExpr(val) {
				if _, isTuple := vt.(*types.Tuple); !isTuple {
					return &ast.AssignStmt{Lhs: []ast.Expr{ast.NewIdent(name)}, Tok: token.DEFINE, Rhs: []ast.Expr{val}}, true
				}
			}
		}
		te, ok := in.typeExpr(t)
		if !ok {
			return nil, false
		}
		vs := &ast.ValueSpec{Names: []*ast.Ident{ast.NewIdent(name)}, Type: te}
		if val != nil {
			vs.Values = []ast.Expr{val}
		}
		return &ast.DeclStmt{Decl: &ast.GenDecl{Tok: token.VAR, Specs: []ast.Spec{vs}}}, true
	}
	use := func(name string) ast.Stmt {
		return &ast.AssignStmt{Lhs: []ast.Expr{ast.NewIdent("_")}, Tok: token.ASSIGN, Rhs: []ast.Expr{ast.NewIdent(name)}}
	}
	for k := 0; k < sig.Results().Len(); k++ {
		name := in.fresh("res")
		d, ok := declVar(name, sig.Results().At(k).Type(), nil)
		if !ok {
			return in.skip("result type not expressible")
		}
		pre = append(pre, d, use(name))
		results = append(results, name)
		in.tempType[name] = sig.Results().At(k).Type()
	}
	// object renaming table for the callee's own declarations
	ren := map[types.Object]string{}
	renameObj := func(o types.Object) string {
		if n, ok := ren[o]; ok {
			return n
		}
		n := strings.TrimLeft(o.Name(), "_")
		if n == "" {
			n = "v"
		}
		n = n + suffix
		ren[o] = n
		return n
	}
	// receiver
	if sig.Recv() != nil {
		if recvExpr == nil {
			return in.skip("method value")
		}
		sel := ast.Unparen(call.Fun).(*ast.SelectorExpr)
		if s, ok := in.info.Selections[in.rootSel(sel)]; ok {
			if s.Kind() != types.MethodVal {
				return in.skip("method expression")
			}
			if len(s.Index()) != 1 {
				return in.skip("promoted method")
			}
		} else if _, cloned := in.origSel[sel]; !cloned {
			return in.skip("no selection info")
		}
		rt := sig.Recv().Type()
		xt := in.typeOf(recvExpr)
		if xt == nil {
			return in.skip("receiver type unknown")
		}
		_, wantPtr := rt.Underlying().(*types.Pointer)
		_, havePtr := xt.Underlying().(*types.Pointer)
		if _, isIface := xt.Underlying().(*types.Interface); isIface {
			return in.skip("interface receiver")
		}
		rx := recvExpr
		if wantPtr && !havePtr {
			rx = &ast.UnaryExpr{Op: token.AND, X: recvExpr}
		} else if !wantPtr && havePtr {
			rx = &ast.StarExpr{X: recvExpr}
		}
		rname := "recv" + suffix
		if decl.Recv != nil && len(decl.Recv.List) == 1 && len(decl.Recv.List[0].Names) == 1 && decl.Recv.List[0].Names[0].Name != "_" {
			if o := in.info.Defs[decl.Recv.List[0].Names[0]]; o != nil {
				rname = renameObj(o)
			}
		}
		d, ok := declVar(rname, rt, rx)
		if !ok {
			return in.skip("receiver type not expressible")
		}
		bind = append(bind, d, use(rname))
	}
	// parameters
	var pobjs []types.Object
	for _, fld := range decl.Type.Params.List {
		if len(fld.Names) == 0 {
			pobjs = append(pobjs, nil)
			continue
		}
		for _, nm := range fld.Names {
			pobjs = append(pobjs, in.info.Defs[nm])
		}
	}
	np := sig.Params().Len()
	if len(pobjs) != np {
		return in.skip("parameter list mismatch")
	}
	args := call.Args
	if len(args) == 1 && np > 1 {
		return in.skip("tuple argument")
	}
	// a parameter that receives a function literal or a method value x.M (x a plain identifier) and is only ever called
	// in the callee is replaced by that expression at its call sites instead of being bound to a variable
	subst := map[types.Object]ast.Expr{}
	for k := 0; k < np && k < len(args); k++ {
		if pobjs[k] == nil || (sig.Variadic() && k == np-1) {
			continue
		}
		if _, isFn := sig.Params().At(k).Type().Underlying().(*types.Signature); !isFn {
			continue
		}
		okArg := false
		switch a := ast.Unparen(args[k]).(type) {
		case *ast.FuncLit:
			okArg = true
		case *ast.SelectorExpr:
			if _, isId := a.X.(*ast.Ident); isId {
				if _, isFunc := in.objOf(a.Sel).(*types.Func); isFunc {
					okArg = true
				}
			}
		}
		if !okArg {
			continue
		}
		uses, calls := 0, 0
		ast.Inspect(decl.Body, func(n ast.Node) bool {
			switch x := n.(type) {
			case *ast.Ident:
				if in.info.Uses[x] == pobjs[k] {
					uses++
				}
			case *ast.CallExpr:
				if id, ok := ast.Unparen(x.Fun).(*ast.Ident); ok && in.info.Uses[id] == pobjs[k] {
					calls++
				}
			}
			return true
		})
		if uses > 0 && uses == calls {
			subst[pobjs[k]] = args[k]
		}
	}
	for k := 0; k < np; k++ {
		if pobjs[k] != nil {
			if _, sub := subst[pobjs[k]]; sub {
				continue
			}
		}
		pt := sig.Params().At(k).Type()
		name := in.fresh("arg")
		if pobjs[k] != nil && pobjs[k].Name() != "_" {
			name = renameObj(pobjs[k])
		}
		var val ast.Expr
		if sig.Variadic() && k == np-1 {
			if call.Ellipsis.IsValid() {
				if len(args) != np {
					return in.skip("variadic shape")
				}
				val = args[k]
			} else {
				te, ok := in.typeExpr(pt)
				if !ok {
					return in.skip("parameter type not expressible")
				}
				if len(args) > k {
					val = &ast.CompositeLit{Type: te, Elts: append([]ast.Expr{}, args[k:]...)}
				}
			}
		} else {
			if k >= len(args) {
				return in.skip("argument count")
			}
			val = args[k]
		}
		d, ok := declVar(name, pt, val)
		if !ok {
			return in.skip("parameter type not expressible")
		}
		bind = append(bind, d, use(name))
	}
	// named results
	var named []string
	if decl.Type.Results != nil {
		for _, fld := range decl.Type.Results.List {
			for _, nm := range fld.Names {
				o := in.info.Defs[nm]
				if o == nil || nm.Name == "_" {
					named = append(named, "")
					continue
				}
				n := renameObj(o)
				d, ok := declVar(n, o.Type(), nil)
				if !ok {
					return in.skip("result type not expressible")
				}
				bind = append(bind, d, use(n))
				named = append(named, n)
			}
		}
	}
	if len(named) != 0 && len(named) != len(results) {
		return in.skip("named result shape")
	}
	for _, n := range named {
		if n == "" && len(named) > 0 {
			// blank named results with bare returns are not supported
			hasBare := false
			ast.Inspect(decl.Body, func(x ast.Node) bool {
				if _, isF := x.(*ast.FuncLit); isF {
					return false
				}
				if r, ok := x.(*ast.ReturnStmt); ok && len(r.Results) == 0 {
					hasBare = true
				}
				return true
			})
			if hasBare {
				return in.skip("blank named result with bare return")
			}
		}
	}
	// clone the body, renaming the callee's own objects and re-targeting package names
	okClone := true
	why := ""
	scope := in.pkg.Types.Scope().Innermost(in.sitePos)
	var declLo, declHi = decl.Pos(), decl.End()
	calleeFile := in.declFile[fn]
	// the symbolic variable of a type switch (`switch x := v.(type)`) has no object at its declaration and one implicit
	// object per clause, all positioned at the declaration: rename them together
	guardName := map[token.Pos]string{}
	ast.Inspect(decl.Body, func(n ast.Node) bool {
		if ts, ok := n.(*ast.TypeSwitchStmt); ok {
			if as, ok := ts.Assign.(*ast.AssignStmt); ok && as.Tok == token.DEFINE && len(as.Lhs) == 1 {
				if id, ok := as.Lhs[0].(*ast.Ident); ok && id.Name != "_" {
					guardName[id.Pos()] = id.Name + suffix
				}
			}
		}
		return true
	})
	mapIdent := func(old *ast.Ident, neu *ast.Ident) {
		in.orig[neu] = old
		if old.Name == "_" {
			return
		}
		if gn, ok := guardName[in.rootIdent(old).Pos()]; ok {
			neu.Name = gn
			return
		}
		o := in.objOf(old)
		if o == nil {
			return
		}
		if gn, ok := guardName[o.Pos()]; ok {
			if _, isVar := o.(*types.Var); isVar {
				neu.Name = gn
				return
			}
		}
		switch ob := o.(type) {
		case *types.PkgName:
			alias, ok := in.importAlias(ob.Imported())
			if !ok {
				okClone, why = false, "import not expressible"
				return
			}
			neu.Name = alias
			return
		case *types.Label:
			neu.Name = renameObj(o)
			return
		case *types.Var:
			if ob.IsField() {
				return
			}
		}
		if o.Pkg() == nil {
			// universe: must not be shadowed at the call site
			if scope != nil {
				if _, found := scope.LookupParent(o.Name(), in.sitePos); found != nil && found != o {
					okClone, why = false, "universe name shadowed at call site"
				}
			}
			return
		}
		if o.Pos() >= declLo && o.Pos() < declHi && o.Parent() != in.pkg.Types.Scope() {
			neu.Name = renameObj(o)
			return
		}
		if o.Parent() == o.Pkg().Scope() && o.Pkg() == in.pkg.Types {
			// package-level object of this package: must resolve identically at the call site
			if scope != nil {
				if _, found := scope.LookupParent(o.Name(), in.sitePos); found != o {
					okClone, why = false, "package-level name shadowed at call site"
				}
			}
		}
	}
	_ = calleeFile
	body := in.clone(decl.Body, mapIdent).(*ast.BlockStmt)
	if !okClone {
		return in.skip(why)
	}
	if len(subst) > 0 {
		first := map[types.Object]bool{}
		ast.Inspect(body, func(n ast.Node) bool {
			cx, ok := n.(*ast.CallExpr)
			if !ok {
				return true
			}
			id, ok := ast.Unparen(cx.Fun).(*ast.Ident)
			if !ok {
				return true
			}
			o := in.objOf(id)
			e, ok := subst[o]
			if !ok {
				return true
			}
			if first[o] {
				e = in.clone(e, func(old, neu *ast.Ident) { in.orig[neu] = old }).(ast.Expr)
			}
			first[o] = true
			if _, isLit := ast.Unparen(e).(*ast.FuncLit); isLit {
				cx.Fun = &ast.ParenExpr{X: e}
			} else {
				cx.Fun = e
			}
			return true
		})
	}
	// rewrite returns
	label := "ret" + suffix
	var usedLabel bool
	body.List, usedLabel = rewriteReturns(body.List, results, named, label)
	// a function with results always ends in a terminating statement, so falling out of the switch means "returned"
	// nested inlining inside the cloned body
	body.List = in.stmts(body.List, append(append([]*types.Func{}, stack...), fn), depth+1)
	var inner ast.Stmt = body
	if usedLabel {
		inner = &ast.LabeledStmt{Label: ast.NewIdent(label), Stmt: &ast.SwitchStmt{Body: &ast.BlockStmt{List: []ast.Stmt{&ast.CaseClause{Body: body.List}}}}}
	}
	blk := &ast.BlockStmt{List: append(bind, inner)}
	return append(pre, blk), results, true
}

// isConstExpr: the expression is a compile-time constant (or nil).
func (in *inliner) isConstExpr(e ast.Expr) bool {
	if tv, ok := in.info.Types[in.rootExpr(e)]; ok {
		return tv.Value != nil || tv.IsNil()
	}
	switch x := ast.Unparen(e).(type) {
	case *ast.BasicLit:
		return true
	case *ast.Ident:
		if o := in.objOf(x); o != nil {
			if _, isC := o.(*types.Const); isC {
				return true
			}
			if _, isN := o.(*types.Nil); isN {
				return true
			}
		}
		return x.Name == "nil" || x.Name == "true" || x.Name == "false"
	}
	return false
}

func (in *inliner) rootSel(s *ast.SelectorExpr) *ast.SelectorExpr {
	for {
		o, ok := in.origSel[s]
		if !ok {
			return s
		}
		s = o
	}
}

// importAlias returns the name under which pkg is (or will be) imported in the current file.
func (in *inliner) importAlias(pkg *types.Package) (string, bool) {
	path := pkg.Path()
	for _, im := range in.file.Imports {
		if strings.Trim(im.Path.Value, `"`) != path {
			continue
		}
		if im.Name == nil {
			return pkg.Name(), true
		}
		if im.Name.Name == "_" || im.Name.Name == "." {
			return "", false
		}
		return im.Name.Name, true
	}
	if a, ok := in.newImport[path]; ok {
		return a, true
	}
	a := fmt.Sprintf("%s_inlimp%d", pkg.Name(), len(in.newImport)+1)
	in.newImport[path] = a
	return a, true
}

// typeExpr renders a type as an expression valid in the current file.
func (in *inliner) typeExpr(t types.Type) (ast.Expr, bool) {
	ok := true
	s := types.TypeString(t, func(p *types.Package) string {
		if p == in.pkg.Types {
			return ""
		}
		a, good := in.importAlias(p)
		if !good {
			ok = false
		}
		return a
	})
	if !ok {
		return nil, false
	}
	// unexported names of other packages cannot be written here
	bad := false
	var walk func(t types.Type, depth int)
	walk = func(t types.Type, depth int) {
		if depth > 6 || bad {
			return
		}
		switch x := t.(type) {
		case *types.Named:
			if x.Obj().Pkg() != nil && x.Obj().Pkg() != in.pkg.Types && !x.Obj().Exported() {
				bad = true
			}
			if x.Obj().Pkg() == in.pkg.Types && x.Obj().Parent() != in.pkg.Types.Scope() {
				bad = true // function-local type
			}
			if x.Obj().Pkg() == in.pkg.Types && in.sitePos.IsValid() {
				if sc := in.pkg.Types.Scope().Innermost(in.sitePos); sc != nil {
					if _, found := sc.LookupParent(x.Obj().Name(), in.sitePos); found != nil && found != types.Object(x.Obj()) {
						bad = true // the type's name is shadowed at the call site
					}
				}
			}
		case *types.Pointer:
			walk(x.Elem(), depth+1)
		case *types.Slice:
			walk(x.Elem(), depth+1)
		case *types.Array:
			walk(x.Elem(), depth+1)
		case *types.Map:
			walk(x.Key(), depth+1)
			walk(x.Elem(), depth+1)
		case *types.Chan:
			walk(x.Elem(), depth+1)
		case *types.Signature:
			for i := 0; i < x.Params().Len(); i++ {
				walk(x.Params().At(i).Type(), depth+1)
			}
			for i := 0; i < x.Results().Len(); i++ {
				walk(x.Results().At(i).Type(), depth+1)
			}
		case *types.Struct:
			for i := 0; i < x.NumFields(); i++ {
				walk(x.Field(i).Type(), depth+1)
			}
		}
	}
	walk(t, 0)
	if bad {
		return nil, false
	}
	e, err := parser.ParseExpr(s)
	if err != nil {
		return nil, false
	}
	stripPos(e)
	return e, true
}

func stripPos(n ast.Node) {
	ast.Inspect(n, func(x ast.Node) bool {
		if x == nil {
			return false
		}
		v := reflect.ValueOf(x)
		if v.Kind() == reflect.Ptr && !v.IsNil() {
			v = v.Elem()
			for i := 0; i < v.NumField(); i++ {
				f := v.Field(i)
				if f.Type() == reflect.TypeOf(token.NoPos) && f.CanSet() {
					f.SetInt(0)
				}
			}
		}
		return true
	})
}

// ---- cloning

var posType = reflect.TypeOf(token.NoPos)

// clone deep-copies an AST subtree without positions (comments are dropped) and records provenance of identifiers, calls and selectors.
func (in *inliner) clone(n ast.Node, mapIdent func(old, neu *ast.Ident)) ast.Node {
	v := in.cloneValue(reflect.ValueOf(n), mapIdent)
	return v.Interface().(ast.Node)
}

func (in *inliner) cloneValue(v reflect.Value, mapIdent func(old, neu *ast.Ident)) reflect.Value {
	switch v.Kind() {
	case reflect.Interface:
		if v.IsNil() {
			return v
		}
		c := in.cloneValue(v.Elem(), mapIdent)
		out := reflect.New(v.Type()).Elem()
		out.Set(c)
		return out
	case reflect.Ptr:
		if v.IsNil() {
			return v
		}
		switch x := v.Interface().(type) {
		case *ast.Object, *ast.Scope:
			return reflect.Zero(v.Type())
		case *ast.CommentGroup:
			return reflect.Zero(v.Type())
		case *ast.Ident:
			neu := &ast.Ident{Name: x.Name}
			mapIdent(x, neu)
			return reflect.ValueOf(neu)
		}
		out := reflect.New(v.Type().Elem())
		src := v.Elem()
		for i := 0; i < src.NumField(); i++ {
			f := src.Field(i)
			if !out.Elem().Field(i).CanSet() {
				continue
			}
			if f.Type() == posType {
				// keep "is valid" information where syntax depends on it (ellipsis, parens of composite calls) as NoPos+1
				name := src.Type().Field(i).Name
				if f.Int() != 0 && (name == "Ellipsis" || name == "Lparen" || name == "Rparen" || name == "Lbrace" || name == "Rbrace" || name == "Lbrack" || name == "Rbrack" || name == "Arrow") {
					out.Elem().Field(i).SetInt(1)
				}
				continue
			}
			out.Elem().Field(i).Set(in.cloneValue(f, mapIdent))
		}
		switch x := v.Interface().(type) {
		case *ast.CallExpr:
			in.origCall[out.Interface().(*ast.CallExpr)] = x
		case *ast.SelectorExpr:
			in.origSel[out.Interface().(*ast.SelectorExpr)] = x
		}
		if e, ok := v.Interface().(ast.Expr); ok {
			in.origExpr[out.Interface().(ast.Expr)] = e
		}
		return out
	case reflect.Slice:
		if v.IsNil() {
			return v
		}
		out := reflect.MakeSlice(v.Type(), v.Len(), v.Len())
		for i := 0; i < v.Len(); i++ {
			out.Index(i).Set(in.cloneValue(v.Index(i), mapIdent))
		}
		return out
	}
	return v
}

// ---- rendering

// render prints the transformed file: the original bytes up to the package clause (build constraints, licence), then
// the declarations without comments, with the additional imports.
func (in *inliner) render(f *ast.File, src []byte) ([]byte, error) {
	if len(in.newImport) > 0 {
		var specs []ast.Spec
		var paths []string
		for p := range in.newImport {
			paths = append(paths, p)
		}
		sort.Strings(paths)
		for _, p := range paths {
			specs = append(specs, &ast.ImportSpec{Name: ast.NewIdent(in.newImport[p]), Path: &ast.BasicLit{Kind: token.STRING, Value: `"` + p + `"`}})
		}
		gd := &ast.GenDecl{Tok: token.IMPORT, Lparen: 1, Specs: specs, Rparen: 1}
		// after the existing import declarations
		idx := 0
		for i, d := range f.Decls {
			if g, ok := d.(*ast.GenDecl); ok && g.Tok == token.IMPORT {
				idx = i + 1
			}
		}
		f.Decls = append(f.Decls[:idx], append([]ast.Decl{gd}, f.Decls[idx:]...)...)
	}
	fset := in.pkg.Fset
	pkgOff := fset.Position(f.Package).Offset
	if pkgOff < 0 || pkgOff > len(src) {
		return nil, fmt.Errorf("package clause offset")
	}
	// keep compiler directives that precede declarations (//go:linkname etc. are irrelevant to type checking; drop all)
	f.Doc = nil
	f.Comments = nil
	// positions of untouched nodes are kept: remove them all so that the printer lays the file out afresh
	var buf bytes.Buffer
	buf.Write(src[:pkgOff])
	cfg := printer.Config{Mode: printer.UseSpaces | printer.TabIndent, Tabwidth: 8}
	clean := in.clone(f, func(old, neu *ast.Ident) {}).(*ast.File)
	if err := cfg.Fprint(&buf, token.NewFileSet(), clean); err != nil {
		return nil, err
	}
	return buf.Bytes(), nil
}

// rewriteReturns replaces the return statements of an inlined body (outside nested function literals) by assignments to
// the result temporaries followed by a break out of the enclosing labelled switch.
func rewriteReturns(list []ast.Stmt, results, named []string, label string) ([]ast.Stmt, bool) {
	usedLabel := false
	var rewriteList func(list []ast.Stmt) []ast.Stmt
	var rewriteStmt func(s ast.Stmt) []ast.Stmt
	mkReturn := func(r *ast.ReturnStmt) []ast.Stmt {
		var out []ast.Stmt
		n := len(results)
		switch {
		case n == 0:
		case len(r.Results) == 0:
			var rhs []ast.Expr
			for _, nm := range named {
				rhs = append(rhs, ast.NewIdent(nm))
			}
			out = append(out, &ast.AssignStmt{Lhs: identExprs(results), Tok: token.ASSIGN, Rhs: rhs})
		default:
			out = append(out, &ast.AssignStmt{Lhs: identExprs(results), Tok: token.ASSIGN, Rhs: r.Results})
		}
		usedLabel = true
		out = append(out, &ast.BranchStmt{Tok: token.BREAK, Label: ast.NewIdent(label)})
		return out
	}
	rewriteStmt = func(s ast.Stmt) []ast.Stmt {
		switch x := s.(type) {
		case *ast.ReturnStmt:
			return mkReturn(x)
		case *ast.BlockStmt:
			x.List = rewriteList(x.List)
		case *ast.IfStmt:
			x.Body.List = rewriteList(x.Body.List)
			if x.Else != nil {
				r := rewriteStmt(x.Else)
				if len(r) == 1 {
					x.Else = r[0]
				} else {
					x.Else = &ast.BlockStmt{List: r}
				}
			}
		case *ast.ForStmt:
			x.Body.List = rewriteList(x.Body.List)
		case *ast.RangeStmt:
			x.Body.List = rewriteList(x.Body.List)
		case *ast.SwitchStmt:
			for _, c := range x.Body.List {
				cc := c.(*ast.CaseClause)
				cc.Body = rewriteList(cc.Body)
			}
		case *ast.TypeSwitchStmt:
			for _, c := range x.Body.List {
				cc := c.(*ast.CaseClause)
				cc.Body = rewriteList(cc.Body)
			}
		case *ast.SelectStmt:
			for _, c := range x.Body.List {
				cc := c.(*ast.CommClause)
				cc.Body = rewriteList(cc.Body)
			}
		case *ast.LabeledStmt:
			r := rewriteStmt(x.Stmt)
			if len(r) == 1 {
				x.Stmt = r[0]
			} else {
				x.Stmt = &ast.BlockStmt{List: r}
			}
		}
		return []ast.Stmt{s}
	}
	rewriteList = func(list []ast.Stmt) []ast.Stmt {
		var out []ast.Stmt
		for _, s := range list {
			out = append(out, rewriteStmt(s)...)
		}
		return out
	}
	return rewriteList(list), usedLabel
}

// expandLit inlines an immediately invoked function literal `func(params) results { body }(args)`.
func (in *inliner) expandLit(call *ast.CallExpr, lit *ast.FuncLit, stack []*types.Func, depth int) ([]ast.Stmt, []string, bool) {
	if depth > 5 {
		return in.skip("depth")
	}
	sig, _ := in.typeOf(lit).(*types.Signature)
	if sig == nil {
		return in.skip("literal signature unknown")
	}
	if sig.Variadic() || call.Ellipsis.IsValid() {
		return in.skip("variadic literal")
	}
	if !inlinableBody(lit.Body) {
		return in.skip("literal body not inlinable")
	}
	if hasDefer(lit.Body) && !(in.curTail && depth == 0) {
		return in.skip("deferring literal not in tail position")
	}
	if len(call.Args) != sig.Params().Len() {
		return in.skip("literal argument count")
	}
	suffix := in.fresh("")
	var pre, outer, inner []ast.Stmt
	var results []string
	declVar := func(name string, t types.Type, val ast.Expr) (ast.Stmt, bool) {
		// when the bound expression already has exactly the wanted type (and is not a constant, whose recorded type is
		// the converted one) a short declaration avoids spelling the type, which a local of the same name could shadow
		if val != nil {
			if vt := in.typeOf(val); vt != nil && types.Identical(vt, t) && !in.isConstExpr(val) {
				if _, isTuple := vt.(*types.Tuple); !isTuple {
					return &ast.AssignStmt{Lhs: []ast.Expr{ast.NewIdent(name)}, Tok: token.DEFINE, Rhs: []ast.Expr{val}}, true
				}
			}
		}
		te, ok := in.typeExpr(t)
		if !ok {
			return nil, false
		}
		vs := &ast.ValueSpec{Names: []*ast.Ident{ast.NewIdent(name)}, Type: te}
		if val != nil {
			vs.Values = []ast.Expr{val}
		}
		return &ast.DeclStmt{Decl: &ast.GenDecl{Tok: token.VAR, Specs: []ast.Spec{vs}}}, true
	}
	use := func(name string) ast.Stmt {
		return &ast.AssignStmt{Lhs: []ast.Expr{ast.NewIdent("_")}, Tok: token.ASSIGN, Rhs: []ast.Expr{ast.NewIdent(name)}}
	}
	for k := 0; k < sig.Results().Len(); k++ {
		name := in.fresh("res")
		d, ok := declVar(name, sig.Results().At(k).Type(), nil)
		if !ok {
			return in.skip("result type not expressible")
		}
		pre = append(pre, d, use(name))
		results = append(results, name)
		in.tempType[name] = sig.Results().At(k).Type()
	}
	// arguments are evaluated into temporaries first (their expressions must not see the literal's parameter names)
	k := 0
	for _, fld := range lit.Type.Params.List {
		names := fld.Names
		if len(names) == 0 {
			names = []*ast.Ident{nil}
		}
		for _, nm := range names {
			pt := sig.Params().At(k).Type()
			tmp := in.fresh("arg")
			d, ok := declVar(tmp, pt, call.Args[k])
			if !ok {
				return in.skip("parameter type not expressible")
			}
			outer = append(outer, d, use(tmp))
			in.tempType[tmp] = pt
			if nm != nil && nm.Name != "_" {
				d2, _ := declVar(nm.Name, pt, ast.NewIdent(tmp))
				inner = append(inner, d2, use(nm.Name))
			}
			k++
		}
	}
	var named []string
	if lit.Type.Results != nil {
		k := 0
		for _, fld := range lit.Type.Results.List {
			for _, nm := range fld.Names {
				if nm.Name == "_" {
					return in.skip("blank named result in literal")
				}
				d, ok := declVar(nm.Name, sig.Results().At(k).Type(), nil)
				if !ok {
					return in.skip("result type not expressible")
				}
				inner = append(inner, d, use(nm.Name))
				named = append(named, nm.Name)
				k++
			}
		}
	}
	label := "ret" + suffix
	body := lit.Body
	var usedLabel bool
	body.List, usedLabel = rewriteReturns(body.List, results, named, label)
	body.List = in.stmts(body.List, stack, depth+1)
	var core ast.Stmt = &ast.BlockStmt{List: body.List}
	if usedLabel {
		core = &ast.LabeledStmt{Label: ast.NewIdent(label), Stmt: &ast.SwitchStmt{Body: &ast.BlockStmt{List: []ast.Stmt{&ast.CaseClause{Body: body.List}}}}}
	}
	innerBlk := &ast.BlockStmt{List: append(inner, core)}
	blk := &ast.BlockStmt{List: append(outer, innerBlk)}
	in.stats.Functions["(function literal)"]++
	return append(pre, blk), results, true
}
