package main

import (
	"reflect"
	"fmt"
	"go/constant"
	"go/token"
	"go/types"
	"sort"
	"strings"

	"golang.org/x/tools/go/ssa"
)

func init() { register("C09", c09) }

var kindNames = map[int64]string{1: "Bool", 17: "Array", 18: "Chan", 19: "Func", 20: "Interface", 21: "Map", 22: "Ptr", 23: "Slice", 24: "String", 25: "Struct", 26: "UnsafePointer"}

// kindTest: is cond "X.Kind() == k" ? returns k.
func kindTest(cond ssa.Value) (int64, ssa.Value, bool) {
	bo, ok := cond.(*ssa.BinOp)
	if !ok || bo.Op != token.EQL {
		return 0, nil, false
	}
	x, y := bo.X, bo.Y
	if _, isC := x.(*ssa.Const); isC {
		x, y = y, x
	}
	k, ok := constInt(y)
	if !ok {
		return 0, nil, false
	}
	nt, ok := x.Type().(*types.Named)
	if !ok || nt.Obj().Pkg() == nil || nt.Obj().Pkg().Path() != "reflect" || nt.Obj().Name() != "Kind" {
		return 0, nil, false
	}
	return k, x, true
}

// kindsInto collects the reflect.Kind constants whose equality test branches (true edge) into block b,
// following non-kind conjunct blocks backwards.
func kindsInto(b *ssa.BasicBlock) map[int64]bool {
	out := map[int64]bool{}
	seen := map[*ssa.BasicBlock]bool{}
	var walk func(b *ssa.BasicBlock)
	walk = func(b *ssa.BasicBlock) {
		if seen[b] {
			return
		}
		seen[b] = true
		for _, p := range b.Preds {
			iff, ok := p.Instrs[len(p.Instrs)-1].(*ssa.If)
			if !ok {
				// unconditional edge: a switch-case body reached by jump; look through empty forwarding blocks
				if len(p.Instrs) == 1 {
					walk(p)
				}
				continue
			}
			if p.Succs[0] != b {
				continue
			}
			if k, _, ok := kindTest(iff.Cond); ok {
				out[k] = true
			} else if ks, ok := kindsOfCond(iff.Cond, 0); ok {
				for k := range ks {
					out[k] = true
				}
			} else {
				walk(p)
			}
		}
	}
	walk(b)
	return out
}

// kindPredicate: cond is a call of a module function taking one reflect.Kind and returning bool; the result is the set of
// kinds for which some `return true` is reachable only through an equality test with that kind.
func kindPredicate(cond ssa.Value) map[int64]bool {
	out := map[int64]bool{}
	if lk, isLk := cond.(*ssa.Lookup); isLk && !lk.CommaOk {
		return kindTable(lk)
	}
	cl, ok := cond.(*ssa.Call)
	if !ok {
		return out
	}
	cal := staticCallee(cl.Common())
	if cal == nil || cal.Blocks == nil || !strings.HasPrefix(pkgPathOf(cal), Mod) || len(cal.Params) != 1 || cal.Signature.Results().Len() != 1 || !isBool(cal.Signature.Results().At(0).Type()) {
		return out
	}
	if nt, ok := cal.Params[0].Type().(*types.Named); !ok || nt.Obj().Pkg() == nil || nt.Obj().Pkg().Path() != "reflect" || (nt.Obj().Name() != "Kind" && nt.Obj().Name() != "Type") {
		return out
	}
	for _, ret := range returnsOf(cal) {
		c, isC := retResult(ret, 0).(*ssa.Const)
		if !isC || c.Value == nil || !constant.BoolVal(c.Value) {
			if !isC {
				return map[int64]bool{} // computed result: not a plain membership predicate
			}
			continue
		}
		ks := kindsInto(ret.Block())
		if len(ks) == 0 {
			return map[int64]bool{} // returns true without a kind test
		}
		for k := range ks {
			out[k] = true
		}
	}
	return out
}

// kindsOfCond: the kinds for which a boolean value built from kind tests is true: a kind test itself, or the phi go/ssa
// makes of `k == A || k == B` used as a value (true from the edge where the earlier test held, else the last test).
func kindsOfCond(cond ssa.Value, depth int) (map[int64]bool, bool) {
	if depth > 4 {
		return nil, false
	}
	if k, _, ok := kindTest(cond); ok {
		return map[int64]bool{k: true}, true
	}
	ph, ok := resolveLocal(cond).(*ssa.Phi)
	if !ok || !isBool(ph.Type()) {
		return nil, false
	}
	out := map[int64]bool{}
	for i, e := range ph.Edges {
		if c, isC := e.(*ssa.Const); isC && c.Value != nil {
			if !constant.BoolVal(c.Value) {
				continue
			}
			// true on this edge: the predecessor must have branched here on a kind test (or a nested such value)
			pred := ph.Block().Preds[i]
			found := false
			for hops := 0; hops < 3 && pred != nil; hops++ {
				if iff, isIf := pred.Instrs[len(pred.Instrs)-1].(*ssa.If); isIf {
					if ks, ok := kindsOfCond(iff.Cond, depth+1); ok {
						for k := range ks {
							out[k] = true
						}
						found = true
					}
					break
				}
				if len(pred.Preds) == 1 && len(pred.Instrs) <= 2 {
					pred = pred.Preds[0]
					continue
				}
				break
			}
			if !found {
				return nil, false
			}
			continue
		}
		ks, ok := kindsOfCond(e, depth+1)
		if !ok {
			return nil, false
		}
		for k := range ks {
			out[k] = true
		}
	}
	return out, len(out) > 0
}

// nilArmReached: block target of converter f is reached when the supplied interface is nil and the declared type's kind is k.
func nilArmReached(f *ssa.Function, target *ssa.BasicBlock, k int64) bool {
	isTypeP := func(v ssa.Value) bool {
		pr, ok := v.(*ssa.Parameter)
		return ok && pr.Parent() == f && strings.HasSuffix(pr.Type().String(), "reflect.Type")
	}
	// a Kind() of the declared type, or the type itself
	ofDeclared := func(v ssa.Value) bool {
		v = resolveLocal(v)
		if isTypeP(v) {
			return true
		}
		c, ok := v.(*ssa.Call)
		return ok && c.Call.IsInvoke() && c.Call.Method.Name() == "Kind" && isTypeP(resolveLocal(c.Call.Value))
	}
	assign := map[ssa.Value]bool{}
	eachInstr(f, func(i ssa.Instruction) {
		v, ok := i.(ssa.Value)
		if !ok || !isBool(v.Type()) {
			return
		}
		switch x := v.(type) {
		case *ssa.BinOp:
			if x.Op != token.EQL && x.Op != token.NEQ {
				return
			}
			var other ssa.Value
			if isNilConst(x.Y) {
				other = x.X
			} else if isNilConst(x.X) {
				other = x.Y
			}
			if pr, ok := other.(*ssa.Parameter); ok && types.IsInterface(pr.Type()) && !isTypeP(pr) {
				assign[v] = x.Op == token.EQL
				return
			}
			a, b := x.X, x.Y
			if _, isC := a.(*ssa.Const); isC {
				a, b = b, a
			}
			if kc, ok := constInt(b); ok && ofDeclared(a) && !isTypeP(resolveLocal(a)) {
				assign[v] = (kc == k) == (x.Op == token.EQL)
			}
		case *ssa.Call:
			if len(x.Call.Args) == 1 && !x.Call.IsInvoke() && ofDeclared(x.Call.Args[0]) {
				if ks := kindPredicate(x); len(ks) > 0 {
					assign[v] = ks[k]
				}
			}
		case *ssa.Lookup:
			if !x.CommaOk && ofDeclared(x.Index) {
				if ks := kindTable(x); len(ks) > 0 {
					assign[v] = ks[k]
				}
			}
		}
	})
	blocked := func(cond ssa.Value) bool { return dependsOn(cond, isTypeP) }
	return reachableUnderBlocked(f, assign, blocked)[target]
}

func kindSetString(m map[int64]bool) string {
	var s []string
	for k := range m {
		n := kindNames[k]
		if n == "" {
			n = fmt.Sprint(k)
		}
		s = append(s, n)
	}
	sort.Strings(s)
	return "{" + strings.Join(s, ",") + "}"
}

// isSizeEqGuard: cond compares two Size() results; returns the polarity that means "equal".
func isSizeCompare(cond ssa.Value) (eqWhen bool, ok bool) {
	bo, isB := cond.(*ssa.BinOp)
	if !isB || (bo.Op != token.EQL && bo.Op != token.NEQ) {
		return false, false
	}
	isSize := func(v ssa.Value) bool {
		c, ok := v.(*ssa.Call)
		return ok && strings.HasSuffix(calleeName(c.Common()), ".Size")
	}
	if isSize(bo.X) && isSize(bo.Y) {
		return bo.Op == token.EQL, true
	}
	return false, false
}

func c09(c *Ctx) {
	p, r := c.K1(), c.R
	// R7: values given to When are compared exactly (C18.R5): no integer is compared through float64
	if !c.importing {
		importSibling(c, "C18", "C09.R7", func(rule string) bool { return rule == "C18.R5" || rule == "C18.R4" || rule == "C18.R1" })
	}
	r.Expl = "Structural clauses behind 'stubbed values are typed as the function declares': the nil→typed-zero arm of the value converter tests every nilable kind the property names (pointer, interface, slice, map, chan, func) under r==nil; Zero/New are typed by the declared type; the unsafe retyping helper and every pass-through return are dominated by a size-equality check; conversion errors are never dropped by callers; the back-conversion maps exactly zero pointer/interface values to untyped nil. DeepEqual-level fidelity of delivered values is not decided."
	r.RuleText = "one obligation per (rule, converter function / call site / return edge)"
	r.Floor("C09.R1", 1)
	r.Floor("C09.R2", 2)
	r.Floor("C09.R3", 2)
	r.Floor("C09.R4", 3)
	r.Floor("C09.R5", 1)
	r.Floor("C09.R6", 1)
	argFns := p.FuncsIn("arg")
	needNil := []int64{22, 20, 23, 21, 18, 19}
	// converter = functions of package arg that call reflect.Zero and have a reflect.Type parameter
	var convs []*ssa.Function
	for _, f := range argFns {
		if len(callsTo(f, "reflect.Zero")) > 0 {
			convs = append(convs, f)
		}
	}
	typeParam := func(f *ssa.Function) func(ssa.Value) bool {
		return func(v ssa.Value) bool {
			pr, ok := v.(*ssa.Parameter)
			return ok && pr.Parent() == f && strings.HasSuffix(pr.Type().String(), "reflect.Type")
		}
	}
	for _, f := range convs {
		for _, z := range callsTo(f, "reflect.Zero") {
			b := z.Block()
			// under r == nil
			underNil := false
			for _, g := range guardsAt(b) {
				if bo, ok := g.Cond.(*ssa.BinOp); ok && (bo.Op == token.EQL || bo.Op == token.NEQ) {
					var other ssa.Value
					if isNilConst(bo.Y) {
						other = bo.X
					} else if isNilConst(bo.X) {
						other = bo.Y
					}
					if pr, ok := other.(*ssa.Parameter); ok && types.IsInterface(pr.Type()) {
						if (bo.Op == token.EQL) == g.Pol {
							underNil = true
						}
					}
				}
			}
			ks := kindsInto(b)
			for _, g := range guardsAt(b) {
				if !g.Pol {
					continue
				}
				for k := range kindPredicate(g.Cond) {
					ks[k] = true
				}
			}
			missing := []string{}
			for _, k := range needNil {
				if !ks[k] {
					missing = append(missing, kindNames[k])
				}
			}
			if len(missing) > 0 {
				// path-sensitive form: with the input nil and the declared kind fixed to k, the substitution is reached
				// whatever the conditions that do not depend on the declared type turn out to be (conditions on the
				// type that cannot be evaluated block the path)
				still := []string{}
				for _, k := range needNil {
					if !nilArmReached(f, z.Block(), k) {
						still = append(still, kindNames[k])
					}
				}
				if len(still) == 0 {
					for _, k := range needNil {
						ks[k] = true
					}
				}
				missing = still
			}
			cons := "nil arm of " + shortName(f)
			if !underNil {
				r.Bad("C09.R1", cons, p.Pos(posOf(z)), "the typed-zero substitution is not confined to the untyped nil input (no dominating `value == nil` test on the supplied interface): a typed nil or other value given for an interface-typed result/parameter is replaced by the nil interface and loses its dynamic type")
				continue
			}
			r.Check(len(missing) == 0, "C09.R1", cons, p.Pos(posOf(z)), "nil arm covers "+kindSetString(ks),
				"nil is not converted to the typed zero value for kind(s) "+strings.Join(missing, ",")+" (arm covers "+kindSetString(ks)+"): Return(nil)/When(nil) for such a result/parameter panics or yields an invalid value")
		}
		// R2 typed by declared type
		for _, cl := range callsTo(f, "reflect.Zero", "reflect.New") {
			a := callCommon(cl).Args[0]
			fromOut := dependsOn(a, typeParam(f))
			fromVal := dependsOn(a, func(v ssa.Value) bool {
				c, ok := v.(*ssa.Call)
				return ok && calleeName(c.Common()) == "(reflect.Value).Type"
			})
			r.Check(fromOut && !fromVal, "C09.R2", calleeName(callCommon(cl))+" in "+shortName(f), p.Pos(posOf(cl)), "typed by the declared type parameter",
				"the zero/boxing cell is not typed by the declared result/parameter type")
		}
	}
	if len(convs) == 0 {
		r.Und("C09.R1", "converter", "", "no function in package arg calls reflect.Zero: converter not found")
	}
	casters := checkSizeGuards(p, r, "C09.R3", convs)
	c09Boxing(p, r, convs)
	// R6: the retyping helper swaps only the type word: data pointer and flag word of the original value are kept
	for _, cf := range casters {
		okShape := false
		why := "the result is not rebuilt from a (type, pointer, flag) triple"
		nRet, nGood := 0, 0
		for _, ret := range returnsOf(cf) {
			nRet++
			rv := retResult(ret, 0)
			// result = *(*reflect.Value)(unsafe.Pointer(&hack.Value{...})) : a load through a converted pointer to a local triple
			ld, ok := rv.(*ssa.UnOp)
			if !ok {
				why = "some return hands back a value that is not rebuilt from a (type, pointer, flag) triple (at " + p.Pos(posOf(ret)) + ")"
				continue
			}
			var lit *ssa.Alloc
			cur := ld.X
			for k := 0; k < 4; k++ {
				if cv, ok := cur.(*ssa.Convert); ok {
					cur = cv.X
					continue
				}
				if a, ok := cur.(*ssa.Alloc); ok {
					lit = a
				}
				break
			}
			if lit == nil {
				continue
			}
			vals := map[string]ssa.Value{}
			for _, ref := range *lit.Referrers() {
				if fa, ok := ref.(*ssa.FieldAddr); ok {
					for _, r2 := range *fa.Referrers() {
						if st, ok := r2.(*ssa.Store); ok && st.Addr == ssa.Value(fa) {
							vals[fieldVar(fa.X.Type(), fa.Field).Name()] = st.Val
						}
					}
				}
			}
			// origin view: fields loaded through a pointer converted from the address of the value parameter
			fromOrigin := func(v ssa.Value, field string) bool {
				_, fv, ok := fieldRef(resolveLocal(v))
				if !ok || fv == nil || fv.Name() != field {
					return false
				}
				b, _, _ := fieldRef(resolveLocal(v))
				for k := 0; k < 4; k++ {
					if cv, ok := b.(*ssa.Convert); ok {
						b = cv.X
					}
				}
				a, ok := b.(*ssa.Alloc)
				if !ok {
					return false
				}
				for _, ref := range *a.Referrers() {
					if st, ok := ref.(*ssa.Store); ok && st.Addr == ssa.Value(a) && st.Val == ssa.Value(cf.Params[0]) {
						return true
					}
				}
				return false
			}
			// the triple may also start as a whole copy of the original value's header, of which only the type word is
			// overwritten afterwards
			wholeFromOrigin := false
			for _, ref := range *lit.Referrers() {
				st, ok := ref.(*ssa.Store)
				if !ok || st.Addr != ssa.Value(lit) {
					continue
				}
				if ld, ok := st.Val.(*ssa.UnOp); ok && ld.Op == token.MUL {
					b := ld.X
					for k := 0; k < 4; k++ {
						if cv, ok := b.(*ssa.Convert); ok {
							b = cv.X
						}
					}
					if a, ok := b.(*ssa.Alloc); ok {
						for _, r2 := range *a.Referrers() {
							if s2, ok := r2.(*ssa.Store); ok && s2.Addr == ssa.Value(a) && s2.Val == ssa.Value(cf.Params[0]) {
								wholeFromOrigin = true
							}
						}
					}
				}
			}
			okPtr := (vals["Ptr"] != nil && fromOrigin(vals["Ptr"], "Ptr")) || (vals["Ptr"] == nil && wholeFromOrigin)
			okFlag := (vals["Flag"] != nil && fromOrigin(vals["Flag"], "Flag")) || (vals["Flag"] == nil && wholeFromOrigin)
			okTyp := vals["Typ"] != nil && !fromOrigin(vals["Typ"], "Typ") && dependsOn(vals["Typ"], func(x ssa.Value) bool { return x == ssa.Value(cf.Params[1]) })
			if okPtr && okFlag && okTyp {
				okShape = true
				nGood++
			} else {
				why = "the rebuilt value does not take its data pointer and flag word from the original value and its type word from the target type"
			}
		}
		if nGood != nRet {
			okShape = false // every way out of the helper must preserve pointer and flag
		}
		r.Check(okShape, "C09.R6", "retyping helper "+shortName(cf)+" swaps only the type word", p.Pos(cf.Pos()), "Ptr and Flag copied from the original reflect.Value, Typ from the target type",
			"the unsafe retyping helper no longer preserves the original value's data pointer and flag word ("+why+"): values stored directly in the interface word (pointer-shaped structs) are dereferenced once too often or lose addressability")
	}
	// R2: a supplied value is taken as it is or rejected — never coerced: reflect's Convert turns an int into a one-rune
	// string, wraps negative numbers into unsigned ones and truncates silently; a value of another type is a mistake
	for _, f := range argFns {
		for _, cs := range callsTo(f, "(reflect.Value).Convert") {
			r.Bad("C09.R2", "value coerced with reflect.Value.Convert in "+shortName(f), p.Pos(posOf(cs)), "the value converter coerces a supplied value to the declared type with reflect's Convert instead of rejecting a value of another type: int→string yields a one-rune string, signed↔unsigned wraps, wider→narrower truncates — the stub delivers (or the condition matches) a different value than the one written in the test")
		}
	}
	// R4: conversion errors never dropped
	n := checkErrorsUsed(p, r, "C09.R4", func(callee *ssa.Function) bool { return relPkg(callee) == "arg" }, nil)
	r.Stat("arg_error_call_sites", n)
	// R5: V2I zero ptr/interface → untyped nil
	v2i := p.Fn("arg", "V2I")
	if v2i == nil {
		r.Und("C09.R5", "arg.V2I", "", "exported function V2I not found")
	} else {
		found := false
		// the zero test: a branch on a module predicate over the reflect.Value; the kinds that lead to it; on its true
		// side the element is nil — stored explicitly, or left as the zero value of a freshly made result — and the
		// boxed value is not stored
		var valueStores []*ssa.Store
		eachInstr(v2i, func(i ssa.Instruction) {
			if st, ok := i.(*ssa.Store); ok {
				if _, isIA := st.Addr.(*ssa.IndexAddr); isIA {
					for _, a := range origins(st.Val) {
						if cl, ok := a.V.(*ssa.Call); ok && calleeName(cl.Common()) == "(reflect.Value).Interface" {
							valueStores = append(valueStores, st)
						}
					}
				}
			}
		})
		eachInstr(v2i, func(i ssa.Instruction) {
			iff, ok := i.(*ssa.If)
			if !ok {
				return
			}
			cl, ok := iff.Cond.(*ssa.Call)
			if !ok {
				return
			}
			cal := staticCallee(cl.Common())
			if cal == nil || relPkg(cal) != "arg" || len(cal.Params) != 1 || !strings.HasSuffix(cal.Params[0].Type().String(), "reflect.Value") || !isBool(cal.Signature.Results().At(0).Type()) {
				return
			}
			found = true
			ks := kindsInto(iff.Block())
			for _, g := range guardsAt(iff.Block()) {
				if g.Pol {
					for k := range kindPredicate(g.Cond) {
						ks[k] = true
					}
				}
			}
			okK := len(ks) == 2 && ks[22] && ks[20]
			// from the true side, the boxed-value store is not reached in this iteration
			stop := map[*ssa.BasicBlock]bool{}
			for _, b := range v2i.Blocks {
				if b != iff.Block() && b.Dominates(iff.Block()) {
					stop[b] = true
				}
			}
			seenB := map[*ssa.BasicBlock]bool{}
			var reach func(b *ssa.BasicBlock)
			reach = func(b *ssa.BasicBlock) {
				if seenB[b] || stop[b] {
					return
				}
				seenB[b] = true
				for _, s := range b.Succs {
					reach(s)
				}
			}
			reach(iff.Block().Succs[0])
			okSkip := len(valueStores) > 0
			hasNil := false
			for _, vs := range valueStores {
				if seenB[vs.Block()] {
					okSkip = false
				}
				if ia, ok := vs.Addr.(*ssa.IndexAddr); ok {
					if _, isMk := resolveLocal(ia.X).(*ssa.MakeSlice); isMk {
						hasNil = true // a fresh result: untouched elements are nil
					}
				}
			}
			for b := range seenB {
				for _, ins := range b.Instrs {
					if st, ok := ins.(*ssa.Store); ok && isNilConst(st.Val) {
						if _, isIA := st.Addr.(*ssa.IndexAddr); isIA {
							hasNil = true
						}
					}
				}
			}
			r.Check(okK && okSkip && hasNil, "C09.R5", "nil mapping in arg.V2I", p.Pos(posOf(iff)), "zero Ptr/Interface map to untyped nil",
				"V2I maps kinds "+kindSetString(ks)+" to untyped nil (or boxes the zero value anyway); the property requires exactly {Interface,Ptr} (a nil error result must compare equal to nil, other kinds must keep their typed zero)")
		})
		if !found {
			r.Bad("C09.R5", "nil mapping in arg.V2I", p.Pos(v2i.Pos()), "V2I never maps a zero pointer/interface to untyped nil")
		}
	}
}

func edgeName(b *ssa.BasicBlock) string {
	if b == nil {
		return "direct"
	}
	return b.Comment
}

// checkErrorsUsed: for every call site in module code whose static callee satisfies sel and returns an error,
// the error result must have a use (be returned, compared, passed on). Returns the number of sites examined.
func checkErrorsUsed(p *Prog, r *Report, rule string, sel func(*ssa.Function) bool, inPkg func(string) bool) int {
	n := 0
	errT := types.Universe.Lookup("error").Type()
	for _, f := range p.Funcs {
		if inPkg != nil && !inPkg(relPkg(f)) {
			continue
		}
		eachInstr(f, func(i ssa.Instruction) {
			cl, ok := i.(*ssa.Call)
			if !ok {
				// go/defer discard results by construction
				if ci, ok := i.(ssa.CallInstruction); ok {
					if cal := staticCallee(ci.Common()); cal != nil && sel(cal) {
						res := cal.Signature.Results()
						for k := 0; k < res.Len(); k++ {
							if types.Identical(res.At(k).Type(), errT) {
								n++
								r.Bad(rule, "error of "+shortName(cal)+" in "+shortName(f), p.Pos(posOf(i)), "error result discarded by go/defer statement")
							}
						}
					}
				}
				return
			}
			cal := staticCallee(cl.Common())
			if cal == nil || !sel(cal) {
				return
			}
			res := cal.Signature.Results()
			for k := 0; k < res.Len(); k++ {
				if !types.Identical(res.At(k).Type(), errT) {
					continue
				}
				n++
				used := false
				if res.Len() == 1 {
					used = len(*cl.Referrers()) > 0
				} else {
					for _, ref := range *cl.Referrers() {
						if ex, ok := ref.(*ssa.Extract); ok && ex.Index == k {
							used = errValueUsed(ex)
						}
					}
				}
				if res.Len() == 1 {
					used = errValueUsed(cl)
				}
				cons := "error of " + shortName(cal) + " in " + shortName(f)
				r.Check(used, rule, cons, p.Pos(posOf(cl)), "error result is consumed", "the error returned by "+shortName(cal)+" is dropped (never tested, returned or passed on)")
			}
		})
	}
	return n
}

// errValueUsed: the value has a referrer other than a dead store into a local that is never read.
func errValueUsed(v ssa.Value) bool {
	refs := v.Referrers()
	if refs == nil {
		return false
	}
	for _, ref := range *refs {
		switch x := ref.(type) {
		case *ssa.DebugRef:
			continue
		case *ssa.Store:
			// store into a local alloc that is never loaded = shadowed / dead
			if a, ok := x.Addr.(*ssa.Alloc); ok {
				loaded := false
				for _, ar := range *a.Referrers() {
					if u, ok := ar.(*ssa.UnOp); ok && u.Op == token.MUL {
						loaded = true
					}
					if _, ok := ar.(*ssa.MakeClosure); ok {
						loaded = true
					}
				}
				if loaded {
					return true
				}
				continue
			}
			return true
		case *ssa.BinOp:
			// a comparison counts when some branch on it has a consequence
			if isNilConst(x.X) || isNilConst(x.Y) {
				if valueOnlyInVacuousTests(x) {
					continue
				}
			}
			return true
		default:
			return true
		}
	}
	return false
}

// valueOnlyInVacuousTests: every use of the boolean v is a branch whose two outcomes run the same code — one successor is an
// empty block that jumps straight to the other successor (an `if err != nil { }` whose body was lost).
func valueOnlyInVacuousTests(v ssa.Value) bool {
	refs := v.Referrers()
	if refs == nil {
		return false
	}
	// (go/ssa drops a branch whose successors coincide altogether: the comparison is then left without any use)
	for _, ref := range *refs {
		switch x := ref.(type) {
		case *ssa.DebugRef:
		case *ssa.If:
			if !vacuousIf(x) {
				return false
			}
		default:
			return false
		}
	}
	return true
}

func vacuousIf(iff *ssa.If) bool {
	b := iff.Block()
	if len(b.Succs) != 2 {
		return false
	}
	for k := 0; k < 2; k++ {
		s, o := b.Succs[k], b.Succs[1-k]
		if s == o {
			return true
		}
		if len(s.Instrs) == 1 && len(s.Preds) == 1 {
			if _, isJ := s.Instrs[0].(*ssa.Jump); isJ && s.Succs[0] == o {
				// the join must not tell the ways apart through a phi
				differs := false
				for _, ins := range o.Instrs {
					ph, ok := ins.(*ssa.Phi)
					if !ok {
						break
					}
					var vs, vb ssa.Value
					for pi, pr := range o.Preds {
						if pr == s {
							vs = ph.Edges[pi]
						}
						if pr == b {
							vb = ph.Edges[pi]
						}
					}
					if vs != vb {
						differs = true
					}
				}
				if !differs {
					return true
				}
			}
		}
	}
	return false
}

// checkSizeGuards (shared by C09.R3 and C13.R6): every pass-through success return of the converters and every call of the
// unsafe retyping helper is dominated by a size-equality comparison. Returns the retyping helpers found.
func checkSizeGuards(p *Prog, r *Report, rule string, convs []*ssa.Function) []*ssa.Function {
	argFns := p.FuncsIn("arg")
	for _, f := range convs {
		// R3b: pass-through returns pass a size comparison
		for _, ret := range returnsOf(f) {
			if len(ret.Results) != 2 || !isNilConst(ret.Results[1]) {
				continue
			}
			checkEdge := func(val ssa.Value, pred *ssa.BasicBlock, blk *ssa.BasicBlock) {
				typed := false
				for _, a := range origins(val) {
					if a.Kind == "call" && (a.Name == "reflect.Zero" || a.Name == "(reflect.Value).Elem") {
						typed = true
					}
				}
				cons := fmt.Sprintf("success return of %s via %s", shortName(f), edgeName(pred))
				if typed {
					r.OK(rule, cons, p.Pos(posOf(ret)), "value built from the declared type")
					return
				}
				okSz := false
				if pred != nil {
					if iff, ok := pred.Instrs[len(pred.Instrs)-1].(*ssa.If); ok {
						if eqWhen, ok := isSizeCompare(iff.Cond); ok {
							tookTrue := pred.Succs[0] == blk
							okSz = tookTrue == eqWhen
						}
					}
				}
				if !okSz {
					// maybe dominated by a size-equality guard
					for _, g := range guardsAt(blk) {
						if eqWhen, ok := isSizeCompare(g.Cond); ok && g.Pol == eqWhen {
							okSz = true
						}
					}
				}
				r.Check(okSz, rule, cons, p.Pos(posOf(ret)), "pass-through guarded by size equality",
					"a supplied value reaches the caller as the declared type without a size-equality check: a value of different size is reinterpreted instead of rejected")
			}
			if ph, ok := ret.Results[0].(*ssa.Phi); ok && ph.Block() == ret.Block() {
				for i, e := range ph.Edges {
					checkEdge(e, ret.Block().Preds[i], ret.Block())
				}
			} else {
				checkEdge(ret.Results[0], nil, ret.Block())
			}
		}
	}

	// R3a: retyping helper calls dominated by size equality
	var casters []*ssa.Function
	for _, f := range argFns {
		isCaster := false
		eachInstr(f, func(i ssa.Instruction) {
			if cv, ok := i.(*ssa.Convert); ok {
				if strings.Contains(cv.X.Type().String(), "unsafe.Pointer") && strings.Contains(cv.Type().String(), "reflect.Value") {
					isCaster = true
				}
				// role: (reflect.Value, reflect.Type) → reflect.Value helper that goes through unsafe.Pointer
				sig := f.Signature
				if sig.Params().Len() == 2 && sig.Results().Len() == 1 && strings.HasSuffix(sig.Params().At(0).Type().String(), "reflect.Value") &&
					strings.HasSuffix(sig.Params().At(1).Type().String(), "reflect.Type") && strings.HasSuffix(sig.Results().At(0).Type().String(), "reflect.Value") &&
					(strings.Contains(cv.X.Type().String(), "unsafe.Pointer") || strings.Contains(cv.Type().String(), "unsafe.Pointer")) {
					isCaster = true
				}
			}
		})
		if isCaster {
			casters = append(casters, f)
		}
	}
	for _, cf := range casters {
		for _, cs := range p.callersOf(cf) {
			okSz := false
			for _, g := range guardsAt(cs.Instr.Block()) {
				if eqWhen, ok := isSizeCompare(g.Cond); ok && g.Pol == eqWhen {
					okSz = true
				}
			}
			r.Check(okSz, rule, "unsafe retyping "+shortName(cf)+" called from "+shortName(cs.Caller), p.Pos(posOf(cs.Instr)), "retyping dominated by size equality",
				"the unsafe retyping helper is reachable without a dominating size-equality check: a stand-in of different size is reinterpreted")
			// what selects the stand-in path is the kind of the DECLARED type (struct / pointer to struct), never the kind of the
			// supplied value: the kind tests on the way to the retyping are tests of a reflect.Type
			wrong := ""
			seenB := map[*ssa.BasicBlock]bool{}
			var walk func(b *ssa.BasicBlock, depth int)
			walk = func(b *ssa.BasicBlock, depth int) {
				if seenB[b] || depth > 8 {
					return
				}
				seenB[b] = true
				for _, pr := range b.Preds {
					if iff, ok := pr.Instrs[len(pr.Instrs)-1].(*ssa.If); ok {
						if _, kv, isK := kindTest(iff.Cond); isK {
							if kc, isCall := resolveLocal(kv).(*ssa.Call); isCall && !kc.Call.IsInvoke() && calleeName(kc.Common()) == "(reflect.Value).Kind" {
								wrong = p.Pos(posOf(iff))
							}
						}
					}
					if pr.Dominates(b) || len(b.Preds) > 1 {
						walk(pr, depth+1)
					}
				}
			}
			walk(cs.Instr.Block(), 0)
			// the stand-in path is entered only for a non-nil value whose type differs from the declared type and whose
			// declared type is a struct or a pointer: on every edge into the block that compares the sizes
			var sizeIf *ssa.If
			for _, g := range guardsAt(cs.Instr.Block()) {
				if _, ok := isSizeCompare(g.Cond); ok && g.If != nil {
					sizeIf = g.If
				}
			}
			if sizeIf != nil {
				// the block where the selection has been made: walk up from the size test through blocks that only compute
				sel := sizeIf.Block()
				missing := ""
				for _, pr := range sel.Preds {
					gs := knownAtEdge(pr, sel)
					var nonNil, typeDiffers, kindOK bool
					for _, g := range gs {
						bo, isB := g.Cond.(*ssa.BinOp)
						if !isB {
							continue
						}
						if (bo.Op == token.NEQ && g.Pol) || (bo.Op == token.EQL && !g.Pol) {
							if isNilConst(bo.X) || isNilConst(bo.Y) {
								nonNil = true
							}
							if strings.HasSuffix(bo.X.Type().String(), "reflect.Type") && strings.HasSuffix(bo.Y.Type().String(), "reflect.Type") {
								typeDiffers = true
							}
						}
						if kc, kv, isK := kindTest(g.Cond); isK && g.Pol && (kc == int64(reflect.Struct) || kc == int64(reflect.Ptr)) {
							if kcall, isCall := resolveLocal(kv).(*ssa.Call); isCall && kcall.Call.IsInvoke() {
								kindOK = true
							}
						}
					}
					// a membership test (table of kinds / predicate function) over a subset of {Struct, Ptr}
					for _, g := range gs {
						if !g.Pol {
							continue
						}
						if ks := kindPredicate(g.Cond); len(ks) > 0 {
							sub := true
							for kc := range ks {
								if kc != int64(reflect.Struct) && kc != int64(reflect.Ptr) {
									sub = false
								}
							}
							if sub {
								kindOK = true
							}
						}
					}
					switch {
					case !nonNil:
						missing = "value != nil"
					case !typeDiffers:
						missing = "type of the value != declared type"
					case !kindOK:
						missing = "declared kind is Struct or Ptr"
					}
				}
				r.Check(missing == "", rule, "stand-in path of "+shortName(cs.Caller)+" is entered only for a differing struct/pointer type", p.Pos(posOf(sizeIf)), "non-nil, type differs, declared kind Struct|Ptr known on every edge into the size test",
					"the stand-in (size-checked retyping) path can be entered without '"+missing+"' being established: a nil value panics in Type(), an ordinary value for an interface- or scalar-typed result is sent through the size check and rejected, or a pointer stand-in skips the retyping")
			}
			r.Check(wrong == "", rule, "stand-in path of "+shortName(cs.Caller)+" is selected by the declared type", p.Pos(posOf(cs.Instr)), "kind tests on the way to the retyping are on a reflect.Type",
				"the stand-in (retyping) path is selected by the kind of the supplied value (test at "+wrong+"): a struct value given for an interface-typed result is sent through the size check and rejected (or reinterpreted) instead of being boxed with its dynamic type")
		}
	}
	return casters
}

// kindTable: lk reads a package-level map[reflect.Kind]bool that only the package initialiser fills, with constant keys;
// the result is the set of kinds mapped to true. Empty when the table can be written elsewhere.
func kindTable(lk *ssa.Lookup) map[int64]bool {
	out := map[int64]bool{}
	ld, ok := lk.X.(*ssa.UnOp)
	if !ok || ld.Op != token.MUL {
		return out
	}
	g, ok := ld.X.(*ssa.Global)
	if !ok || (g.Object() != nil && g.Object().Exported()) {
		return out
	}
	mt, ok := g.Type().Underlying().(*types.Pointer).Elem().Underlying().(*types.Map)
	if !ok || !isBool(mt.Elem()) {
		return out
	}
	if nt, ok := mt.Key().(*types.Named); !ok || nt.Obj().Pkg() == nil || nt.Obj().Pkg().Path() != "reflect" || nt.Obj().Name() != "Kind" {
		return out
	}
	var fns []*ssa.Function
	var addAnon func(f *ssa.Function)
	addAnon = func(f *ssa.Function) {
		fns = append(fns, f)
		for _, a := range f.AnonFuncs {
			addAnon(a)
		}
	}
	for _, m := range g.Pkg.Members {
		switch x := m.(type) {
		case *ssa.Function:
			addAnon(x)
		case *ssa.Type:
			for _, t := range []types.Type{x.Type(), types.NewPointer(x.Type())} {
				ms := g.Pkg.Prog.MethodSets.MethodSet(t)
				for i := 0; i < ms.Len(); i++ {
					if mf := g.Pkg.Prog.MethodValue(ms.At(i)); mf != nil && mf.Pkg == g.Pkg && mf.Blocks != nil {
						addAnon(mf)
					}
				}
			}
		}
	}
	okAll := true
	var table ssa.Value
	for _, f := range fns {
		isInit := f.Name() == "init" && f.Parent() == nil && f.Signature.Recv() == nil
		eachInstr(f, func(i ssa.Instruction) {
			switch x := i.(type) {
			case *ssa.Store:
				if x.Addr == ssa.Value(g) {
					if !isInit || table != nil {
						okAll = false
					}
					table = x.Val
				}
			case *ssa.UnOp:
				if x.Op == token.MUL && x.X == ssa.Value(g) {
					// a load of the table: only lookups and len may use it
					for _, ref := range *x.Referrers() {
						switch r := ref.(type) {
						case *ssa.Lookup:
						case *ssa.Call:
							if bi, isB := r.Call.Value.(*ssa.Builtin); !isB || bi.Name() != "len" {
								okAll = false
							}
						case *ssa.Range:
						default:
							okAll = false
						}
					}
				}
			default:
				for _, op := range i.Operands(nil) {
					if op != nil && *op == ssa.Value(g) {
						okAll = false // address of the table escapes
					}
				}
			}
		})
	}
	mm, ok := table.(*ssa.MakeMap)
	if !ok || !okAll {
		return map[int64]bool{}
	}
	for _, ref := range *mm.Referrers() {
		switch r := ref.(type) {
		case *ssa.MapUpdate:
			k, okK := constInt(r.Key)
			v, okV := r.Value.(*ssa.Const)
			if !okK || !okV || v.Value == nil {
				return map[int64]bool{}
			}
			if constant.BoolVal(v.Value) {
				out[k] = true
			}
		case *ssa.Store:
		default:
			return map[int64]bool{}
		}
	}
	return out
}


// c09Boxing: C09.R2 clauses — the arm of the converter that boxes a concrete value into an interface-typed cell
// (reflect.New(declared type), Set, Elem) is entered for a non-nil value when the declared kind is Interface (so a value
// for an interface result is never sent to the size comparison), and the value is Set into the cell before the cell's
// content is handed on.
func c09Boxing(p *Prog, r *Report, convs []*ssa.Function) {
	n := 0
	for _, f := range convs {
		eachInstr(f, func(i ssa.Instruction) {
			nw, ok := i.(*ssa.Call)
			if !ok || calleeName(nw.Common()) != "reflect.New" {
				return
			}
			n++
			cons := "boxing cell in " + shortName(f)
			// (1) entry condition
			var nonNil, kindIface bool
			for _, g := range guardsAt(nw.Block()) {
				if bo, isB := g.Cond.(*ssa.BinOp); isB && (isNilConst(bo.X) || isNilConst(bo.Y)) {
					if (bo.Op == token.NEQ && g.Pol) || (bo.Op == token.EQL && !g.Pol) {
						nonNil = true
					}
				}
				if kc, kv, isK := kindTest(g.Cond); isK && g.Pol && kc == int64(reflect.Interface) {
					if kcall, isCall := resolveLocal(kv).(*ssa.Call); isCall && kcall.Call.IsInvoke() {
						kindIface = true
					}
				}
			}
			r.Check(nonNil && kindIface, "C09.R2", cons+" is entered for a non-nil value of an interface-typed slot", p.Pos(posOf(nw)), "value != nil and declared kind == Interface known at the cell",
				"the boxing arm is not entered exactly for a non-nil value whose declared type is an interface: a concrete value for an interface-typed result falls through to the size comparison and is rejected (or nil is boxed)")
			// (2) the value is Set into the cell before the cell is read back
			if nw.Referrers() == nil {
				return
			}
			var sets, reads []ssa.Instruction
			for _, ref := range *nw.Referrers() {
				el, ok := ref.(*ssa.Call)
				if !ok || calleeName(el.Common()) != "(reflect.Value).Elem" || el.Referrers() == nil {
					continue
				}
				hasSet := false
				var others []ssa.Instruction
				for _, r2 := range *el.Referrers() {
					if _, isDbg := r2.(*ssa.DebugRef); isDbg {
						continue
					}
					if sc, ok := r2.(*ssa.Call); ok && calleeName(sc.Common()) == "(reflect.Value).Set" && sc.Call.Args[0] == ssa.Value(el) {
						sets = append(sets, sc)
						hasSet = true
						continue
					}
					others = append(others, r2)
				}
				if !hasSet {
					reads = append(reads, el) // the cell is read where Elem() is taken
				} else {
					for _, o := range others {
						if _, isPhi := o.(*ssa.Phi); !isPhi {
							reads = append(reads, o)
						}
					}
					if len(others) > 0 && len(reads) == 0 {
						reads = append(reads, el) // the same Elem() value is set and handed on: read position = where it was taken, judged below
					}
				}
			}
			okSet := len(sets) > 0 && len(reads) > 0
			isSetI := func(j ssa.Instruction) bool {
				for _, s := range sets {
					if s == j {
						return true
					}
				}
				return false
			}
			for _, rd := range reads {
				if rc, isCall := rd.(*ssa.Call); isCall && calleeName(rc.Common()) == "(reflect.Value).Elem" {
					// an Elem() value that is itself Set afterwards holds the value (a reflect.Value is a handle on the cell)
					selfSet := false
					for _, st := range sets {
						if st.(*ssa.Call).Call.Args[0] == ssa.Value(rc) {
							selfSet = true
						}
					}
					if selfSet {
						continue
					}
				}
				if !passedBefore(f, rd, isSetI, nil) {
					okSet = false
				}
			}
			r.Check(okSet, "C09.R2", cons+" holds the value before it is read back", p.Pos(posOf(nw)), "Set(value) passed before the cell's Elem() is handed on",
				"the interface-typed cell is handed on without the value having been Set into it: the caller receives a nil interface instead of the stubbed value")
		})
	}
	r.Stat("boxing_cells", n)
}
