package main

import (
	"fmt"
	"go/token"
	"go/types"
	"strings"

	"golang.org/x/tools/go/ssa"
)

// leHelper describes one of goom's own little-endian helpers (methods of one type of package bytecode that read or write
// a fixed-width integer from/to a byte slice).
type leHelper struct {
	fn    *ssa.Function
	put   bool
	width int // bits
}

func leHelpers(p *Prog) []leHelper {
	var out []leHelper
	for _, f := range p.FuncsIn("internal/bytecode") {
		if f.Signature.Recv() == nil || f.Blocks == nil || f.Synthetic != "" {
			continue
		}
		ps, rs := f.Signature.Params(), f.Signature.Results()
		isBytes := func(t types.Type) bool {
			sl, ok := t.Underlying().(*types.Slice)
			return ok && isByte(sl.Elem())
		}
		intWidth := func(t types.Type) int {
			b, ok := t.Underlying().(*types.Basic)
			if !ok || b.Info()&types.IsInteger == 0 {
				return 0
			}
			w, _ := typeWidth(t)
			return w
		}
		switch {
		case ps.Len() == 2 && rs.Len() == 0 && isBytes(ps.At(0).Type()) && intWidth(ps.At(1).Type()) >= 16:
			out = append(out, leHelper{f, true, intWidth(ps.At(1).Type())})
		case ps.Len() == 1 && rs.Len() == 1 && isBytes(ps.At(0).Type()) && intWidth(rs.At(0).Type()) >= 16:
			out = append(out, leHelper{f, false, intWidth(rs.At(0).Type())})
		}
	}
	return out
}

// c03Helpers: C03.R6 — each little-endian helper is exact for every value: the writer puts byte k of the value at index k,
// the reader assembles the value from byte k at bits [8k, 8k+8) — decided by abstract evaluation over symbolic bits.
func c03Helpers(p *Prog, r *Report) {
	hs := leHelpers(p)
	for _, h := range hs {
		n := h.width / 8
		cons := "little-endian helper " + shortName(h.fn)
		ai := &absInterp{}
		if h.put {
			bk := &backing{b: make([]AByte, n)}
			for i := range bk.b {
				for j := range bk.b[i].Bits {
					bk.b[i].Bits[j] = Bit{K: bTop}
				}
			}
			v := symAInt("v", h.width)
			v.Signed = h.fn.Params[len(h.fn.Params)-1].Type().Underlying().(*types.Basic).Info()&types.IsUnsigned == 0
			args := make([]aval, len(h.fn.Params))
			args[len(args)-2] = ASlice{bk: bk, off: 0, len: n, cap: n}
			args[len(args)-1] = v
			outs := ai.evalFunc(h.fn, args, nil)
			ok, why := len(outs) == 1 && outs[0].err == "" && ai.procErr == "", ""
			if !ok {
				why = fmt.Sprintf("%d paths", len(outs))
				for _, o := range outs {
					if o.err != "" {
						why = o.err
					}
				}
			}
			for k := 0; ok && k < n; k++ {
				if lane, isLane := bk.b[k].laneOf("v"); !isLane || lane != k {
					ok, why = false, fmt.Sprintf("byte %d of the output is %s, not byte %d of the value", k, bk.b[k], k)
				}
			}
			r.Check(ok, "C03.R6", cons, p.Pos(h.fn.Pos()), fmt.Sprintf("out[k] = byte k of the value, k<%d", n),
				"the helper that writes a relocated displacement is not little-endian exact ("+why+"): the corrected displacement is stored scrambled and the relocated branch lands elsewhere")
			continue
		}
		bk := &backing{b: make([]AByte, n)}
		for i := range bk.b {
			for j := range bk.b[i].Bits {
				bk.b[i].Bits[j] = Bit{K: bSym, Var: "b", Idx: 8*i + j}
			}
		}
		args := make([]aval, len(h.fn.Params))
		args[len(args)-1] = ASlice{bk: bk, off: 0, len: n, cap: n}
		outs := ai.evalFunc(h.fn, args, nil)
		ok, why := len(outs) == 1 && outs[0].err == "" && ai.procErr == "", ""
		if !ok {
			why = fmt.Sprintf("%d paths", len(outs))
			for _, o := range outs {
				if o.err != "" {
					why = o.err
				}
			}
			if ai.procErr != "" {
				why = ai.procErr
			}
		}
		if ok {
			res, isInt := outs[0].val.(*AInt)
			if !isInt || !res.hasBits() || res.W != h.width {
				ok, why = false, "result is not a bit-precise integer"
			} else {
				for j := 0; j < h.width; j++ {
					if b := res.Bits[j]; b.K != bSym || b.Var != "b" || b.Idx != j {
						ok, why = false, fmt.Sprintf("bit %d of the result is not bit %d of byte %d", j, j%8, j/8)
						break
					}
				}
			}
		}
		r.Check(ok, "C03.R6", cons, p.Pos(h.fn.Pos()), fmt.Sprintf("value = Σ in[k]<<8k, k<%d", n),
			"the helper that reads a displacement out of the prologue is not little-endian exact ("+why+"): the branch target is misread and the relocated branch is corrected from a wrong value")
	}
	if len(hs) == 0 {
		r.Und("C03.R6", "little-endian helpers", "", "no fixed-width reader/writer methods found in package bytecode")
	}
}

// concatParts: the byte slices that make up v, in order — through append(x, y...), a fresh empty make, and module functions
// whose every return is such a concatenation of their own parameters.
func concatParts(v ssa.Value, depth int) ([]ssa.Value, bool) {
	if depth > 4 {
		return nil, false
	}
	v = resolveLocal(v)
	switch x := v.(type) {
	case *ssa.MakeSlice:
		if n, ok := constInt(x.Len); ok && n == 0 {
			return nil, true
		}
		return []ssa.Value{v}, true
	case *ssa.Slice:
		// make([]byte, 0) with a constant capacity: a slice of a fresh array, of length 0
		if al, ok := x.X.(*ssa.Alloc); ok && x.High != nil {
			if n, isC := constInt(x.High); isC && n == 0 && len(*al.Referrers()) == 1 {
				return nil, true
			}
		}
		return []ssa.Value{v}, true
	case *ssa.Call:
		if bi, ok := x.Call.Value.(*ssa.Builtin); ok && bi.Name() == "append" && len(x.Call.Args) == 2 {
			head, ok := concatParts(x.Call.Args[0], depth+1)
			if !ok {
				return nil, false
			}
			return append(head, resolveLocal(x.Call.Args[1])), true
		}
		cal := staticCallee(x.Common())
		if cal == nil || cal.Blocks == nil || !strings.HasPrefix(pkgPathOf(cal), Mod) {
			return []ssa.Value{v}, true
		}
		rets := returnsOf(cal)
		if len(rets) != 1 || len(rets[0].Results) != 1 {
			return []ssa.Value{v}, true
		}
		inner, ok := concatParts(rets[0].Results[0], depth+1)
		if !ok {
			return nil, false
		}
		var out []ssa.Value
		for _, part := range inner {
			pr, isP := part.(*ssa.Parameter)
			if !isP {
				return []ssa.Value{v}, true
			}
			for k, q := range cal.Params {
				if q == pr {
					out = append(out, resolveLocal(x.Call.Args[k]))
				}
			}
		}
		return out, true
	}
	return []ssa.Value{v}, true
}

// c03Arms: C03.R7 — every result of the re-encoder is opcode bytes followed by displacement bytes, the displacement having
// been written on the way with a value computed from the old displacement and the correction, by a writer of the width of
// that arm; and the displacement reader picks, for each width, the reader of that width.
func c03Arms(p *Prog, r *Report, enc *ssa.Function) {
	if len(enc.Params) < 5 {
		r.Und("C03.R7", "re-encoder arms", p.Pos(enc.Pos()), "unexpected signature")
		return
	}
	opsP, addrP, lenP, valP, addP := enc.Params[0], enc.Params[1], enc.Params[2], enc.Params[3], enc.Params[4]
	helpers := map[*ssa.Function]leHelper{}
	for _, h := range leHelpers(p) {
		helpers[h.fn] = h
	}
	isVal := func(v ssa.Value) bool { return v == ssa.Value(valP) }
	isAdd := func(v ssa.Value) bool { return v == ssa.Value(addP) }
	// the width of the arm a block belongs to: the constant the length parameter is compared equal to
	armWidth := func(b *ssa.BasicBlock) int64 {
		for _, g := range guardsAt(b) {
			bo, ok := g.Cond.(*ssa.BinOp)
			if !ok || bo.Op != token.EQL || !g.Pol {
				continue
			}
			if resolveLocal(bo.X) == ssa.Value(lenP) {
				if c, ok := constInt(bo.Y); ok {
					return c
				}
			}
			if resolveLocal(bo.Y) == ssa.Value(lenP) {
				if c, ok := constInt(bo.X); ok {
					return c
				}
			}
		}
		return 0
	}
	nRet := 0
	for _, ret := range returnsOf(enc) {
		nRet++
		w := armWidth(ret.Block())
		cons := fmt.Sprintf("re-encoder result at %s (width %d)", blockOrdinalRet(ret), w)
		parts, ok := concatParts(ret.Results[0], 0)
		if !ok || len(parts) != 2 {
			r.Bad("C03.R7", cons, p.Pos(posOf(ret)), fmt.Sprintf("the re-encoded instruction is not (opcode bytes ++ displacement bytes): %d parts", len(parts)))
			continue
		}
		// opcode part: the opcode parameter or an entry of the widening table
		okOps := false
		for _, a := range origins(parts[0]) {
			switch {
			case a.V == ssa.Value(opsP):
				okOps = true
			case a.Kind == "other" || a.Kind == "lookup":
				if ex, isEx := a.V.(*ssa.Extract); isEx {
					if _, isLk := ex.Tuple.(*ssa.Lookup); isLk {
						okOps = true
					}
				}
				if _, isLk := a.V.(*ssa.Lookup); isLk {
					okOps = true
				}
			}
		}
		if ex, isEx := parts[0].(*ssa.Extract); isEx {
			if _, isLk := ex.Tuple.(*ssa.Lookup); isLk {
				okOps = true
			}
		}
		// displacement part: the displacement parameter, or a fresh slice (widened)
		disp := parts[1]
		ms, fresh := disp.(*ssa.MakeSlice)
		width := w
		if fresh {
			if n, ok := constInt(ms.Len); ok {
				width = n
			}
		}
		if sl, isSl := disp.(*ssa.Slice); isSl && sl.Low == nil {
			// make([]byte, N) with constant N: the first N bytes of a fresh array
			if al, isAl := sl.X.(*ssa.Alloc); isAl && len(*al.Referrers()) == 1 {
				if at, isArr := al.Type().Underlying().(*types.Pointer).Elem().Underlying().(*types.Array); isArr {
					n := at.Len()
					if sl.High != nil {
						n, _ = constInt(sl.High)
					}
					if n > 0 {
						fresh, width = true, n
					}
				}
			}
		}
		okDisp := disp == ssa.Value(addrP) || fresh
		r.Check(okOps && okDisp, "C03.R7", cons+" is opcode ++ displacement", p.Pos(posOf(ret)), "opcode bytes first, displacement bytes second",
			"the re-encoded instruction is not assembled as opcode bytes followed by displacement bytes (operands swapped or replaced): the relocated instruction is garbage")
		// written on the way, by a writer of this width, from the old displacement and the correction
		kk := NewKeyer(enc)
		signOK := func(v ssa.Value) bool {
			form := map[string]int64{}
			var konst int64
			linForm(kk, v, 1, form, &konst, 0)
			if form[kk.Key(valP)] != 1 || form[kk.Key(addP)] != 1 {
				return false
			}
			if !fresh {
				return true
			}
			// widened: minus the growth of the displacement (new width − old width) and of the opcode (new − old length)
			var lenNeg, lenPos int64
			for key, c := range form {
				if strings.HasPrefix(key, "len(") {
					if c < 0 {
						lenNeg += c
					} else {
						lenPos += c
					}
				}
			}
			return form[kk.Key(lenP)] == 1 && lenNeg == -2 && lenPos == 1
		}
		var badWidth string
		isWrite := func(j ssa.Instruction) bool {
			switch x := j.(type) {
			case *ssa.Store:
				if ia, ok := x.Addr.(*ssa.IndexAddr); ok && resolveLocal(ia.X) == disp {
					if dependsOn(x.Val, isVal) && dependsOn(x.Val, isAdd) {
						if !signOK(x.Val) {
							badWidth = "the stored value is not old displacement + correction" + map[bool]string{true: " − growth", false: ""}[fresh]
							return false
						}
						if width != 1 {
							badWidth = fmt.Sprintf("a single byte is stored in the %d-byte arm", width)
							return false
						}
						return true
					}
				}
			case *ssa.Call:
				cal := staticCallee(x.Common())
				h, isH := helpers[cal]
				if !isH || !h.put {
					return false
				}
				args := x.Call.Args
				if resolveLocal(args[len(args)-2]) != disp {
					return false
				}
				if !dependsOn(args[len(args)-1], isVal) || !dependsOn(args[len(args)-1], isAdd) {
					return false
				}
				if !signOK(args[len(args)-1]) {
					badWidth = "the written value is not old displacement + correction" + map[bool]string{true: " − growth of displacement and opcode", false: ""}[fresh]
					return false
				}
				if int64(h.width/8) != width {
					badWidth = fmt.Sprintf("%s writes %d bytes in the %d-byte arm", shortName(cal), h.width/8, width)
					return false
				}
				return true
			}
			return false
		}
		okW := passedBefore(enc, ret, isWrite, nil)
		why := "the displacement bytes are returned without having been rewritten from (old displacement, correction)"
		if badWidth != "" {
			why = badWidth
		}
		r.Check(okW, "C03.R7", cons+" displacement rewritten", p.Pos(posOf(ret)), "a store of f(val, add) of the arm's width precedes the return",
			why+": the relocated branch keeps its old displacement (or a truncated one) although it now runs at another address")
	}
	if nRet == 0 {
		r.Und("C03.R7", "re-encoder arms", p.Pos(enc.Pos()), "no return found")
	}
	// the reader: per width arm, the reader of that width
	for _, dec := range p.FuncsIn("internal/bytecode") {
		if dec.Blocks == nil || dec.Signature.Recv() != nil || dec.Signature.Params().Len() != 2 || dec.Signature.Results().Len() != 1 {
			continue
		}
		sl, ok := dec.Signature.Params().At(0).Type().Underlying().(*types.Slice)
		if !ok || !isByte(sl.Elem()) || !isIntegerType(dec.Signature.Params().At(1).Type()) || !isIntegerType(dec.Signature.Results().At(0).Type()) {
			continue
		}
		// only a function that dispatches on its integer parameter to the helpers
		uses := false
		eachInstr(dec, func(i ssa.Instruction) {
			if cl, ok := i.(*ssa.Call); ok {
				if h, isH := helpers[staticCallee(cl.Common())]; isH && !h.put {
					uses = true
				}
			}
		})
		if !uses {
			continue
		}
		lp := dec.Params[1]
		for _, ret := range returnsOf(dec) {
			var w int64
			for _, g := range guardsAt(ret.Block()) {
				if bo, ok := g.Cond.(*ssa.BinOp); ok && bo.Op == token.EQL && g.Pol {
					if resolveLocal(bo.X) == ssa.Value(lp) {
						w, _ = constInt(bo.Y)
					} else if resolveLocal(bo.Y) == ssa.Value(lp) {
						w, _ = constInt(bo.X)
					}
				}
			}
			if w == 0 {
				continue
			}
			got := int64(0)
			for _, a := range origins(ret.Results[0]) {
				if cl, ok := a.V.(*ssa.Call); ok {
					if h, isH := helpers[staticCallee(cl.Common())]; isH && !h.put {
						got = int64(h.width / 8)
					}
				}
			}
			if got == 0 {
				// the one-byte arm: a sign-extended load of byte 0
				if dependsOn(ret.Results[0], func(v ssa.Value) bool {
					ia, ok := v.(*ssa.IndexAddr)
					if !ok {
						return false
					}
					c, isC := constInt(ia.Index)
					return isC && c == 0 && resolveLocal(ia.X) == ssa.Value(dec.Params[0])
				}) {
					got = 1
				}
			}
			r.Check(got == w, "C03.R7", fmt.Sprintf("displacement reader %s arm of width %d", shortName(dec), w), p.Pos(posOf(ret)), fmt.Sprintf("reads %d byte(s)", w),
				fmt.Sprintf("the arm for %d-byte displacements reads %d byte(s): the branch target of a prologue instruction is misread", w, got))
		}
	}
}

// intPredFalseSet: for a module function of one integer parameter that only compares the parameter with constants and
// returns constants, the set of parameter values (within [lo, hi]) for which it returns false, as disjoint intervals.
func intPredFalseSet(fn *ssa.Function, lo, hi int64) ([][2]int64, bool) {
	if fn == nil || fn.Blocks == nil || len(fn.Params) != 1 {
		return nil, false
	}
	prm := fn.Params[0]
	isP := func(v ssa.Value) bool {
		for {
			if cv, ok := v.(*ssa.Convert); ok {
				v = cv.X
				continue
			}
			break
		}
		return v == ssa.Value(prm)
	}
	type iv = [2]int64
	// split: the parts of [l,h] on which a comparison of the parameter with a constant is true / false
	split := func(cond ssa.Value, l, h int64) (ts, fs []iv, ok bool) {
		bo, isB := cond.(*ssa.BinOp)
		if !isB {
			return nil, nil, false
		}
		x, y, op := bo.X, bo.Y, bo.Op
		if !isP(x) {
			x, y = y, x
			switch op {
			case token.LSS:
				op = token.GTR
			case token.GTR:
				op = token.LSS
			case token.LEQ:
				op = token.GEQ
			case token.GEQ:
				op = token.LEQ
			}
		}
		c, isC := constInt(y)
		if !isP(x) || !isC {
			return nil, nil, false
		}
		switch op {
		case token.LSS:
			ts, fs = []iv{{l, min64(h, c-1)}}, []iv{{max64(l, c), h}}
		case token.LEQ:
			ts, fs = []iv{{l, min64(h, c)}}, []iv{{max64(l, c+1), h}}
		case token.GTR:
			ts, fs = []iv{{max64(l, c+1), h}}, []iv{{l, min64(h, c)}}
		case token.GEQ:
			ts, fs = []iv{{max64(l, c), h}}, []iv{{l, min64(h, c-1)}}
		case token.EQL:
			ts, fs = []iv{{max64(l, c), min64(h, c)}}, []iv{{l, min64(h, c-1)}, {max64(l, c+1), h}}
		case token.NEQ:
			fs, ts = []iv{{max64(l, c), min64(h, c)}}, []iv{{l, min64(h, c-1)}, {max64(l, c+1), h}}
		default:
			return nil, nil, false
		}
		return ts, fs, true
	}
	var out [][2]int64
	okAll := true
	var run func(b *ssa.BasicBlock, from *ssa.BasicBlock, l, h int64, depth int)
	run = func(b, from *ssa.BasicBlock, l, h int64, depth int) {
		if l > h || !okAll {
			return
		}
		if depth > 64 {
			okAll = false
			return
		}
		switch t := b.Instrs[len(b.Instrs)-1].(type) {
		case *ssa.Jump:
			run(b.Succs[0], b, l, h, depth+1)
		case *ssa.Return:
			rv := t.Results[0]
			if ph, ok := rv.(*ssa.Phi); ok && ph.Block() == b {
				for k, pr := range b.Preds {
					if pr == from {
						rv = ph.Edges[k]
					}
				}
			}
			neg := false
			if un, ok := rv.(*ssa.UnOp); ok && un.Op == token.NOT {
				rv, neg = un.X, true
			}
			if _, fsv, ok := split(rv, l, h); ok {
				// the answer is the comparison itself
				if neg {
					fsv, _, _ = split(rv, l, h)
				}
				for _, i := range fsv {
					if i[0] <= i[1] {
						out = append(out, i)
					}
				}
				return
			}
			c, ok := rv.(*ssa.Const)
			if neg || !ok || c.Value == nil || !isBool(c.Type()) {
				okAll = false
				return
			}
			if c.Value.String() == "false" {
				out = append(out, [2]int64{l, h})
			}
		case *ssa.If:
			ts, fs, ok := split(t.Cond, l, h)
			if !ok {
				okAll = false
				return
			}
			for _, i := range ts {
				run(b.Succs[0], b, i[0], i[1], depth+1)
			}
			for _, i := range fs {
				run(b.Succs[1], b, i[0], i[1], depth+1)
			}
		default:
			okAll = false
		}
	}
	run(fn.Blocks[0], nil, lo, hi, 0)
	return out, okAll
}

func min64(a, b int64) int64 {
	if a < b {
		return a
	}
	return b
}

func max64(a, b int64) int64 {
	if a > b {
		return a
	}
	return b
}

// c03Overflow: C03.R8 — where the re-encoder rewrites a displacement in place only if an overflow predicate answers false,
// every value for which that predicate answers false fits the signed width of that arm.
func c03Overflow(p *Prog, r *Report, enc *ssa.Function) {
	lenP := enc.Params[2]
	n := 0
	eachInstr(enc, func(i ssa.Instruction) {
		cl, ok := i.(*ssa.Call)
		if !ok {
			return
		}
		cal := staticCallee(cl.Common())
		if cal == nil || !strings.HasPrefix(pkgPathOf(cal), Mod) || cal.Signature.Params().Len() != 1 || cal.Signature.Results().Len() != 1 || !isBool(cal.Signature.Results().At(0).Type()) || !isIntegerType(cal.Signature.Params().At(0).Type()) {
			return
		}
		var w int64
		for _, g := range guardsAt(cl.Block()) {
			if bo, ok := g.Cond.(*ssa.BinOp); ok && bo.Op == token.EQL && g.Pol {
				if resolveLocal(bo.X) == ssa.Value(lenP) {
					w, _ = constInt(bo.Y)
				} else if resolveLocal(bo.Y) == ssa.Value(lenP) {
					w, _ = constInt(bo.X)
				}
			}
		}
		if w < 1 || w > 4 {
			return
		}
		n++
		pw, _ := typeWidth(cal.Signature.Params().At(0).Type())
		lo, hi := -(int64(1) << uint(pw-1)), (int64(1)<<uint(pw-1))-1
		fs, ok := intPredFalseSet(cal, lo, hi)
		cons := fmt.Sprintf("overflow predicate %s of the %d-byte arm", shortName(cal), w)
		if !ok {
			r.Und("C03.R8", cons, p.Pos(cal.Pos()), "the predicate is not a comparison of its parameter with constants")
			return
		}
		fitLo, fitHi := -(int64(1) << uint(8*w-1)), (int64(1)<<uint(8*w-1))-1
		bad := ""
		for _, iv := range fs {
			if iv[0] < fitLo || iv[1] > fitHi {
				bad = fmt.Sprintf("[%d, %d]", iv[0], iv[1])
			}
		}
		r.Check(bad == "" && len(fs) > 0, "C03.R8", cons, p.Pos(cal.Pos()), fmt.Sprintf("answers false only inside [%d, %d]", fitLo, fitHi),
			"the predicate accepts values "+bad+" that do not fit the displacement width: the corrected displacement is truncated when rewritten in place and the relocated branch lands elsewhere")
	})
	if n == 0 {
		r.OK("C03.R8", "overflow predicates", p.Pos(enc.Pos()), "the re-encoder rewrites no displacement in place under an overflow predicate")
	}
}

// c03TargetOffsets: C03.R9 — wherever the relocation code of package patch compares the displacement it decoded from an
// instruction together with other quantities (is the branch target inside the copied prefix? beyond the block?), what is
// compared is the target offset displacement + position + instruction length, each once and with the same sign;
// comparisons of the displacement alone (its direction) are left alone.
func c03TargetOffsets(p *Prog, r *Report) {
	n := 0
	for _, f := range p.FuncsIn("internal/patch") {
		if f.Blocks == nil {
			continue
		}
		c03NoFieldShortcut(p, r, f)
		k := NewKeyer(f)
		rel := map[string]bool{}
		eachInstr(f, func(i ssa.Instruction) {
			if cl, ok := i.(*ssa.Call); ok {
				if cal := staticCallee(cl.Common()); cal != nil && relPkg(cal) == "internal/bytecode" && cal.Signature.Results().Len() == 1 && isIntegerType(cal.Signature.Results().At(0).Type()) {
					for _, a := range cl.Call.Args {
						if strings.Contains(a.Type().String(), "asm.Inst") {
							rel[k.Key(cl)] = true
						}
					}
				}
			}
		})
		if len(rel) == 0 {
			continue
		}
		nInF := 0
		type tcmp struct {
			bo    *ssa.BinOp
			relC  int64
			konst int64
			bound bool
		}
		var tcmps []tcmp
		defer func(f *ssa.Function) {
			c03RelocateIffOutside(p, r, f, tcmps, func(t tcmp) (*ssa.BinOp, int64, int64, bool) { return t.bo, t.relC, t.konst, t.bound })
		}(f)
		eachInstr(f, func(i ssa.Instruction) {
			bo, ok := i.(*ssa.BinOp)
			if !ok || !isBool(bo.Type()) || !isIntegerType(bo.X.Type()) {
				return
			}
			form := map[string]int64{}
			var konst int64
			linForm(k, bo.X, 1, form, &konst, 0)
			linForm(k, bo.Y, -1, form, &konst, 0)
			var relC int64
			for key := range rel {
				relC += form[key]
			}
			if relC == 0 {
				return
			}
			others := 0
			var lenC, posC int64
			posLeaves := 0
			for key, c := range form {
				if c == 0 || rel[key] {
					continue
				}
				others++
				if strings.Contains(key, "Len") {
					lenC += c
				} else if c == relC {
					posC += c
					posLeaves++
				}
			}
			if others == 0 {
				return // the displacement alone (its sign)
			}
			nInF++
			n++
			if (relC == 1 || relC == -1) && lenC == relC && posC == relC && posLeaves == 1 {
				// T = displacement + position + length compared with nothing else (a constant) or with one bound
				rest := 0
				for key, c := range form {
					if c != 0 && !rel[key] && !strings.Contains(key, "Len") && c != relC {
						rest++
					}
				}
				if rest <= 1 {
					tcmps = append(tcmps, tcmp{bo, relC, konst, rest == 1})
				}
			}
			ok2 := (relC == 1 || relC == -1) && lenC == relC && posC == relC && posLeaves == 1 && others <= 3
			r.Check(ok2, "C03.R9", "branch target offset compared in "+shortName(f)+" #"+itoa2(nInF), p.Pos(posOf(bo)), "displacement + position + length, each once",
				"a comparison that decides whether a prologue branch stays inside the copied bytes (or enters the overwritten prefix) is not made on displacement + position + instruction length: branches are relocated that must not be (or the reverse), or a branch into the overwritten jump is not refused")
		})
	}
	if n == 0 {
		r.Und("C03.R9", "branch target offsets", "", "no comparison of a decoded displacement found in package patch")
	}
}

// c03MeasuredReads: C03.R3 clause — where package patch reads N raw bytes at an address and N comes from a function-extent
// scan, the scan measured that very address (not the placeholder's extent for the origin's bytes or the reverse): the
// branch-into-the-prefix check and the relocation see exactly the origin function.
func c03MeasuredReads(p *Prog, r *Report) {
	n := 0
	for _, f := range p.FuncsIn("internal/patch") {
		if f.Blocks == nil {
			continue
		}
		nInF := 0
		for _, cs := range callsTo(f, qual(memPkg, "RawRead")) {
			args := callCommon(cs).Args
			for _, a := range origins(args[1]) {
				ex, ok := a.V.(*ssa.Extract)
				if !ok || ex.Index != 0 {
					continue
				}
				scan, ok := ex.Tuple.(*ssa.Call)
				if !ok || calleeName(scan.Common()) != qual("internal/bytecode", "GetFuncSize") {
					continue
				}
				n++
				nInF++
				same := resolveLocal(scan.Call.Args[1]) == resolveLocal(args[0])
				r.Check(same, "C03.R3", "bytes read in "+shortName(f)+" #"+itoa2(nInF)+" are measured at the address read", p.Pos(posOf(cs)), "RawRead(a, size scanned at a)",
					"the number of bytes read at one address is the scanned extent of another function: the check for branches into the overwritten prefix (and the relocation) see only part of the origin function, or bytes beyond it")
			}
		}
	}
	if n == 0 {
		r.Und("C03.R3", "measured reads", "", "no raw read sized by a function-extent scan found in package patch")
	}
}

// c03PrefixFromZero: C03.R3 clause — the check that refuses a function because one of its instructions branches into the
// bytes the entry jump overwrites refuses a branch to the FIRST of those bytes too. (The compiler's stack-growth path
// ends in `JMP <function start>`: after the prologue has been copied into the placeholder that jump lands on the entry
// jump, i.e. calling the placeholder with little stack headroom re-enters the mock.)
func c03PrefixFromZero(p *Prog, r *Report) {
	n := 0
	for _, f := range p.FuncsIn("internal/patch") {
		if f.Blocks == nil || errIndex(f.Signature) < 0 {
			continue
		}
		k := NewKeyer(f)
		rel := map[string]bool{}
		eachInstr(f, func(i ssa.Instruction) {
			if cl, ok := i.(*ssa.Call); ok {
				if cal := staticCallee(cl.Common()); cal != nil && relPkg(cal) == "internal/bytecode" && cal.Signature.Results().Len() == 1 && isIntegerType(cal.Signature.Results().At(0).Type()) {
					for _, a := range cl.Call.Args {
						if strings.Contains(a.Type().String(), "asm.Inst") {
							rel[k.Key(cl)] = true
						}
					}
				}
			}
		})
		if len(rel) == 0 {
			continue
		}
		for _, ret := range returnsOf(f) {
			if isNilConst(retResult(ret, errIndex(f.Signature))) {
				continue
			}
			// the refusal: an error return under a lower and an upper bound on the target offset
			var lowMin *int64
			hasUpper := false
			upperKey := ""
			for _, g := range guardsAt(ret.Block()) {
				bo, ok := g.Cond.(*ssa.BinOp)
				if !ok || !g.Pol || !isIntegerType(bo.X.Type()) {
					continue
				}
				form := map[string]int64{}
				var konst int64
				linForm(k, bo.X, 1, form, &konst, 0)
				linForm(k, bo.Y, -1, form, &konst, 0)
				var relC int64
				others := 0
				for key, c := range form {
					if c == 0 {
						continue
					}
					if rel[key] {
						relC += c
					} else if !strings.Contains(key, "Len") && c != relC && c != 1 && c != -1 {
						others++
					}
				}
				if relC != 1 && relC != -1 {
					continue
				}
				// leaves beyond displacement, position and length (a bound variable) make it the upper bound
				extra := 0
				nPosLen := 0
				for key, c := range form {
					if c == 0 || rel[key] {
						continue
					}
					if c == relC {
						nPosLen++
					} else {
						extra++
					}
				}
				if nPosLen != 2 {
					continue
				}
				if extra > 0 {
					hasUpper = true
					for key, c := range form {
						if c != 0 && !rel[key] && c != relC {
							upperKey = key
						}
					}
					continue
				}
				// T*relC + konst  op  0
				op := bo.Op
				if relC == -1 {
					switch op {
					case token.GTR:
						op = token.LSS
					case token.GEQ:
						op = token.LEQ
					case token.LSS:
						op = token.GTR
					case token.LEQ:
						op = token.GEQ
					}
					konst = -konst
				}
				// now: T + konst op 0
				switch op {
				case token.GTR:
					m := -konst + 1
					lowMin = &m
				case token.GEQ:
					m := -konst
					lowMin = &m
				}
			}
			if lowMin == nil || !hasUpper {
				continue
			}
			// every decoded branch is put to the test: from the decode of the displacement no way leads on to the next
			// instruction (the loop header) or to a successful return without passing the first of the bound tests
			{
				var firstTest *ssa.If
				for _, g := range guardsAt(ret.Block()) {
					bo, ok := g.Cond.(*ssa.BinOp)
					if !ok || g.If == nil || !isIntegerType(bo.X.Type()) {
						continue
					}
					form := map[string]int64{}
					var kk int64
					linForm(k, bo.X, 1, form, &kk, 0)
					linForm(k, bo.Y, -1, form, &kk, 0)
					isT := false
					for key, c := range form {
						if c != 0 && rel[key] {
							isT = true
						}
					}
					if isT && (firstTest == nil || g.If.Block().Dominates(firstTest.Block())) {
						firstTest = g.If
					}
				}
				var decode *ssa.Call
				eachInstr(f, func(i ssa.Instruction) {
					if cl, ok := i.(*ssa.Call); ok && rel[k.Key(cl)] {
						decode = cl
					}
				})
				if firstTest != nil && decode != nil {
					inTest := func(i ssa.Instruction) bool { return i.Block() == firstTest.Block() }
					skipped := ""
					for _, b := range f.Blocks {
						// loop headers around the decode, and successful returns
						isHdr := false
						for _, pr := range b.Preds {
							if b.Dominates(pr) && b.Dominates(decode.Block()) {
								isHdr = true
							}
						}
						var target ssa.Instruction
						if isHdr {
							target = b.Instrs[0]
						} else if rt, ok := lastInstr(b).(*ssa.Return); ok && isNilConst(retResult(rt, errIndex(f.Signature))) {
							target = rt
						}
						if target == nil {
							continue
						}
						if decode.Block() != firstTest.Block() && reachableAvoiding(decode, target, inTest) {
							skipped = p.Pos(posOf(target))
						}
					}
					r.Check(skipped == "", "C03.R3", "every decoded branch is tested against the overwritten prefix in "+shortName(f), p.Pos(posOf(decode)), "no way from the displacement decode to the next instruction or to success avoids the bound tests",
						"some branches are exempted from the test for targets inside the overwritten bytes (a `continue` or early exit between decoding the displacement and the test): a branch the exemption covers can still land in bytes that are rewritten differently in the placeholder (a widened short jump moves everything behind it)")
				}
			}
			// the scan that looks for such branches runs over the whole function, not just over the bytes that will be
			// overwritten: the loop that advances the position is bounded by something other than the refused interval's
			// upper end
			okScan := true
			eachInstr(f, func(i ssa.Instruction) {
				iff, ok := i.(*ssa.If)
				if !ok {
					return
				}
				bo, ok := iff.Cond.(*ssa.BinOp)
				if !ok || (bo.Op != token.LEQ && bo.Op != token.LSS) {
					return
				}
				ph, isPhi := resolveLocal(bo.X).(*ssa.Phi)
				if !isPhi || !isIntegerType(ph.Type()) {
					return
				}
				// a loop header: the block has a back edge
				hdr := false
				for _, pr := range iff.Block().Preds {
					if iff.Block().Dominates(pr) {
						hdr = true
					}
				}
				if !hdr {
					return
				}
				if upperKey != "" && k.Key(resolveLocal(bo.Y)) == upperKey {
					okScan = false
				}
			})
			r.Check(okScan, "C03.R3", "scan for branches into the prefix covers the function in "+shortName(f), p.Pos(posOf(ret)), "the scanning loop is not bounded by the end of the overwritten prefix",
				"the loop that looks for branches into the overwritten bytes stops at the end of those bytes: a loop back-edge further down the function that jumps into the entry jump is no longer found, the apply succeeds and that branch lands in the middle of the jump")
			n++
			r.Check(*lowMin <= 1, "C03.R3", "branches into the overwritten bytes behind the first are refused by "+shortName(f), p.Pos(posOf(ret)), "refused target offsets start at 1 at the latest",
				fmt.Sprintf("the check refuses branches into the overwritten entry bytes only from offset %d on: a branch into the middle of the entry jump is accepted and executes the tail of the jump's address bytes as instructions", *lowMin))
			r.Check(*lowMin <= 0, "C03.R3", "branch to the first overwritten byte is refused by "+shortName(f), p.Pos(posOf(ret)), "refused target offsets start at 0",
				fmt.Sprintf("the check refuses branches into the overwritten entry bytes only from offset %d on: a branch to the function's first byte (the `JMP start` that ends the compiler's stack-growth path of every non-leaf function) is accepted, so after the prologue was moved to the placeholder it lands on the entry jump — calling the origin placeholder with little stack headroom re-enters the mock", *lowMin))
		}
	}
	if n == 0 {
		r.Und("C03.R3", "refusal of branches into the overwritten prefix", "", "no error return guarded by bounds on a decoded branch target found in package patch")
	}
}

// c03TailKept: C03.R7 clause — where package patch returns a re-encoded instruction, the bytes that followed the
// displacement in the original (an immediate operand) follow it in the result: the result is
// reencode(block[p:o], block[o:o+w], …) ++ block[o+w : p+len].
func c03TailKept(p *Prog, r *Report, enc *ssa.Function) {
	n := 0
	for _, f := range p.FuncsIn("internal/patch") {
		if f.Blocks == nil {
			continue
		}
		k := NewKeyer(f)
		eachInstr(f, func(i ssa.Instruction) {
			cl, ok := i.(*ssa.Call)
			if !ok || staticCallee(cl.Common()) != enc {
				return
			}
			opsSl, ok1 := resolveLocal(cl.Call.Args[0]).(*ssa.Slice)
			dispSl, ok2 := resolveLocal(cl.Call.Args[1]).(*ssa.Slice)
			if !ok1 || !ok2 || opsSl.Low == nil || dispSl.High == nil {
				return
			}
			for _, ret := range returnsOf(f) {
				parts, ok := concatParts(ret.Results[0], 0)
				if !ok || len(parts) == 0 || resolveLocal(parts[0]) != ssa.Value(cl) {
					continue
				}
				n++
				okTail := false
				if len(parts) == 2 {
					if tail, isSl := parts[1].(*ssa.Slice); isSl && tail.Low != nil && tail.High != nil && resolveLocal(tail.X) == resolveLocal(dispSl.X) {
						// tail.Low == dispSl.High
						d1 := map[string]int64{}
						var c1 int64
						linForm(k, tail.Low, 1, d1, &c1, 0)
						linForm(k, dispSl.High, -1, d1, &c1, 0)
						z1 := c1 == 0
						for _, v := range d1 {
							if v != 0 {
								z1 = false
							}
						}
						// tail.High == opsSl.Low + <instruction length>
						d2 := map[string]int64{}
						var c2 int64
						linForm(k, tail.High, 1, d2, &c2, 0)
						linForm(k, opsSl.Low, -1, d2, &c2, 0)
						z2, nLen := c2 == 0, 0
						for key, v := range d2 {
							if v == 0 {
								continue
							}
							if v == 1 && strings.Contains(key, "Len") {
								nLen++
							} else {
								z2 = false
							}
						}
						okTail = z1 && z2 && nLen == 1
					}
				}
				r.Check(okTail, "C03.R7", "re-encoded instruction keeps what followed the displacement in "+shortName(f)+" at "+blockOrdinalRet(ret), p.Pos(posOf(ret)), "reencode(…) ++ block[end of displacement : end of instruction]",
					"the relocated instruction is returned as opcode ++ displacement only: an immediate operand that follows a RIP-relative displacement (CMPQ x(SB), $7) is dropped, the copy in the placeholder is one byte short and everything after it is decoded out of step")
			}
		})
	}
	if n == 0 {
		r.Und("C03.R7", "re-encoded instruction tail", "", "no function of package patch returns the re-encoder's result")
	}
}

// c03OriginRecorded: C03.R10 — the placeholder the user designates with Origin(&f) is the one handed to the trampoline
// builder: the field whose value the apply functions pass to package proxy as the trampoline argument is stored, from its
// parameter, by every exported Origin method (on every way to its return).
func c03OriginRecorded(p *Prog, r *Report) {
	var fld *types.Var
	for _, f := range p.FuncsIn("") {
		eachInstr(f, func(i ssa.Instruction) {
			cl, ok := i.(*ssa.Call)
			if !ok {
				return
			}
			cal := staticCallee(cl.Common())
			if cal == nil || relPkg(cal) != "internal/proxy" || len(cl.Call.Args) < 3 {
				return
			}
			// the trampoline argument: the last interface-typed argument
			a := cl.Call.Args[len(cl.Call.Args)-1]
			if _, fv, ok := fieldRef(resolveLocal(a)); ok && fv != nil && types.IsInterface(fv.Type()) {
				fld = fv
			}
		})
	}
	if fld == nil {
		r.Und("C03.R10", "placeholder field", "", "no field of a mocker is passed to package proxy as the trampoline argument")
		return
	}
	n := 0
	for _, f := range p.FuncsIn("") {
		if f.Object() == nil || f.Name() != "Origin" || f.Signature.Recv() == nil || f.Blocks == nil || f.Signature.Params().Len() != 1 {
			continue
		}
		// a forwarder (cached mockers) hands the parameter on to another Origin
		prm := f.Params[len(f.Params)-1]
		isRec := func(j ssa.Instruction) bool {
			switch x := j.(type) {
			case *ssa.Store:
				fa, ok := x.Addr.(*ssa.FieldAddr)
				return ok && fieldVar(fa.X.Type(), fa.Field) == fld && resolveLocal(x.Val) == ssa.Value(prm)
			case ssa.CallInstruction:
				c := x.Common()
				name := ""
				if c.IsInvoke() {
					name = c.Method.Name()
				} else if cal := staticCallee(c); cal != nil {
					name = cal.Name()
				}
				if name == "Origin" {
					for _, a := range c.Args {
						if resolveLocal(a) == ssa.Value(prm) {
							return true
						}
					}
				}
			}
			return false
		}
		n++
		okAll := true
		for _, ret := range returnsOf(f) {
			if !passedBefore(f, ret, isRec, nil) {
				okAll = false
			}
		}
		r.Check(okAll, "C03.R10", "placeholder recorded by "+shortName(f), p.Pos(f.Pos()), fld.Name()+" = the argument (or forwarded to Origin)",
			"Origin(&f) does not record the placeholder: the mock is applied without a trampoline, so the user's placeholder keeps its own body and calling it does not run the original function")
	}
	if n == 0 {
		r.Und("C03.R10", "Origin methods", "", "no exported Origin method found")
	}
}

// c03RelocateIffOutside: C03.R9 clause — in the function that hands a prologue instruction to the re-encoder, the
// displacement is corrected exactly when the branch target lies outside the copied block [0, size): the tests on the target
// offset T are `T < 0` and `T >= size` (or their complements) with no slack, and the re-encoder cannot be reached when
// both are false.
func c03RelocateIffOutside[T any](p *Prog, r *Report, f *ssa.Function, cmps []T, get func(T) (*ssa.BinOp, int64, int64, bool)) {
	enc := p.Fn("internal/bytecode", "EncodeAddress")
	var encCall *ssa.Call
	eachInstr(f, func(i ssa.Instruction) {
		if cl, ok := i.(*ssa.Call); ok && enc != nil && staticCallee(cl.Common()) == enc {
			encCall = cl
		}
	})
	if encCall == nil || len(cmps) == 0 {
		return
	}
	assign := map[ssa.Value]bool{}
	okExact := true
	why := ""
	for _, c := range cmps {
		bo, relC, konst, bound := get(c)
		// relC*T (+ −relC*B) + konst  op  0   →  T [−B] + k  op'  0
		op, k := bo.Op, konst
		if relC == -1 {
			k = -konst
			switch op {
			case token.LSS:
				op = token.GTR
			case token.LEQ:
				op = token.GEQ
			case token.GTR:
				op = token.LSS
			case token.GEQ:
				op = token.LEQ
			}
		}
		// "outside" when true: below zero (no bound) — T<0 ; at or above the bound — T−B>=0
		var outsideWhen, known bool
		switch {
		case !bound && ((op == token.LSS && k == 0) || (op == token.LEQ && k == 1)):
			outsideWhen, known = true, true
		case !bound && ((op == token.GEQ && k == 0) || (op == token.GTR && k == 1)):
			outsideWhen, known = false, true
		case bound && ((op == token.GEQ && k == 0) || (op == token.GTR && k == 1)):
			outsideWhen, known = true, true
		case bound && ((op == token.LSS && k == 0) || (op == token.LEQ && k == 1)):
			outsideWhen, known = false, true
		}
		if !known {
			okExact = false
			why = "a test on the branch target is off by one (or not one of T < 0, T >= size) at " + p.Pos(posOf(bo))
			continue
		}
		assign[bo] = !outsideWhen // the value the comparison has when the target is inside
	}
	r.Check(okExact, "C03.R9", "tests on the branch target in "+shortName(f)+" are exactly T < 0 and T >= size", p.Pos(f.Pos()), "no slack in either bound",
		why+": a branch to the first byte behind the copied block (or to its first byte) is treated as internal (or external) when it is not, and is copied with a stale displacement")
	if okExact {
		reach := reachableUnder(f, assign)[encCall.Block()]
		r.Check(!reach, "C03.R9", "displacement corrected in "+shortName(f)+" only for targets outside the copied block", p.Pos(posOf(encCall)), "re-encoder unreachable when 0 <= T < size",
			"the re-encoder is reached for a branch whose target lies inside the copied block: an internal branch of the prologue is re-aimed at the original function and leaves the placeholder in mid-prologue")
	}
}


// c03NoFieldShortcut: C03.R9 clause — where the relocation code branches on the decoder's PC-relative field offset
// (Inst.PCRelOff) against a constant, the test separates exactly "no PC-relative field" (offset 0; the field never starts
// at byte 0 of an instruction) from "has one": PCRelOff <= 0, < 1, == 0 or their complements. A test with slack (<= 1)
// copies every branch whose opcode is a single byte (CALL/JMP rel32, Jcc rel8) with a stale displacement.
func c03NoFieldShortcut(p *Prog, r *Report, f *ssa.Function) {
	n := 0
	eachInstr(f, func(i ssa.Instruction) {
		iff, ok := i.(*ssa.If)
		if !ok {
			return
		}
		bo, ok := iff.Cond.(*ssa.BinOp)
		if !ok {
			return
		}
		x, y, op := bo.X, bo.Y, bo.Op
		if _, isC := x.(*ssa.Const); isC {
			x, y = y, x
			switch op {
			case token.LSS:
				op = token.GTR
			case token.GTR:
				op = token.LSS
			case token.LEQ:
				op = token.GEQ
			case token.GEQ:
				op = token.LEQ
			}
		}
		c, isC := constInt(y)
		_, fv, isF := fieldRef(resolveLocal(x))
		if !isC || !isF || fv == nil || fv.Name() != "PCRelOff" || !strings.Contains(fv.Pkg().Path(), "asm") {
			return
		}
		n++
		exact := false
		switch op {
		case token.LEQ, token.GTR:
			exact = c == 0
		case token.LSS, token.GEQ:
			exact = c == 1
		case token.EQL, token.NEQ:
			exact = c == 0
		}
		r.Check(exact, "C03.R9", "test of the PC-relative field offset in "+shortName(f)+" #"+itoa2(n), p.Pos(posOf(iff)), "separates offset 0 (no field) from every other offset",
			"the test that decides whether an instruction has a PC-relative field has slack: an instruction whose field starts right after a one-byte opcode (CALL/JMP rel32, Jcc rel8) is treated as having none and is copied into the placeholder with its displacement uncorrected")
	})
}
