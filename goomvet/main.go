// goomvet decides structural clauses of the given properties of Tencent/goom by static analysis
// (go/packages → go/types → go/ssa), without executing goom.
package main

import (
	"flag"
	"fmt"
	"os"
	"path/filepath"
	"runtime/debug"
	"sort"
	"strings"
)

// Ctx is the state shared by the rules of one run.
type Ctx struct {
	Repo  string
	Verif string
	Tier  string
	R     *Report
	k1    *Prog
	k2    *Prog
	k2err error
	// normalised view (see inline.go): same fields for the tree with non-inventory helpers inlined
	norm      *Ctx
	normDone  bool
	isNorm    bool
	normNote  string
	importing bool // this context runs a sibling's rules for import: nested imports are skipped
}

// K1 is the linux/amd64 configuration.
func (c *Ctx) K1() *Prog { return c.k1 }

// K2 is the linux/arm64 configuration (loaded on demand).
func (c *Ctx) K2() (*Prog, error) {
	if c.k2 == nil && c.k2err == nil {
		if c.isNorm {
			c.k2, _, c.k2err = loadNormalised(c.Repo, c.Verif, "arm64")
			if c.k2err == nil && c.k2 == nil {
				c.k2, c.k2err = Load(c.Repo, "arm64") // nothing to inline for this configuration
			}
		} else {
			c.k2, c.k2err = Load(c.Repo, "arm64")
		}
	}
	return c.k2, c.k2err
}

// loadNormalised builds the normalised view of one configuration; (nil, "", nil) when there is nothing to inline.
func loadNormalised(repo, verif, arch string) (*Prog, string, error) {
	inv, err := readInventory(verif)
	if err != nil {
		return nil, "", err
	}
	scratch, err := Load(repo, arch) // a private copy of the syntax trees: the transformation edits them in place
	if err != nil {
		return nil, "", err
	}
	overlay, st := buildOverlay(scratch, inv)
	if len(overlay) == 0 {
		return nil, "", nil
	}
	p, err := LoadOverlay(repo, arch, overlay)
	if err != nil {
		return nil, "", fmt.Errorf("normalised view does not type-check: %w", err)
	}
	var fns []string
	for k, n := range st.Functions {
		fns = append(fns, fmt.Sprintf("%s×%d", strings.TrimPrefix(k, Mod+"/"), n))
	}
	sort.Strings(fns)
	note := fmt.Sprintf("%d call sites of %d functions that are not in the function inventory of the pinned tree were inlined in %d files (%s)", st.Sites, len(st.Functions), st.Files, strings.Join(fns, ", "))
	return p, note, nil
}

// normalised returns the context of the normalised view, or nil when it does not exist or does not type-check.
func (c *Ctx) normalised() *Ctx {
	if c.normDone {
		return c.norm
	}
	c.normDone = true
	p, note, err := loadNormalised(c.Repo, c.Verif, "amd64")
	if err != nil {
		fmt.Printf("note: normalised view unavailable: %v\n", err)
		return nil
	}
	if p == nil {
		return nil
	}
	c.norm = &Ctx{Repo: c.Repo, Verif: c.Verif, Tier: c.Tier, k1: p, isNorm: true, normNote: note}
	return c.norm
}

type propFn func(*Ctx)

var props = map[string]propFn{}

func register(id string, f propFn) { props[id] = f }

func main() {
	prop := flag.String("property", "", "property id (C01..C20)")
	tier := flag.String("tier", "quick", "quick|thorough")
	repo := flag.String("repo", "/repo", "repository root")
	verif := flag.String("verif", "/verif", "verification directory")
	evidence := flag.String("evidence", "", "evidence file (default <verif>/evidence/<id>.json)")
	list := flag.Bool("list", false, "list properties")
	writeInv := flag.Bool("write-inventory", false, "maintenance: write <verif>/inventory.txt (the function names of the tree as it is now) and exit; never done by a check")
	dumpNorm := flag.String("dump-normalised", "", "development aid: write the normalised files into this directory and exit")
	stableOf := flag.String("stable", "", "development aid: print the rename-stable form of a construct string and exit")
	flag.Parse()
	if *list {
		var ids []string
		for id := range props {
			ids = append(ids, id)
		}
		sort.Strings(ids)
		for _, id := range ids {
			fmt.Println(id)
		}
		return
	}
	if *prop == "all" || strings.Contains(*prop, ",") {
		// development mode: several properties over one load of the program (used by the regression scripts)
		var ids []string
		if *prop == "all" {
			for id := range props {
				ids = append(ids, id)
			}
		} else {
			ids = strings.Split(*prop, ",")
		}
		sort.Strings(ids)
		if *evidence == "" {
			*evidence = os.TempDir()
		}
		worst := 0
		var shared *Ctx
		for _, id := range ids {
			f, ok := props[id]
			if !ok {
				fmt.Fprintf(os.Stderr, "unknown property %q\n", id)
				os.Exit(2)
			}
			ctx := &Ctx{Repo: *repo, Verif: *verif, Tier: *tier, R: NewReport(id, *tier)}
			if shared != nil {
				ctx.k1, ctx.k2, ctx.k2err = shared.k1, shared.k2, shared.k2err
				ctx.norm, ctx.normDone = shared.norm, shared.normDone
			}
			rc := run(ctx, f, filepath.Join(*evidence, id+".json"))
			shared = ctx
			fmt.Printf("RESULT %s rc=%d\n", id, rc)
			if rc > worst {
				worst = rc
			}
		}
		os.Exit(worst)
	}
	if *writeInv {
		set := map[string]bool{}
		for _, arch := range []string{"amd64", "arm64"} {
			k, err := Load(*repo, arch)
			if err != nil {
				fmt.Fprintln(os.Stderr, err)
				os.Exit(2)
			}
			for _, n := range inventoryOf(k) {
				set[n] = true
			}
		}
		var names []string
		for n := range set {
			names = append(names, n)
		}
		sort.Strings(names)
		txt := "# functions declared in the module packages of the pinned tree (linux/amd64 and linux/arm64); unexported functions that are\n# not listed here are treated as newly extracted helpers and inlined in the normalised view (goomvet/inline.go)\n" + strings.Join(names, "\n") + "\n"
		if err := os.WriteFile(filepath.Join(*verif, "inventory.txt"), []byte(txt), 0o644); err != nil {
			fmt.Fprintln(os.Stderr, err)
			os.Exit(2)
		}
		fmt.Printf("inventory: %d functions\n", len(names))
		return
	}
	if *dumpNorm != "" {
		inv, err := readInventory(*verif)
		if err != nil {
			fmt.Fprintln(os.Stderr, err)
			os.Exit(2)
		}
		k, err := Load(*repo, "amd64")
		if err != nil {
			fmt.Fprintln(os.Stderr, err)
			os.Exit(2)
		}
		ov, st := buildOverlay(k, inv)
		for name, txt := range ov {
			rel, _ := filepath.Rel(*repo, name)
			out := filepath.Join(*dumpNorm, rel)
			_ = os.MkdirAll(filepath.Dir(out), 0o755)
			_ = os.WriteFile(out, txt, 0o644)
		}
		fmt.Printf("normalised: %d sites, %d files; skipped: %v\n", st.Sites, st.Files, st.Skipped)
		if _, err := LoadOverlay(*repo, "amd64", ov); err != nil {
			fmt.Println("TYPE-CHECK FAILED:", err)
			os.Exit(1)
		}
		return
	}
	if *stableOf != "" {
		for _, arch := range []string{"amd64", "arm64"} {
			if k, err := Load(*repo, arch); err == nil {
				fmt.Println(arch+":", k.StableConstruct(*stableOf))
			}
		}
		return
	}
	f, ok := props[*prop]
	if !ok {
		fmt.Fprintf(os.Stderr, "unknown property %q\n", *prop)
		os.Exit(2)
	}
	if *evidence == "" {
		*evidence = filepath.Join(*verif, "evidence", *prop+".json")
	}
	if t := os.Getenv("VERIF_TIER"); t != "" && *tier == "" {
		*tier = t
	}
	ctx := &Ctx{Repo: *repo, Verif: *verif, Tier: *tier, R: NewReport(*prop, *tier)}
	os.Exit(run(ctx, f, *evidence))
}

func run(ctx *Ctx, f propFn, evidence string) (code int) {
	defer func() {
		if e := recover(); e != nil {
			fmt.Printf("INTERNAL: analysis panic: %v\n%s\n", e, debug.Stack())
			// an analysis panic means the property could not be established on this tree
			ctx.R.SetConfig("")
			ctx.R.Und(ctx.R.Prop+".engine", "analysis", "", fmt.Sprintf("analysis panicked: %v", e))
			code = ctx.R.Finish(ctx.Verif, evidence)
			if code == 0 {
				code = 2
			}
		}
	}()
	k1 := ctx.k1
	if k1 == nil {
		var err error
		k1, err = Load(ctx.Repo, "amd64")
		if err != nil {
			fmt.Printf("INTERNAL: %v\n", err)
			return 2
		}
		ctx.k1 = k1
	}
	ctx.R.Stable = func(s string) string {
		t := ctx.k1.StableConstruct(s)
		if t == s && ctx.k2 != nil {
			t = ctx.k2.StableConstruct(s)
		}
		return t
	}
	ctx.R.SetConfig("linux/amd64")
	ctx.R.Stat("packages_amd64", len(k1.Pkgs))
	ctx.R.Stat("functions_amd64", len(k1.Funcs))
	f(ctx)
	if ctx.k2 != nil {
		ctx.R.Stat("packages_arm64", len(ctx.k2.Pkgs))
		ctx.R.Stat("functions_arm64", len(ctx.k2.Funcs))
	}
	ctx.R.Stat("view", "tree as written")
	strict := os.Getenv("GOOMVET_POLICY") != "either"
	if (ctx.R.Failing(ctx.Verif) || strict) && os.Getenv("GOOMVET_NO_NORMALISE") == "" {
		// decide again on the normalised view: a proof there is a proof about the tree (inline.go)
		if nc := ctx.normalised(); nc != nil {
			v0Failing := ctx.R.Failing(ctx.Verif)
			r1 := NewReport(ctx.R.Prop, ctx.R.Tier)
			nc.R = r1
			r1.Stable = func(s string) string {
				t := nc.k1.StableConstruct(s)
				if t == s && nc.k2 != nil {
					t = nc.k2.StableConstruct(s)
				}
				return t
			}
			r1.SetConfig("linux/amd64")
			okRun := func() (ok bool) {
				defer func() {
					if e := recover(); e != nil {
						ok = false
					}
				}()
				f(nc)
				return true
			}()
			if os.Getenv("GOOMVET_DEBUG") != "" {
				for _, o := range r1.Obls {
					if o.Verdict != Discharged {
						fmt.Printf("  [normalised view] %s %s %s: %s [%s]\n", o.Pos, o.Verdict, o.Rule, o.Reason, o.Construct)
					}
				}
			}
			if okRun && (!r1.Failing(ctx.Verif) || !v0Failing) {
				// the normalised view is the reference whenever it exists: helpers that are not part of the pinned tree
				// can hide the statements a rule looks for, so a pass on the tree as written may be vacuous
				r1.Stat("packages_amd64", len(nc.k1.Pkgs))
				r1.Stat("functions_amd64", len(nc.k1.Funcs))
				r1.Stat("view", "normalised: "+nc.normNote+"; the tree as written left "+ctx.R.Summary()+"; positions refer to the normalised text")
				fmt.Printf("note: %s decided on the normalised view: %s\n", ctx.R.Prop, nc.normNote)
				r1.start = ctx.R.start
				ctx.R = r1
			}
		}
	}
	return ctx.R.Finish(ctx.Verif, evidence)
}

// importSibling runs a sibling property's rule set on the same program and imports the obligations of the selected rules
// under a rule id of the importing property: properties that rest on one mechanism share the rules that guard it.
func importSibling(c *Ctx, sibling string, asRule string, keep func(rule string) bool) {
	importSiblingWhere(c, sibling, asRule, keep, nil)
}

func importSiblingWhere(c *Ctx, sibling string, asRule string, keep func(rule string) bool, keepC func(construct string) bool) {
	f, ok := props[sibling]
	if !ok {
		c.R.Und(asRule, "sibling rules "+sibling, "", "sibling property not registered")
		return
	}
	sub := NewReport(sibling, c.Tier)
	sub.SetConfig("linux/amd64")
	sc := &Ctx{Repo: c.Repo, Verif: c.Verif, Tier: c.Tier, R: sub, k1: c.k1, k2: c.k2, k2err: c.k2err, isNorm: c.isNorm, importing: true}
	f(sc)
	if c.k2 == nil && sc.k2 != nil {
		c.k2, c.k2err = sc.k2, sc.k2err
	}
	c.R.verifDir = c.Verif
	c.R.ImportWhere(sub, asRule, keep, keepC)
}
