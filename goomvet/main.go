// goomvet decides structural clauses of the given properties of Tencent/goom by static analysis
// (go/packages → go/types → go/ssa), without executing goom.
package main

import (
	"flag"
	"fmt"
	"os"
	"path/filepath"
	"runtime/debug"
	"sort"
	"strings"
)

// Ctx is the state shared by the rules of one run.
type Ctx struct {
	Repo  string
	Verif string
	Tier  string
	R     *Report
	k1    *Prog
	k2    *Prog
	k2err error
}

// K1 is the linux/amd64 configuration.
func (c *Ctx) K1() *Prog { return c.k1 }

// K2 is the linux/arm64 configuration (loaded on demand).
func (c *Ctx) K2() (*Prog, error) {
	if c.k2 == nil && c.k2err == nil {
		c.k2, c.k2err = Load(c.Repo, "arm64")
	}
	return c.k2, c.k2err
}

type propFn func(*Ctx)

var props = map[string]propFn{}

func register(id string, f propFn) { props[id] = f }

func main() {
	prop := flag.String("property", "", "property id (C01..C20)")
	tier := flag.String("tier", "quick", "quick|thorough")
	repo := flag.String("repo", "/repo", "repository root")
	verif := flag.String("verif", "/verif", "verification directory")
	evidence := flag.String("evidence", "", "evidence file (default <verif>/evidence/<id>.json)")
	list := flag.Bool("list", false, "list properties")
	stableOf := flag.String("stable", "", "development aid: print the rename-stable form of a construct string and exit")
	flag.Parse()
	if *list {
		var ids []string
		for id := range props {
			ids = append(ids, id)
		}
		sort.Strings(ids)
		for _, id := range ids {
			fmt.Println(id)
		}
		return
	}
	if *prop == "all" || strings.Contains(*prop, ",") {
		// development mode: several properties over one load of the program (used by the regression scripts)
		var ids []string
		if *prop == "all" {
			for id := range props {
				ids = append(ids, id)
			}
		} else {
			ids = strings.Split(*prop, ",")
		}
		sort.Strings(ids)
		if *evidence == "" {
			*evidence = os.TempDir()
		}
		worst := 0
		var shared *Ctx
		for _, id := range ids {
			f, ok := props[id]
			if !ok {
				fmt.Fprintf(os.Stderr, "unknown property %q\n", id)
				os.Exit(2)
			}
			ctx := &Ctx{Repo: *repo, Verif: *verif, Tier: *tier, R: NewReport(id, *tier)}
			if shared != nil {
				ctx.k1, ctx.k2, ctx.k2err = shared.k1, shared.k2, shared.k2err
			}
			rc := run(ctx, f, filepath.Join(*evidence, id+".json"))
			shared = ctx
			fmt.Printf("RESULT %s rc=%d\n", id, rc)
			if rc > worst {
				worst = rc
			}
		}
		os.Exit(worst)
	}
	if *stableOf != "" {
		for _, arch := range []string{"amd64", "arm64"} {
			if k, err := Load(*repo, arch); err == nil {
				fmt.Println(arch+":", k.StableConstruct(*stableOf))
			}
		}
		return
	}
	f, ok := props[*prop]
	if !ok {
		fmt.Fprintf(os.Stderr, "unknown property %q\n", *prop)
		os.Exit(2)
	}
	if *evidence == "" {
		*evidence = filepath.Join(*verif, "evidence", *prop+".json")
	}
	if t := os.Getenv("VERIF_TIER"); t != "" && *tier == "" {
		*tier = t
	}
	ctx := &Ctx{Repo: *repo, Verif: *verif, Tier: *tier, R: NewReport(*prop, *tier)}
	os.Exit(run(ctx, f, *evidence))
}

func run(ctx *Ctx, f propFn, evidence string) (code int) {
	defer func() {
		if e := recover(); e != nil {
			fmt.Printf("INTERNAL: analysis panic: %v\n%s\n", e, debug.Stack())
			// an analysis panic means the property could not be established on this tree
			ctx.R.SetConfig("")
			ctx.R.Und(ctx.R.Prop+".engine", "analysis", "", fmt.Sprintf("analysis panicked: %v", e))
			code = ctx.R.Finish(ctx.Verif, evidence)
			if code == 0 {
				code = 2
			}
		}
	}()
	k1 := ctx.k1
	if k1 == nil {
		var err error
		k1, err = Load(ctx.Repo, "amd64")
		if err != nil {
			fmt.Printf("INTERNAL: %v\n", err)
			return 2
		}
		ctx.k1 = k1
	}
	ctx.R.Stable = func(s string) string {
		t := ctx.k1.StableConstruct(s)
		if t == s && ctx.k2 != nil {
			t = ctx.k2.StableConstruct(s)
		}
		return t
	}
	ctx.R.SetConfig("linux/amd64")
	ctx.R.Stat("packages_amd64", len(k1.Pkgs))
	ctx.R.Stat("functions_amd64", len(k1.Funcs))
	f(ctx)
	if ctx.k2 != nil {
		ctx.R.Stat("packages_arm64", len(ctx.k2.Pkgs))
		ctx.R.Stat("functions_arm64", len(ctx.k2.Funcs))
	}
	return ctx.R.Finish(ctx.Verif, evidence)
}
